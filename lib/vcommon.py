"""Shared machinery of /verif/bin/check: builds, Lean audit, correspondence runs,
violation reporting, known findings, evidence. See DESIGN.md §3-§5."""
import fcntl, hashlib, json, os, re, subprocess, sys, time

VERIF = os.path.dirname(os.path.dirname(os.path.abspath(__file__)))
REPO = os.environ.get("VERIF_REPO", "/repo")
BUILD = os.path.join(VERIF, "build")
LEAN = os.path.join(VERIF, "lean")
HARNESS = os.path.join(VERIF, "harness")
EXTRACT = os.path.join(VERIF, "extract")
REPLAYS = os.path.join(VERIF, "replays")
EVIDENCE = os.path.join(VERIF, "evidence")
ZYDRV = os.path.join(LEAN, ".lake", "build", "bin", "zydrv")
ZYH = os.path.join(BUILD, "zyh")
ZYX = os.path.join(BUILD, "zyx")

ALLOWED_AXIOMS = {"propext", "Classical.choice", "Quot.sound"}
FORBIDDEN_RE = re.compile(r"\bsorry\b|\badmit\b|^\s*axiom\s|native_decide|bv_decide|implemented_by|\bunsafe\s|maxHeartbeats\s+0\b")


def goenv():
    e = dict(os.environ)
    e["GOFLAGS"] = "-mod=mod"
    e["GOPROXY"] = "off"
    e.pop("GOSUMDB", None)
    # the default `go` switches to the cached go1.24.2 toolchain that /repo/go.mod asks for;
    # GOTOOLCHAIN=local would break that switch.
    if e.get("GOTOOLCHAIN") == "local":
        e.pop("GOTOOLCHAIN")
    e.setdefault("GOCACHE", os.path.join(os.path.expanduser("~"), ".cache", "go-build"))
    return e


def sh(cmd, cwd=None, env=None, timeout=None, stdin=None, check=False):
    p = subprocess.run(cmd, cwd=cwd, env=env, timeout=timeout, input=stdin,
                       stdout=subprocess.PIPE, stderr=subprocess.STDOUT, text=True,
                       shell=isinstance(cmd, str))
    if check and p.returncode != 0:
        raise RuntimeError("command failed: %s\n%s" % (cmd, p.stdout[-4000:]))
    return p.returncode, p.stdout


class Lock:
    """Serialises the build phase between concurrently running checks."""
    def __init__(self, name="build"):
        os.makedirs(BUILD, exist_ok=True)
        self.path = os.path.join(BUILD, "." + name + ".lock")
    def __enter__(self):
        self.f = open(self.path, "w")
        fcntl.flock(self.f, fcntl.LOCK_EX)
        return self
    def __exit__(self, *a):
        fcntl.flock(self.f, fcntl.LOCK_UN)
        self.f.close()


def write_if_changed(path, content):
    try:
        with open(path) as f:
            if f.read() == content:
                return False
    except FileNotFoundError:
        pass
    os.makedirs(os.path.dirname(path), exist_ok=True)
    with open(path, "w") as f:
        f.write(content)
    return True


# ---------------------------------------------------------------- builds

def build_extractor_and_generate(log):
    """T1: rebuild zyx from source and regenerate lean/ZygoVerif/Generated/*.lean from the
    current working tree of /repo. Generated files are rewritten only when their content
    changes (keeps lake's cache valid) and stale ones are deleted."""
    if not os.path.exists(os.path.join(EXTRACT, "main.go")):
        return True, "no extractor"
    env = goenv()
    if not os.path.exists(os.path.join(EXTRACT, "go.sum")):
        pass
    rc, out = sh(["go", "build", "-o", ZYX, "."], cwd=EXTRACT, env=env)
    log.append("== go build zyx\n" + out)
    if rc != 0:
        return False, "zyx build failed:\n" + out[-3000:]
    gen_tmp = os.path.join(BUILD, "generated.tmp")
    sh(["rm", "-rf", gen_tmp])
    os.makedirs(gen_tmp)
    rc, out = sh([ZYX, "-repo", REPO, "-out", gen_tmp, "-facts", os.path.join(BUILD, "facts.json")], env=env, cwd=EXTRACT)
    log.append("== zyx\n" + out)
    if rc != 0:
        return False, "zyx failed (translator refused or crashed):\n" + out[-3000:]
    gen_dir = os.path.join(LEAN, "ZygoVerif", "Generated")
    os.makedirs(gen_dir, exist_ok=True)
    new = set(os.listdir(gen_tmp))
    for f in os.listdir(gen_dir):
        if f not in new:
            os.remove(os.path.join(gen_dir, f))
    for f in new:
        with open(os.path.join(gen_tmp, f)) as fh:
            write_if_changed(os.path.join(gen_dir, f), fh.read())
    return True, out


def lake_build(targets, log):
    rc, out = sh(["lake", "build"] + list(targets), cwd=LEAN)
    log.append("== lake build %s\n%s" % (" ".join(targets), out))
    return rc == 0, out


def build_harness(log):
    env = goenv()
    ovdir = os.path.join(HARNESS, "overlay")
    replace = {}
    if os.path.isdir(ovdir):
        for f in sorted(os.listdir(ovdir)):
            if f.endswith(".go"):
                replace[os.path.join(REPO, "zygo", "zz_verif_" + f)] = os.path.join(ovdir, f)
    ovjson = os.path.join(BUILD, "overlay.json")
    write_if_changed(ovjson, json.dumps({"Replace": replace}, indent=1))
    # go.sum of the harness follows /repo's
    try:
        with open(os.path.join(REPO, "go.sum")) as f:
            write_if_changed(os.path.join(HARNESS, "go.sum"), f.read())
    except FileNotFoundError:
        pass
    if os.path.exists(ZYH):
        os.remove(ZYH)
    rc, out = sh(["go", "build", "-tags", "verif", "-overlay", ovjson, "-o", ZYH, "."], cwd=HARNESS, env=env)
    log.append("== go build zyh\n" + out)
    return rc == 0, out


def prepare(lean_targets, need_harness=True):
    """Build everything a check needs from /repo's current tree. Returns a dict:
    ok_generate, ok_lean, ok_drv, ok_harness, plus logs."""
    log = []
    res = {}
    with Lock():
        t0 = time.time()
        res["ok_generate"], res["generate_out"] = build_extractor_and_generate(log)
        res["ok_lean"], res["lean_out"] = lake_build(lean_targets, log)
        res["ok_drv"], res["drv_out"] = lake_build(["zydrv"], log)
        if need_harness:
            res["ok_harness"], res["harness_out"] = build_harness(log)
        else:
            res["ok_harness"], res["harness_out"] = True, ""
        res["build_s"] = round(time.time() - t0, 2)
    res["log"] = "\n".join(log)
    return res


# ---------------------------------------------------------------- Lean audit

def lean_decls(path):
    """Qualified names of the (non-private) theorems in a Lean file, and the number of
    `example`s. A tiny namespace-tracking scanner; block comments are skipped."""
    names, examples, ns = [], 0, []
    depth = 0
    with open(path) as f:
        for line in f:
            s = line.strip()
            # crude block-comment tracking
            opens, closes = s.count("/-"), s.count("-/")
            if depth > 0:
                depth += opens - closes
                continue
            if s.startswith("/-"):
                depth += opens - closes
                continue
            if s.startswith("--"):
                continue
            m = re.match(r"namespace\s+(\S+)", s)
            if m:
                ns.append(m.group(1)); continue
            m = re.match(r"end\s+(\S+)", s)
            if m and ns and ns[-1] == m.group(1):
                ns.pop(); continue
            m = re.match(r"(?:@\[[^\]]*\]\s*)?(?:protected\s+)?theorem\s+(\S+)", s)
            if m:
                names.append(".".join(ns + [m.group(1)]))
                continue
            if re.match(r"example\b", s):
                examples += 1
    return names, examples


def strip_comments(text):
    out, i, depth = [], 0, 0
    while i < len(text):
        if text.startswith("/-", i):
            depth += 1; i += 2; continue
        if depth > 0 and text.startswith("-/", i):
            depth -= 1; i += 2; continue
        if depth > 0:
            if text[i] == "\n": out.append("\n")
            i += 1; continue
        if text.startswith("--", i):
            j = text.find("\n", i)
            i = len(text) if j < 0 else j
            continue
        out.append(text[i]); i += 1
    return "".join(out)


def audit_sources():
    """grep for sorry/axiom/native_decide/... outside comments in every Lean source."""
    hits = []
    for root, _, files in os.walk(LEAN):
        if ".lake" in root:
            continue
        for f in files:
            if not f.endswith(".lean"):
                continue
            p = os.path.join(root, f)
            with open(p) as fh:
                txt = strip_comments(fh.read())
            for n, line in enumerate(txt.split("\n"), 1):
                if FORBIDDEN_RE.search(line):
                    hits.append("%s:%d: %s" % (os.path.relpath(p, VERIF), n, line.strip()[:120]))
    return hits


def print_axioms(module, theorems):
    """Runs `#print axioms` on each theorem; returns {theorem: [axioms]} and raw output."""
    if not theorems:
        return {}, ""
    src = "import %s\n" % module + "".join("#print axioms %s\n" % t for t in theorems)
    os.makedirs(BUILD, exist_ok=True)
    p = os.path.join(BUILD, "axioms_%s.lean" % module.replace(".", "_"))
    with open(p, "w") as f:
        f.write(src)
    rc, out = sh(["lake", "env", "lean", p], cwd=LEAN)
    res = {}
    # "'name' depends on axioms: [a, b]"  or "'name' does not depend on any axioms"
    for m in re.finditer(r"'([^']+)' depends on axioms: \[([^\]]*)\]", out, re.S):
        res[m.group(1)] = [a.strip() for a in m.group(2).replace("\n", " ").split(",") if a.strip()]
    for m in re.finditer(r"'([^']+)' does not depend on any axioms", out):
        res[m.group(1)] = []
    return res, out


# ---------------------------------------------------------------- correspondence

def run_channel(channel, seed, tier, extra_ops=None, gen=True, timeout=3000):
    """gen -> ops; exec on the real code -> impl; zydrv -> model, spec.
    Returns (rows, stats) with rows = list of (op, impl, model, spec)."""
    env = goenv()
    ops = []
    if extra_ops:
        ops.extend(extra_ops)
    stats = {}
    if gen:
        statf = os.path.join(BUILD, "%s.%d.stats" % (channel, os.getpid()))
        rc, out = sh([ZYH, "gen", channel, "-seed", str(seed), "-tier", tier, "-stats", statf], env=env, timeout=timeout)
        if rc != 0:
            raise RuntimeError("zyh gen %s failed: %s" % (channel, out[-2000:]))
        ops.extend([l for l in out.split("\n") if l])
        try:
            with open(statf) as f:
                for l in f:
                    k, _, v = l.rstrip("\n").rpartition(" ")
                    stats[k] = int(v)
            os.remove(statf)
        except FileNotFoundError:
            pass
    text = "\n".join(ops) + "\n" if ops else ""
    impl = exec_impl(text, timeout)
    rc2, out2 = sh([ZYDRV], stdin=text, timeout=timeout)
    if rc2 != 0:
        raise RuntimeError("zydrv failed: %s" % out2[-2000:])
    mlines = out2.split("\n")[:len(ops)]
    if len(mlines) != len(ops):
        raise RuntimeError("zydrv answered %d lines for %d ops" % (len(mlines), len(ops)))
    rows = []
    for op, i, m in zip(ops, impl, mlines):
        mm, _, ss = m.partition("\t")
        rows.append((op, i, mm, ss))
    return rows, stats


def exec_impl(text, timeout=3000):
    """Run ops through `zyh exec`. If the process dies (fatal error / os.Exit / timeout)
    the ops are re-run one by one so the crashing op is identified: its answer is
    `HOSTDEATH rc=<n>`."""
    env = goenv()
    env.setdefault("GOMEMLIMIT", "6GiB")
    n = text.count("\n")
    p = subprocess.run([ZYH, "exec"], input=text, stdout=subprocess.PIPE, stderr=subprocess.PIPE, text=True, env=env, timeout=timeout)
    lines = p.stdout.split("\n")
    if lines and lines[-1] == "":
        lines.pop()
    if p.returncode == 0 and len(lines) == n:
        return lines
    # crashed part-way: answers so far are valid; isolate the crashing op
    ops = text.split("\n")[:n]
    done = lines[:max(0, len(lines))]
    # the op after the last complete answer is the suspect
    k = len(done)
    if k < n:
        try:
            q = subprocess.run([ZYH, "exec"], input=ops[k] + "\n", stdout=subprocess.PIPE, stderr=subprocess.PIPE, text=True, env=env, timeout=120)
            if q.returncode == 0 and q.stdout.strip():
                done.append(q.stdout.strip().split("\n")[0])
            else:
                done.append("HOSTDEATH rc=%d %s" % (q.returncode, (q.stderr or "").strip().split("\n")[0][:200]))
        except subprocess.TimeoutExpired:
            done.append("HOSTDEATH timeout")
        rest = "\n".join(ops[k + 1:]) + "\n" if k + 1 < n else ""
        if rest:
            done.extend(exec_impl(rest, timeout))
    return done


# ---------------------------------------------------------------- findings / reporting

def load_known():
    p = os.path.join(VERIF, "known_findings.json")
    try:
        with open(p) as f:
            return json.load(f)
    except FileNotFoundError:
        return {"findings": [], "fixed": []}


class Report:
    """Collects what one check run did and decides the exit status."""
    def __init__(self, pid, tier, seed):
        self.pid, self.tier, self.seed = pid, tier, seed
        self.t0 = time.time()
        self.violations = []      # (replay_path, suffix)
        self.known_hits = []
        self.coverage = {"samples": [], "trusted_base": [], "channels": {}}
        self.assumptions = []
        self.obligations = 0
        self.discharged = 0
        self.known = [k for k in load_known().get("findings", []) if k.get("property") == pid]

    def match_known(self, key):
        for k in self.known:
            if k.get("key") == key:
                return k
        return None

    def violation(self, kind, detail, key=None, no_input=False):
        """kind: failing-input | proof-break | correspondence-break | table-break.
        `key` identifies the specific failing input for the known-findings filter."""
        if key is not None:
            k = self.match_known(key)
            if k is not None:
                if k not in self.known_hits:
                    self.known_hits.append(k)
                return
        os.makedirs(REPLAYS, exist_ok=True)
        body = dict(detail)
        body.update({"property": self.pid, "kind": kind, "tier": self.tier, "seed": self.seed,
                     "replay_cmd": "bin/replay <this file>"})
        h = hashlib.sha1(json.dumps(body, sort_keys=True).encode()).hexdigest()[:12]
        path = os.path.join(REPLAYS, "%s-%s.json" % (self.pid, h))
        with open(path, "w") as f:
            json.dump(body, f, indent=1)
        self.violations.append((path, " no-failing-input-found" if no_input else ""))

    def finish(self):
        for k in self.known_hits:
            print("KNOWN-FINDING: property=%s %s" % (self.pid, k.get("what", k.get("key"))))
        seen = set()
        for path, suffix in self.violations:
            if path in seen:
                continue
            seen.add(path)
            print("VIOLATION property=%s replay=%s%s" % (self.pid, path, suffix))
        cov = self.coverage
        cov["obligations"] = self.obligations
        cov["discharged"] = self.discharged
        cov.setdefault("checker_cmd", "cd /verif/lean && lake build ZygoVerif.Props.%s && lake env lean <#print axioms file>" % self.pid)
        cov["known_findings_matched"] = [k.get("key") for k in self.known_hits]
        ev = {"property_id": self.pid, "tier": self.tier, "seed": self.seed, "level": "proof",
              "coverage": cov, "assumptions": self.assumptions,
              "wall_s": round(time.time() - self.t0, 2), "violations": len(seen)}
        os.makedirs(EVIDENCE, exist_ok=True)
        with open(os.path.join(EVIDENCE, "%s.json" % self.pid), "w") as f:
            json.dump(ev, f, indent=1)
        return 1 if seen else 0


def lean_phase(rep, prep, module, extra_obligation_files=()):
    """Accounts for the proof obligations of Props/<ID>.lean: counts theorems, checks the
    build result, runs the axiom audit and the forbidden-construct grep. Returns True when
    every obligation was discharged with an acceptable trusted base."""
    pid = rep.pid
    path = os.path.join(LEAN, *module.split(".")) + ".lean"
    thms, examples = lean_decls(path)
    rep.obligations = len(thms) + examples
    rep.coverage["theorems"] = thms
    rep.coverage["examples"] = examples
    ok = True
    if not prep["ok_generate"]:
        rep.violation("table-break", {"what": "the translator/extractor failed on the current tree",
                                      "theorem_or_correspondence": "zyx (T1 regeneration)", "log": prep["generate_out"][-3000:]}, no_input=True)
        ok = False
    if not prep["ok_lean"]:
        errs = [l for l in prep["lean_out"].split("\n") if l.startswith("error")]
        rep.coverage["lean_errors"] = errs[:20]
        rep.pending_proof_break = errs[:20] or ["lake build failed"]
        ok = False
    else:
        rep.pending_proof_break = None
        hits = audit_sources()
        if hits:
            rep.violation("proof-break", {"what": "forbidden construct in Lean sources", "hits": hits[:20],
                                          "theorem_or_correspondence": "source audit"}, no_input=True)
            ok = False
        ax, raw = print_axioms(module, thms)
        bad = {t: a for t, a in ax.items() if set(a) - ALLOWED_AXIOMS}
        missing = [t for t in thms if t not in ax]
        rep.coverage["axioms"] = sorted({a for v in ax.values() for a in v})
        if bad or missing:
            rep.violation("proof-break", {"what": "axiom audit failed", "bad": bad, "unreported": missing,
                                          "theorem_or_correspondence": "#print axioms", "raw": raw[-2000:]}, no_input=True)
            ok = False
        if ok:
            rep.discharged = rep.obligations
    rep.coverage["trusted_base"] = [
        "Lean 4 kernel (lake build; leanchecker in the thorough tier)",
        "axioms: " + ", ".join(rep.coverage.get("axioms", [])) if prep["ok_lean"] else "axioms: (build failed)",
        "correspondence harness zyh + driver zydrv (differential testing, not proof)",
    ]
    return ok


def correspondence(rep, channel, rows, stats, spec_is_property=True, keyfn=None, nontrivial=None, max_report=3):
    """Compares impl / model / spec columns. impl≠spec is a failing input (the property
    stated directly on the real code); impl≠model without one is a correspondence break."""
    n = len(rows)
    bad_spec, bad_model = [], []
    distinct = set()
    for op, impl, model, spec in rows:
        if nontrivial is None or nontrivial(op, impl):
            distinct.add(op)
        if spec != "-" and impl != spec:
            bad_spec.append((op, impl, model, spec))
        elif impl != model:
            bad_model.append((op, impl, model, spec))
    ch = {"ops": n, "distinct_nontrivial": len(distinct), "impl_vs_spec_mismatch": len(bad_spec),
          "impl_vs_model_mismatch": len(bad_model), "spec_answers": sum(1 for r in rows if r[3] != "-"),
          "distribution": stats}
    rep.coverage["channels"][channel] = ch
    rep.coverage["evaluations"] = rep.coverage.get("evaluations", 0) + n
    rep.coverage["distinct_nontrivial"] = rep.coverage.get("distinct_nontrivial", 0) + len(distinct)
    if rows:
        step = max(1, n // 5)
        for r in rows[::step][:5]:
            rep.coverage["samples"].append({"op": r[0], "impl": r[1], "model": r[2], "spec": r[3]})
    bad_spec.sort(key=lambda r: len(r[0]))
    bad_model.sort(key=lambda r: len(r[0]))
    reported = 0
    seen_keys = set()
    for op, impl, model, spec in bad_spec:
        key = keyfn(op) if keyfn else op
        if key in seen_keys:
            continue
        seen_keys.add(key)
        if rep.match_known(key):
            rep.violation("failing-input", {}, key=key)
            continue
        if reported >= max_report:
            continue
        reported += 1
        rep.violation("failing-input", {"channel": channel, "ops": [op], "spec_requires": spec, "impl_did": impl,
                                        "model_did": model, "others_like_it": len(bad_spec)}, key=key)
    if bad_model and not reported:
        # the model no longer describes the code; the theorems say nothing about this tree
        op, impl, model, spec = bad_model[0]
        key = keyfn(op) if keyfn else op
        rep.violation("correspondence-break", {"channel": channel, "ops": [r[0] for r in bad_model[:10]],
                                               "impl_did": impl, "model_did": model, "spec": spec,
                                               "theorem_or_correspondence": "correspondence channel `%s` (impl vs Lean model)" % channel,
                                               "mismatches": len(bad_model)}, key=key, no_input=True)
    return bad_spec, bad_model


def proof_break_resolution(rep, found_failing_input):
    """After the search: a theorem that no longer checks is a violation even when no
    failing input was found."""
    errs = getattr(rep, "pending_proof_break", None)
    if errs and not found_failing_input:
        rep.violation("proof-break", {"what": "a proof obligation of Props/%s no longer checks" % rep.pid,
                                      "theorem_or_correspondence": errs[0], "errors": errs}, no_input=True)
