package main

import (
	"fmt"
	"go/ast"
	"strconv"
	"strings"
)

// SQEmit.lean (C15): the *emission skeleton* of the syntax-quote generator — for each of
// GenerateSyntaxQuote, generateSyntaxQuoteList/Array/Hash and the `case "syntaxQuote"` arm
// of GenerateCallBySymbol, the instructions added and the generator calls made, in source
// order, with loop / branch nesting:
//
//	add:<Instr>[{<first field>}]   gen.AddInstruction(<Instr>{…}) or <Instr>(0)
//	call:<name>[{x}]               a call of Generate / GenerateSyntaxQuote([]Sexp{x}) / generateSyntaxQuote*
//	err                            return fmt.Errorf(…)
//	loop[ … ]  if[ … ]  else[ … ]  case[ … ]   (brackets without content are dropped)
//
// plus the case labels of GenerateCallBySymbol in order and whether the macro-table lookup
// comes after that switch. Purely syntactic. Props/C15 states what the hand-written model
// (Model/SQ.lean genSQ…) was written against; a source change that alters the skeleton
// breaks those `decide` theorems.
func init() {
	register(Emitter{File: "SQEmit.lean", Run: func(w *World) (string, error) {
		interesting := map[string]bool{"Generate": true, "GenerateSyntaxQuote": true,
			"generateSyntaxQuoteList": true, "generateSyntaxQuoteArray": true, "generateSyntaxQuoteHash": true,
			"isUnquoteSplicing": true}
		var events func(n ast.Node) []string
		exprEvents := func(e ast.Expr) []string {
			var out []string
			ast.Inspect(e, func(n ast.Node) bool {
				call, ok := n.(*ast.CallExpr)
				if !ok {
					return true
				}
				name := ""
				switch f := call.Fun.(type) {
				case *ast.SelectorExpr:
					name = f.Sel.Name
				case *ast.Ident:
					name = f.Name
				}
				if name == "AddInstruction" && len(call.Args) == 1 {
					out = append(out, "add:"+instrName(call.Args[0]))
					return false
				}
				if name == "Errorf" {
					out = append(out, "err")
					return false
				}
				if interesting[name] {
					arg := ""
					if len(call.Args) == 1 {
						if cl, ok := call.Args[0].(*ast.CompositeLit); ok && len(cl.Elts) == 1 {
							arg = "{" + exprText(cl.Elts[0]) + "}" // GenerateSyntaxQuote([]Sexp{x})
						}
					}
					out = append(out, "call:"+name+arg)
				}
				return true
			})
			return out
		}
		block := func(tag string, inner []string) []string {
			if len(inner) == 0 {
				return nil
			}
			return append(append([]string{tag + "["}, inner...), "]")
		}
		events = func(n ast.Node) []string {
			var out []string
			switch s := n.(type) {
			case nil:
				return nil
			case *ast.BlockStmt:
				if s == nil {
					return nil
				}
				for _, st := range s.List {
					out = append(out, events(st)...)
				}
			case *ast.ExprStmt:
				out = append(out, exprEvents(s.X)...)
			case *ast.AssignStmt:
				for _, r := range s.Rhs {
					out = append(out, exprEvents(r)...)
				}
			case *ast.ReturnStmt:
				for _, r := range s.Results {
					out = append(out, exprEvents(r)...)
				}
			case *ast.DeclStmt:
			case *ast.IfStmt:
				if s.Init != nil {
					out = append(out, events(s.Init)...)
				}
				out = append(out, exprEvents(s.Cond)...)
				out = append(out, block("if", events(s.Body))...)
				if s.Else != nil {
					out = append(out, block("else", events(s.Else))...)
				}
			case *ast.ForStmt:
				out = append(out, block("loop", events(s.Body))...)
			case *ast.RangeStmt:
				out = append(out, block("loop", events(s.Body))...)
			case *ast.SwitchStmt:
				for _, c := range s.Body.List {
					cc := c.(*ast.CaseClause)
					var inner []string
					for _, st := range cc.Body {
						inner = append(inner, events(st)...)
					}
					out = append(out, block("case", inner)...)
				}
			case *ast.TypeSwitchStmt:
				for _, c := range s.Body.List {
					cc := c.(*ast.CaseClause)
					var inner []string
					for _, st := range cc.Body {
						inner = append(inner, events(st)...)
					}
					out = append(out, block("case", inner)...)
				}
			case *ast.BranchStmt, *ast.IncDecStmt, *ast.EmptyStmt:
			default:
				out = append(out, fmt.Sprintf("unread:%T", n))
			}
			return out
		}
		var b strings.Builder
		b.WriteString("namespace ZygoVerif.Generated.SQEmit\n")
		emit := func(lean, goName string) error {
			fd := w.FuncDecl(goName)
			if fd == nil || fd.Body == nil {
				return fmt.Errorf("SQEmit: %s not found", goName)
			}
			ev := events(fd.Body)
			for _, e := range ev {
				if strings.HasPrefix(e, "unread:") {
					return fmt.Errorf("SQEmit: %s contains a statement the extractor does not read (%s)", goName, e)
				}
			}
			var el []string
			for _, e := range ev {
				el = append(el, LeanString(e))
			}
			fmt.Fprintf(&b, "/-- emission skeleton of %s -/\n", goName)
			b.WriteString(LeanList(lean, "String", el, 100))
			return nil
		}
		for _, p := range [][2]string{{"top", "Generator.GenerateSyntaxQuote"}, {"list", "Generator.generateSyntaxQuoteList"},
			{"array", "Generator.generateSyntaxQuoteArray"}, {"hash", "Generator.generateSyntaxQuoteHash"}} {
			if err := emit(p[0], p[1]); err != nil {
				return "", err
			}
		}
		// GenerateCallBySymbol: case labels in order, the body of case "syntaxQuote", and
		// whether `gen.env.macros[...]` is consulted only after the switch.
		fd := w.FuncDecl("Generator.GenerateCallBySymbol")
		if fd == nil || fd.Body == nil {
			return "", fmt.Errorf("SQEmit: GenerateCallBySymbol not found")
		}
		var labels, sqCase []string
		switchIdx, macroIdx := -1, -1
		for i, st := range fd.Body.List {
			if sw, ok := st.(*ast.SwitchStmt); ok && switchIdx < 0 {
				switchIdx = i
				for _, c := range sw.Body.List {
					cc := c.(*ast.CaseClause)
					for _, e := range cc.List {
						lit, ok := e.(*ast.BasicLit)
						if !ok {
							return "", fmt.Errorf("SQEmit: non-literal case label in GenerateCallBySymbol")
						}
						name, err := strconv.Unquote(lit.Value)
						if err != nil {
							return "", err
						}
						labels = append(labels, LeanString(name))
						if name == "syntaxQuote" {
							for _, s2 := range cc.Body {
								for _, e2 := range events(s2) {
									sqCase = append(sqCase, LeanString(e2))
								}
							}
						}
					}
				}
				continue
			}
			found := false
			ast.Inspect(st, func(n ast.Node) bool {
				if sel, ok := n.(*ast.SelectorExpr); ok && sel.Sel.Name == "macros" {
					found = true
				}
				return true
			})
			if found && macroIdx < 0 {
				macroIdx = i
			}
		}
		if switchIdx < 0 || macroIdx < 0 {
			return "", fmt.Errorf("SQEmit: GenerateCallBySymbol lost its switch or its macro lookup")
		}
		b.WriteString("/-- case labels of GenerateCallBySymbol, in order -/\n")
		b.WriteString(LeanList("callBySymbolCases", "String", labels, 100))
		b.WriteString("/-- skeleton of `case \"syntaxQuote\"` -/\n")
		b.WriteString(LeanList("syntaxQuoteCase", "String", sqCase, 100))
		fmt.Fprintf(&b, "/-- the macro table is consulted only after the special-form switch -/\ndef macrosAfterSwitch : Bool := %v\n", macroIdx > switchIdx)
		b.WriteString("end ZygoVerif.Generated.SQEmit\n")
		w.Facts["sq_emit_special_forms"] = len(labels)
		return b.String(), nil
	}})
}

func instrName(e ast.Expr) string {
	switch t := e.(type) {
	case *ast.CompositeLit:
		name := exprText(t.Type)
		if name == "PushInstr" && len(t.Elts) == 1 {
			return name + "{" + exprText(t.Elts[0]) + "}"
		}
		return name
	case *ast.CallExpr: // conversion: SquashInstr(0)
		return exprText(t.Fun)
	}
	return "?"
}

func exprText(e ast.Expr) string {
	switch t := e.(type) {
	case *ast.Ident:
		return t.Name
	case *ast.SelectorExpr:
		return exprText(t.X) + "." + t.Sel.Name
	case *ast.KeyValueExpr:
		return exprText(t.Key) + ":" + exprText(t.Value)
	}
	return "?"
}
