package main

// Effect summaries of the functions of package zygo (C20). Shared by ex_mapranges.go
// (which effects can a range-over-map loop body have, transitively through the functions
// it calls inside the package) and ex_globals.go (who writes package-level variables).
//
// The analysis is syntactic + go/types, flow-insensitive and deliberately coarse:
//
//   direct effects of a function body (function literals inside it are counted as part of
//   the body: conservative) --
//     interns       writes Zlisp.symtable / revsymtable / nextsymbol: allocates symbol
//                   NUMBERS in call order (MakeSymbol, GenSymbol and anything like them)
//     fieldAppend   `x.f = append(x.f, …)` / `G = append(G, …)` where the slice lives in a
//                   struct field or a package-level variable: an order-carrying structure
//                   (KeyOrder, ListRegisteredTypes, a stack) grows in call order
//     fieldCounter  `x.f++`, `x.f += n`, `G++` on an integer field / package-level variable
//                   (NumKeys, nextsymbol, …): a counter whose value numbers things
//     emits         prints: fmt.Print*/Fprint*, Write*/Printf methods on something that is
//                   not a local builder of this function
//     globalWrite   stores into (a path rooted at) a package-level variable
//     dynCall       calls a function VALUE (field or variable of function type) — the
//                   callee is unknown to this analysis
//     recvWrite     stores into (a path rooted at) the method's receiver (used to decide
//                   whether `G.m()` writes the package-level variable G)
//   call edges -- static calls to functions/methods of package zygo; calls through an
//   interface are resolved by class-hierarchy analysis: every method of that name on a
//   named type of package zygo that implements the interface.
//
// The summary of a function is the union of its direct effects and of the summaries of
// everything it can call (least fixpoint). For every (function, effect) a witness callee
// is kept so that the generated tables can show a call chain to a human reader.

import (
	"fmt"
	"go/ast"
	"go/token"
	"go/types"
	"path/filepath"
	"sort"
	"strings"
)

type effect uint

const (
	effInterns effect = 1 << iota
	effFieldAppend
	effFieldCounter
	effEmits
	effGlobalWrite
	effDynCall
	effRecvWrite
)

// the effects that are exported into the map-range table (recvWrite is internal)
var effNames = []struct {
	e effect
	n string
}{
	{effInterns, "interns"}, {effFieldAppend, "fieldAppend"}, {effFieldCounter, "fieldCounter"},
	{effEmits, "emits"}, {effGlobalWrite, "globalWrite"}, {effDynCall, "dynCall"},
}

func effectList(e effect) []string {
	var r []string
	for _, x := range effNames {
		if e&x.e != 0 {
			r = append(r, x.n)
		}
	}
	return r
}

type globalWriteSite struct {
	Var  *types.Var
	Func string // qualified name of the writing function ("Recv.Name" / "Name")
	How  string // assign | incdec | append | delete | addr | method:<name>
}

type fnInfo struct {
	name    string
	decl    *ast.FuncDecl
	obj     *types.Func
	direct  effect
	summary effect
	callees []*types.Func
	// witness: for each effect bit, "" when direct, else the callee it came through
	via map[effect]string
	// what the direct effect touched (for the human-readable comments)
	what map[effect]string
	// method calls on package-level variables made by this function: resolved after the
	// fixpoint (needs the callee's recvWrite summary)
	globalMethodCalls []struct {
		v *types.Var
		m *types.Func
	}
	isInit bool
}

type effectWorld struct {
	w       *World
	info    *types.Info
	pkg     *types.Package
	fns     map[*types.Func]*fnInfo
	byName  map[string]*fnInfo
	named   []*types.Named // named types of package zygo (for class-hierarchy analysis)
	symFlds map[*types.Var]bool
	gwrites []globalWriteSite
	// writes found in package-level initialiser expressions (function literals there)
	err error
}

var effectCache *effectWorld

func qualFuncName(fd *ast.FuncDecl) string {
	n := fd.Name.Name
	if fd.Recv != nil && len(fd.Recv.List) == 1 {
		n = recvName(fd.Recv.List[0].Type) + "." + n
	}
	return n
}

// rootIdent strips selectors, indexes, stars, parens and slice expressions.
func rootIdent(e ast.Expr) *ast.Ident {
	for {
		switch x := e.(type) {
		case *ast.Ident:
			return x
		case *ast.SelectorExpr:
			e = x.X
		case *ast.IndexExpr:
			e = x.X
		case *ast.StarExpr:
			e = x.X
		case *ast.ParenExpr:
			e = x.X
		case *ast.SliceExpr:
			e = x.X
		case *ast.TypeAssertExpr:
			e = x.X
		default:
			return nil
		}
	}
}

func (ew *effectWorld) isPkgVar(id *ast.Ident) *types.Var {
	if id == nil {
		return nil
	}
	obj := ew.info.Uses[id]
	if obj == nil {
		obj = ew.info.Defs[id]
	}
	v, ok := obj.(*types.Var)
	if !ok || v.IsField() || v.Pkg() != ew.pkg {
		return nil
	}
	if v.Parent() == ew.pkg.Scope() {
		return v
	}
	return nil
}

func isIntegerType(t types.Type) bool {
	if t == nil {
		return false
	}
	b, ok := t.Underlying().(*types.Basic)
	return ok && b.Info()&types.IsInteger != 0
}

// fieldOf returns the struct field a selector expression denotes (nil otherwise).
func (ew *effectWorld) fieldOf(e ast.Expr) *types.Var {
	for {
		if p, ok := e.(*ast.ParenExpr); ok {
			e = p.X
			continue
		}
		break
	}
	sel, ok := e.(*ast.SelectorExpr)
	if !ok {
		return nil
	}
	if s, ok := ew.info.Selections[sel]; ok && s.Kind() == types.FieldVal {
		if v, ok := s.Obj().(*types.Var); ok {
			return v
		}
	}
	return nil
}

func (w *World) Effects() (*effectWorld, error) {
	if effectCache != nil {
		return effectCache, effectCache.err
	}
	ew := &effectWorld{w: w, info: w.Info(), pkg: w.Zygo.Types, fns: map[*types.Func]*fnInfo{}, byName: map[string]*fnInfo{}, symFlds: map[*types.Var]bool{}}
	effectCache = ew
	// the symbol-table fields of Zlisp
	zl := ew.pkg.Scope().Lookup("Zlisp")
	if zl == nil {
		ew.err = fmt.Errorf("type Zlisp not found")
		return ew, ew.err
	}
	st, ok := zl.Type().Underlying().(*types.Struct)
	if !ok {
		ew.err = fmt.Errorf("Zlisp is not a struct")
		return ew, ew.err
	}
	for i := 0; i < st.NumFields(); i++ {
		switch st.Field(i).Name() {
		case "symtable", "revsymtable", "nextsymbol":
			ew.symFlds[st.Field(i)] = true
		}
	}
	if len(ew.symFlds) != 3 {
		ew.err = fmt.Errorf("Zlisp no longer has the fields symtable, revsymtable, nextsymbol (found %d): the interning analysis cannot read the source", len(ew.symFlds))
		return ew, ew.err
	}
	for _, n := range ew.pkg.Scope().Names() {
		if tn, ok := ew.pkg.Scope().Lookup(n).(*types.TypeName); ok {
			if nt, ok := tn.Type().(*types.Named); ok {
				ew.named = append(ew.named, nt)
			}
		}
	}
	// collect the functions
	for _, f := range w.Zygo.Syntax {
		fname := filepath.Base(w.Fset.Position(f.Pos()).Filename)
		if strings.HasSuffix(fname, "_test.go") {
			continue
		}
		for _, d := range f.Decls {
			fd, ok := d.(*ast.FuncDecl)
			if !ok {
				continue
			}
			obj, _ := ew.info.Defs[fd.Name].(*types.Func)
			if obj == nil {
				continue
			}
			fi := &fnInfo{name: qualFuncName(fd), decl: fd, obj: obj, via: map[effect]string{}, what: map[effect]string{},
				isInit: fd.Recv == nil && fd.Name.Name == "init"}
			ew.fns[obj] = fi
			if !fi.isInit { // several init functions share a name
				ew.byName[fi.name] = fi
			}
		}
	}
	for _, fi := range ew.fns {
		if fi.decl.Body != nil {
			ew.scanBody(fi)
		}
	}
	// package-level initialiser expressions may contain function literals that write
	for _, f := range w.Zygo.Syntax {
		fname := filepath.Base(w.Fset.Position(f.Pos()).Filename)
		if strings.HasSuffix(fname, "_test.go") {
			continue
		}
		for _, d := range f.Decls {
			gd, ok := d.(*ast.GenDecl)
			if !ok || gd.Tok != token.VAR {
				continue
			}
			fi := &fnInfo{name: "<pkg-init>", via: map[effect]string{}, what: map[effect]string{}, isInit: true}
			for _, sp := range gd.Specs {
				vs := sp.(*ast.ValueSpec)
				for _, v := range vs.Values {
					ast.Inspect(v, func(n ast.Node) bool {
						if fl, ok := n.(*ast.FuncLit); ok {
							// a function literal stored in a package-level variable runs later,
							// not at init time: its writes count as writes outside init
							lit := &fnInfo{name: "<func literal in package-level initialiser>", via: map[effect]string{}, what: map[effect]string{}}
							ew.scanNode(lit, fl.Body, nil)
							return false
						}
						return true
					})
				}
			}
			_ = fi
		}
	}
	// least fixpoint of the summaries
	for _, fi := range ew.fns {
		fi.summary = fi.direct
	}
	order := make([]*fnInfo, 0, len(ew.fns))
	for _, fi := range ew.fns {
		order = append(order, fi)
	}
	sort.Slice(order, func(i, j int) bool {
		if order[i].name != order[j].name {
			return order[i].name < order[j].name
		}
		return order[i].decl.Pos() < order[j].decl.Pos()
	})
	for changed := true; changed; {
		changed = false
		for _, fi := range order {
			for _, c := range fi.callees {
				ci := ew.fns[c]
				if ci == nil {
					continue
				}
				add := ci.summary &^ effRecvWrite &^ fi.summary
				if add != 0 {
					for _, x := range effNames {
						if add&x.e != 0 {
							fi.via[x.e] = ci.name
						}
					}
					fi.summary |= add
					changed = true
				}
			}
		}
	}
	// method calls on package-level variables whose callee writes its receiver
	recvWrites := func(m *types.Func) bool {
		seen := map[*types.Func]bool{}
		var rec func(f *types.Func) bool
		rec = func(f *types.Func) bool {
			if seen[f] {
				return false
			}
			seen[f] = true
			fi := ew.fns[f]
			if fi == nil {
				return false
			}
			if fi.direct&effRecvWrite != 0 {
				return true
			}
			// a method that calls another method on the same receiver
			if fi.decl.Recv != nil && len(fi.decl.Recv.List) == 1 && len(fi.decl.Recv.List[0].Names) == 1 {
				rn := fi.decl.Recv.List[0].Names[0]
				robj := ew.info.Defs[rn]
				found := false
				ast.Inspect(fi.decl.Body, func(n ast.Node) bool {
					c, ok := n.(*ast.CallExpr)
					if !ok || found {
						return !found
					}
					if sel, ok := c.Fun.(*ast.SelectorExpr); ok {
						if id := rootIdent(sel.X); id != nil && ew.info.Uses[id] == robj {
							if mf, ok := ew.info.Uses[sel.Sel].(*types.Func); ok && rec(mf) {
								found = true
							}
						}
					}
					return true
				})
				return found
			}
			return false
		}
		return rec(m)
	}
	for _, fi := range order {
		for _, gm := range fi.globalMethodCalls {
			if recvWrites(gm.m) {
				ew.gwrites = append(ew.gwrites, globalWriteSite{Var: gm.v, Func: fi.name, How: "method:" + gm.m.Name()})
			}
		}
	}
	return ew, nil
}

func (ew *effectWorld) scanBody(fi *fnInfo) {
	var recv types.Object
	if fi.decl.Recv != nil && len(fi.decl.Recv.List) == 1 && len(fi.decl.Recv.List[0].Names) == 1 {
		recv = ew.info.Defs[fi.decl.Recv.List[0].Names[0]]
	}
	ew.scanNode(fi, fi.decl.Body, recv)
}

// localBuilder: is `id` a variable declared inside the function being scanned (not a
// parameter, not a field, not package-level)? Writes to such a builder stay local.
func (ew *effectWorld) isLocalVar(fi *fnInfo, id *ast.Ident) bool {
	if id == nil {
		return false
	}
	obj := ew.info.Uses[id]
	if obj == nil {
		obj = ew.info.Defs[id]
	}
	v, ok := obj.(*types.Var)
	if !ok || v.IsField() {
		return false
	}
	if v.Parent() == ew.pkg.Scope() {
		return false
	}
	if fi.decl == nil {
		return true
	}
	// parameters and results are declared in the function type
	if fi.decl.Type != nil {
		pos := v.Pos()
		if pos >= fi.decl.Type.Pos() && pos <= fi.decl.Type.End() {
			return false
		}
		if fi.decl.Recv != nil && pos >= fi.decl.Recv.Pos() && pos <= fi.decl.Recv.End() {
			return false
		}
	}
	return true
}

func (ew *effectWorld) noteWrite(fi *fnInfo, lhs ast.Expr, how string, recv types.Object) {
	root := rootIdent(lhs)
	if fld := ew.fieldOf(lhs); fld != nil && ew.symFlds[fld] {
		fi.direct |= effInterns
		fi.what[effInterns] = fld.Name()
	}
	if ix, ok := lhs.(*ast.IndexExpr); ok {
		if fld := ew.fieldOf(ix.X); fld != nil && ew.symFlds[fld] {
			fi.direct |= effInterns
			fi.what[effInterns] = fld.Name()
		}
	}
	if v := ew.isPkgVar(root); v != nil {
		fi.direct |= effGlobalWrite
		fi.what[effGlobalWrite] = v.Name()
		if !fi.isInit {
			ew.gwrites = append(ew.gwrites, globalWriteSite{Var: v, Func: fi.name, How: how})
		}
	}
	if recv != nil && root != nil && ew.info.Uses[root] == recv {
		if _, isIdent := lhs.(*ast.Ident); !isIdent {
			fi.direct |= effRecvWrite
		}
	}
}

func (ew *effectWorld) scanNode(fi *fnInfo, body ast.Node, recv types.Object) {
	ew.scanNodeSkipping(fi, body, recv, nil)
}

func (ew *effectWorld) scanNodeSkipping(fi *fnInfo, body ast.Node, recv types.Object, skip map[ast.Node]bool) {
	if body == nil {
		return
	}
	calleeSeen := map[*types.Func]bool{}
	for _, c := range fi.callees {
		calleeSeen[c] = true
	}
	addCallee := func(f *types.Func) {
		if f == nil || calleeSeen[f] {
			return
		}
		calleeSeen[f] = true
		fi.callees = append(fi.callees, f)
	}
	ast.Inspect(body, func(n ast.Node) bool {
		if skip != nil && skip[n] {
			return false
		}
		switch x := n.(type) {
		case *ast.AssignStmt:
			if x.Tok == token.DEFINE {
				return true
			}
			for i, l := range x.Lhs {
				if isBlank(l) {
					continue
				}
				how := "assign"
				if i < len(x.Rhs) && len(x.Lhs) == len(x.Rhs) {
					if c, ok := x.Rhs[i].(*ast.CallExpr); ok {
						if id, ok := c.Fun.(*ast.Ident); ok && id.Name == "append" {
							how = "append"
							// an order-carrying structure: slice in a field or package-level variable
							if ew.fieldOf(l) != nil || ew.isPkgVar(rootIdent(l)) != nil && !ew.isLocalVar(fi, rootIdent(l)) {
								if _, isIdx := l.(*ast.IndexExpr); !isIdx {
									fi.direct |= effFieldAppend
									fi.what[effFieldAppend] = exprString(ew.w.Fset, l)
								}
							}
						}
					}
				}
				if (x.Tok == token.ADD_ASSIGN || x.Tok == token.SUB_ASSIGN) && isIntegerType(ew.info.TypeOf(l)) {
					how = "incdec"
					if ew.fieldOf(l) != nil || ew.isPkgVar(rootIdent(l)) != nil {
						if _, isId := l.(*ast.Ident); !isId || ew.isPkgVar(rootIdent(l)) != nil {
							fi.direct |= effFieldCounter
							fi.what[effFieldCounter] = exprString(ew.w.Fset, l)
						}
					}
				}
				ew.noteWrite(fi, l, how, recv)
			}
		case *ast.IncDecStmt:
			if isIntegerType(ew.info.TypeOf(x.X)) && (ew.fieldOf(x.X) != nil || ew.isPkgVar(rootIdent(x.X)) != nil) {
				if _, isId := x.X.(*ast.Ident); !isId || ew.isPkgVar(rootIdent(x.X)) != nil {
					fi.direct |= effFieldCounter
					fi.what[effFieldCounter] = exprString(ew.w.Fset, x.X)
				}
			}
			ew.noteWrite(fi, x.X, "incdec", recv)
		case *ast.UnaryExpr:
			if x.Op == token.AND {
				if v := ew.isPkgVar(rootIdent(x.X)); v != nil {
					if _, isLit := x.X.(*ast.CompositeLit); !isLit && !fi.isInit {
						ew.gwrites = append(ew.gwrites, globalWriteSite{Var: v, Func: fi.name, How: "addr"})
					}
				}
			}
		case *ast.CallExpr:
			// conversions are not calls
			if tv, ok := ew.info.Types[x.Fun]; ok && tv.IsType() {
				return true
			}
			switch f := x.Fun.(type) {
			case *ast.Ident:
				switch obj := ew.info.Uses[f].(type) {
				case *types.Builtin:
					if obj.Name() == "delete" && len(x.Args) == 2 {
						ew.noteWrite(fi, x.Args[0], "delete", recv)
					}
				case *types.Func:
					if obj.Pkg() == ew.pkg {
						addCallee(obj)
					}
				case *types.Var:
					fi.direct |= effDynCall
					fi.what[effDynCall] = f.Name
				}
			case *ast.SelectorExpr:
				// package-qualified call?
				if id, ok := f.X.(*ast.Ident); ok {
					if pn, ok := ew.info.Uses[id].(*types.PkgName); ok {
						full := pn.Imported().Name() + "." + f.Sel.Name
						if strings.HasPrefix(full, "fmt.Print") || strings.HasPrefix(full, "fmt.Fprint") {
							fi.direct |= effEmits
							fi.what[effEmits] = full
						}
						return true
					}
				}
				sel := ew.info.Selections[f]
				if sel == nil {
					return true
				}
				switch sel.Kind() {
				case types.FieldVal:
					// a function-typed field is being called
					fi.direct |= effDynCall
					fi.what[effDynCall] = exprString(ew.w.Fset, f)
				case types.MethodVal:
					m, _ := sel.Obj().(*types.Func)
					if m == nil {
						return true
					}
					nm := m.Name()
					if nm == "Write" || nm == "WriteString" || nm == "WriteByte" || nm == "WriteRune" || nm == "Printf" || nm == "Println" || nm == "Print" {
						// writing into a builder that is local to this function is not output
						if !(m.Pkg() != ew.pkg && ew.isLocalVar(fi, rootIdent(f.X))) {
							if m.Pkg() != ew.pkg {
								fi.direct |= effEmits
								fi.what[effEmits] = exprString(ew.w.Fset, f)
							}
						}
					}
					recvT := sel.Recv()
					if _, isIface := recvT.Underlying().(*types.Interface); isIface {
						// class-hierarchy analysis over the named types of package zygo
						iface := recvT.Underlying().(*types.Interface)
						for _, nt := range ew.named {
							if _, ok := nt.Underlying().(*types.Interface); ok {
								continue
							}
							for _, t := range []types.Type{nt, types.NewPointer(nt)} {
								if types.Implements(t, iface) {
									ms := types.NewMethodSet(t)
									if s := ms.Lookup(ew.pkg, nm); s != nil {
										if cf, ok := s.Obj().(*types.Func); ok {
											addCallee(cf)
										}
									}
									break
								}
							}
						}
					} else if m.Pkg() == ew.pkg {
						addCallee(m)
						if v := ew.isPkgVar(rootIdent(f.X)); v != nil && !fi.isInit {
							fi.globalMethodCalls = append(fi.globalMethodCalls, struct {
								v *types.Var
								m *types.Func
							}{v, m})
						}
					}
				}
			case *ast.FuncLit:
				// a literal called on the spot (or deferred): its body is scanned as part of this function
			default:
				// call of a call result, an indexed function table, a parenthesised value …
				if _, ok := ew.info.TypeOf(x.Fun).Underlying().(*types.Signature); ok {
					fi.direct |= effDynCall
					fi.what[effDynCall] = exprString(ew.w.Fset, x.Fun)
				}
			}
		}
		return true
	})
}

// bodyEffects computes the transitive effects of a loop body inside function `encl`.
// `iter` = effects of everything that can run once per element; `exit` = effects that sit
// inside a `return` statement (they run at most once, when the walk is left). A witness
// call chain is returned per effect.
func (ew *effectWorld) bodyEffects(encl *ast.FuncDecl, body *ast.BlockStmt) (iter, exit effect, wit map[effect]string) {
	var recv types.Object
	if encl != nil && encl.Recv != nil && len(encl.Recv.List) == 1 && len(encl.Recv.List[0].Names) == 1 {
		recv = ew.info.Defs[encl.Recv.List[0].Names[0]]
	}
	// writes found while scanning a loop body were already recorded when the enclosing
	// function was scanned: do not record them twice
	saved := ew.gwrites
	defer func() { ew.gwrites = saved }()
	wit = map[effect]string{}
	sum := func(tmp *fnInfo, record bool) effect {
		e := tmp.direct &^ effRecvWrite
		if record {
			for _, x := range effNames {
				if tmp.direct&x.e != 0 {
					wit[x.e] = "direct: " + tmp.what[x.e]
				}
			}
		}
		for _, c := range tmp.callees {
			ci := ew.fns[c]
			if ci == nil {
				continue
			}
			add := ci.summary &^ effRecvWrite
			if record {
				for _, x := range effNames {
					if add&x.e != 0 && e&x.e == 0 {
						wit[x.e] = ew.chain(ci, x.e)
					}
				}
			}
			e |= add
		}
		return e
	}
	// the return statements of the body (outside function literals)
	var rets []*ast.ReturnStmt
	ast.Inspect(body, func(n ast.Node) bool {
		switch x := n.(type) {
		case *ast.FuncLit:
			return false
		case *ast.ReturnStmt:
			rets = append(rets, x)
			return false
		}
		return true
	})
	exitTmp := &fnInfo{name: "<exit>", decl: encl, via: map[effect]string{}, what: map[effect]string{}}
	for _, r := range rets {
		ew.scanNode(exitTmp, r, recv)
	}
	exit = sum(exitTmp, false)
	// everything else: scan the body with the return statements cut out
	iterTmp := &fnInfo{name: "<body>", decl: encl, via: map[effect]string{}, what: map[effect]string{}}
	isRet := map[ast.Node]bool{}
	for _, r := range rets {
		isRet[r] = true
	}
	ew.scanNodeSkipping(iterTmp, body, recv, isRet)
	iter = sum(iterTmp, true)
	return iter, exit, wit
}

// chain renders a witness call chain for an effect of a function summary.
func (ew *effectWorld) chain(fi *fnInfo, e effect) string {
	var parts []string
	seen := map[string]bool{}
	for fi != nil && !seen[fi.name] {
		seen[fi.name] = true
		parts = append(parts, fi.name)
		if fi.direct&e != 0 {
			parts = append(parts, "["+fi.what[e]+"]")
			break
		}
		next := fi.via[e]
		if next == "" {
			break
		}
		var ni *fnInfo
		for _, c := range fi.callees {
			if ci := ew.fns[c]; ci != nil && ci.name == next && ci.summary&e != 0 {
				ni = ci
				break
			}
		}
		fi = ni
	}
	return strings.Join(parts, " -> ")
}
