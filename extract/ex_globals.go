package main

// Globals.lean (C20, "independent of how many interpreters were created earlier in the
// process"): every package-level `var` of package zygo (non-test files) with the functions
// that WRITE it after package initialisation. A write = an assignment / ++ / append /
// delete whose target is rooted at the variable (`G = …`, `G.f[k] = …`), taking its address
// (`&G`: whoever holds the pointer can write), or calling on it a method that (transitively,
// through methods on the same receiver) stores into its receiver (`G.Register(…)`).
// Writes inside `func init()` and in package-level initialiser expressions happen once per
// process before any interpreter exists and are not listed. The Lean side (Props/C20.lean)
// proves by `decide` over the whole table that every variable written after init — and every
// function that writes it — is in a committed, justified allow-list: a new process-global
// that some builtin or setter writes breaks the theorem until a person has looked at it.
//
// A second table lists the named struct types that package-level variables POINT to
// (pointer, map, slice, interface-free paths) together with the functions that store into a
// field of such a type through any expression (`x.f = …` with x of type T / *T): a write to
// the shared object through an alias (`p := G; p.f = …`) is invisible to the first table.

import (
	"fmt"
	"go/ast"
	"go/token"
	"go/types"
	"path/filepath"
	"sort"
	"strings"
)

func typeKind(t types.Type) string {
	switch u := t.Underlying().(type) {
	case *types.Basic:
		return "scalar"
	case *types.Slice, *types.Array:
		return "slice"
	case *types.Map:
		return "map"
	case *types.Pointer:
		return "pointer"
	case *types.Struct:
		if n, ok := t.(*types.Named); ok && n.Obj().Pkg() != nil && n.Obj().Pkg().Name() == "sync" {
			return "sync"
		}
		return "struct"
	case *types.Signature:
		return "func"
	case *types.Interface:
		return "iface"
	case *types.Chan:
		return "chan"
	default:
		_ = u
		return "other"
	}
}

func init() {
	register(Emitter{File: "Globals.lean", Run: func(w *World) (string, error) {
		ew, err := w.Effects()
		if err != nil {
			return "", err
		}
		info := w.Info()
		type gvar struct {
			Name, File, Kind string
			HasInit          bool
			Writers          map[string]map[string]bool // func -> how
			obj              *types.Var
		}
		vars := map[*types.Var]*gvar{}
		var order []*gvar
		for _, f := range w.Zygo.Syntax {
			fname := filepath.Base(w.Fset.Position(f.Pos()).Filename)
			if strings.HasSuffix(fname, "_test.go") {
				continue
			}
			for _, d := range f.Decls {
				gd, ok := d.(*ast.GenDecl)
				if !ok || gd.Tok != token.VAR {
					continue
				}
				for _, sp := range gd.Specs {
					vs := sp.(*ast.ValueSpec)
					for _, id := range vs.Names {
						if id.Name == "_" {
							continue
						}
						obj, _ := info.Defs[id].(*types.Var)
						if obj == nil {
							continue
						}
						g := &gvar{Name: id.Name, File: fname, Kind: typeKind(obj.Type()), HasInit: len(vs.Values) > 0, Writers: map[string]map[string]bool{}, obj: obj}
						vars[obj] = g
						order = append(order, g)
					}
				}
			}
		}
		if len(order) < 20 {
			return "", fmt.Errorf("only %d package-level variables found: the extractor lost the declarations", len(order))
		}
		for _, ws := range ew.gwrites {
			g := vars[ws.Var]
			if g == nil {
				continue
			}
			if g.Writers[ws.Func] == nil {
				g.Writers[ws.Func] = map[string]bool{}
			}
			g.Writers[ws.Func][ws.How] = true
		}
		sort.Slice(order, func(i, j int) bool { return order[i].Name < order[j].Name })

		// ---- second table: struct types reachable from package-level variables through
		// pointers / maps / slices, and who stores into their fields
		reach := map[*types.Named]string{} // type -> a variable it is reachable from
		// only the variable's OWN shape is followed (its struct fields when it is a struct held
		// by value, pointers / slices / maps from there); the fields of a reached struct type are
		// not followed further — everything is reachable from an interpreter eventually, the
		// table is about the objects a package-level variable holds directly
		var visit func(t types.Type, from string, viaRef bool, depth int)
		visit = func(t types.Type, from string, viaRef bool, depth int) {
			if t == nil || depth > 4 {
				return
			}
			switch u := t.(type) {
			case *types.Named:
				if u.Obj().Pkg() != ew.pkg {
					return
				}
				if st, ok := u.Underlying().(*types.Struct); ok {
					if viaRef {
						if _, ok := reach[u]; !ok {
							reach[u] = from
						}
						return
					}
					for i := 0; i < st.NumFields(); i++ {
						visit(st.Field(i).Type(), from, false, depth+1)
					}
					return
				}
				visit(u.Underlying(), from, viaRef, depth+1)
			case *types.Pointer:
				visit(u.Elem(), from, true, depth+1)
			case *types.Slice:
				visit(u.Elem(), from, true, depth+1)
			case *types.Array:
				visit(u.Elem(), from, viaRef, depth+1)
			case *types.Map:
				visit(u.Elem(), from, true, depth+1)
				visit(u.Key(), from, true, depth+1)
			}
		}
		for _, g := range order {
			visit(g.obj.Type(), g.Name, false, 0)
		}
		type tw struct{ Type, Func string }
		twSet := map[tw]bool{}
		for _, fi := range ew.fns {
			if fi.decl.Body == nil || fi.isInit {
				continue
			}
			note := func(lhs ast.Expr) {
				for {
					if p, ok := lhs.(*ast.ParenExpr); ok {
						lhs = p.X
						continue
					}
					if ix, ok := lhs.(*ast.IndexExpr); ok { // x.f[k] = … stores into the field's map/slice
						lhs = ix.X
						continue
					}
					break
				}
				sel, ok := lhs.(*ast.SelectorExpr)
				if !ok {
					return
				}
				s := info.Selections[sel]
				if s == nil || s.Kind() != types.FieldVal {
					return
				}
				rt := s.Recv()
				if p, ok := rt.(*types.Pointer); ok {
					rt = p.Elem()
				}
				if n, ok := rt.(*types.Named); ok {
					if _, ok := reach[n]; ok {
						twSet[tw{n.Obj().Name(), fi.name}] = true
					}
				}
			}
			ast.Inspect(fi.decl.Body, func(n ast.Node) bool {
				switch x := n.(type) {
				case *ast.AssignStmt:
					if x.Tok == token.DEFINE {
						return true
					}
					for _, l := range x.Lhs {
						note(l)
					}
				case *ast.IncDecStmt:
					note(x.X)
				case *ast.CallExpr:
					if id, ok := x.Fun.(*ast.Ident); ok && id.Name == "delete" && len(x.Args) == 2 {
						note(x.Args[0])
					}
				}
				return true
			})
		}
		var tws []tw
		for k := range twSet {
			tws = append(tws, k)
		}
		sort.Slice(tws, func(i, j int) bool {
			if tws[i].Type != tws[j].Type {
				return tws[i].Type < tws[j].Type
			}
			return tws[i].Func < tws[j].Func
		})

		w.Facts["package_level_vars"] = len(order)
		var b strings.Builder
		b.WriteString("namespace ZygoVerif.Generated.Globals\n\n")
		b.WriteString("/-- A package-level variable of package zygo. `writers` = the functions (outside `init` and the\npackage-level initialisers) that store into it, take its address, or call a receiver-writing\nmethod on it; each with how (`assign`, `incdec`, `append`, `delete`, `addr`, `method:<name>`). -/\n")
		b.WriteString("structure Var where\n  name : String\n  file : String\n  kind : String\n  hasInit : Bool\n  writers : List (String × String)\n  deriving DecidableEq, Repr\n\n")
		var elems []string
		nWritten := 0
		for _, g := range order {
			var ws []string
			var fns []string
			for fn := range g.Writers {
				fns = append(fns, fn)
			}
			sort.Strings(fns)
			for _, fn := range fns {
				var hows []string
				for h := range g.Writers[fn] {
					hows = append(hows, h)
				}
				sort.Strings(hows)
				ws = append(ws, fmt.Sprintf("(%s, %s)", LeanString(fn), LeanString(strings.Join(hows, "+"))))
			}
			if len(ws) > 0 {
				nWritten++
			}
			elems = append(elems, fmt.Sprintf("\n  ⟨%s, %s, %s, %v, [%s]⟩", LeanString(g.Name), LeanString(g.File), LeanString(g.Kind), g.HasInit, strings.Join(ws, ", ")))
		}
		b.WriteString(LeanList("globals", "Var", elems, 100))
		fmt.Fprintf(&b, "\ndef globalCount : Nat := %d\n\n", len(order))
		w.Facts["package_level_vars_written_after_init"] = nWritten
		b.WriteString("/-- (struct type reachable by reference from a package-level variable, function that stores into one of its fields). -/\n")
		var telems []string
		for _, t := range tws {
			telems = append(telems, fmt.Sprintf("\n  (%s, %s)", LeanString(t.Type), LeanString(t.Func)))
		}
		b.WriteString(LeanList("sharedTypeWriters", "(String × String)", telems, 100))
		b.WriteString("\n-- shared struct types and a variable each is reachable from:\n")
		var rn []string
		for n, from := range reach {
			rn = append(rn, fmt.Sprintf("--   %s  (from %s)", n.Obj().Name(), from))
		}
		sort.Strings(rn)
		b.WriteString(strings.Join(rn, "\n"))
		b.WriteString("\nend ZygoVerif.Generated.Globals\n")
		return b.String(), nil
	}})
}
