package main

import (
	"bytes"
	"fmt"
	"go/ast"
	"go/printer"
	"sort"
	"strings"
)

// Control.lean (C05): the shape of the VM's state capture/restore discipline.
//   captureFields  : fields of vmControlState as captured (field := expression), sorted
//   restoreStmts   : the statements of restoreControlState, normalised, sorted
//   errorExits     : for every function that calls captureControlState: each `return` after
//                    the capture whose error result is not the literal nil, with whether a
//                    restoreControlState call precedes it in its own block (or the function
//                    is Run, whose error branch restores and then parks pc at the end)
func init() {
	register(Emitter{File: "Control.lean", Run: func(w *World) (string, error) {
		src := func(n ast.Node) string {
			var b bytes.Buffer
			printer.Fprint(&b, w.Fset, n)
			return strings.Join(strings.Fields(b.String()), " ")
		}
		cap := w.FuncDecl("Zlisp.captureControlState")
		res := w.FuncDecl("Zlisp.restoreControlState")
		if cap == nil || res == nil {
			return "", fmt.Errorf("captureControlState/restoreControlState not found")
		}
		var capFields []string
		ast.Inspect(cap.Body, func(n ast.Node) bool {
			if cl, ok := n.(*ast.CompositeLit); ok {
				for _, e := range cl.Elts {
					if kv, ok := e.(*ast.KeyValueExpr); ok {
						capFields = append(capFields, src(kv.Key)+" := "+src(kv.Value))
					}
				}
				return false
			}
			return true
		})
		var resStmts []string
		for _, s := range res.Body.List {
			resStmts = append(resStmts, src(s))
		}
		sort.Strings(capFields)
		sort.Strings(resStmts)

		type exit struct {
			fn       string
			ord      int
			restored bool
			text     string
		}
		var exits []exit
		isCall := func(n ast.Node, name string) bool {
			c, ok := n.(*ast.CallExpr)
			if !ok {
				return false
			}
			sel, ok := c.Fun.(*ast.SelectorExpr)
			return ok && sel.Sel.Name == name
		}
		for _, f := range w.Zygo.Syntax {
			for _, d := range f.Decls {
				fd, ok := d.(*ast.FuncDecl)
				if !ok || fd.Body == nil || fd.Name.Name == "captureControlState" {
					continue
				}
				// position of the first capture call
				capPos := -1
				ast.Inspect(fd.Body, func(n ast.Node) bool {
					if capPos < 0 && isCall(n, "captureControlState") {
						capPos = int(n.Pos())
					}
					return true
				})
				if capPos < 0 {
					continue
				}
				fname := fd.Name.Name
				if fd.Recv != nil && len(fd.Recv.List) == 1 {
					fname = recvName(fd.Recv.List[0].Type) + "." + fname
				}
				nres := 0
				if fd.Type.Results != nil {
					for _, r := range fd.Type.Results.List {
						if len(r.Names) == 0 {
							nres++
						} else {
							nres += len(r.Names)
						}
					}
				}
				ord := 0
				var walkBlock func(stmts []ast.Stmt)
				visitStmt := func(s ast.Stmt) {}
				walkBlock = func(stmts []ast.Stmt) {
					restoredHere := false
					for _, s := range stmts {
						if es, ok := s.(*ast.ExprStmt); ok && isCall(es.X, "restoreControlState") {
							restoredHere = true
						}
						if rs, ok := s.(*ast.ReturnStmt); ok && int(rs.Pos()) > capPos && nres > 0 && len(rs.Results) == nres {
							last := rs.Results[len(rs.Results)-1]
							if id, ok := last.(*ast.Ident); !(ok && id.Name == "nil") {
								exits = append(exits, exit{fname, ord, restoredHere, src(rs)})
								ord++
							}
						}
						visitStmt(s)
					}
				}
				visitStmt = func(s ast.Stmt) {
					switch t := s.(type) {
					case *ast.BlockStmt:
						walkBlock(t.List)
					case *ast.IfStmt:
						walkBlock(t.Body.List)
						if t.Else != nil {
							visitStmt(t.Else)
						}
					case *ast.ForStmt:
						walkBlock(t.Body.List)
					case *ast.RangeStmt:
						walkBlock(t.Body.List)
					case *ast.SwitchStmt:
						for _, c := range t.Body.List {
							walkBlock(c.(*ast.CaseClause).Body)
						}
					case *ast.TypeSwitchStmt:
						for _, c := range t.Body.List {
							walkBlock(c.(*ast.CaseClause).Body)
						}
					}
				}
				walkBlock(fd.Body.List)
			}
		}
		sort.Slice(exits, func(i, j int) bool {
			if exits[i].fn != exits[j].fn {
				return exits[i].fn < exits[j].fn
			}
			return exits[i].ord < exits[j].ord
		})
		q := func(xs []string) []string {
			var r []string
			for _, x := range xs {
				r = append(r, LeanString(x))
			}
			return r
		}
		var ex []string
		for _, e := range exits {
			ex = append(ex, fmt.Sprintf("(%s, %d, %v, %s)", LeanString(e.fn), e.ord, e.restored, LeanString(e.text)))
		}
		var b strings.Builder
		b.WriteString("namespace ZygoVerif.Generated.Control\n")
		b.WriteString(LeanList("captureFields", "String", q(capFields), 100))
		b.WriteString(LeanList("restoreStmts", "String", q(resStmts), 100))
		b.WriteString("/-- (function, ordinal, a restoreControlState call precedes it in its block, source) for every\nreturn of a non-nil error after the function captured the control state. -/\n")
		b.WriteString(LeanList("errorExits", "(String × Nat × Bool × String)", ex, 100))
		b.WriteString("end ZygoVerif.Generated.Control\n")
		w.Facts["control_error_exits"] = len(exits)
		return b.String(), nil
	}})
}
