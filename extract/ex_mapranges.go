package main

// MapRanges.lean (C20): every `for … range` statement of package zygo (non-test files)
// whose operand has map type, with a line-independent id (enclosing function + ordinal
// of the map walk inside that function), the printed operand, and a *syntactic shape
// class* of the loop body computed here. The Lean side (Props/C20.lean) carries the
// hand-written justification per site id and proves by `decide` that every site of this
// table is classified, that none is classified `observable`, and that the shape the
// extractor sees today is one the justification class admits. A new map walk — or an old
// one whose body changes shape — breaks that theorem until a person re-classifies it.
//
// Shape classes (first matching rule wins):
//   firstHit    body (outside nested func literals) has a `return`, or a `break` that
//               leaves this loop: which element is hit first can matter
//   emits       body calls fmt.Print*/Fprint*/Sprint*, a Write*/Printf method, or builds
//               a string with +=
//   mapWrite    every effect statement stores into an index expression of map type
//               (`m2[k] = v`, `delete(m2,k)`), guards that only panic are allowed
//   counts      every effect statement is `n += e` / `n++` on an integer
//   collectSort body only appends to slices / stores `s[i] = …` with a loop counter, and
//               the statements after the loop in the same block call sort.* (or a local
//               Sort method) on what was collected
//   calls       body calls other functions for effect (needs a per-site argument)
// plus the flag valueCalls: the body calls non-builtin functions in value positions
// (right-hand sides, conditions), e.g. a recursive conversion of each element.
//   other       anything else

import (
	"fmt"
	"go/ast"
	"go/printer"
	"go/token"
	"go/types"
	"path/filepath"
	"sort"
	"strings"
)

type mapRangeSite struct {
	File, Func string
	Ord        int
	Operand    string
	KeyUsed    bool
	ValUsed    bool
	Shape      string
	ValueCalls bool
	Line       int
	Effects    []string          // transitive effects of the body (ex_effects.go), once per element
	ExitEff    []string          // effects inside return statements (at most once)
	Witness    map[string]string // effect -> call chain that produces it
}

func exprString(fset *token.FileSet, e ast.Node) string {
	var b strings.Builder
	printer.Fprint(&b, fset, e)
	return strings.Join(strings.Fields(b.String()), " ")
}

func isBlank(e ast.Expr) bool {
	if e == nil {
		return true
	}
	id, ok := e.(*ast.Ident)
	return ok && id.Name == "_"
}

// classifyMapRange computes the shape class of one range-over-map statement.
// `following` = the statements after the loop in its enclosing block.
func classifyMapRange(info *types.Info, rs *ast.RangeStmt, following []ast.Stmt) (shape string, valueCalls bool) {
	isMapIndex := func(e ast.Expr) bool {
		ix, ok := e.(*ast.IndexExpr)
		if !ok {
			return false
		}
		t := info.TypeOf(ix.X)
		if t == nil {
			return false
		}
		_, ok = t.Underlying().(*types.Map)
		return ok
	}
	isSliceIndex := func(e ast.Expr) bool {
		ix, ok := e.(*ast.IndexExpr)
		if !ok {
			return false
		}
		t := info.TypeOf(ix.X)
		if t == nil {
			return false
		}
		_, ok = t.Underlying().(*types.Slice)
		return ok
	}
	isInteger := func(e ast.Expr) bool {
		t := info.TypeOf(e)
		if t == nil {
			return false
		}
		b, ok := t.Underlying().(*types.Basic)
		return ok && b.Info()&types.IsInteger != 0
	}
	isString := func(e ast.Expr) bool {
		t := info.TypeOf(e)
		if t == nil {
			return false
		}
		b, ok := t.Underlying().(*types.Basic)
		return ok && b.Info()&types.IsString != 0
	}
	callName := func(c *ast.CallExpr) string {
		switch f := c.Fun.(type) {
		case *ast.Ident:
			return f.Name
		case *ast.SelectorExpr:
			if x, ok := f.X.(*ast.Ident); ok {
				return x.Name + "." + f.Sel.Name
			}
			return "." + f.Sel.Name
		}
		return "?"
	}
	pure := map[string]bool{"len": true, "cap": true, "append": true, "make": true, "new": true, "string": true,
		"int": true, "int64": true, "panic": true, "fmt.Sprintf": false, "fmt.Errorf": true}

	firstHit, emits := false, false
	nMapWrite, nCount, nCollect, nCall, nOther := 0, 0, 0, 0, 0
	inEffect := false // scanning an expression statement (a call made for its effect)
	rhsCalls := false // calls in value positions (right-hand sides, conditions)

	// does a break at this nesting level leave *our* loop?
	var walk func(s ast.Stmt, breakLeaves bool)
	walkBlock := func(b *ast.BlockStmt, breakLeaves bool) {
		if b == nil {
			return
		}
		for _, s := range b.List {
			walk(s, breakLeaves)
		}
	}
	var scanExpr func(e ast.Node)
	scanExpr = func(e ast.Node) {
		if e == nil {
			return
		}
		ast.Inspect(e, func(n ast.Node) bool {
			switch x := n.(type) {
			case *ast.FuncLit:
				return false
			case *ast.CallExpr:
				nm := callName(x)
				// a conversion is not a call
				if tv, ok := info.Types[x.Fun]; ok && tv.IsType() {
					return true
				}
				switch {
				case strings.HasPrefix(nm, "fmt.Print"), strings.HasPrefix(nm, "fmt.Fprint"), strings.HasPrefix(nm, "fmt.Sprint"),
					strings.HasSuffix(nm, ".WriteString"), strings.HasSuffix(nm, ".Write"), strings.HasSuffix(nm, ".Printf"),
					strings.HasSuffix(nm, ".WriteByte"), strings.HasSuffix(nm, ".WriteRune"):
					emits = true
				case pure[nm]:
				default:
					if inEffect {
						nCall++
					} else {
						rhsCalls = true
					}
				}
			}
			return true
		})
	}
	walk = func(s ast.Stmt, breakLeaves bool) {
		switch x := s.(type) {
		case nil:
		case *ast.ReturnStmt:
			firstHit = true
			for _, r := range x.Results {
				scanExpr(r)
			}
		case *ast.BranchStmt:
			if x.Tok == token.BREAK && (breakLeaves || x.Label != nil) {
				firstHit = true
			}
			if x.Tok == token.GOTO {
				firstHit = true
			}
		case *ast.BlockStmt:
			walkBlock(x, breakLeaves)
		case *ast.IfStmt:
			walk(x.Init, breakLeaves)
			scanExpr(x.Cond)
			walkBlock(x.Body, breakLeaves)
			walk(x.Else, breakLeaves)
		case *ast.ForStmt:
			walk(x.Init, false)
			scanExpr(x.Cond)
			walk(x.Post, false)
			walkBlock(x.Body, false)
		case *ast.RangeStmt:
			scanExpr(x.X)
			walkBlock(x.Body, false)
		case *ast.SwitchStmt:
			walk(x.Init, breakLeaves)
			scanExpr(x.Tag)
			for _, c := range x.Body.List {
				cc := c.(*ast.CaseClause)
				for _, e := range cc.List {
					scanExpr(e)
				}
				for _, st := range cc.Body {
					walk(st, false)
				}
			}
		case *ast.TypeSwitchStmt:
			walk(x.Init, breakLeaves)
			walk(x.Assign, breakLeaves)
			for _, c := range x.Body.List {
				for _, st := range c.(*ast.CaseClause).Body {
					walk(st, false)
				}
			}
		case *ast.ExprStmt:
			if c, ok := x.X.(*ast.CallExpr); ok && callName(c) == "delete" && len(c.Args) == 2 {
				nMapWrite++
				return
			}
			if c, ok := x.X.(*ast.CallExpr); ok && callName(c) == "panic" {
				return // a guard that only panics: the walk aborts, no result
			}
			inEffect = true
			scanExpr(x.X)
			inEffect = false
		case *ast.IncDecStmt:
			if isInteger(x.X) {
				nCount++
			} else {
				nOther++
			}
		case *ast.DeclStmt:
			scanExpr(x)
		case *ast.AssignStmt:
			for _, r := range x.Rhs {
				scanExpr(r)
			}
			if x.Tok == token.DEFINE {
				return // a fresh local: no effect outside the iteration
			}
			for i, l := range x.Lhs {
				switch {
				case isBlank(l):
				case isMapIndex(l):
					nMapWrite++
				case x.Tok == token.ADD_ASSIGN && isString(l):
					emits = true
				case (x.Tok == token.ADD_ASSIGN || x.Tok == token.SUB_ASSIGN) && isInteger(l):
					nCount++
				case isSliceIndex(l):
					nCollect++
				case x.Tok == token.ASSIGN && i < len(x.Rhs):
					if c, ok := x.Rhs[i].(*ast.CallExpr); ok && callName(c) == "append" {
						nCollect++
					} else {
						nOther++
					}
				default:
					nOther++
				}
			}
		default:
			nOther++
			scanExpr(s)
		}
	}
	walkBlock(rs.Body, true)

	sortsAfter := false
	for _, s := range following {
		ast.Inspect(s, func(n ast.Node) bool {
			if c, ok := n.(*ast.CallExpr); ok {
				nm := callName(c)
				if strings.HasPrefix(nm, "sort.") || strings.HasSuffix(nm, ".Sort") {
					sortsAfter = true
				}
			}
			return true
		})
	}
	valueCalls = rhsCalls
	switch {
	case firstHit:
		return "firstHit", valueCalls
	case emits:
		return "emits", valueCalls
	case nCall > 0:
		return "calls", valueCalls
	case nOther > 0:
		return "other", valueCalls
	case nMapWrite > 0 && nCount == 0 && nCollect == 0:
		return "mapWrite", valueCalls
	case nCount > 0 && nMapWrite == 0 && nCollect == 0:
		return "counts", valueCalls
	case nCollect > 0 && nMapWrite == 0 && sortsAfter:
		return "collectSort", valueCalls
	case nMapWrite == 0 && nCount == 0 && nCollect == 0:
		return "mapWrite", valueCalls // empty body: no effect at all
	}
	return "other", valueCalls
}

func init() {
	register(Emitter{File: "MapRanges.lean", Run: func(w *World) (string, error) {
		info := w.Info()
		ew, err := w.Effects()
		if err != nil {
			return "", err
		}
		var sites []mapRangeSite
		for _, f := range w.Zygo.Syntax {
			fname := filepath.Base(w.Fset.Position(f.Pos()).Filename)
			if strings.HasSuffix(fname, "_test.go") {
				continue
			}
			for _, d := range f.Decls {
				var fn string
				var body ast.Node
				var encl *ast.FuncDecl
				switch x := d.(type) {
				case *ast.FuncDecl:
					encl = x
					fn = x.Name.Name
					if x.Recv != nil && len(x.Recv.List) == 1 {
						fn = recvName(x.Recv.List[0].Type) + "." + fn
					}
					if x.Body == nil {
						continue
					}
					body = x.Body
				case *ast.GenDecl:
					fn = "<pkg-init>"
					body = x
				default:
					continue
				}
				ord := 0
				// walk with knowledge of the enclosing statement list
				var visitList func(list []ast.Stmt)
				var visit func(n ast.Node)
				handle := func(rs *ast.RangeStmt, following []ast.Stmt) {
					t := info.TypeOf(rs.X)
					if t == nil {
						return
					}
					if _, ok := t.Underlying().(*types.Map); !ok {
						return
					}
					shape, vc := classifyMapRange(info, rs, following)
					eff, exitEff, wit := ew.bodyEffects(encl, rs.Body)
					witness := map[string]string{}
					for _, x := range effNames {
						if eff&x.e != 0 {
							witness[x.n] = wit[x.e]
						}
					}
					sites = append(sites, mapRangeSite{File: fname, Func: fn, Ord: ord, Operand: exprString(w.Fset, rs.X),
						KeyUsed: !isBlank(rs.Key), ValUsed: !isBlank(rs.Value),
						Shape: shape, ValueCalls: vc, Line: w.Fset.Position(rs.Pos()).Line,
						Effects: effectList(eff), ExitEff: effectList(exitEff), Witness: witness})
					ord++
				}
				visitList = func(list []ast.Stmt) {
					for i, s := range list {
						if rs, ok := s.(*ast.RangeStmt); ok {
							handle(rs, list[i+1:])
						}
						visit(s)
					}
				}
				visit = func(n ast.Node) {
					if n == nil {
						return
					}
					ast.Inspect(n, func(m ast.Node) bool {
						if m == n {
							return true
						}
						switch x := m.(type) {
						case *ast.BlockStmt:
							visitList(x.List)
							return false
						case *ast.CaseClause:
							for _, e := range x.List {
								visit(e)
							}
							visitList(x.Body)
							return false
						case *ast.CommClause:
							visit(x.Comm)
							visitList(x.Body)
							return false
						case *ast.RangeStmt:
							// a range statement that is not directly in a statement list
							// (labelled statement etc.)
							handle(x, nil)
						}
						return true
					})
				}
				if b, ok := body.(*ast.BlockStmt); ok {
					visitList(b.List)
				} else {
					visit(body)
				}
			}
		}
		sort.Slice(sites, func(i, j int) bool {
			a, b := sites[i], sites[j]
			if a.File != b.File {
				return a.File < b.File
			}
			if a.Func != b.Func {
				return a.Func < b.Func
			}
			return a.Ord < b.Ord
		})
		// the id must be unique
		seen := map[string]bool{}
		for _, s := range sites {
			id := fmt.Sprintf("%s#%d", s.Func, s.Ord)
			if seen[id] {
				return "", fmt.Errorf("map-range site id %s is not unique", id)
			}
			seen[id] = true
		}
		if len(sites) == 0 {
			return "", fmt.Errorf("no range-over-map site found: the extractor lost the type information")
		}
		w.Facts["map_range_sites"] = len(sites)
		var b strings.Builder
		b.WriteString("namespace ZygoVerif.Generated.MapRanges\n\n")
		b.WriteString("/-- Syntactic shape of the loop body, computed by extract/ex_mapranges.go. -/\n")
		b.WriteString("inductive Shape where\n  | firstHit | emits | mapWrite | counts | collectSort | calls | other\n  deriving DecidableEq, Repr\n\n")
		b.WriteString("/-- What the loop body can do besides its syntactic shape, TRANSITIVELY through the functions\nof package zygo it calls (extract/ex_effects.go): `interns` allocates symbol numbers in call order,\n`fieldAppend` grows a slice held in a struct field / package-level variable, `fieldCounter` bumps a\ncounter held there, `emits` prints, `globalWrite` stores into a package-level variable, `dynCall`\ncalls a function value (callee unknown). -/\n")
		b.WriteString("inductive Effect where\n  | interns | fieldAppend | fieldCounter | emits | globalWrite | dynCall\n  deriving DecidableEq, Repr\n\n")
		b.WriteString("structure Site where\n  file : String\n  func : String\n  ord : Nat\n  operand : String\n  keyUsed : Bool\n  valUsed : Bool\n  shape : Shape\n  valueCalls : Bool\n  effects : List Effect\n  exitEffects : List Effect\n  deriving DecidableEq, Repr\n\n")
		b.WriteString("/-- Line-independent identity of a site: enclosing function + ordinal of the map walk in it. -/\n")
		b.WriteString("def Site.id (s : Site) : String × Nat := (s.func, s.ord)\n\n")
		var elems []string
		for _, s := range sites {
			var effs []string
			for _, e := range s.Effects {
				effs = append(effs, "."+e)
			}
			var xeffs []string
			for _, e := range s.ExitEff {
				xeffs = append(xeffs, "."+e)
			}
			elems = append(elems, fmt.Sprintf("\n  ⟨%s, %s, %d, %s, %v, %v, .%s, %v, [%s], [%s]⟩", LeanString(s.File), LeanString(s.Func), s.Ord,
				LeanString(s.Operand), s.KeyUsed, s.ValUsed, s.Shape, s.ValueCalls, strings.Join(effs, ", "), strings.Join(xeffs, ", ")))
		}
		b.WriteString(LeanList("mapRanges", "Site", elems, 120))
		fmt.Fprintf(&b, "\ndef siteCount : Nat := %d\n", len(sites))
		b.WriteString("\n-- today's line numbers (informative only; not part of the identity):\n")
		for _, s := range sites {
			fmt.Fprintf(&b, "--   %s:%d  %s#%d  range %s  [%s%s]\n", s.File, s.Line, s.Func, s.Ord, s.Operand, s.Shape, map[bool]string{true: " +valueCalls", false: ""}[s.ValueCalls])
			for _, e := range s.Effects {
				fmt.Fprintf(&b, "--       %s: %s\n", e, s.Witness[e])
			}
			if len(s.ExitEff) > 0 {
				fmt.Fprintf(&b, "--       on leaving (inside return): %s\n", strings.Join(s.ExitEff, " "))
			}
		}
		b.WriteString("end ZygoVerif.Generated.MapRanges\n")
		return b.String(), nil
	}})
}
