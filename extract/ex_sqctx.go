package main

import (
	"fmt"
	"go/ast"
	"go/types"
	"strings"
)

// SQCtx.lean (C15, strengthening): facts about generator.go that the freshness theorems and
// the context-carrying generator model of Model/MacroCall.lean (`genC`) were written against.
// Purely syntactic; every table is compared as a whole by a `decide` theorem in Props/C15.
//
//	literalPushSites  every gen.AddInstruction(PushInstr{X}) with X other than SexpMarker in
//	                  GenerateSyntaxQuote / generateSyntaxQuoteList/Array/Hash, as
//	                  "<func>|<nesting path>|PushInstr{X}". A template object pushed as a
//	                  literal is shared by all evaluations: the only such push may be the
//	                  fall-through of GenerateSyntaxQuote, behind the type switch.
//	topCaseTypes      the case types of that type switch; topCasesReturn: every case ends in a
//	                  return (so arrays, lists and hashes never reach the literal push)
//	macroBranch       the body of `if found { … }` in GenerateCallBySymbol: calls made (with
//	                  receiver), returns. The expansion must be compiled by `gen` itself.
//	rebindScansExpansions  whether bindsName (rebindsOwnName's scan for a function that rebinds
//	                  its own name) mentions the macro table — the driver's model follows it
//	ctxWrites         every creation of a generator (NewGenerator / NewSubGenerator; these also
//	                  for the other files of the package, in file-name order), every
//	                  Reset(), every write of a field Tail / scopes / funcname, and every
//	                  Generate* call on a generator other than `gen`, of all functions of
//	                  generator.go in source order, as "<func>|<event>".
func init() {
	register(Emitter{File: "SQCtx.lean", Run: func(w *World) (string, error) {
		var b strings.Builder
		b.WriteString("namespace ZygoVerif.Generated.SQCtx\n")

		// ---- literal pushes inside the syntax-quote generator
		var pushes []string
		var walkStmt func(fn, path string, n ast.Stmt)
		scanExpr := func(fn, path string, e ast.Node) {
			if e == nil {
				return
			}
			ast.Inspect(e, func(n ast.Node) bool {
				if _, isFun := n.(*ast.FuncLit); isFun {
					return true
				}
				call, ok := n.(*ast.CallExpr)
				if !ok {
					return true
				}
				sel, ok := call.Fun.(*ast.SelectorExpr)
				if !ok || sel.Sel.Name != "AddInstruction" || len(call.Args) != 1 {
					return true
				}
				name := instrName(call.Args[0])
				if strings.HasPrefix(name, "PushInstr") && name != "PushInstr{SexpMarker}" {
					pushes = append(pushes, LeanString(fn+"|"+path+"|"+name))
				}
				return true
			})
		}
		walkBlock := func(fn, path string, list []ast.Stmt) {
			for _, st := range list {
				walkStmt(fn, path, st)
			}
		}
		walkStmt = func(fn, path string, n ast.Stmt) {
			switch s := n.(type) {
			case nil:
			case *ast.BlockStmt:
				walkBlock(fn, path, s.List)
			case *ast.IfStmt:
				if s.Init != nil {
					walkStmt(fn, path, s.Init)
				}
				scanExpr(fn, path, s.Cond)
				walkBlock(fn, path+"/if", s.Body.List)
				if s.Else != nil {
					walkStmt(fn, path+"/else", s.Else)
				}
			case *ast.ForStmt:
				walkBlock(fn, path+"/loop", s.Body.List)
			case *ast.RangeStmt:
				walkBlock(fn, path+"/loop", s.Body.List)
			case *ast.SwitchStmt:
				for _, c := range s.Body.List {
					walkBlock(fn, path+"/case", c.(*ast.CaseClause).Body)
				}
			case *ast.TypeSwitchStmt:
				for _, c := range s.Body.List {
					walkBlock(fn, path+"/case", c.(*ast.CaseClause).Body)
				}
			default:
				scanExpr(fn, path, n)
			}
		}
		for _, name := range []string{"GenerateSyntaxQuote", "generateSyntaxQuoteList", "generateSyntaxQuoteArray", "generateSyntaxQuoteHash"} {
			fd := w.FuncDecl("Generator." + name)
			if fd == nil || fd.Body == nil {
				return "", fmt.Errorf("SQCtx: %s not found", name)
			}
			walkBlock(name, "", fd.Body.List)
		}
		b.WriteString("/-- pushes of a template object as a literal inside the syntax-quote generator -/\n")
		b.WriteString(LeanList("literalPushSites", "String", pushes, 100))

		// ---- the type switch of GenerateSyntaxQuote
		fd := w.FuncDecl("Generator.GenerateSyntaxQuote")
		var caseTypes []string
		casesReturn := true
		nSwitch := 0
		for _, st := range fd.Body.List {
			ts, ok := st.(*ast.TypeSwitchStmt)
			if !ok {
				continue
			}
			nSwitch++
			for _, c := range ts.Body.List {
				cc := c.(*ast.CaseClause)
				for _, e := range cc.List {
					caseTypes = append(caseTypes, LeanString(types.ExprString(e)))
				}
				if len(cc.Body) == 0 {
					casesReturn = false
				} else if _, isRet := cc.Body[len(cc.Body)-1].(*ast.ReturnStmt); !isRet {
					casesReturn = false
				}
			}
		}
		if nSwitch != 1 {
			return "", fmt.Errorf("SQCtx: GenerateSyntaxQuote has %d top-level type switches", nSwitch)
		}
		b.WriteString("/-- case types of the type switch in GenerateSyntaxQuote -/\n")
		b.WriteString(LeanList("topCaseTypes", "String", caseTypes, 100))
		fmt.Fprintf(&b, "/-- every case of it ends in a return -/\ndef topCasesReturn : Bool := %v\n", casesReturn)

		// ---- the macro branch of GenerateCallBySymbol
		fd = w.FuncDecl("Generator.GenerateCallBySymbol")
		if fd == nil || fd.Body == nil {
			return "", fmt.Errorf("SQCtx: GenerateCallBySymbol not found")
		}
		var branch []string
		var brEvents func(list []ast.Stmt)
		callsIn := func(e ast.Expr) (out []string) {
			ast.Inspect(e, func(n ast.Node) bool {
				if c, ok := n.(*ast.CallExpr); ok {
					out = append(out, types.ExprString(c.Fun))
				}
				return true
			})
			return
		}
		brEvents = func(list []ast.Stmt) {
			for _, st := range list {
				switch s := st.(type) {
				case *ast.AssignStmt:
					for _, r := range s.Rhs {
						for _, c := range callsIn(r) {
							branch = append(branch, LeanString("call:"+c))
						}
					}
				case *ast.ExprStmt:
					for _, c := range callsIn(s.X) {
						branch = append(branch, LeanString("call:"+c))
					}
				case *ast.IfStmt:
					if s.Init != nil {
						brEvents([]ast.Stmt{s.Init})
					}
					branch = append(branch, LeanString("if["))
					brEvents(s.Body.List)
					branch = append(branch, LeanString("]"))
					if s.Else != nil {
						branch = append(branch, LeanString("else["))
						brEvents([]ast.Stmt{s.Else})
						branch = append(branch, LeanString("]"))
					}
				case *ast.BlockStmt:
					brEvents(s.List)
				case *ast.ReturnStmt:
					for _, r := range s.Results {
						if c, ok := r.(*ast.CallExpr); ok {
							branch = append(branch, LeanString("ret:"+types.ExprString(c.Fun)))
						} else {
							branch = append(branch, LeanString("ret:"+types.ExprString(r)))
						}
					}
				default:
					branch = append(branch, LeanString(fmt.Sprintf("stmt:%T", st)))
				}
			}
		}
		found := 0
		for _, st := range fd.Body.List {
			if is, ok := st.(*ast.IfStmt); ok {
				if id, ok := is.Cond.(*ast.Ident); ok && id.Name == "found" {
					found++
					brEvents(is.Body.List)
				}
			}
		}
		if found != 1 {
			return "", fmt.Errorf("SQCtx: GenerateCallBySymbol has %d `if found` branches", found)
		}
		b.WriteString("/-- the macro branch of GenerateCallBySymbol -/\n")
		b.WriteString(LeanList("macroBranch", "String", branch, 100))

		// ---- every write of a context field, every generator created, in generator.go
		ctxField := map[string]bool{"Tail": true, "scopes": true, "funcname": true}
		var writes []string
		for _, f := range w.Zygo.Syntax {
			// generator.go: everything; other files: only where a generator is created
			inGen := strings.HasSuffix(w.Fset.Position(f.Pos()).Filename, "/generator.go")
			for _, d := range f.Decls {
				fd, ok := d.(*ast.FuncDecl)
				if !ok || fd.Body == nil {
					continue
				}
				fn := fd.Name.Name
				add := func(ev string) {
					if inGen || strings.HasPrefix(ev, "new:") {
						writes = append(writes, LeanString(fn+"|"+ev))
					}
				}
				ast.Inspect(fd.Body, func(n ast.Node) bool {
					switch s := n.(type) {
					case *ast.AssignStmt:
						for i, l := range s.Lhs {
							if sel, ok := l.(*ast.SelectorExpr); ok && ctxField[sel.Sel.Name] {
								rhs := "?"
								if i < len(s.Rhs) {
									rhs = types.ExprString(s.Rhs[i])
								}
								add("set:" + types.ExprString(l) + "=" + rhs)
							}
						}
						for i, r := range s.Rhs {
							if c, ok := r.(*ast.CallExpr); ok {
								name := types.ExprString(c.Fun)
								if strings.HasSuffix(name, "NewSubGenerator") || name == "NewGenerator" {
									lhs := "?"
									if i < len(s.Lhs) {
										lhs = types.ExprString(s.Lhs[i])
									}
									add("new:" + lhs + "=" + name)
								}
							}
						}
					case *ast.IncDecStmt:
						if sel, ok := s.X.(*ast.SelectorExpr); ok && ctxField[sel.Sel.Name] {
							add(strings.ToLower(s.Tok.String()) + ":" + types.ExprString(s.X))
						}
					case *ast.CallExpr:
						if sel, ok := s.Fun.(*ast.SelectorExpr); ok {
							if id, ok := sel.X.(*ast.Ident); ok {
								if sel.Sel.Name == "Reset" {
									add("reset:" + id.Name)
								} else if strings.HasPrefix(sel.Sel.Name, "Generate") && id.Name != "gen" {
									add("use:" + id.Name + "." + sel.Sel.Name)
								}
							}
						}
					}
					return true
				})
			}
		}
		b.WriteString("/-- creations of generators and writes of Tail / scopes / funcname in generator.go, in source order -/\n")
		b.WriteString(LeanList("ctxWrites", "String", writes, 60))
		// ---- does the self-rebinding test (bindsName) look into macro expansions?
		scans := false
		if bn := w.FuncDecl("bindsName"); bn != nil && bn.Body != nil {
			ast.Inspect(bn.Body, func(n ast.Node) bool {
				if sel, ok := n.(*ast.SelectorExpr); ok && sel.Sel.Name == "macros" {
					scans = true
				}
				return true
			})
		}
		fmt.Fprintf(&b, "/-- `bindsName` (the test behind rebindsOwnName) consults the macro table: a macro call binds what its expansion binds -/\ndef rebindScansExpansions : Bool := %v\n", scans)
		b.WriteString("end ZygoVerif.Generated.SQCtx\n")
		w.Facts["sq_ctx_writes"] = len(writes)
		return b.String(), nil
	}})
}
