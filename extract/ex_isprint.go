package main

import (
	"fmt"
	"strconv"
	"strings"
)

// IsPrint.lean: the code-point ranges on which Go's strconv.IsPrint is true, computed by
// running the standard library (of the toolchain that builds zyx, the one /repo/go.mod
// asks for) over all 0x110000 code points and a margin beyond. With this table the Lean
// model of strconv.Quote / QuoteRune (Model/Quote.lean) is exact for every code point.
func init() {
	register(Emitter{File: "IsPrint.lean", Run: func(w *World) (string, error) {
		type rg struct{ lo, hi int }
		var rs []rg
		const limit = 0x110000 + 0x1000
		start := -1
		count := 0
		for c := 0; c <= limit; c++ {
			p := c < limit && strconv.IsPrint(rune(c))
			if p {
				count++
				if start < 0 {
					start = c
				}
			} else if start >= 0 {
				rs = append(rs, rg{start, c - 1})
				start = -1
			}
		}
		if len(rs) < 100 || len(rs) > 5000 {
			return "", fmt.Errorf("implausible number of IsPrint ranges: %d", len(rs))
		}
		if rs[0].lo != 0x20 || rs[0].hi != 0x7e {
			return "", fmt.Errorf("first IsPrint range is %x-%x, expected 20-7e", rs[0].lo, rs[0].hi)
		}
		var el []string
		for _, r := range rs {
			el = append(el, fmt.Sprintf("(0x%x, 0x%x)", r.lo, r.hi))
		}
		w.Facts["isprint_ranges"] = len(rs)
		w.Facts["isprint_count"] = count
		var b strings.Builder
		b.WriteString("namespace ZygoVerif.Generated.IsPrint\n")
		b.WriteString("/-- Inclusive code-point ranges, ascending and disjoint, where `strconv.IsPrint` is true. -/\n")
		b.WriteString(LeanList("ranges", "(Nat × Nat)", el, 120))
		fmt.Fprintf(&b, "def rangeCount : Nat := %d\n", len(rs))
		fmt.Fprintf(&b, "def printableCount : Nat := %d\n", count)
		b.WriteString("/-- Membership: `strconv.IsPrint (rune c)`. -/\n")
		b.WriteString("def isPrint (c : Nat) : Bool := ranges.any (fun r => r.1 ≤ c && c ≤ r.2)\n")
		b.WriteString("end ZygoVerif.Generated.IsPrint\n")
		return b.String(), nil
	}})
}
