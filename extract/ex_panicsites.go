package main

import (
	"fmt"
	"go/ast"
	"go/constant"
	"go/token"
	"go/types"
	"sort"
	"strings"
)

// PanicSites.lean / StackSites.lean (C01).
//
// PanicSites: the functions of package zygo that a script can drive from the script-facing
// entry points WITHOUT passing a deferred recover(), and in each of them the number of
// operations that can panic at run time, by kind:
//
//	index     a[i] on a slice, array, string (not a map read)
//	slice     a[i:j]
//	assert    x.(T) without the comma-ok form (type switches are not assertions)
//	explicit  panic(...) and panicOn(...)
//	div       integer / or % whose divisor is not a non-zero constant
//	mapwrite  m[k] = v (panics when m is nil)
//
// Call graph: nodes = top-level functions and methods (function literals are folded into
// the function that contains them). Edges come from CALLS only: static calls; interface
// method calls resolved to every method of that name on a type of the package that
// implements the interface; calls through a function value resolved to every function of
// the package with an identical signature whose value is taken somewhere. A call site that
// lies inside a function body (or literal) that defers a function literal calling recover()
// is PROTECTED: it contributes no edge, and panic sites inside such a body are not counted.
// (nil-pointer dereferences are not inventoried: every field access through a pointer
// would be a site.)
//
// StackSites: every call of (*Stack).Push and of its typed wrappers, with the receiver
// expression and the static type of the pushed element — the typed pops of the VM
// (`elem.(DataStackElem)`, `.(*Scope)`, `.(Address)`, `.(*Loop)`) rely on these.

type psCounts struct{ index, slice, assert, explicit, div, mapwrite int }

func (c psCounts) total() int {
	return c.index + c.slice + c.assert + c.explicit + c.div + c.mapwrite
}

// script-facing entry points (the property's observe_at list) and what the host does with
// a result: printing it.
var psRoots = []string{
	"Zlisp.EvalString", "Zlisp.LoadString", "Zlisp.LoadStream", "Zlisp.LoadFile", "Zlisp.LoadExpressions",
	"Zlisp.Run", "Zlisp.EvalExpressions", "Zlisp.Clear", "Zlisp.GetStackTrace", "Zlisp.ReplLineInfixWrap",
	"Parser.ParseTokens", "Parser.ParsingIter", "Parser.NewInput", "Parser.ResetAddNewInput", "Parser.Reset",
	"Parser.Stop", "Parser.EndInput", "Repl", "Prompter.getExpressionWithLiner",
}

func init() {
	register(Emitter{File: "PanicSites.lean", Run: emitPanicSites})
	register(Emitter{File: "StackSites.lean", Run: emitStackSites})
}

func psFuncName(fd *ast.FuncDecl) string {
	n := fd.Name.Name
	if fd.Recv != nil && len(fd.Recv.List) == 1 {
		n = recvName(fd.Recv.List[0].Type) + "." + n
	}
	return n
}

func psObjName(fn *types.Func) string {
	sig, _ := fn.Type().(*types.Signature)
	if sig != nil && sig.Recv() != nil {
		t := sig.Recv().Type()
		if p, ok := t.(*types.Pointer); ok {
			t = p.Elem()
		}
		if n, ok := t.(*types.Named); ok {
			return n.Obj().Name() + "." + fn.Name()
		}
	}
	return fn.Name()
}

// hasRecoverDefer: does this body (not descending into nested literals, except the deferred
// one) hold `defer func(){ … recover() … }()`?
func hasRecoverDefer(body *ast.BlockStmt) bool {
	found := false
	var visit func(n ast.Node) bool
	visit = func(n ast.Node) bool {
		switch s := n.(type) {
		case *ast.FuncLit:
			return false
		case *ast.DeferStmt:
			if lit, ok := s.Call.Fun.(*ast.FuncLit); ok {
				ast.Inspect(lit.Body, func(m ast.Node) bool {
					if c, ok := m.(*ast.CallExpr); ok {
						if id, ok := c.Fun.(*ast.Ident); ok && id.Name == "recover" {
							found = true
						}
					}
					return true
				})
			}
			return false
		}
		return true
	}
	ast.Inspect(body, visit)
	return found
}

type psFunc struct {
	name      string
	decl      *ast.FuncDecl
	counts    psCounts
	callees   map[string]bool
	dynamic   []string // signatures of unprotected calls through function values
	recovers  bool     // installs a deferred recover somewhere in its body
	file      string
	protCalls int
}

func emitPanicSites(w *World) (string, error) {
	info := w.Info()
	pkg := w.Zygo.Types
	funcs := map[string]*psFunc{}
	var order []string
	for _, f := range w.Zygo.Syntax {
		fname := w.Fset.Position(f.Pos()).Filename
		if strings.HasSuffix(fname, "_test.go") || strings.Contains(fname, "zz_verif_") {
			continue
		}
		for _, d := range f.Decls {
			fd, ok := d.(*ast.FuncDecl)
			if !ok || fd.Body == nil {
				continue
			}
			n := psFuncName(fd)
			if _, dup := funcs[n]; dup {
				continue
			}
			funcs[n] = &psFunc{name: n, decl: fd, callees: map[string]bool{}, file: fname[strings.LastIndex(fname, "/")+1:]}
			order = append(order, n)
		}
	}
	if len(funcs) < 300 {
		return "", fmt.Errorf("only %d functions found in package zygo", len(funcs))
	}
	// address-taken functions by signature (a mention that is not the Fun of a call)
	takenBySig := map[string][]string{}
	sigKey := func(t types.Type) string {
		s, ok := t.Underlying().(*types.Signature)
		if !ok {
			return ""
		}
		var b strings.Builder
		b.WriteString("(")
		for i := 0; i < s.Params().Len(); i++ {
			b.WriteString(types.TypeString(s.Params().At(i).Type(), func(p *types.Package) string { return "" }))
			b.WriteString(",")
		}
		if s.Variadic() {
			b.WriteString("...")
		}
		b.WriteString(")(")
		for i := 0; i < s.Results().Len(); i++ {
			b.WriteString(types.TypeString(s.Results().At(i).Type(), func(p *types.Package) string { return "" }))
			b.WriteString(",")
		}
		b.WriteString(")")
		return b.String()
	}
	callFun := map[ast.Expr]bool{}
	for _, f := range w.Zygo.Syntax {
		ast.Inspect(f, func(n ast.Node) bool {
			if c, ok := n.(*ast.CallExpr); ok {
				fun := c.Fun
				for {
					if p, ok := fun.(*ast.ParenExpr); ok {
						fun = p.X
					} else {
						break
					}
				}
				callFun[fun] = true
				if se, ok := fun.(*ast.SelectorExpr); ok {
					callFun[se.Sel] = true
				}
			}
			return true
		})
	}
	takenSeen := map[string]bool{}
	for _, f := range w.Zygo.Syntax {
		ast.Inspect(f, func(n ast.Node) bool {
			var id *ast.Ident
			var whole ast.Expr
			switch e := n.(type) {
			case *ast.SelectorExpr:
				id, whole = e.Sel, e
			case *ast.Ident:
				id, whole = e, e
			default:
				return true
			}
			fn, ok := info.Uses[id].(*types.Func)
			if !ok || fn.Pkg() != pkg {
				return true
			}
			if callFun[whole] || callFun[id] {
				return true
			}
			name := psObjName(fn)
			if _, known := funcs[name]; !known {
				return true
			}
			// for a method value the signature without receiver is what a caller sees
			k := sigKey(fn.Type())
			if !takenSeen[name+k] {
				takenSeen[name+k] = true
				takenBySig[k] = append(takenBySig[k], name)
			}
			return true
		})
	}
	// methods by name for CHA
	methodsByName := map[string][]*types.Func{}
	scope := pkg.Scope()
	for _, n := range scope.Names() {
		tn, ok := scope.Lookup(n).(*types.TypeName)
		if !ok {
			continue
		}
		named, ok := tn.Type().(*types.Named)
		if !ok {
			continue
		}
		for i := 0; i < named.NumMethods(); i++ {
			m := named.Method(i)
			methodsByName[m.Name()] = append(methodsByName[m.Name()], m)
		}
	}
	implements := func(m *types.Func, iface *types.Interface) bool {
		sig := m.Type().(*types.Signature)
		rt := sig.Recv().Type()
		if types.Implements(rt, iface) {
			return true
		}
		if _, isPtr := rt.(*types.Pointer); !isPtr {
			return types.Implements(types.NewPointer(rt), iface)
		}
		return false
	}
	isInt := func(t types.Type) bool {
		b, ok := t.Underlying().(*types.Basic)
		return ok && b.Info()&types.IsInteger != 0
	}
	// walk every function: protected regions, sites, edges
	for _, name := range order {
		pf := funcs[name]
		var walk func(n ast.Node, protected bool)
		walkBody := func(body *ast.BlockStmt, protected bool) {
			if hasRecoverDefer(body) {
				pf.recovers = true
				protected = true
			}
			for _, st := range body.List {
				walk(st, protected)
			}
		}
		walk = func(n ast.Node, protected bool) {
			if n == nil {
				return
			}
			ast.Inspect(n, func(m ast.Node) bool {
				switch e := m.(type) {
				case *ast.FuncLit:
					walkBody(e.Body, protected)
					return false
				case *ast.IndexExpr:
					if protected {
						return true
					}
					if tv, ok := info.Types[e.X]; ok {
						switch u := tv.Type.Underlying().(type) {
						case *types.Slice, *types.Array:
							pf.counts.index++
						case *types.Basic:
							if u.Info()&types.IsString != 0 {
								pf.counts.index++
							}
						case *types.Pointer:
							if _, isArr := u.Elem().Underlying().(*types.Array); isArr {
								pf.counts.index++
							}
						}
					}
				case *ast.SliceExpr:
					if !protected {
						pf.counts.slice++
					}
				case *ast.TypeAssertExpr:
					if protected || e.Type == nil {
						return true
					}
					if tv, ok := info.Types[e]; ok {
						if _, isTuple := tv.Type.(*types.Tuple); !isTuple {
							pf.counts.assert++
						}
					}
				case *ast.BinaryExpr:
					if protected || (e.Op != token.QUO && e.Op != token.REM) {
						return true
					}
					if tv, ok := info.Types[e.Y]; ok && isInt(tv.Type) {
						if tv.Value != nil && constant.Sign(tv.Value) != 0 {
							return true
						}
						pf.counts.div++
					}
				case *ast.AssignStmt:
					if protected {
						return true
					}
					if e.Tok == token.QUO_ASSIGN || e.Tok == token.REM_ASSIGN {
						if tv, ok := info.Types[e.Rhs[0]]; ok && isInt(tv.Type) && !(tv.Value != nil && constant.Sign(tv.Value) != 0) {
							pf.counts.div++
						}
					}
					for _, l := range e.Lhs {
						if ix, ok := l.(*ast.IndexExpr); ok {
							if tv, ok := info.Types[ix.X]; ok {
								if _, isMap := tv.Type.Underlying().(*types.Map); isMap {
									pf.counts.mapwrite++
								}
							}
						}
					}
				case *ast.CallExpr:
					fun := e.Fun
					for {
						if p, ok := fun.(*ast.ParenExpr); ok {
							fun = p.X
						} else {
							break
						}
					}
					// conversions are not calls
					if tv, ok := info.Types[fun]; ok && tv.IsType() {
						return true
					}
					var callee *types.Func
					var recvIface *types.Interface
					switch f := fun.(type) {
					case *ast.Ident:
						if f.Name == "panic" {
							if _, isBuiltin := info.Uses[f].(*types.Builtin); isBuiltin && !protected {
								pf.counts.explicit++
							}
							return true
						}
						if obj, ok := info.Uses[f].(*types.Func); ok {
							callee = obj
						}
					case *ast.SelectorExpr:
						if sel, ok := info.Selections[f]; ok {
							if obj, ok := sel.Obj().(*types.Func); ok {
								callee = obj
								if it, ok := sel.Recv().Underlying().(*types.Interface); ok {
									recvIface = it
								}
							}
						} else if obj, ok := info.Uses[f.Sel].(*types.Func); ok {
							callee = obj // package-qualified
						}
					}
					if protected {
						pf.protCalls++
						return true
					}
					if callee != nil {
						if callee.Name() == "panicOn" && callee.Pkg() == pkg {
							pf.counts.explicit++
						}
						if recvIface != nil {
							for _, m := range methodsByName[callee.Name()] {
								if implements(m, recvIface) {
									pf.callees[psObjName(m)] = true
								}
							}
						} else if callee.Pkg() == pkg {
							pf.callees[psObjName(callee)] = true
						}
						return true
					}
					// a call through a function value
					if _, isBuiltin := info.Uses[identOf(fun)].(*types.Builtin); isBuiltin {
						return true
					}
					if tv, ok := info.Types[fun]; ok {
						if _, isSig := tv.Type.Underlying().(*types.Signature); isSig {
							k := sigKey(tv.Type)
							pf.dynamic = append(pf.dynamic, k)
							for _, t := range takenBySig[k] {
								pf.callees[t] = true
							}
						}
					}
				}
				return true
			})
		}
		walkBody(pf.decl.Body, false)
	}
	// reachability from the roots
	var roots []string
	for _, r := range psRoots {
		if _, ok := funcs[r]; !ok {
			return "", fmt.Errorf("entry point %s not found in package zygo", r)
		}
		roots = append(roots, r)
	}
	for _, n := range order { // printing a result: every SexpString method
		if strings.HasSuffix(n, ".SexpString") {
			roots = append(roots, n)
		}
	}
	reach := map[string]bool{}
	work := append([]string{}, roots...)
	for len(work) > 0 {
		n := work[len(work)-1]
		work = work[:len(work)-1]
		if reach[n] {
			continue
		}
		reach[n] = true
		if pf, ok := funcs[n]; ok {
			for c := range pf.callees {
				if !reach[c] {
					work = append(work, c)
				}
			}
		}
	}
	var reachable, recovering []string
	for _, n := range order {
		if funcs[n].recovers {
			recovering = append(recovering, n)
		}
		if reach[n] {
			reachable = append(reachable, n)
		}
	}
	sort.Strings(reachable)
	sort.Strings(recovering)
	var rows, names []string
	tot := psCounts{}
	dyn := map[string]bool{}
	for _, n := range reachable {
		pf := funcs[n]
		for _, d := range pf.dynamic {
			dyn[n+" "+d] = true
		}
		c := pf.counts
		if c.total() == 0 {
			continue
		}
		tot.index += c.index
		tot.slice += c.slice
		tot.assert += c.assert
		tot.explicit += c.explicit
		tot.div += c.div
		tot.mapwrite += c.mapwrite
		names = append(names, LeanString(n))
		rows = append(rows, fmt.Sprintf("⟨%s, %s, %d, %d, %d, %d, %d, %d⟩", LeanString(n), LeanString(pf.file), c.index, c.slice, c.assert, c.explicit, c.div, c.mapwrite))
	}
	var dynRows []string
	for k := range dyn {
		i := strings.Index(k, " ")
		dynRows = append(dynRows, fmt.Sprintf("(%s, %s)", LeanString(k[:i]), LeanString(k[i+1:])))
	}
	sort.Strings(dynRows)
	var b strings.Builder
	b.WriteString("namespace ZygoVerif.Generated.PanicSites\n\n")
	b.WriteString("structure FnSites where\n  name : String\n  file : String\n  index : Nat\n  slice : Nat\n  assert : Nat\n  explicit : Nat\n  div : Nat\n  mapwrite : Nat\nderiving Repr, DecidableEq\n\n")
	q := func(l []string) []string {
		o := make([]string, len(l))
		for i, s := range l {
			o[i] = LeanString(s)
		}
		return o
	}
	b.WriteString("/-- script-facing entry points (plus every SexpString method: printing a result) -/\n")
	b.WriteString(LeanList("roots", "String", q(roots), 120))
	b.WriteString("\n/-- functions whose body defers a function literal that calls recover() -/\n")
	b.WriteString(LeanList("recoverFunctions", "String", q(recovering), 120))
	b.WriteString("\n/-- reachable from the roots without crossing a recover, holding ≥ 1 potentially panicking operation -/\n")
	b.WriteString(LeanList("unrecovered", "FnSites", rows, 60))
	b.WriteString("\n")
	b.WriteString(LeanList("unrecoveredNames", "String", names, 120))
	b.WriteString("\n/-- unprotected calls through a function value inside reachable functions: (function, signature) -/\n")
	b.WriteString(LeanList("dynamicCalls", "(String × String)", dynRows, 120))
	fmt.Fprintf(&b, "\ndef reachableCount : Nat := %d\ndef functionCount : Nat := %d\n", len(reachable), len(order))
	b.WriteString("\nend ZygoVerif.Generated.PanicSites\n")
	w.Facts["panicsites"] = map[string]interface{}{
		"functions": len(order), "reachable_without_recover": len(reachable), "with_panic_sites": len(rows),
		"recover_functions": recovering, "sites": map[string]int{"index": tot.index, "slice": tot.slice, "assert": tot.assert,
			"explicit": tot.explicit, "div": tot.div, "mapwrite": tot.mapwrite},
		"unprotected_dynamic_call_sites": len(dynRows),
	}
	return b.String(), nil
}

func identOf(e ast.Expr) *ast.Ident {
	if id, ok := e.(*ast.Ident); ok {
		return id
	}
	return nil
}

func emitStackSites(w *World) (string, error) {
	info := w.Info()
	type site struct{ fn, recv, via, elem string }
	var sites []site
	wrappers := map[string]bool{"Push": true, "PushExpr": true, "PushExpressions": true, "PushAddr": true, "PushScope": true, "PushAllTo": true}
	for _, f := range w.Zygo.Syntax {
		fname := w.Fset.Position(f.Pos()).Filename
		if strings.HasSuffix(fname, "_test.go") || strings.Contains(fname, "zz_verif_") {
			continue
		}
		for _, d := range f.Decls {
			fd, ok := d.(*ast.FuncDecl)
			if !ok || fd.Body == nil {
				continue
			}
			ast.Inspect(fd.Body, func(n ast.Node) bool {
				c, ok := n.(*ast.CallExpr)
				if !ok {
					return true
				}
				se, ok := c.Fun.(*ast.SelectorExpr)
				if !ok || !wrappers[se.Sel.Name] {
					return true
				}
				sel, ok := info.Selections[se]
				if !ok {
					return true
				}
				rt := sel.Recv()
				if p, ok := rt.(*types.Pointer); ok {
					rt = p.Elem()
				}
				named, ok := rt.(*types.Named)
				if !ok || named.Obj().Name() != "Stack" {
					return true
				}
				recv := types.ExprString(se.X)
				if i := strings.LastIndex(recv, "."); i >= 0 {
					recv = recv[i+1:]
				}
				elem := "-"
				if se.Sel.Name == "Push" && len(c.Args) == 1 {
					if tv, ok := info.Types[c.Args[0]]; ok {
						elem = types.TypeString(tv.Type, func(p *types.Package) string { return "" })
					}
				}
				sites = append(sites, site{psFuncName(fd), recv, se.Sel.Name, elem})
				return true
			})
		}
	}
	if len(sites) < 10 {
		return "", fmt.Errorf("only %d stack push sites found", len(sites))
	}
	sort.Slice(sites, func(i, j int) bool {
		if sites[i].fn != sites[j].fn {
			return sites[i].fn < sites[j].fn
		}
		if sites[i].recv != sites[j].recv {
			return sites[i].recv < sites[j].recv
		}
		return sites[i].via < sites[j].via
	})
	// numeric codes for the fields the Lean facts talk about (string comparison is very slow
	// in Lean's kernel); the strings stay in the table for the reader
	recvCode := func(r string) int {
		switch r {
		case "datastack":
			return 0
		case "addrstack":
			return 1
		case "loopstack":
			return 2
		case "linearstack":
			return 3
		}
		return 4
	}
	viaCode := map[string]int{"Push": 0, "PushExpr": 1, "PushExpressions": 2, "PushAddr": 3, "PushScope": 4, "PushAllTo": 5}
	elemCode := func(e string) int {
		switch e {
		case "-":
			return 0
		case "*Scope":
			return 1
		case "*Loop":
			return 2
		case "DataStackElem":
			return 3
		case "Address":
			return 4
		case "StackElem":
			return 5
		}
		return 6
	}
	fnCode := func(f string) int {
		switch f {
		case "Stack.PushExpr", "Stack.PushExpressions":
			return 1
		case "Stack.PushAddr":
			return 2
		case "Stack.PushScope":
			return 3
		case "Stack.PushAllTo", "NewClosing", "Zlisp.Clone", "Zlisp.Duplicate":
			return 4 // copies of elements of another stack
		}
		return 0
	}
	var rows []string
	for _, s := range sites {
		rows = append(rows, fmt.Sprintf("⟨%s, %s, %s, %s, %d, %d, %d, %d⟩", LeanString(s.fn), LeanString(s.recv), LeanString(s.via), LeanString(s.elem),
			fnCode(s.fn), recvCode(s.recv), viaCode[s.via], elemCode(s.elem)))
	}
	var b strings.Builder
	b.WriteString("namespace ZygoVerif.Generated.StackSites\n\n")
	b.WriteString("/-- a call of (*Stack).Push or one of its typed wrappers: enclosing function, last\ncomponent of the receiver expression, method, static type of the pushed element (`-` for the wrappers);\nthen the same four as codes — fnC: 1 Stack.PushExpr/PushExpressions, 2 Stack.PushAddr, 3 Stack.PushScope,\n4 a stack copy (Stack.PushAllTo, NewClosing, Zlisp.Clone, Zlisp.Duplicate), 0 other; recvC: 0 datastack, 1 addrstack,\n2 loopstack, 3 linearstack, 4 other; viaC: 0 Push, 1 PushExpr, 2 PushExpressions, 3 PushAddr, 4 PushScope, 5 PushAllTo;\nelemC: 0 `-`, 1 *Scope, 2 *Loop, 3 DataStackElem, 4 Address, 5 StackElem, 6 other -/\n")
	b.WriteString("structure PushSite where\n  fn : String\n  recv : String\n  via : String\n  elem : String\n  fnC : Nat\n  recvC : Nat\n  viaC : Nat\n  elemC : Nat\nderiving Repr\n\n")
	b.WriteString(LeanList("pushSites", "PushSite", rows, 100))
	b.WriteString("\nend ZygoVerif.Generated.StackSites\n")
	w.Facts["stacksites"] = map[string]interface{}{"push_sites": len(sites)}
	return b.String(), nil
}
