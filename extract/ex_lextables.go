package main

// Generated/LexTables.lean (tie T1 for C13/C12/C06): what lexer.go and parser.go SAY —
// the source strings of every regexp.MustCompile in lexer.go, the cases of EscapeChar,
// the set of canStartSignedNumberAfter, the TokenType and LexerState enums, the fields of
// the Lexer and Parser structs and the fields assigned by Lexer.Reset / Parser.Reset /
// Parser.ResetAddNewInput. Purely syntactic.

import (
	"fmt"
	"go/ast"
	"go/token"
	"sort"
	"strconv"
	"strings"
)

func init() { register(Emitter{File: "LexTables.lean", Run: emitLexTables}) }

func (w *World) fileOf(name string) *ast.File {
	for _, f := range w.Zygo.Syntax {
		if strings.HasSuffix(w.Fset.Position(f.Pos()).Filename, "/"+name) {
			return f
		}
	}
	return nil
}

func constEnum(f *ast.File, typ string) []string {
	var out []string
	for _, d := range f.Decls {
		gd, ok := d.(*ast.GenDecl)
		if !ok || gd.Tok != token.CONST {
			continue
		}
		hit := false
		for i, s := range gd.Specs {
			vs := s.(*ast.ValueSpec)
			if i == 0 {
				if id, ok := vs.Type.(*ast.Ident); ok && id.Name == typ {
					hit = true
				}
			}
			if hit {
				for _, n := range vs.Names {
					out = append(out, n.Name)
				}
			}
		}
		if hit {
			return out
		}
	}
	return nil
}

func structFields(f *ast.File, name string) []string {
	var out []string
	ast.Inspect(f, func(n ast.Node) bool {
		ts, ok := n.(*ast.TypeSpec)
		if !ok || ts.Name.Name != name {
			return true
		}
		if st, ok := ts.Type.(*ast.StructType); ok {
			for _, fl := range st.Fields.List {
				for _, n := range fl.Names {
					out = append(out, n.Name)
				}
			}
		}
		return false
	})
	return out
}

// fields of the receiver that a method assigns (recv.f = …) or clears by a call
// recv.f.Reset(); calls recv.g.M() to other methods are listed as "call:g.M".
func assignedFields(fd *ast.FuncDecl) []string {
	if fd == nil || fd.Recv == nil || len(fd.Recv.List) == 0 || len(fd.Recv.List[0].Names) == 0 {
		return nil
	}
	recv := fd.Recv.List[0].Names[0].Name
	set := map[string]bool{}
	sel := func(e ast.Expr) (string, bool) {
		if s, ok := e.(*ast.SelectorExpr); ok {
			if id, ok := s.X.(*ast.Ident); ok && id.Name == recv {
				return s.Sel.Name, true
			}
		}
		return "", false
	}
	ast.Inspect(fd.Body, func(n ast.Node) bool {
		switch t := n.(type) {
		case *ast.AssignStmt:
			for _, l := range t.Lhs {
				if f, ok := sel(l); ok {
					set[f] = true
				}
			}
		case *ast.CallExpr:
			if s, ok := t.Fun.(*ast.SelectorExpr); ok {
				if f, ok := sel(s.X); ok {
					if s.Sel.Name == "Reset" && f == "buffer" {
						set[f] = true
					} else {
						set["call:"+f+"."+s.Sel.Name] = true
					}
				}
			}
		}
		return true
	})
	var out []string
	for k := range set {
		out = append(out, k)
	}
	sort.Strings(out)
	return out
}

// assignedFieldsOf: as assignedFields, but what a helper method of the same receiver type does
// counts as done by the caller (ex_resetorder.go: orderedEffects), so that factoring the
// teardown out into a helper does not change the table. Falls back to the body alone when
// the method is not straight-line code.
func (w *World) assignedFieldsOf(typ, method string) []string {
	eff, err := w.orderedEffects(typ, method)
	if err != nil {
		return assignedFields(w.FuncDecl(typ + "." + method))
	}
	set := map[string]bool{}
	for _, e := range eff {
		switch {
		case e == "call:buffer.Reset":
			set["buffer"] = true
		case strings.HasPrefix(e, "assign:"):
			set[strings.TrimPrefix(e, "assign:")] = true
		default:
			set[e] = true
		}
	}
	var out []string
	for k := range set {
		out = append(out, k)
	}
	sort.Strings(out)
	return out
}

func runeLit(e ast.Expr) (int, bool) {
	bl, ok := e.(*ast.BasicLit)
	if !ok {
		return 0, false
	}
	switch bl.Kind {
	case token.CHAR:
		r, _, _, err := strconv.UnquoteChar(bl.Value[1:len(bl.Value)-1], '\'')
		if err != nil {
			return 0, false
		}
		return int(r), true
	case token.INT:
		n, err := strconv.Atoi(bl.Value)
		return n, err == nil
	}
	return 0, false
}

func leanStrList(name string, l []string) string {
	var q []string
	for _, s := range l {
		q = append(q, LeanString(s))
	}
	return fmt.Sprintf("def %s : List String := [%s]\n", name, strings.Join(q, ", "))
}

func emitLexTables(w *World) (string, error) {
	lf := w.fileOf("lexer.go")
	pf := w.fileOf("parser.go")
	if lf == nil || pf == nil {
		return "", fmt.Errorf("lexer.go / parser.go not found")
	}
	var b strings.Builder
	b.WriteString("namespace ZygoVerif.Generated.LexTables\n\n")

	tt := constEnum(lf, "TokenType")
	ls := constEnum(lf, "LexerState")
	if len(tt) == 0 || len(ls) == 0 {
		return "", fmt.Errorf("TokenType / LexerState const blocks not found")
	}
	b.WriteString(leanStrList("tokenTypes", tt))
	b.WriteString(leanStrList("lexerStates", ls))

	// regexps: package-level `X = regexp.MustCompile(<string literal>)` in lexer.go
	var rx []string
	ast.Inspect(lf, func(n ast.Node) bool {
		vs, ok := n.(*ast.ValueSpec)
		if !ok || len(vs.Names) != 1 || len(vs.Values) != 1 {
			return true
		}
		call, ok := vs.Values[0].(*ast.CallExpr)
		if !ok {
			return true
		}
		if s, ok := call.Fun.(*ast.SelectorExpr); ok && s.Sel.Name == "MustCompile" && len(call.Args) == 1 {
			if bl, ok := call.Args[0].(*ast.BasicLit); ok && bl.Kind == token.STRING {
				v, err := strconv.Unquote(bl.Value)
				if err == nil {
					rx = append(rx, fmt.Sprintf("(%s, %s)", LeanString(vs.Names[0].Name), LeanString(v)))
				}
			}
		}
		return true
	})
	if len(rx) == 0 {
		return "", fmt.Errorf("no regexp.MustCompile found in lexer.go")
	}
	fmt.Fprintf(&b, "def regexes : List (String × String) := [%s]\n", strings.Join(rx, ",\n  "))

	// EscapeChar: switch char { case 'n': return '\n', nil … }
	esc := w.FuncDecl("EscapeChar")
	if esc == nil {
		return "", fmt.Errorf("EscapeChar not found")
	}
	var ec []string
	bad := false
	ast.Inspect(esc.Body, func(n ast.Node) bool {
		cc, ok := n.(*ast.CaseClause)
		if !ok {
			return true
		}
		if len(cc.List) != 1 || len(cc.Body) != 1 {
			bad = true
			return false
		}
		from, ok1 := runeLit(cc.List[0])
		ret, ok2 := cc.Body[0].(*ast.ReturnStmt)
		if !ok1 || !ok2 || len(ret.Results) != 2 {
			bad = true
			return false
		}
		to, ok3 := runeLit(ret.Results[0])
		if id, ok := ret.Results[1].(*ast.Ident); !ok3 || !ok || id.Name != "nil" {
			bad = true
			return false
		}
		ec = append(ec, fmt.Sprintf("(%d, %d)", from, to))
		return false
	})
	if bad || len(ec) == 0 {
		return "", fmt.Errorf("EscapeChar left the readable shape")
	}
	fmt.Fprintf(&b, "def escapeCases : List (Nat × Nat) := [%s]\n", strings.Join(ec, ", "))

	cs := w.FuncDecl("canStartSignedNumberAfter")
	if cs == nil {
		return "", fmt.Errorf("canStartSignedNumberAfter not found")
	}
	var set []string
	ast.Inspect(cs.Body, func(n ast.Node) bool {
		cc, ok := n.(*ast.CaseClause)
		if !ok || cc.List == nil {
			return true
		}
		for _, e := range cc.List {
			if v, ok := runeLit(e); ok {
				set = append(set, strconv.Itoa(v))
			} else {
				bad = true
			}
		}
		return false
	})
	if bad || len(set) == 0 {
		return "", fmt.Errorf("canStartSignedNumberAfter left the readable shape")
	}
	fmt.Fprintf(&b, "def canStartSet : List Nat := [%s]\n", strings.Join(set, ", "))

	b.WriteString(leanStrList("lexerFields", structFields(lf, "Lexer")))
	b.WriteString(leanStrList("parserFields", structFields(pf, "Parser")))
	b.WriteString(leanStrList("lexerResetAssigns", w.assignedFieldsOf("Lexer", "Reset")))
	b.WriteString(leanStrList("parserResetAssigns", w.assignedFieldsOf("Parser", "Reset")))
	b.WriteString(leanStrList("parserResetAddNewInputAssigns", w.assignedFieldsOf("Parser", "ResetAddNewInput")))
	b.WriteString("\nend ZygoVerif.Generated.LexTables\n")
	return b.String(), nil
}
