package main

// InfixTable.lean (C06): the operator table that InitInfixOps builds, read syntactically.
//
//   entries      one Entry per constructor call  env.Infix/Infixr/Prefix/Assignment/PostfixAssign("op", bp)
//                in source order, with the munchers that the statements after it override
//                (x.MunchRight = f / x.MunchLeft = f; a function literal is named "funclit:<first Expression rbp>…")
//   arrayOpBp    the Bp of the global arrayOp literal, arrayOpLed its MunchLeft
//   ctorRbp      for each constructor the source text of the right binding power its closure passes to
//                pr.Expression (bp, bp-1, … ; "" when the closure does not recurse)
//   nudRbps      for each named/literal overriding muncher the integer rbp arguments of its pr.Expression calls
//   lbpArms      the type switch of LeftBindingPower: per case clause the type names and, in source
//                order, (guard text, returned constant | none = op.Bp)
//
// The emitter refuses (returns an error) when InitInfixOps contains a statement it cannot classify.

import (
	"bytes"
	"fmt"
	"go/ast"
	"go/printer"
	"go/token"
	"strconv"
	"strings"
)

type infixEntry struct {
	name, ctor, nud, led string
	bp                   int
}

func srcText(w *World, n ast.Node) string {
	var b bytes.Buffer
	printer.Fprint(&b, w.Fset, n)
	return strings.Join(strings.Fields(b.String()), " ")
}

// exprRbps lists the second arguments of every pr.Expression(env, X) call below n.
func exprRbps(w *World, n ast.Node) []string {
	var out []string
	ast.Inspect(n, func(x ast.Node) bool {
		c, ok := x.(*ast.CallExpr)
		if !ok {
			return true
		}
		sel, ok := c.Fun.(*ast.SelectorExpr)
		if ok && sel.Sel.Name == "Expression" && len(c.Args) == 2 {
			out = append(out, srcText(w, c.Args[1]))
		}
		return true
	})
	return out
}

func intLit(e ast.Expr) (int, bool) {
	bl, ok := e.(*ast.BasicLit)
	if !ok || bl.Kind != token.INT {
		return 0, false
	}
	v, err := strconv.Atoi(bl.Value)
	return v, err == nil
}

func strLit(e ast.Expr) (string, bool) {
	bl, ok := e.(*ast.BasicLit)
	if !ok || bl.Kind != token.STRING {
		return "", false
	}
	s, err := strconv.Unquote(bl.Value)
	return s, err == nil
}

var infixCtors = map[string]string{"Infix": "infix", "Infixr": "infixr", "Prefix": "prefix",
	"Assignment": "assignment", "PostfixAssign": "postfixAssign"}

func ctorCall(e ast.Expr) (ctor, op string, bp int, ok bool) {
	c, isCall := e.(*ast.CallExpr)
	if !isCall {
		return
	}
	sel, isSel := c.Fun.(*ast.SelectorExpr)
	if !isSel {
		return
	}
	recv, isId := sel.X.(*ast.Ident)
	if !isId || recv.Name != "env" {
		return
	}
	k, known := infixCtors[sel.Sel.Name]
	if !known || len(c.Args) != 2 {
		return
	}
	s, ok1 := strLit(c.Args[0])
	n, ok2 := intLit(c.Args[1])
	if !ok1 || !ok2 {
		return
	}
	return k, s, n, true
}

// muncherName: the normalised name of an overriding muncher (function name; "funclit" for a literal).
func muncherName(w *World, e ast.Expr) string {
	switch x := e.(type) {
	case *ast.Ident:
		return x.Name
	case *ast.CallExpr:
		if id, ok := x.Fun.(*ast.Ident); ok {
			return id.Name
		}
		return srcText(w, x.Fun)
	case *ast.FuncLit:
		return "funclit"
	}
	return srcText(w, e)
}

func muncherDetail(w *World, e ast.Expr) string {
	switch x := e.(type) {
	case *ast.FuncLit:
		return strings.Join(exprRbps(w, x), ",") + ":" + funcLitSymbols(x)
	}
	return srcText(w, e)
}

// funcLitSymbols: the string literals passed to MakeSymbol / compared with sym.name inside a literal
// muncher (identifies the `if` lowering: cond, else).
func funcLitSymbols(n ast.Node) string {
	var out []string
	ast.Inspect(n, func(x ast.Node) bool {
		if bl, ok := x.(*ast.BasicLit); ok && bl.Kind == token.STRING {
			if s, err := strconv.Unquote(bl.Value); err == nil {
				out = append(out, s)
			}
		}
		return true
	})
	return strings.Join(out, ",")
}

func init() {
	register(Emitter{File: "InfixTable.lean", Run: func(w *World) (string, error) {
		fd := w.FuncDecl("Zlisp.InitInfixOps")
		if fd == nil || fd.Body == nil {
			return "", fmt.Errorf("Zlisp.InitInfixOps not found")
		}
		var entries []*infixEntry
		vars := map[string]*infixEntry{}
		var details []string
		litRbps := map[string][]string{}
		arrayBp, arrayLed := -1, ""
		for _, st := range fd.Body.List {
			switch s := st.(type) {
			case *ast.ExprStmt:
				k, op, bp, ok := ctorCall(s.X)
				if !ok {
					return "", fmt.Errorf("InitInfixOps: unreadable statement %q", srcText(w, s))
				}
				entries = append(entries, &infixEntry{name: op, ctor: k, bp: bp})
			case *ast.AssignStmt:
				if len(s.Lhs) != 1 || len(s.Rhs) != 1 {
					return "", fmt.Errorf("InitInfixOps: unreadable assignment %q", srcText(w, s))
				}
				if k, op, bp, ok := ctorCall(s.Rhs[0]); ok {
					id, isId := s.Lhs[0].(*ast.Ident)
					if !isId {
						return "", fmt.Errorf("InitInfixOps: unreadable assignment %q", srcText(w, s))
					}
					e := &infixEntry{name: op, ctor: k, bp: bp}
					entries = append(entries, e)
					vars[id.Name] = e
					continue
				}
				if id, isId := s.Lhs[0].(*ast.Ident); isId && id.Name == "arrayOp" {
					u, isU := s.Rhs[0].(*ast.UnaryExpr)
					if !isU {
						return "", fmt.Errorf("arrayOp: not a literal")
					}
					cl, isCl := u.X.(*ast.CompositeLit)
					if !isCl {
						return "", fmt.Errorf("arrayOp: not a literal")
					}
					for _, el := range cl.Elts {
						kv, isKV := el.(*ast.KeyValueExpr)
						if !isKV {
							return "", fmt.Errorf("arrayOp: unkeyed literal")
						}
						key := srcText(w, kv.Key)
						switch key {
						case "Bp":
							n, ok := intLit(kv.Value)
							if !ok {
								return "", fmt.Errorf("arrayOp.Bp not a constant")
							}
							arrayBp = n
						case "MunchLeft":
							arrayLed = muncherName(w, kv.Value)
						default:
							return "", fmt.Errorf("arrayOp: unexpected field %s", key)
						}
					}
					continue
				}
				sel, isSel := s.Lhs[0].(*ast.SelectorExpr)
				if !isSel {
					return "", fmt.Errorf("InitInfixOps: unreadable assignment %q", srcText(w, s))
				}
				id, isId := sel.X.(*ast.Ident)
				if !isId || vars[id.Name] == nil {
					return "", fmt.Errorf("InitInfixOps: override on unknown variable in %q", srcText(w, s)[:40])
				}
				switch sel.Sel.Name {
				case "MunchRight":
					vars[id.Name].nud = muncherName(w, s.Rhs[0])
					details = append(details, fmt.Sprintf("(%s, %s)", LeanString(vars[id.Name].name), LeanString(muncherDetail(w, s.Rhs[0]))))
					if fl, ok := s.Rhs[0].(*ast.FuncLit); ok {
						litRbps[vars[id.Name].name] = exprRbps(w, fl)
					}
				case "MunchLeft":
					vars[id.Name].led = muncherName(w, s.Rhs[0])
					details = append(details, fmt.Sprintf("(%s, %s)", LeanString(vars[id.Name].name), LeanString(muncherDetail(w, s.Rhs[0]))))
				default:
					return "", fmt.Errorf("InitInfixOps: override of field %s", sel.Sel.Name)
				}
			default:
				return "", fmt.Errorf("InitInfixOps: unreadable statement %q", srcText(w, st))
			}
		}
		if arrayBp < 0 {
			return "", fmt.Errorf("arrayOp literal not found in InitInfixOps")
		}

		var b strings.Builder
		b.WriteString("namespace ZygoVerif.Generated.InfixTable\n\n")
		b.WriteString("inductive Ctor where\n  | infix | infixr | prefix | assignment | postfixAssign\nderiving DecidableEq, Repr\n\n")
		b.WriteString("structure Entry where\n  name : String\n  bp : Nat\n  ctor : Ctor\n  nud : String\n  led : String\nderiving DecidableEq, Repr\n\n")
		var es []string
		for _, e := range entries {
			es = append(es, fmt.Sprintf("⟨%s, %d, .%s, %s, %s⟩", LeanString(e.name), e.bp, e.ctor, LeanString(e.nud), LeanString(e.led)))
		}
		b.WriteString("/-- InitInfixOps, in source order (a later entry for the same name replaces an earlier one). -/\n")
		fmt.Fprintf(&b, "def entries : List Entry := [\n  %s]\n\n", strings.Join(es, ",\n  "))
		fmt.Fprintf(&b, "def arrayOpBp : Nat := %d\ndef arrayOpLed : String := %s\n\n", arrayBp, LeanString(arrayLed))
		fmt.Fprintf(&b, "/-- source text of the overriding munchers (operator, text). -/\ndef overrideDetails : List (String × String) := [\n  %s]\n\n", strings.Join(details, ",\n  "))
		// numeric right binding powers of the munchers that recurse with constants
		natList := func(xs []string) (string, error) {
			var out []string
			for _, x := range xs {
				if _, err := strconv.Atoi(x); err != nil {
					return "", fmt.Errorf("rbp %q of an overriding muncher is not an integer constant", x)
				}
				out = append(out, x)
			}
			return "[" + strings.Join(out, ", ") + "]", nil
		}
		ifr, err := natList(litRbps["if"])
		if err != nil {
			return "", err
		}
		fmt.Fprintf(&b, "/-- rbp arguments of the pr.Expression calls in the `if` muncher (condition, then, else). -/\ndef ifRbps : List Nat := %s\n", ifr)
		sd := w.FuncDecl("starOpMunchRight")
		if sd == nil {
			return "", fmt.Errorf("starOpMunchRight not found")
		}
		sr, err := natList(exprRbps(w, sd))
		if err != nil {
			return "", err
		}
		fmt.Fprintf(&b, "/-- rbp arguments of the pr.Expression calls in starOpMunchRight. -/\ndef starRbps : List Nat := %s\n\n", sr)

		// constructor closures: the rbp they pass to pr.Expression, and the symbols they mention
		var cr []string
		for _, c := range []string{"Infix", "Infixr", "Prefix", "Assignment", "PostfixAssign"} {
			cd := w.FuncDecl("Zlisp." + c)
			if cd == nil {
				return "", fmt.Errorf("constructor %s not found", c)
			}
			cr = append(cr, fmt.Sprintf("(%s, %s, %s)", LeanString(c), LeanString(strings.Join(exprRbps(w, cd), ",")), LeanString(funcLitSymbols(cd))))
		}
		b.WriteString("/-- (constructor, rbp expressions of its pr.Expression calls, string literals it mentions). -/\n")
		fmt.Fprintf(&b, "def ctorRbp : List (String × String × String) := [\n  %s]\n\n", strings.Join(cr, ",\n  "))

		// named overriding munchers
		var nr []string
		for _, fn := range []string{"starOpMunchRight", "arrayOpMunchLeft", "dotOpMunchLeft", "forOpMunchRight", "loopControlOpMunchRight"} {
			cd := w.FuncDecl(fn)
			if cd == nil {
				continue
			}
			nr = append(nr, fmt.Sprintf("(%s, %s, %s)", LeanString(fn), LeanString(strings.Join(exprRbps(w, cd), ",")), LeanString(funcLitSymbols(cd))))
		}
		fmt.Fprintf(&b, "def muncherRbp : List (String × String × String) := [\n  %s]\n\n", strings.Join(nr, ",\n  "))

		// LeftBindingPower
		ld := w.FuncDecl("Zlisp.LeftBindingPower")
		if ld == nil {
			return "", fmt.Errorf("LeftBindingPower not found")
		}
		var ts *ast.TypeSwitchStmt
		for _, st := range ld.Body.List {
			if x, ok := st.(*ast.TypeSwitchStmt); ok {
				ts = x
			}
		}
		if ts == nil {
			return "", fmt.Errorf("LeftBindingPower: no type switch")
		}
		var arms []string
		for _, cc := range ts.Body.List {
			cl := cc.(*ast.CaseClause)
			var tys []string
			for _, t := range cl.List {
				tys = append(tys, LeanString(strings.TrimPrefix(srcText(w, t), "*")))
			}
			var rets []string
			var walk func(n ast.Node, guard string) error
			walk = func(n ast.Node, guard string) error {
				switch x := n.(type) {
				case *ast.ReturnStmt:
					if len(x.Results) != 2 {
						return fmt.Errorf("LeftBindingPower: odd return")
					}
					if v, ok := intLit(x.Results[0]); ok {
						rets = append(rets, fmt.Sprintf("(%s, some %d)", LeanString(guard), v))
					} else if srcText(w, x.Results[0]) == "op.Bp" {
						rets = append(rets, fmt.Sprintf("(%s, none)", LeanString(guard)))
					} else {
						return fmt.Errorf("LeftBindingPower: unreadable return %q", srcText(w, x))
					}
				case *ast.IfStmt:
					if x.Else != nil || x.Init != nil {
						return fmt.Errorf("LeftBindingPower: if with else/init")
					}
					g := srcText(w, x.Cond)
					if guard != "" {
						g = guard + " && " + g
					}
					for _, s := range x.Body.List {
						if err := walk(s, g); err != nil {
							return err
						}
					}
				case *ast.SwitchStmt, *ast.TypeSwitchStmt:
					// nested switch (SexpPair head test): record its returns under the guard "switch"
					var err error
					ast.Inspect(x, func(y ast.Node) bool {
						if r, ok := y.(*ast.ReturnStmt); ok && err == nil {
							err = walk(r, strings.TrimSpace(guard+" switch"))
							return false
						}
						return true
					})
					return err
				case *ast.AssignStmt, *ast.ExprStmt, *ast.DeclStmt:
					// `op, found := env.infixOps[x.name]` and comments
				default:
					return fmt.Errorf("LeftBindingPower: unreadable statement %q", srcText(w, n))
				}
				return nil
			}
			for _, s := range cl.Body {
				if err := walk(s, ""); err != nil {
					return "", err
				}
			}
			arms = append(arms, fmt.Sprintf("⟨[%s], [%s]⟩", strings.Join(tys, ", "), strings.Join(rets, ", ")))
		}
		b.WriteString("structure LbpArm where\n  types : List String\n  returns : List (String × Option Nat)\nderiving DecidableEq, Repr\n\n")
		b.WriteString("/-- The type switch of LeftBindingPower: (guard, constant); `none` stands for `op.Bp`. -/\n")
		fmt.Fprintf(&b, "def lbpArms : List LbpArm := [\n  %s]\n\n", strings.Join(arms, ",\n  "))
		b.WriteString("end ZygoVerif.Generated.InfixTable\n")
		w.Facts["infix_entries"] = len(entries)
		return b.String(), nil
	}})
}
