package main

import (
	"fmt"
	"go/ast"
	"go/types"
	"sort"
	"strings"
)

// ErrDiscard.lean (C05): every call, inside a method of *Generator or inside a function
// whose name starts with "Generate"/"generate"/"build", to a function or method whose last
// result is `error`, where that error result is dropped — either the call is an expression
// statement or the error position is assigned to `_`. A compile error of a nested form
// that is dropped this way turns into a successful (wrong) compilation.
func init() {
	register(Emitter{File: "ErrDiscard.lean", Run: func(w *World) (string, error) {
		info := w.Info()
		errType := types.Universe.Lookup("error").Type()
		returnsErr := func(call *ast.CallExpr) (bool, string) {
			tv, ok := info.Types[call.Fun]
			if !ok {
				return false, ""
			}
			sig, ok := tv.Type.Underlying().(*types.Signature)
			if !ok || sig.Results().Len() == 0 {
				return false, ""
			}
			last := sig.Results().At(sig.Results().Len() - 1).Type()
			if !types.Identical(last, errType) {
				return false, ""
			}
			name := "?"
			switch f := call.Fun.(type) {
			case *ast.Ident:
				name = f.Name
			case *ast.SelectorExpr:
				name = f.Sel.Name
			}
			return true, name
		}
		type site struct{ fn, callee string }
		var sites []site
		inScope := func(fd *ast.FuncDecl) bool {
			if fd.Recv != nil && len(fd.Recv.List) == 1 && recvName(fd.Recv.List[0].Type) == "Generator" {
				return true
			}
			n := fd.Name.Name
			return strings.HasPrefix(n, "Generate") || strings.HasPrefix(n, "generate") || n == "buildSexpFun"
		}
		relevantCallee := func(n string) bool {
			return strings.HasPrefix(n, "Generate") || strings.HasPrefix(n, "generate") || n == "buildSexpFun"
		}
		for _, f := range w.Zygo.Syntax {
			for _, d := range f.Decls {
				fd, ok := d.(*ast.FuncDecl)
				if !ok || fd.Body == nil || !inScope(fd) {
					continue
				}
				fname := fd.Name.Name
				ast.Inspect(fd.Body, func(n ast.Node) bool {
					switch s := n.(type) {
					case *ast.ExprStmt:
						if call, ok := s.X.(*ast.CallExpr); ok {
							if r, callee := returnsErr(call); r && relevantCallee(callee) {
								sites = append(sites, site{fname, callee})
							}
						}
					case *ast.AssignStmt:
						if len(s.Rhs) == 1 {
							if call, ok := s.Rhs[0].(*ast.CallExpr); ok {
								if r, callee := returnsErr(call); r && relevantCallee(callee) {
									if id, ok := s.Lhs[len(s.Lhs)-1].(*ast.Ident); ok && id.Name == "_" {
										sites = append(sites, site{fname, callee})
									}
								}
							}
						}
					case *ast.DeferStmt, *ast.GoStmt:
						// not used for Generate* calls
					}
					return true
				})
			}
		}
		sort.Slice(sites, func(i, j int) bool {
			if sites[i].fn != sites[j].fn {
				return sites[i].fn < sites[j].fn
			}
			return sites[i].callee < sites[j].callee
		})
		var elems []string
		for _, s := range sites {
			elems = append(elems, fmt.Sprintf("(%s, %s)", LeanString(s.fn), LeanString(s.callee)))
		}
		w.Facts["generate_err_discards"] = len(sites)
		var b strings.Builder
		b.WriteString("namespace ZygoVerif.Generated.ErrDiscard\n")
		b.WriteString("/-- (enclosing function, callee) for every Generate*/generate*/buildSexpFun call in the\ncompiler whose error result is dropped. -/\n")
		b.WriteString(LeanList("discardSites", "(String × String)", elems, 100))
		b.WriteString("end ZygoVerif.Generated.ErrDiscard\n")
		return b.String(), nil
	}})
}
