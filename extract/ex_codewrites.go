package main

import (
	"fmt"
	"go/ast"
	"go/token"
	"go/types"
	"sort"
	"strings"
)

// CodeWrites.lean (C04): writes to COMPILED-CODE objects.
//
// A compiled-code object is a value of a type that the generator produces and that every
// activation of the compiled function shares: the types implementing `Instruction`, the
// loop record `Loop` (hung off LoopStart/Break/Continue instructions by pointer) and the
// function template `SexpFunction` (closures are copies of it; the instruction slice `fun`
// is shared by all copies). Anything the VM stores in such an object WHILE RUNNING is
// state of the code, not of an activation: a recursive activation overwrites it and the
// outer activation reads the stale value when it resumes (seeded change C04-m3: the scope
// depth noted in `Loop` at loop entry). The stack-effect machine of Model/StackEffect.lean
// and the VM model have no such state; this table is what ties that to the source.
//
// `codeWrites`: (enclosing top-level function, "Type.field", how) for every place of package
// zygo where a field of a compiled-code type is
//
//	assigned (`x.f = v`, `x.f op= v`, `x.f++`, `x.f[i] = v`, `x.f.g = v` — the field nearest to
//	the write whose operand is a compiled-code object is reported), has its address taken
//	(`&x.f`, how = "addr"), or is written by a pointer-receiver method called on the object
//	(`x.M()`, reported as "Type.M()", how = "call"; the method's own writes are listed under
//	its name),
//
// UNLESS the object is under construction in that very function: the root of the selector
// chain is a local variable whose every definition in the function is a composite literal,
// `&T{…}`, `new(T)`, a dereferencing copy `*p`, or a call of a function named Copy/Clone (the
// closure copy) or whose name starts with New/Make/make (how = the root is "fresh"); those are not listed.
// Writes through a VALUE receiver or value parameter to its direct field only change the
// callee's copy; they are listed with how = "copy" (the table in Props/C04Reent.lean must
// still name them: a value receiver that becomes a pointer receiver changes the meaning
// without changing the statement).
// `codeGlobals`: package-level variables whose type holds, or is keyed by, compiled-code objects
// (`var depthOf = map[*Loop]int{}` is state of the code just as a field is).
// `codeTypes`: the compiled-code types, for the record.
//
// Props/C04Reent.lean proves by `decide` that `codeWrites` is EXACTLY a committed list in
// which every entry carries its justification (why the stored value is the same for all
// activations). A new written field breaks that theorem.
func init() {
	register(Emitter{File: "CodeWrites.lean", Run: func(w *World) (string, error) {
		info := w.Info()
		scope := w.Zygo.Types.Scope()
		obj := scope.Lookup("Instruction")
		if obj == nil {
			return "", fmt.Errorf("type Instruction not found")
		}
		iface, ok := obj.Type().Underlying().(*types.Interface)
		if !ok {
			return "", fmt.Errorf("Instruction is not an interface")
		}
		code := map[string]bool{}
		for _, n := range scope.Names() {
			tn, ok := scope.Lookup(n).(*types.TypeName)
			if !ok || tn.IsAlias() || n == "Instruction" {
				continue
			}
			if _, isIface := tn.Type().Underlying().(*types.Interface); isIface {
				continue
			}
			if types.Implements(tn.Type(), iface) || types.Implements(types.NewPointer(tn.Type()), iface) {
				code[n] = true
			}
		}
		for _, n := range []string{"Loop", "SexpFunction"} {
			if scope.Lookup(n) == nil {
				return "", fmt.Errorf("type %s not found", n)
			}
			code[n] = true
		}
		// named type (through pointers) of an expression, if it is one of ours
		codeTypeOf := func(e ast.Expr) string {
			tv, ok := info.Types[e]
			if !ok {
				return ""
			}
			t := tv.Type
			for {
				if p, ok := t.(*types.Pointer); ok {
					t = p.Elem()
					continue
				}
				break
			}
			if nt, ok := t.(*types.Named); ok && nt.Obj().Pkg() == w.Zygo.Types && code[nt.Obj().Name()] {
				return nt.Obj().Name()
			}
			return ""
		}
		isPointer := func(e ast.Expr) bool {
			tv, ok := info.Types[e]
			if !ok {
				return false
			}
			_, p := tv.Type.(*types.Pointer)
			return p
		}
		type site struct{ fn, field, how string }
		seen := map[site]bool{}
		var sites []site
		// writer methods: pointer-receiver methods of compiled-code types that (transitively, through
		// calls on their own receiver) write a field of the receiver; a call `x.M()` of one is a write
		// at the call site, named "Type.M()".
		writers := map[string]bool{}
		for round := 0; round < 6; round++ {
			seen = map[site]bool{}
			sites = nil
			nw := len(writers)
			for _, f := range w.Zygo.Syntax {
				if strings.HasSuffix(w.Fset.Position(f.Pos()).Filename, "_test.go") {
					continue
				}
				// function literals in package-level initialisers are scanned as functions named "var <name>"
				var decls []ast.Decl
				for _, d := range f.Decls {
					decls = append(decls, d)
					if gd, ok := d.(*ast.GenDecl); ok && gd.Tok == token.VAR {
						for _, sp := range gd.Specs {
							vs, ok := sp.(*ast.ValueSpec)
							if !ok {
								continue
							}
							for i, val := range vs.Values {
								name := "?"
								if i < len(vs.Names) {
									name = vs.Names[i].Name
								}
								decls = append(decls, &ast.FuncDecl{
									Name: ast.NewIdent("var " + name),
									Type: &ast.FuncType{Params: &ast.FieldList{}},
									Body: &ast.BlockStmt{List: []ast.Stmt{&ast.ExprStmt{X: val}}},
								})
							}
						}
					}
				}
				for _, d := range decls {
					fd, ok := d.(*ast.FuncDecl)
					if !ok || fd.Body == nil {
						continue
					}
					fname := fd.Name.Name
					if fd.Recv != nil && len(fd.Recv.List) == 1 {
						fname = recvName(fd.Recv.List[0].Type) + "." + fname
					}
					// locals of this function that only ever hold a freshly made object
					fresh := map[types.Object]bool{}
					stale := map[types.Object]bool{}
					isFreshExpr := func(e ast.Expr) bool {
						switch x := unparen(e).(type) {
						case *ast.CompositeLit:
							return true
						case *ast.UnaryExpr:
							if x.Op == token.AND {
								_, ok := unparen(x.X).(*ast.CompositeLit)
								return ok
							}
						case *ast.StarExpr:
							return true // a copy of the pointed-to struct
						case *ast.CallExpr:
							name := ""
							switch g := x.Fun.(type) {
							case *ast.Ident:
								name = g.Name
							case *ast.SelectorExpr:
								name = g.Sel.Name
							}
							return name == "new" || name == "Copy" || name == "Clone" || strings.HasPrefix(name, "New") || strings.HasPrefix(name, "Make") || strings.HasPrefix(name, "make")
						}
						return false
					}
					note := func(lhs ast.Expr, rhs ast.Expr) {
						id, ok := lhs.(*ast.Ident)
						if !ok {
							return
						}
						o := info.Defs[id]
						if o == nil {
							o = info.Uses[id]
						}
						if o == nil {
							return
						}
						if rhs != nil && isFreshExpr(rhs) {
							fresh[o] = true
						} else {
							stale[o] = true
						}
					}
					ast.Inspect(fd.Body, func(n ast.Node) bool {
						switch s := n.(type) {
						case *ast.AssignStmt:
							if len(s.Lhs) == len(s.Rhs) {
								for i := range s.Lhs {
									note(s.Lhs[i], s.Rhs[i])
								}
							} else {
								for i := range s.Lhs {
									note(s.Lhs[i], nil)
								}
							}
						case *ast.ValueSpec:
							for i, id := range s.Names {
								if i < len(s.Values) {
									note(id, s.Values[i])
								} else if s.Type != nil {
									// `var x T`: a zero value of a struct type is a fresh object, a nil pointer is not an object
									if o := info.Defs[id]; o != nil {
										if _, isPtr := o.Type().(*types.Pointer); !isPtr {
											fresh[o] = true
										} // a nil pointer is no object: what is assigned later decides
									}
								}
							}
						case *ast.RangeStmt:
							if s.Key != nil {
								note(s.Key, nil)
							}
							if s.Value != nil {
								note(s.Value, nil)
							}
						}
						return true
					})
					params := map[types.Object]bool{}
					addParams := func(fl *ast.FieldList) {
						if fl == nil {
							return
						}
						for _, fld := range fl.List {
							for _, id := range fld.Names {
								if o := info.Defs[id]; o != nil {
									params[o] = true
								}
							}
						}
					}
					addParams(fd.Recv)
					addParams(fd.Type.Params)

					// report: lhs is an expression that is written (or whose address is taken)
					add := func(field, how string) {
						k := site{fname, field, how}
						if !seen[k] {
							seen[k] = true
							sites = append(sites, k)
						}
					}
					var reportFrom func(lhs ast.Expr, field string, shared bool, how string)
					report := func(lhs ast.Expr, how string) { reportFrom(lhs, "", false, how) }
					reportFrom = func(lhs ast.Expr, field string, shared bool, how string) {
						// Walk from the written place down to the root of the chain. The field reported is
						// the one nearest to the WRITE whose operand is a compiled-code object (`a.sfun.parent`
						// writes SexpFunction.parent; `x.f[i]`, `x.f.g` with a plain struct f write X.f).
						// `shared`: between the root and that object the chain passes through a pointer,
						// slice or map, so the write lands in memory other holders of the object see.
						e := unparen(lhs)
						var root *ast.Ident
					walk:
						for {
							switch x := e.(type) {
							case *ast.SelectorExpr:
								if field == "" {
									if t := codeTypeOf(x.X); t != "" {
										field = t + "." + x.Sel.Name
									}
								}
								if field != "" && isPointer(x.X) {
									shared = true
								}
								e = unparen(x.X)
							case *ast.IndexExpr:
								if field != "" {
									if tv, ok := info.Types[x.X]; ok {
										switch tv.Type.Underlying().(type) {
										case *types.Slice, *types.Map, *types.Pointer:
											shared = true
										}
									}
								}
								e = unparen(x.X)
							case *ast.StarExpr:
								if field != "" {
									shared = true
								}
								e = unparen(x.X)
							case *ast.SliceExpr:
								e = unparen(x.X)
							case *ast.TypeAssertExpr:
								if field != "" {
									shared = true // the dynamic value of an interface: a pointer or a copy we cannot tell apart
								}
								e = unparen(x.X)
							case *ast.CallExpr:
								// the object comes out of a call: under construction only if that is a constructor
								if field != "" && !isFreshExpr(x) {
									add(field, how)
								}
								return
							case *ast.Ident:
								root = x
								break walk
							default:
								break walk
							}
						}
						if field == "" {
							return
						}
						if root != nil {
							o := info.Uses[root]
							if o == nil {
								o = info.Defs[root]
							}
							if o != nil && fresh[o] && !stale[o] && !params[o] {
								return // under construction here
							}
							if v, isVar := o.(*types.Var); isVar && !shared && v.Parent() != w.Zygo.Types.Scope() {
								// a struct VALUE held in a local / parameter / value receiver: only that copy changes
								how = "copy"
							}
						}
						add(field, how)
					}
					ast.Inspect(fd.Body, func(n ast.Node) bool {
						switch s := n.(type) {
						case *ast.AssignStmt:
							if s.Tok == token.DEFINE {
								return true
							}
							for _, l := range s.Lhs {
								report(l, "assign")
							}
						case *ast.IncDecStmt:
							report(s.X, "assign")
						case *ast.CallExpr:
							if sel, ok := s.Fun.(*ast.SelectorExpr); ok {
								if sl, ok := info.Selections[sel]; ok && sl.Kind() == types.MethodVal {
									if t := codeTypeOf(sel.X); t != "" && writers[t+"."+sel.Sel.Name] {
										reportFrom(sel.X, t+"."+sel.Sel.Name+"()", isPointer(sel.X), "call")
									}
								}
							}
						case *ast.UnaryExpr:
							if s.Op == token.AND {
								if _, isLit := unparen(s.X).(*ast.CompositeLit); !isLit {
									report(s.X, "addr")
								}
							}
						}
						return true
					})
					// a pointer-receiver method of a compiled-code type that wrote through its receiver
					if fd.Recv != nil && len(fd.Recv.List) == 1 && len(fd.Recv.List[0].Names) == 1 {
						if _, ptr := fd.Recv.List[0].Type.(*ast.StarExpr); ptr && code[recvName(fd.Recv.List[0].Type)] {
							for _, k := range sites {
								if k.fn == fname && k.how != "copy" {
									writers[fname] = true
								}
							}
						}
					}
				}
			}
			if len(writers) == nw && round > 0 {
				break
			}
		}
		sort.Slice(sites, func(i, j int) bool {
			a, b := sites[i], sites[j]
			if a.fn != b.fn {
				return a.fn < b.fn
			}
			if a.field != b.field {
				return a.field < b.field
			}
			return a.how < b.how
		})
		var elems []string
		for _, s := range sites {
			elems = append(elems, fmt.Sprintf("(%s, %s, %s)", LeanString(s.fn), LeanString(s.field), LeanString(s.how)))
		}
		var tnames []string
		for n := range code {
			tnames = append(tnames, n)
		}
		sort.Strings(tnames)
		var tq []string
		for _, n := range tnames {
			tq = append(tq, LeanString(n))
		}
		// package-level variables that can hold (or be keyed by) compiled-code objects: a side table
		// `map[*Loop]int` is state of the code just as a field is
		var mentions func(t types.Type, depth int, seen map[types.Type]bool) bool
		mentions = func(t types.Type, depth int, seen map[types.Type]bool) bool {
			if depth > 6 || seen[t] {
				return false
			}
			seen[t] = true
			switch x := t.(type) {
			case *types.Named:
				if x.Obj().Pkg() == w.Zygo.Types && code[x.Obj().Name()] {
					return true
				}
				if x.Obj().Pkg() == w.Zygo.Types && x.Obj().Name() == "Instruction" {
					return true
				}
				return false // other named types: their own fields are not a side table of code
			case *types.Pointer:
				return mentions(x.Elem(), depth+1, seen)
			case *types.Slice:
				return mentions(x.Elem(), depth+1, seen)
			case *types.Array:
				return mentions(x.Elem(), depth+1, seen)
			case *types.Chan:
				return mentions(x.Elem(), depth+1, seen)
			case *types.Map:
				return mentions(x.Key(), depth+1, seen) || mentions(x.Elem(), depth+1, seen)
			case *types.Struct:
				for i := 0; i < x.NumFields(); i++ {
					if mentions(x.Field(i).Type(), depth+1, seen) {
						return true
					}
				}
			}
			return false
		}
		var globals []string
		for _, n := range scope.Names() {
			v, ok := scope.Lookup(n).(*types.Var)
			if !ok {
				continue
			}
			if mentions(v.Type(), 0, map[types.Type]bool{}) {
				globals = append(globals, fmt.Sprintf("(%s, %s)", LeanString(n), LeanString(types.TypeString(v.Type(), func(p *types.Package) string { return "" }))))
			}
		}
		sort.Strings(globals)
		w.Facts["code_object_writes"] = len(sites)
		var flat []string
		for _, k := range sites {
			flat = append(flat, k.fn+" writes "+k.field+" ("+k.how+")")
		}
		w.Facts["code_object_writes_list"] = flat
		w.Facts["code_object_globals_list"] = globals
		var b strings.Builder
		b.WriteString("namespace ZygoVerif.Generated.CodeWrites\n")
		b.WriteString("/-- types whose values are compiled code, shared by every activation -/\n")
		b.WriteString(LeanList("codeTypes", "String", tq, 120))
		b.WriteString("/-- (enclosing function, Type.field, assign|addr|copy): fields of compiled-code objects written\noutside the function that constructs the object. -/\n")
		b.WriteString(LeanList("codeWrites", "(String × String × String)", elems, 100))
		b.WriteString("/-- package-level variables whose type holds or is keyed by compiled-code objects (side tables). -/\n")
		b.WriteString(LeanList("codeGlobals", "(String × String)", globals, 100))
		b.WriteString("end ZygoVerif.Generated.CodeWrites\n")
		return b.String(), nil
	}})
}
