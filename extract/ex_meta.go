package main

import (
	"fmt"
	"go/ast"
	"sort"
	"strings"
)

// Meta.lean: names of all functions/methods of package zygo (a cheap inventory used as a
// sanity anchor: a generated file always exists, and other emitters can refer to it).
func init() {
	register(Emitter{File: "Meta.lean", Run: func(w *World) (string, error) {
		var names []string
		for _, f := range w.Zygo.Syntax {
			for _, d := range f.Decls {
				if fd, ok := d.(*ast.FuncDecl); ok {
					n := fd.Name.Name
					if fd.Recv != nil && len(fd.Recv.List) == 1 {
						n = recvName(fd.Recv.List[0].Type) + "." + n
					}
					names = append(names, n)
				}
			}
		}
		sort.Strings(names)
		w.Facts["zygo_funcs"] = len(names)
		var q []string
		for _, n := range names {
			q = append(q, LeanString(n))
		}
		var b strings.Builder
		b.WriteString("namespace ZygoVerif.Generated.Meta\n")
		b.WriteString(LeanList("funcNames", "String", q, 120))
		fmt.Fprintf(&b, "def funcCount : Nat := %d\n", len(names))
		b.WriteString("end ZygoVerif.Generated.Meta\n")
		return b.String(), nil
	}})
}
