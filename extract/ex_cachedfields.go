package main

import (
	"fmt"
	"go/ast"
	"go/token"
	"go/types"
	"sort"
	"strings"
)

// CachedFields.lean (C01): fields of value types that CACHE something derived from the other
// fields (`if x.F == nil { … x.F = … }`: today SexpArray.Typ, the slice type derived from the
// first element), the functions that write such a field, and the functions that write OTHER
// fields of the same struct (element assignment `x.Val[i] = …`, `x.Val = …`) without writing
// the cache field — after those the cache can be stale (`aset` replaces element 0 and keeps
// Typ; rest/slice/append copy Typ along). Code that reads the cache and then assumes
// something about the elements (typed, non-nil) is wrong after a stale-capable write; the
// committed list in Props/C01 makes a new cache field or a new stale-capable writer visible.
func init() {
	register(Emitter{File: "CachedFields.lean", Run: func(w *World) (string, error) {
		info := w.Info()
		structOf := func(e ast.Expr) string {
			tv, ok := info.Types[e]
			if !ok {
				return ""
			}
			t := tv.Type
			if p, ok := t.(*types.Pointer); ok {
				t = p.Elem()
			}
			n, ok := t.(*types.Named)
			if !ok {
				return ""
			}
			if _, isStruct := n.Underlying().(*types.Struct); !isStruct {
				return ""
			}
			if n.Obj().Pkg() != w.Zygo.Types {
				return ""
			}
			return n.Obj().Name()
		}
		// selector x.F with x of a struct type of the package -> (struct, field)
		selField := func(e ast.Expr) (string, string) {
			for {
				switch t := e.(type) {
				case *ast.IndexExpr:
					e = t.X
					continue
				case *ast.ParenExpr:
					e = t.X
					continue
				case *ast.SliceExpr:
					e = t.X
					continue
				}
				break
			}
			se, ok := e.(*ast.SelectorExpr)
			if !ok {
				return "", ""
			}
			if sel, ok := info.Selections[se]; !ok || sel.Kind() != types.FieldVal {
				return "", ""
			}
			return structOf(se.X), se.Sel.Name
		}
		type key struct{ typ, field string }
		cached := map[key]bool{}
		writes := map[string]map[key]bool{} // function -> fields written
		var funcs []string
		for _, f := range w.Zygo.Syntax {
			fname := w.Fset.Position(f.Pos()).Filename
			if strings.HasSuffix(fname, "_test.go") || strings.Contains(fname, "zz_verif_") {
				continue
			}
			for _, d := range f.Decls {
				fd, ok := d.(*ast.FuncDecl)
				if !ok || fd.Body == nil {
					continue
				}
				fn := psFuncName(fd)
				ast.Inspect(fd.Body, func(n ast.Node) bool {
					switch s := n.(type) {
					case *ast.IfStmt:
						// `if x.F == nil { … x.F = … }`
						be, ok := s.Cond.(*ast.BinaryExpr)
						if !ok || be.Op != token.EQL {
							return true
						}
						if id, ok := be.Y.(*ast.Ident); !ok || id.Name != "nil" {
							return true
						}
						t, fl := selField(be.X)
						if t == "" {
							return true
						}
						ast.Inspect(s.Body, func(m ast.Node) bool {
							if as, ok := m.(*ast.AssignStmt); ok {
								for _, l := range as.Lhs {
									if _, isIdx := l.(*ast.IndexExpr); isIdx {
										continue
									}
									if t2, f2 := selField(l); t2 == t && f2 == fl {
										cached[key{t, fl}] = true
									}
								}
							}
							return true
						})
					case *ast.AssignStmt:
						for _, l := range s.Lhs {
							if t, fl := selField(l); t != "" {
								if writes[fn] == nil {
									writes[fn] = map[key]bool{}
									funcs = append(funcs, fn)
								}
								writes[fn][key{t, fl}] = true
							}
						}
					case *ast.IncDecStmt:
						if t, fl := selField(s.X); t != "" {
							if writes[fn] == nil {
								writes[fn] = map[key]bool{}
								funcs = append(funcs, fn)
							}
							writes[fn][key{t, fl}] = true
						}
					}
					return true
				})
			}
		}
		// only value types: structs that have a Type() or SexpString method are Sexp values
		isValue := func(t string) bool {
			obj, ok := w.Zygo.Types.Scope().Lookup(t).(*types.TypeName)
			if !ok {
				return false
			}
			ms := types.NewMethodSet(types.NewPointer(obj.Type()))
			return ms.Lookup(w.Zygo.Types, "SexpString") != nil
		}
		var cacheRows, writerRows, staleRows []string
		var keys []key
		for k := range cached {
			if isValue(k.typ) {
				keys = append(keys, k)
			}
		}
		sort.Slice(keys, func(i, j int) bool { return keys[i].typ+"."+keys[i].field < keys[j].typ+"."+keys[j].field })
		sort.Strings(funcs)
		for _, k := range keys {
			cacheRows = append(cacheRows, LeanString(k.typ+"."+k.field))
			for _, fn := range funcs {
				ws := writes[fn]
				writesCache := ws[k]
				writesOther := false
				for o := range ws {
					if o.typ == k.typ && o.field != k.field {
						writesOther = true
					}
				}
				if writesCache {
					writerRows = append(writerRows, LeanString(k.typ+"."+k.field+" <- "+fn))
				} else if writesOther {
					staleRows = append(staleRows, LeanString(k.typ+"."+k.field+" stale after "+fn))
				}
			}
		}
		if len(cacheRows) == 0 {
			return "", fmt.Errorf("no cached field found (SexpArray.Typ expected)")
		}
		var b strings.Builder
		b.WriteString("namespace ZygoVerif.Generated.CachedFields\n\n")
		b.WriteString("/-- fields of value types filled lazily from the other fields: `if x.F == nil { … x.F = … }` -/\n")
		b.WriteString(LeanList("cachedFields", "String", cacheRows, 100))
		b.WriteString("\n/-- functions that assign the cache field -/\n")
		b.WriteString(LeanList("cacheWriters", "String", writerRows, 100))
		b.WriteString("\n/-- functions that assign another field of the same struct (or an element of it) and do not assign\nthe cache field: the cache can be stale afterwards -/\n")
		b.WriteString(LeanList("staleCapable", "String", staleRows, 100))
		b.WriteString("\nend ZygoVerif.Generated.CachedFields\n")
		w.Facts["cachedfields"] = map[string]interface{}{"cached": len(cacheRows), "writers": len(writerRows), "stale_capable": len(staleRows)}
		return b.String(), nil
	}})
}
