package main

// Generated/ReadPrint.lean (tie T1 for C12): what the reader and the printer SAY about
// literals, read syntactically from the current tree.
//
//   decodeAtomCascade   the tests of Lexer.DecodeAtom in source order: (test, token type returned,
//                       text handed to the token), test = `== "<lit>"` or the name of the regexp
//   hexEscapeLens       the cases of hexEscapeLen: (rune, number of hex digits)
//   literalConversions  per `case Token…` of Parser.ParseExpression the strconv call that
//                       converts the token text: (token type, function, base or bit size argument)
//   printerCalls        per SexpString method of the scalar types the strconv calls it makes,
//                       rendered with their constant arguments
//   charTokenDecoding   how the TokenChar case obtains the rune
//
// A function that is missing (a tree without fix C12-02 has no hexEscapeLen) gives an empty
// list: the Lean expectation then fails, the extractor does not.

import (
	"bytes"
	"fmt"
	"go/ast"
	"go/printer"
	"go/token"
	"strings"
)

func init() { register(Emitter{File: "ReadPrint.lean", Run: emitReadPrint}) }

func (w *World) render(n ast.Node) string {
	var b bytes.Buffer
	printer.Fprint(&b, w.Fset, n)
	return strings.Join(strings.Fields(b.String()), " ")
}

// first `return x.Token(<Type>, <expr>)` (or x.EmptyToken()) inside a statement list
func (w *World) firstTokenReturn(stmts []ast.Stmt) (string, string, bool) {
	typ, txt, ok := "", "", false
	for _, s := range stmts {
		ast.Inspect(s, func(n ast.Node) bool {
			if ok {
				return false
			}
			ret, isRet := n.(*ast.ReturnStmt)
			if !isRet || len(ret.Results) == 0 {
				return true
			}
			call, isCall := ret.Results[0].(*ast.CallExpr)
			if !isCall {
				return true
			}
			if sel, isSel := call.Fun.(*ast.SelectorExpr); isSel && sel.Sel.Name == "Token" && len(call.Args) == 2 {
				typ, txt, ok = w.render(call.Args[0]), w.render(call.Args[1]), true
			}
			return true
		})
		if ok {
			break
		}
	}
	return typ, txt, ok
}

func (w *World) atomTest(cond ast.Expr) (string, bool) {
	switch c := cond.(type) {
	case *ast.BinaryExpr:
		if c.Op == token.EQL {
			if id, ok := c.X.(*ast.Ident); ok && id.Name == "atom" {
				if bl, ok := c.Y.(*ast.BasicLit); ok && bl.Kind == token.STRING {
					return "== " + bl.Value, true
				}
			}
		}
		if c.Op == token.LOR {
			l, ok1 := w.atomTest(c.X)
			r, ok2 := w.atomTest(c.Y)
			if ok1 && ok2 {
				return l + " || " + r, true
			}
		}
	case *ast.CallExpr:
		if sel, ok := c.Fun.(*ast.SelectorExpr); ok && sel.Sel.Name == "MatchString" && len(c.Args) == 1 {
			if id, ok := sel.X.(*ast.Ident); ok {
				if a, ok := c.Args[0].(*ast.Ident); ok && a.Name == "atom" {
					return id.Name, true
				}
			}
		}
	case *ast.Ident:
		return c.Name, true
	}
	return "", false
}

func emitReadPrint(w *World) (string, error) {
	var b strings.Builder
	b.WriteString("namespace ZygoVerif.Generated.ReadPrint\n\n")

	// --- DecodeAtom cascade
	da := w.FuncDecl("Lexer.DecodeAtom")
	if da == nil {
		return "", fmt.Errorf("Lexer.DecodeAtom not found")
	}
	var casc []string
	var walkIf func(s *ast.IfStmt) error
	walkIf = func(s *ast.IfStmt) error {
		test, ok := w.atomTest(s.Cond)
		if !ok {
			return fmt.Errorf("DecodeAtom: unreadable test %s", w.render(s.Cond))
		}
		if typ, txt, ok := w.firstTokenReturn(s.Body.List); ok {
			casc = append(casc, fmt.Sprintf("(%s, %s, %s)", LeanString(test), LeanString(typ), LeanString(txt)))
		} else if test != "atom[n-1] == ':'" {
			casc = append(casc, fmt.Sprintf("(%s, %s, %s)", LeanString(test), LeanString("-"), LeanString(w.render(s.Body))))
		}
		if e, ok := s.Else.(*ast.IfStmt); ok {
			return walkIf(e)
		}
		return nil
	}
	for _, st := range da.Body.List {
		is, ok := st.(*ast.IfStmt)
		if !ok {
			continue
		}
		// the first statement `if atom[n-1] == ':' { endColon = true … }` is not a classification test
		if be, ok := is.Cond.(*ast.BinaryExpr); ok {
			if _, isIdx := be.X.(*ast.IndexExpr); isIdx {
				casc = append(casc, fmt.Sprintf("(%s, %s, %s)", LeanString("strip-colon "+w.render(is.Cond)), LeanString("-"), LeanString("-")))
				continue
			}
		}
		if err := walkIf(is); err != nil {
			return "", err
		}
	}
	if len(casc) < 10 {
		return "", fmt.Errorf("DecodeAtom: only %d tests found", len(casc))
	}
	fmt.Fprintf(&b, "def decodeAtomCascade : List (String × String × String) := [%s]\n", strings.Join(casc, ",\n  "))

	// --- hexEscapeLen
	var hel []string
	if fd := w.FuncDecl("hexEscapeLen"); fd != nil {
		ast.Inspect(fd.Body, func(n ast.Node) bool {
			cc, ok := n.(*ast.CaseClause)
			if !ok || len(cc.List) != 1 || len(cc.Body) != 1 {
				return true
			}
			from, ok1 := runeLit(cc.List[0])
			ret, ok2 := cc.Body[0].(*ast.ReturnStmt)
			if ok1 && ok2 && len(ret.Results) == 1 {
				if to, ok3 := runeLit(ret.Results[0]); ok3 {
					hel = append(hel, fmt.Sprintf("(%d, %d)", from, to))
				}
			}
			return false
		})
	}
	fmt.Fprintf(&b, "def hexEscapeLens : List (Nat × Nat) := [%s]\n", strings.Join(hel, ", "))

	// --- literal conversions in ParseExpression
	pe := w.FuncDecl("Parser.ParseExpression")
	if pe == nil {
		return "", fmt.Errorf("Parser.ParseExpression not found")
	}
	var conv []string
	charDec := ""
	ast.Inspect(pe.Body, func(n ast.Node) bool {
		cc, ok := n.(*ast.CaseClause)
		if !ok || len(cc.List) != 1 {
			return true
		}
		id, ok := cc.List[0].(*ast.Ident)
		if !ok || !strings.HasPrefix(id.Name, "Token") {
			return true
		}
		for _, st := range cc.Body {
			ast.Inspect(st, func(m ast.Node) bool {
				if _, nested := m.(*ast.CaseClause); nested {
					return true
				}
				call, ok := m.(*ast.CallExpr)
				if !ok {
					return true
				}
				sel, ok := call.Fun.(*ast.SelectorExpr)
				if !ok {
					return true
				}
				pkg, _ := sel.X.(*ast.Ident)
				if pkg == nil {
					return true
				}
				if pkg.Name == "strconv" && strings.HasPrefix(sel.Sel.Name, "Parse") && len(call.Args) >= 2 {
					conv = append(conv, fmt.Sprintf("(%s, %s, %s)", LeanString(id.Name), LeanString(sel.Sel.Name), LeanString(w.render(call.Args[1]))))
				}
				if id.Name == "TokenChar" && pkg.Name == "utf8" {
					charDec = w.render(call)
				}
				return true
			})
		}
		if id.Name == "TokenChar" && charDec == "" {
			for _, st := range cc.Body {
				if ret, ok := st.(*ast.ReturnStmt); ok && len(ret.Results) > 0 {
					charDec = w.render(ret.Results[0])
				}
			}
		}
		return true
	})
	fmt.Fprintf(&b, "def literalConversions : List (String × String × String) := [%s]\n", strings.Join(conv, ",\n  "))
	fmt.Fprintf(&b, "def charTokenDecoding : String := %s\n", LeanString(charDec))

	// --- printer: strconv calls inside the SexpString methods of the scalar types
	var pc []string
	for _, ty := range []string{"SexpInt", "SexpUint64", "SexpFloat", "SexpChar", "SexpStr", "SexpBool", "SexpSymbol"} {
		fd := w.FuncDecl(ty + ".SexpString")
		if fd == nil {
			return "", fmt.Errorf("%s.SexpString not found", ty)
		}
		ast.Inspect(fd.Body, func(n ast.Node) bool {
			switch x := n.(type) {
			case *ast.CallExpr:
				if sel, ok := x.Fun.(*ast.SelectorExpr); ok {
					if pkg, ok := sel.X.(*ast.Ident); ok && (pkg.Name == "strconv" || pkg.Name == "strings") {
						pc = append(pc, fmt.Sprintf("(%s, %s)", LeanString(ty), LeanString(w.render(x))))
					}
				}
			case *ast.ReturnStmt:
				for _, r := range x.Results {
					if bl, ok := r.(*ast.BasicLit); ok {
						pc = append(pc, fmt.Sprintf("(%s, %s)", LeanString(ty), LeanString("return "+bl.Value)))
					}
					if be, ok := r.(*ast.BinaryExpr); ok {
						pc = append(pc, fmt.Sprintf("(%s, %s)", LeanString(ty), LeanString("return "+w.render(be))))
					}
					if se, ok := r.(*ast.SelectorExpr); ok {
						pc = append(pc, fmt.Sprintf("(%s, %s)", LeanString(ty), LeanString("return "+w.render(se))))
					}
				}
			case *ast.AssignStmt:
				if x.Tok == token.ADD_ASSIGN && len(x.Rhs) == 1 {
					pc = append(pc, fmt.Sprintf("(%s, %s)", LeanString(ty), LeanString(w.render(x))))
				}
			}
			return true
		})
	}
	fmt.Fprintf(&b, "def printerCalls : List (String × String) := [%s]\n", strings.Join(pc, ",\n  "))

	// string keys of a hash: how SexpHash.SexpString writes a *SexpStr key
	hk := ""
	if fd := w.FuncDecl("SexpHash.SexpString"); fd != nil {
		ast.Inspect(fd.Body, func(n ast.Node) bool {
			cc, ok := n.(*ast.CaseClause)
			if !ok || len(cc.List) != 1 || len(cc.Body) != 1 {
				return true
			}
			if w.render(cc.List[0]) == "*SexpStr" {
				hk = w.render(cc.Body[0])
			}
			return true
		})
	}
	fmt.Fprintf(&b, "def hashStringKey : String := %s\n", LeanString(hk))
	b.WriteString("\nend ZygoVerif.Generated.ReadPrint\n")
	return b.String(), nil
}
