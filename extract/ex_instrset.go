package main

import (
	"fmt"
	"go/ast"
	"go/types"
	"sort"
	"strings"
)

// InstrSet.lean (C04): the instruction set as the source defines it today.
//   - instrTypes: every named type of package zygo that implements the interface
//     `Instruction` (by value or by pointer receiver), sorted;
//   - instrFields: per type, its fields as "name type";
//   - execSites: per type, how often its Execute method *mentions* the operations that move
//     the four VM stacks (datastack.PushExpr / PopExpr / PopExpressions / GetExpr,
//     linearstack.Push / PopScope, addrstack, `env.pc`), syntactically.
// Props/C04.lean proves by `decide` that Spec/Balanced.lean's enumeration covers instrTypes
// (gating); execSites is recorded as an inventory (advisory).
func init() {
	register(Emitter{File: "InstrSet.lean", Run: func(w *World) (string, error) {
		scope := w.Zygo.Types.Scope()
		obj := scope.Lookup("Instruction")
		if obj == nil {
			return "", fmt.Errorf("type Instruction not found")
		}
		iface, ok := obj.Type().Underlying().(*types.Interface)
		if !ok {
			return "", fmt.Errorf("Instruction is not an interface")
		}
		var names []string
		for _, n := range scope.Names() {
			tn, ok := scope.Lookup(n).(*types.TypeName)
			if !ok || tn.IsAlias() || n == "Instruction" {
				continue
			}
			if _, isIface := tn.Type().Underlying().(*types.Interface); isIface {
				continue
			}
			if types.Implements(tn.Type(), iface) || types.Implements(types.NewPointer(tn.Type()), iface) {
				names = append(names, n)
			}
		}
		sort.Strings(names)
		if len(names) == 0 {
			return "", fmt.Errorf("no type implements Instruction")
		}
		w.Facts["instruction_types"] = len(names)
		var q, fields, sites []string
		for _, n := range names {
			q = append(q, LeanString(n))
			tn := scope.Lookup(n).(*types.TypeName)
			var fs []string
			if st, ok := tn.Type().Underlying().(*types.Struct); ok {
				for i := 0; i < st.NumFields(); i++ {
					f := st.Field(i)
					fs = append(fs, LeanString(f.Name()+" "+types.TypeString(f.Type(), func(p *types.Package) string { return "" })))
				}
			} else {
				fs = append(fs, LeanString("= "+types.TypeString(tn.Type().Underlying(), nil)))
			}
			fields = append(fields, fmt.Sprintf("(%s, [%s])", LeanString(n), strings.Join(fs, ", ")))
			fd := w.FuncDecl(n + ".Execute")
			if fd == nil || fd.Body == nil {
				return "", fmt.Errorf("%s.Execute not found", n)
			}
			cnt := map[string]int{}
			ast.Inspect(fd.Body, func(x ast.Node) bool {
				sel, ok := x.(*ast.SelectorExpr)
				if !ok {
					return true
				}
				if inner, ok := sel.X.(*ast.SelectorExpr); ok {
					if id, ok := inner.X.(*ast.Ident); ok && id.Name == "env" {
						switch inner.Sel.Name {
						case "datastack", "linearstack", "addrstack", "loopstack":
							cnt[inner.Sel.Name+"."+sel.Sel.Name]++
						}
					}
				}
				if id, ok := sel.X.(*ast.Ident); ok && id.Name == "env" && sel.Sel.Name == "pc" {
					cnt["env.pc"]++
				}
				return true
			})
			keys := make([]string, 0, len(cnt))
			for k := range cnt {
				keys = append(keys, k)
			}
			sort.Strings(keys)
			var cs []string
			for _, k := range keys {
				cs = append(cs, fmt.Sprintf("(%s, %d)", LeanString(k), cnt[k]))
			}
			sites = append(sites, fmt.Sprintf("(%s, [%s])", LeanString(n), strings.Join(cs, ", ")))
		}
		var b strings.Builder
		b.WriteString("namespace ZygoVerif.Generated.InstrSet\n")
		b.WriteString("/-- Go types implementing `Instruction` (zygo/vm.go). -/\n")
		b.WriteString(LeanList("instrTypes", "String", q, 120))
		b.WriteString(LeanList("instrFields", "(String × List String)", fields, 120))
		b.WriteString("/-- syntactic mentions of stack operations in each Execute method (inventory). -/\n")
		b.WriteString(LeanList("execSites", "(String × List (String × Nat))", sites, 120))
		b.WriteString("end ZygoVerif.Generated.InstrSet\n")
		return b.String(), nil
	}})
}
