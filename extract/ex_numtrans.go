package main

// NumGo.lean (C07, tie T1): a TRANSLATION of the numeric code of zygo/comparisons.go and
// zygo/numerictower.go from its go/ast + go/types form into Lean definitions, regenerated on
// every run, so that Props/C07.lean is re-checked against what the code says now.
//
// Roots (ntRoots): (*Zlisp).Compare, NumericDo, IntegerDo, plus the helpers named there;
// every package-level function they call on a live path is translated on demand.
//
// The Go subset (anything else is REFUSED, naming function, construct and position):
//   types       int64/int (BitVec 64, signed), uint64/uint (BitVec 64, unsigned), int32=rune
//               (BitVec 32, signed), other sized ints likewise, float64 (abstract carrier
//               fs.F of `FloatSem`), bool, `Sexp` (sum type GoSem.Sx), pointers to
//               SexpInt/SexpUint64/SexpChar/SexpFloat/SexpBool (represented by their Val),
//               NumericOp / IntegerOp (enums of GoSem), `error` (nil / non-nil only)
//   expressions constants, variables, x.Val, &SexpT{Val: e}, conversions between integer
//               types and integer → float64, math.IsNaN, calls of translated functions,
//               + - * / % & | ^ &^ << >> (unsigned count) == != < <= > >= on integers by
//               STATIC type (signed/unsigned, wrap-around; / and % with a zero divisor are
//               the outcome `panic`), + - * / < > on floats, float constant 0, && || !
//   statements  return, if/else (with init), type switch on a Sexp value, switch on an enum
//               value, tagless switch, switch on an integer/bool tag with constant cases,
//               unlabelled break in a switch, := = op= ++ -- on local variables, var
//               declarations, blocks; `if v, ok := x.(I); ok {…}` where no operand kind
//               implements I; error values built by errors.New / fmt.Errorf / fmt.Sprintf
//               or read from a package variable of type error
// Identity: operands are translated as VALUES. Every construct that could observe which object
// holds a value is refused (== / != on Sexp or *SexpT references, comparison with nil, maps
// keyed by them, passing them to untranslated functions, field writes), never skipped.
// Not in the subset (refused): loops, goto, labels, fallthrough, defer, go, closures, slices,
// maps, strings as data, pointers to anything else, field writes, method values, generic
// code, recursion, float ==/<=/>=/unary minus/non-zero float constants, float → integer
// conversions, shifts by a signed count, calls outside package zygo other than the above.
//
// Control flow is translated path by path (the statements after an `if`/`switch` are
// repeated in every arm that falls through), so definite assignment is exact per path: a
// variable declared without a value and read before it is assigned is refused (nil
// dereference). Arms that are unreachable under the operand domain (see Model/GoSem.lean) are
// skipped and listed in `skippedArms`.
//
// A refusal never fails the shared T1 step. The refused function becomes an alias of its
// committed last-good translation (lean/ZygoVerif/Model/NumGoGood.lean) provided its Go
// signature is unchanged, and is listed in `NumGo.refused`; the `num` channel then compares
// the last-good text with the Go original over the whole boundary grid (DESIGN §5), so only
// a behavioural difference raises an alarm. What cannot even fall back is listed in
// `NumGo.problems`, which Props/C07.lean requires to be empty.

import (
	"errors"
	"fmt"
	"go/ast"
	"go/constant"
	"go/token"
	"go/types"
	"os"
	"path/filepath"
	"regexp"
	"sort"
	"strings"
)

var ntRoots = []string{"signumFloat", "signumInt", "signumUint64", "compareInt", "compareUint64", "compareChar",
	"compareFloat", "compareBool", "Zlisp.Compare", "NumericFloatDo", "NumericIntDo", "NumericUint64Do",
	"NumericMatchFloat", "NumericMatchInt", "NumericMatchUint64", "NumericMatchChar", "NumericDo", "UintegerDo", "IntegerDo"}

// roots that Props/C07.lean and Driver/Num.lean refer to by name: they must exist.
var ntRequired = []string{"Compare", "NumericDo", "IntegerDo"}

// operand kinds: constructor of GoSem.Sx, Go struct, type of its Val field
var ntKinds = []struct {
	ctor, goStruct string
	val            types.BasicKind
}{
	{"int", "SexpInt", types.Int64}, {"uint", "SexpUint64", types.Uint64}, {"char", "SexpChar", types.Int32},
	{"flt", "SexpFloat", types.Float64}, {"bool", "SexpBool", types.Bool},
}

var ntEnums = map[string][]string{
	"NumericOp": {"Add", "Sub", "Mult", "Div"},
	"IntegerOp": {"ShiftLeft", "ShiftRightArith", "ShiftRightLog", "Modulo", "BitAnd", "BitOr", "BitXor"},
}

var ntLeanReserved = map[string]bool{"at": true, "from": true, "fun": true, "end": true, "in": true, "do": true,
	"then": true, "else": true, "if": true, "let": true, "have": true, "show": true, "match": true, "with": true,
	"by": true, "open": true, "def": true, "theorem": true, "instance": true, "where": true, "deriving": true,
	"namespace": true, "section": true, "variable": true, "universe": true, "import": true, "export": true,
	"Type": true, "Prop": true, "Sort": true, "fs": true, "for": true, "unless": true, "return": true,
	"mut": true, "try": true, "catch": true, "finally": true, "macro": true, "syntax": true, "structure": true,
	"inductive": true, "class": true, "abbrev": true, "example": true, "axiom": true, "private": true,
	"protected": true, "partial": true, "unsafe": true, "mutual": true, "infix": true, "notation": true,
	"tag_": true, "r_": true, "bind": true, "shl": true, "shrU": true, "shrS": true, "mapRes": true, "Res": true, "Sx": true, "true": true, "false": true, "calc": true, "suffices": true,
	"nomatch": true, "nofun": true, "using": true, "local": true, "set_option": true, "attribute": true}

// ---------------------------------------------------------------- representation of Go types

type ntType struct {
	k      string // bv | float | bool | sx | enum | error | opaque
	width  int    // bv
	signed bool   // bv
	ptr    string // non-empty: a pointer to the Sexp struct of that constructor (represented by its Val)
	enum   string // enum
}

func (t ntType) lean() string {
	switch t.k {
	case "bv":
		return fmt.Sprintf("BitVec %d", t.width)
	case "float":
		return "fs.F"
	case "bool":
		return "Bool"
	case "sx":
		return "Sx fs.F"
	case "enum":
		return t.enum
	}
	return "?"
}

func (t ntType) same(u ntType) bool {
	return t.k == u.k && t.width == u.width && t.signed == u.signed && t.ptr == u.ptr && t.enum == u.enum
}

type ntRefusal struct{ fn, construct, pos string }

func (r *ntRefusal) Error() string { return r.fn + ": " + r.construct + " at " + r.pos }

var errNeedMonad = errors.New("needs the Res monad")

type ntVar struct {
	lean   string
	typ    ntType
	state  string // ok | unassigned | opaque | errnil
	constB string // "true"/"false" when the variable is known to hold that constant
}

type ntEnv map[types.Object]*ntVar

func (e ntEnv) with(o types.Object, v *ntVar) ntEnv {
	n := make(ntEnv, len(e)+1)
	for k, x := range e {
		n[k] = x
	}
	n[o] = v
	return n
}

type ntParam struct {
	name string
	typ  ntType
}

type ntFn struct {
	name    string
	goSig   string
	decl    *ast.FuncDecl
	obj     *types.Func
	params  []ntParam // kept parameters, in order
	keep    []bool    // per Go parameter: kept?
	sigDone bool
	res     ntType
	hasErr  bool
	monadic bool
	text    string
	state   int // 0 new, 1 in progress, 2 translated, 3 alias of last-good, 4 unavailable
	why     *ntRefusal
}

type ntTranslator struct {
	w        *World
	info     *types.Info
	fns      map[*types.Func]*ntFn
	byName   map[string]*ntFn
	order    []*ntFn
	kindPtr  map[string]types.Type // ctor -> *SexpT
	enumVals map[string]map[string]constant.Value
	skipped  map[string]bool
	good     map[string]string // last-good: lean name -> Go signature
	problems []string
	size     int
}

type ntCtx struct {
	t       *ntTranslator
	fn      *ntFn
	monadic bool
}

type ntCont func(env ntEnv) (string, error)

func (c *ntCtx) refuse(n ast.Node, format string, a ...interface{}) error {
	pos := c.t.w.Fset.Position(n.Pos())
	return &ntRefusal{fn: c.fn.name, construct: fmt.Sprintf(format, a...), pos: fmt.Sprintf("%s:%d", filepath.Base(pos.Filename), pos.Line)}
}

func ntIndent(s string) string {
	return "  " + strings.ReplaceAll(s, "\n", "\n  ")
}

// ---------------------------------------------------------------- types

func (t *ntTranslator) repr(ty types.Type) ntType {
	if ty == nil {
		return ntType{k: "opaque"}
	}
	if n, ok := ty.(*types.Named); ok {
		if n.Obj().Pkg() == t.w.Zygo.Types {
			if _, ok := ntEnums[n.Obj().Name()]; ok {
				return ntType{k: "enum", enum: n.Obj().Name()}
			}
			if n.Obj().Name() == "Sexp" {
				if _, ok := n.Underlying().(*types.Interface); ok {
					return ntType{k: "sx"}
				}
			}
		}
		if n.Obj().Pkg() == nil && n.Obj().Name() == "error" {
			return ntType{k: "error"}
		}
	}
	if p, ok := ty.(*types.Pointer); ok {
		for _, k := range ntKinds {
			if types.Identical(ty, t.kindPtr[k.ctor]) {
				r := t.repr(types.Typ[k.val])
				r.ptr = k.ctor
				return r
			}
		}
		_ = p
		return ntType{k: "opaque"}
	}
	if b, ok := ty.Underlying().(*types.Basic); ok {
		if _, named := ty.(*types.Named); named {
			return ntType{k: "opaque"} // a named integer type that is not one of the enums
		}
		switch b.Kind() {
		case types.Int, types.Int64:
			return ntType{k: "bv", width: 64, signed: true}
		case types.Uint, types.Uint64, types.Uintptr:
			return ntType{k: "bv", width: 64}
		case types.Int32:
			return ntType{k: "bv", width: 32, signed: true}
		case types.Uint32:
			return ntType{k: "bv", width: 32}
		case types.Int16:
			return ntType{k: "bv", width: 16, signed: true}
		case types.Uint16:
			return ntType{k: "bv", width: 16}
		case types.Int8:
			return ntType{k: "bv", width: 8, signed: true}
		case types.Uint8:
			return ntType{k: "bv", width: 8}
		case types.Float64:
			return ntType{k: "float"}
		case types.Bool, types.UntypedBool:
			return ntType{k: "bool"}
		}
	}
	return ntType{k: "opaque"}
}

func ntSanitize(name string, taken map[string]bool) string {
	if name == "_" || name == "" {
		return "_"
	}
	n := name
	for ntLeanReserved[n] || taken[n] {
		n += "_"
	}
	return n
}

// ---------------------------------------------------------------- functions

func ntGoSig(fd *ast.FuncDecl, obj *types.Func) string {
	q := func(p *types.Package) string { return "" }
	sig := obj.Type().(*types.Signature)
	s := types.TypeString(sig, q)
	if sig.Recv() != nil {
		s = "(" + types.TypeString(sig.Recv().Type(), q) + ") " + s
	}
	return s
}

func (t *ntTranslator) lookup(obj *types.Func) *ntFn {
	if f, ok := t.fns[obj]; ok {
		return f
	}
	f := &ntFn{obj: obj}
	t.fns[obj] = f
	f.name = obj.Name()
	for _, file := range t.w.Zygo.Syntax {
		for _, d := range file.Decls {
			if fd, ok := d.(*ast.FuncDecl); ok && t.info.Defs[fd.Name] == obj {
				f.decl = fd
			}
		}
	}
	if f.decl != nil {
		f.goSig = ntGoSig(f.decl, obj)
	}
	if other, clash := t.byName[f.name]; clash && other != f {
		f.state = 4
		f.why = &ntRefusal{fn: f.name, construct: "two translated functions would share the Lean name " + f.name, pos: "-"}
		return f
	}
	t.byName[f.name] = f
	return f
}

// translate makes sure f is translated (or aliased / unavailable) and returns it.
func (t *ntTranslator) translate(f *ntFn) {
	if f.state != 0 {
		return
	}
	f.state = 1
	err := t.tryTranslate(f)
	if err == nil {
		f.state = 2
		t.order = append(t.order, f)
		return
	}
	var r *ntRefusal
	if !errors.As(err, &r) {
		r = &ntRefusal{fn: f.name, construct: err.Error(), pos: "-"}
	}
	f.why = r
	if sig, ok := t.good[f.name]; ok && sig == f.goSig && f.sigOK() {
		f.state = 3
		f.text = fmt.Sprintf("/-- REFUSED (%s at %s): alias of the committed last-good translation. -/\n@[reducible] def %s := @ZygoVerif.NumGoGood.%s\n",
			strings.ReplaceAll(r.construct, "-/", "- /"), r.pos, f.name, f.name)
		t.order = append(t.order, f)
		return
	}
	f.state = 4
}

func (f *ntFn) sigOK() bool { return f.sigDone }

// signature fills params/res/hasErr; an error means the signature itself is outside the subset.
func (t *ntTranslator) signature(f *ntFn) error {
	if f.sigDone {
		return nil
	}
	c := &ntCtx{t: t, fn: f}
	if f.decl == nil || f.decl.Body == nil {
		return &ntRefusal{fn: f.name, construct: "no Go body", pos: "-"}
	}
	sig := f.obj.Type().(*types.Signature)
	if sig.TypeParams() != nil || sig.Variadic() {
		return c.refuse(f.decl, "generic or variadic function")
	}
	taken := map[string]bool{}
	var keep []bool
	var params []ntParam
	for i := 0; i < sig.Params().Len(); i++ {
		p := sig.Params().At(i)
		r := t.repr(p.Type())
		if r.k == "opaque" || r.k == "error" {
			keep = append(keep, false)
			continue
		}
		n := ntSanitize(p.Name(), taken)
		if n == "_" {
			n = ntSanitize(fmt.Sprintf("arg%d", i), taken)
		}
		taken[n] = true
		keep = append(keep, true)
		params = append(params, ntParam{n, r})
	}
	rs := sig.Results()
	switch rs.Len() {
	case 1:
		f.res = t.repr(rs.At(0).Type())
	case 2:
		f.res = t.repr(rs.At(0).Type())
		if t.repr(rs.At(1).Type()).k != "error" {
			return c.refuse(f.decl, "result list %s", rs.String())
		}
		f.hasErr = true
	default:
		return c.refuse(f.decl, "result list %s", rs.String())
	}
	if f.res.k == "opaque" || f.res.k == "error" {
		return c.refuse(f.decl, "result type %s", rs.At(0).Type().String())
	}
	for i := 0; i < rs.Len(); i++ {
		if rs.At(i).Name() != "" {
			return c.refuse(f.decl, "named results")
		}
	}
	f.params, f.keep, f.sigDone = params, keep, true
	return nil
}

func (t *ntTranslator) tryTranslate(f *ntFn) error {
	if err := t.signature(f); err != nil {
		return err
	}
	modes := []bool{false, true}
	if f.hasErr {
		modes = []bool{true}
	}
	for _, monadic := range modes {
		c := &ntCtx{t: t, fn: f, monadic: monadic}
		env := ntEnv{}
		sig := f.obj.Type().(*types.Signature)
		k := 0
		for i := 0; i < sig.Params().Len(); i++ {
			p := sig.Params().At(i)
			if f.keep[i] {
				env[p] = &ntVar{lean: f.params[k].name, typ: f.params[k].typ, state: "ok"}
				k++
			} else {
				env[p] = &ntVar{state: "opaque", typ: ntType{k: "opaque"}}
			}
		}
		if r := sig.Recv(); r != nil {
			env[r] = &ntVar{state: "opaque", typ: ntType{k: "opaque"}}
		}
		body, err := c.stmts(f.decl.Body.List, env, func(ntEnv) (string, error) {
			return "", c.refuse(f.decl.Body, "control reaches the end of the function body")
		}, nil)
		if err == errNeedMonad && !monadic {
			continue
		}
		if err != nil {
			return err
		}
		f.monadic = monadic
		var ps []string
		for _, p := range f.params {
			ps = append(ps, fmt.Sprintf("(%s : %s)", p.name, p.typ.lean()))
		}
		rt := f.res.lean()
		if monadic {
			rt = "Res (" + rt + ")"
		}
		pos := t.w.Fset.Position(f.decl.Pos())
		f.text = fmt.Sprintf("/-- `%s` — zygo/%s:%d, Go signature `%s`. -/\ndef %s (fs : FloatSem) %s : %s :=\n%s\n",
			f.name, filepath.Base(pos.Filename), pos.Line, f.goSig, f.name, strings.Join(ps, " "), rt, ntIndent(body))
		t.size += len(f.text)
		if t.size > 400000 {
			return c.refuse(f.decl, "translation too large")
		}
		return nil
	}
	return errNeedMonad
}

// ---------------------------------------------------------------- statements

func (c *ntCtx) stmts(list []ast.Stmt, env ntEnv, k ntCont, brk ntCont) (string, error) {
	if len(list) == 0 {
		return k(env)
	}
	s := list[0]
	rest := func(e ntEnv) (string, error) { return c.stmts(list[1:], e, k, brk) }
	switch s := s.(type) {
	case *ast.EmptyStmt:
		return rest(env)
	case *ast.BlockStmt:
		return c.stmts(s.List, env, rest, brk)
	case *ast.ReturnStmt:
		return c.ret(s, env)
	case *ast.BranchStmt:
		if s.Tok == token.BREAK && s.Label == nil && brk != nil {
			return brk(env)
		}
		return "", c.refuse(s, "branch statement `%s`", s.Tok)
	case *ast.IfStmt:
		return c.ifStmt(s, env, rest, brk)
	case *ast.TypeSwitchStmt:
		return c.typeSwitch(s, env, rest)
	case *ast.SwitchStmt:
		return c.exprSwitch(s, env, rest)
	case *ast.DeclStmt:
		return c.declStmt(s, env, rest)
	case *ast.AssignStmt:
		return c.assign(s, env, rest)
	case *ast.IncDecStmt:
		id, ok := s.X.(*ast.Ident)
		if !ok {
			return "", c.refuse(s, "++/-- on something that is not a local variable")
		}
		v, err := c.readVar(id, env)
		if err != nil {
			return "", err
		}
		if v.typ.k != "bv" {
			return "", c.refuse(s, "++/-- on a %s", v.typ.k)
		}
		op := "+"
		if s.Tok == token.DEC {
			op = "-"
		}
		return c.bindLet(id, env, v.typ, fmt.Sprintf("%s %s 1#%d", v.lean, op, v.typ.width), nil, rest)
	}
	return "", c.refuse(s, "statement %T", s)
}

func (c *ntCtx) guarded(guards []string, body string) (string, error) {
	if len(guards) == 0 {
		return body, nil
	}
	if !c.monadic {
		return "", errNeedMonad
	}
	out := body
	for i := len(guards) - 1; i >= 0; i-- {
		out = fmt.Sprintf("if %s then .panic else\n%s", guards[i], out)
	}
	return out, nil
}

// bindLet emits `let x := term` for the Go variable behind id and continues.
func (c *ntCtx) bindLet(id *ast.Ident, env ntEnv, typ ntType, term string, guards []string, k ntCont) (string, error) {
	obj := c.t.info.ObjectOf(id)
	if id.Name == "_" || obj == nil {
		body, err := k(env)
		if err != nil {
			return "", err
		}
		return c.guarded(guards, body)
	}
	name := c.localName(id.Name, obj, env)
	body, err := k(env.with(obj, &ntVar{lean: name, typ: typ, state: "ok"}))
	if err != nil {
		return "", err
	}
	return c.guarded(guards, fmt.Sprintf("let %s : %s := %s\n%s", name, typ.lean(), term, body))
}

// localName: the Lean name for the Go variable obj. A variable that is assigned again keeps
// its name (the new `let` shadows the old one, which is dead); a NEW variable never takes the
// name of another live variable or of a translated function, because the statements after a
// switch are translated inside its arms, where an arm-local Lean binder would capture them.
func (c *ntCtx) localName(goName string, obj types.Object, env ntEnv) string {
	if v, ok := env[obj]; ok && v.state == "ok" && v.constB == "" && v.lean != "" && !strings.HasPrefix(v.lean, "(") {
		return v.lean
	}
	taken := map[string]bool{}
	for n := range c.t.byName {
		taken[n] = true
	}
	for o, v := range env {
		if o != obj {
			taken[v.lean] = true
		}
	}
	for _, p := range c.fn.params {
		taken[p.name] = true
	}
	return ntSanitize(goName, taken)
}

func (c *ntCtx) readVar(id *ast.Ident, env ntEnv) (*ntVar, error) {
	obj := c.t.info.ObjectOf(id)
	v, ok := env[obj]
	if !ok {
		return nil, c.refuse(id, "identifier `%s` (not a local variable or parameter)", id.Name)
	}
	switch v.state {
	case "ok":
		return v, nil
	case "unassigned":
		return nil, c.refuse(id, "read of `%s` on a path where it has not been assigned (nil)", id.Name)
	}
	return nil, c.refuse(id, "use of `%s`, whose type is outside the subset", id.Name)
}

func (c *ntCtx) declStmt(s *ast.DeclStmt, env ntEnv, k ntCont) (string, error) {
	gd, ok := s.Decl.(*ast.GenDecl)
	if !ok || gd.Tok != token.VAR {
		return "", c.refuse(s, "local declaration that is not `var`")
	}
	// flatten into single-name steps
	type step struct {
		id  *ast.Ident
		val ast.Expr
	}
	var steps []step
	for _, sp := range gd.Specs {
		vs := sp.(*ast.ValueSpec)
		if len(vs.Values) != 0 && len(vs.Values) != len(vs.Names) {
			return "", c.refuse(s, "var declaration with a multi-value initialiser")
		}
		for i, n := range vs.Names {
			var v ast.Expr
			if len(vs.Values) > 0 {
				v = vs.Values[i]
			}
			steps = append(steps, step{n, v})
		}
	}
	var run func(i int, env ntEnv) (string, error)
	run = func(i int, env ntEnv) (string, error) {
		if i == len(steps) {
			return k(env)
		}
		st := steps[i]
		next := func(e ntEnv) (string, error) { return run(i+1, e) }
		obj := c.t.info.ObjectOf(st.id)
		typ := c.t.repr(obj.Type())
		if st.val != nil {
			return c.assignTo(st.id, typ, st.val, env, next)
		}
		switch {
		case typ.ptr != "" || typ.k == "sx":
			return next(env.with(obj, &ntVar{typ: typ, state: "unassigned"}))
		case typ.k == "error":
			return next(env.with(obj, &ntVar{typ: typ, state: "errnil"}))
		case typ.k == "bv":
			return c.bindLet(st.id, env, typ, fmt.Sprintf("0#%d", typ.width), nil, next)
		case typ.k == "bool":
			return c.bindLet(st.id, env, typ, "false", nil, next)
		case typ.k == "float":
			return c.bindLet(st.id, env, typ, "fs.zero", nil, next)
		}
		return next(env.with(obj, &ntVar{typ: typ, state: "opaque"}))
	}
	return run(0, env)
}

func (c *ntCtx) assign(s *ast.AssignStmt, env ntEnv, k ntCont) (string, error) {
	if len(s.Lhs) != 1 || len(s.Rhs) != 1 {
		return "", c.refuse(s, "assignment with several targets or values")
	}
	id, ok := s.Lhs[0].(*ast.Ident)
	if !ok {
		return "", c.refuse(s, "assignment to something that is not a local variable (%T)", s.Lhs[0])
	}
	var typ ntType
	if id.Name == "_" {
		typ = c.t.repr(c.t.info.TypeOf(s.Rhs[0]))
	} else {
		obj := c.t.info.ObjectOf(id)
		if obj == nil {
			return "", c.refuse(s, "assignment target `%s` has no object", id.Name)
		}
		if _, isLocal := env[obj]; !isLocal && s.Tok != token.DEFINE {
			return "", c.refuse(s, "assignment to `%s`, which is not a local variable", id.Name)
		}
		typ = c.t.repr(obj.Type())
	}
	switch s.Tok {
	case token.DEFINE, token.ASSIGN:
		return c.assignTo(id, typ, s.Rhs[0], env, k)
	}
	// op=
	binop, ok := map[token.Token]token.Token{token.ADD_ASSIGN: token.ADD, token.SUB_ASSIGN: token.SUB, token.MUL_ASSIGN: token.MUL,
		token.QUO_ASSIGN: token.QUO, token.REM_ASSIGN: token.REM, token.AND_ASSIGN: token.AND, token.OR_ASSIGN: token.OR,
		token.XOR_ASSIGN: token.XOR, token.SHL_ASSIGN: token.SHL, token.SHR_ASSIGN: token.SHR, token.AND_NOT_ASSIGN: token.AND_NOT}[s.Tok]
	if !ok {
		return "", c.refuse(s, "assignment operator %s", s.Tok)
	}
	v, err := c.readVar(id, env)
	if err != nil {
		return "", err
	}
	rt, rtyp, g, err := c.expr(s.Rhs[0], env)
	if err != nil {
		return "", err
	}
	term, _, g2, err := c.binop(s, binop, v.lean, v.typ, rt, rtyp, constant.Value(nil))
	if err != nil {
		return "", err
	}
	return c.bindLet(id, env, v.typ, term, append(g, g2...), k)
}

// assignTo: `id = rhs` / `id := rhs` / `var id T = rhs`.
func (c *ntCtx) assignTo(id *ast.Ident, typ ntType, rhs ast.Expr, env ntEnv, k ntCont) (string, error) {
	obj := c.t.info.ObjectOf(id)
	if typ.k == "opaque" {
		// only an error-message string may be computed and carried around unseen
		if b, ok := c.t.info.TypeOf(rhs).Underlying().(*types.Basic); ok && b.Info()&types.IsString != 0 && c.pureOpaque(rhs, env) {
			if obj == nil {
				return k(env)
			}
			return k(env.with(obj, &ntVar{typ: typ, state: "opaque"}))
		}
		return "", c.refuse(rhs, "value of type %s", c.t.info.TypeOf(rhs))
	}
	if typ.k == "error" {
		return "", c.refuse(rhs, "assignment of an error value to a variable")
	}
	if call, callee := c.zygoCall(rhs); callee != nil {
		c.t.translate(callee)
		if callee.state == 4 {
			return "", c.refuse(rhs, "call of %s, which is not translatable (%s) and has no last-good translation", callee.name, callee.why.construct)
		}
		if callee.isMonadic(c.t) {
			if callee.hasErr {
				return "", c.refuse(rhs, "result of %s (value, error) assigned to one variable", callee.name)
			}
			if !c.monadic {
				return "", errNeedMonad
			}
			ct, g, err := c.callTerm(call, callee, env)
			if err != nil {
				return "", err
			}
			name := "_"
			env2 := env
			if id.Name != "_" && obj != nil {
				name = c.localName(id.Name, obj, env)
				env2 = env.with(obj, &ntVar{lean: name, typ: typ, state: "ok"})
			}
			conv, err := c.coerce(rhs, "r_", callee.res, typ)
			if err != nil {
				return "", err
			}
			body, err := k(env2)
			if err != nil {
				return "", err
			}
			bound := name
			pre := ""
			if conv != "r_" {
				bound = "r_"
				pre = fmt.Sprintf("let %s : %s := %s\n", name, typ.lean(), conv)
			}
			return c.guarded(g, fmt.Sprintf("bind (%s) (fun %s =>\n%s)", ct, bound, ntIndent(pre+body)))
		}
	}
	term, rtyp, g, err := c.expr(rhs, env)
	if err != nil {
		return "", err
	}
	term, err = c.coerce(rhs, term, rtyp, typ)
	if err != nil {
		return "", err
	}
	return c.bindLet(id, env, typ, term, g, k)
}

// pureOpaque: an expression we do not translate but may skip: it cannot fail or have an
// effect (error-message construction).
func (c *ntCtx) pureOpaque(e ast.Expr, env ntEnv) bool {
	switch e := e.(type) {
	case *ast.BasicLit:
		return true
	case *ast.Ident:
		return true
	case *ast.ParenExpr:
		return c.pureOpaque(e.X, env)
	case *ast.CallExpr:
		if sel, ok := e.Fun.(*ast.SelectorExpr); ok {
			if f, ok := c.t.info.Uses[sel.Sel].(*types.Func); ok && f.Pkg() != nil {
				full := f.Pkg().Path() + "." + f.Name()
				if full == "fmt.Sprintf" || full == "fmt.Errorf" || full == "errors.New" || full == "fmt.Sprint" {
					for _, a := range e.Args {
						if !c.pureOpaque(a, env) {
							return false
						}
					}
					return true
				}
			}
		}
	}
	return false
}

func (c *ntCtx) ifStmt(s *ast.IfStmt, env ntEnv, rest ntCont, brk ntCont) (string, error) {
	if s.Init != nil {
		// `if v, ok := x.(T); …`
		if as, ok := s.Init.(*ast.AssignStmt); ok && as.Tok == token.DEFINE && len(as.Lhs) == 2 && len(as.Rhs) == 1 {
			if ta, ok := as.Rhs[0].(*ast.TypeAssertExpr); ok && ta.Type != nil {
				_, xt, _, err := c.expr(ta.X, env)
				if err != nil {
					return "", err
				}
				if xt.k != "sx" {
					return "", c.refuse(ta, "type assertion on a value that is not a Sexp")
				}
				target := c.t.info.TypeOf(ta.Type)
				for _, kd := range ntKinds {
					if c.t.kindMatches(c.t.kindPtr[kd.ctor], target) {
						return "", c.refuse(ta, "type assertion to %s, which the operand kind %s satisfies", target, kd.goStruct)
					}
				}
				c.t.skipped[fmt.Sprintf("%s: `%s` is false for every operand kind", c.fn.name, c.src(ta))] = true
				env2 := env
				if v, ok := as.Lhs[0].(*ast.Ident); ok && v.Name != "_" {
					env2 = env2.with(c.t.info.ObjectOf(v), &ntVar{typ: ntType{k: "opaque"}, state: "opaque"})
				}
				if okid, ok := as.Lhs[1].(*ast.Ident); ok && okid.Name != "_" {
					env2 = env2.with(c.t.info.ObjectOf(okid), &ntVar{lean: "false", typ: ntType{k: "bool"}, state: "ok", constB: "false"})
				}
				s2 := *s
				s2.Init = nil
				return c.ifStmt(&s2, env2, rest, brk)
			}
		}
		s2 := *s
		s2.Init = nil
		return c.stmts([]ast.Stmt{s.Init, &s2}, env, rest, brk)
	}
	elseK := func(e ntEnv) (string, error) {
		switch el := s.Else.(type) {
		case nil:
			return rest(e)
		case *ast.BlockStmt:
			return c.stmts(el.List, e, rest, brk)
		case *ast.IfStmt:
			return c.stmts([]ast.Stmt{el}, e, rest, brk)
		}
		return "", c.refuse(s, "else branch %T", s.Else)
	}
	if cb := c.constBool(s.Cond, env); cb != "" {
		if cb == "true" {
			return c.stmts(s.Body.List, env, rest, brk)
		}
		return elseK(env)
	}
	cond, ct, g, err := c.expr(s.Cond, env)
	if err != nil {
		return "", err
	}
	if ct.k != "bool" {
		return "", c.refuse(s.Cond, "condition that is not a bool")
	}
	thenS, err := c.stmts(s.Body.List, env, rest, brk)
	if err != nil {
		return "", err
	}
	elseS, err := elseK(env)
	if err != nil {
		return "", err
	}
	return c.guarded(g, fmt.Sprintf("if %s then\n%s\nelse\n%s", cond, ntIndent(thenS), ntIndent(elseS)))
}

func (c *ntCtx) constBool(e ast.Expr, env ntEnv) string {
	switch e := e.(type) {
	case *ast.ParenExpr:
		return c.constBool(e.X, env)
	case *ast.Ident:
		if v, ok := env[c.t.info.ObjectOf(e)]; ok && v.constB != "" {
			return v.constB
		}
	case *ast.UnaryExpr:
		if e.Op == token.NOT {
			switch c.constBool(e.X, env) {
			case "true":
				return "false"
			case "false":
				return "true"
			}
		}
	}
	return ""
}

// kindMatches: would a value of dynamic type `kind` (a *SexpT) satisfy `case target` /
// `.(target)`?
func (t *ntTranslator) kindMatches(kind types.Type, target types.Type) bool {
	if target == nil {
		return false
	}
	if iface, ok := target.Underlying().(*types.Interface); ok {
		return types.Implements(kind, iface)
	}
	return types.Identical(kind, target)
}

func (c *ntCtx) src(n ast.Node) string {
	p, q := c.t.w.Fset.Position(n.Pos()), c.t.w.Fset.Position(n.End())
	b, err := os.ReadFile(p.Filename)
	if err != nil || q.Offset > len(b) {
		return "?"
	}
	return strings.Join(strings.Fields(string(b[p.Offset:q.Offset])), " ")
}

func (c *ntCtx) typeSwitch(s *ast.TypeSwitchStmt, env ntEnv, rest ntCont) (string, error) {
	if s.Init != nil {
		s2 := *s
		s2.Init = nil
		return c.stmts([]ast.Stmt{s.Init, &s2}, env, rest, nil)
	}
	var x ast.Expr
	bound := ""
	switch a := s.Assign.(type) {
	case *ast.ExprStmt:
		x = a.X.(*ast.TypeAssertExpr).X
	case *ast.AssignStmt:
		x = a.Rhs[0].(*ast.TypeAssertExpr).X
		bound = a.Lhs[0].(*ast.Ident).Name
	}
	xterm, xt, g, err := c.expr(x, env)
	if err != nil {
		return "", err
	}
	if xt.k != "sx" || xt.ptr != "" {
		return "", c.refuse(s, "type switch on a value that is not a Sexp")
	}
	// which clause does each operand kind select?
	var dflt *ast.CaseClause
	for _, cl := range s.Body.List {
		cc := cl.(*ast.CaseClause)
		if cc.List == nil {
			dflt = cc
		}
	}
	var arms []string
	used := map[*ast.CaseClause]bool{}
	for _, kd := range ntKinds {
		kt := c.t.kindPtr[kd.ctor]
		var sel *ast.CaseClause
		for _, cl := range s.Body.List {
			cc := cl.(*ast.CaseClause)
			for _, te := range cc.List {
				tv := c.t.info.Types[te]
				if tv.IsNil() {
					continue
				}
				if c.t.kindMatches(kt, tv.Type) {
					sel = cc
				}
			}
			if sel != nil {
				break
			}
		}
		if sel == nil {
			sel = dflt
		}
		vname := "_"
		env2 := env
		var body []ast.Stmt
		if sel != nil {
			used[sel] = true
			body = sel.Body
			if bound != "" {
				obj := c.t.info.Implicits[sel]
				if obj != nil {
					vname = c.localName(bound, obj, env)
					vt := c.t.repr(obj.Type())
					switch {
					case vt.ptr == kd.ctor:
						env2 = env.with(obj, &ntVar{lean: vname, typ: vt, state: "ok"})
					case vt.k == "sx":
						env2 = env.with(obj, &ntVar{lean: fmt.Sprintf("(Sx.%s %s)", kd.ctor, vname), typ: vt, state: "ok"})
					default:
						env2 = env.with(obj, &ntVar{typ: ntType{k: "opaque"}, state: "opaque"})
					}
				}
			}
		}
		arm, err := c.stmts(body, env2, rest, rest)
		if err != nil {
			return "", err
		}
		arms = append(arms, fmt.Sprintf("| .%s %s =>\n%s", kd.ctor, vname, ntIndent(arm)))
	}
	for _, cl := range s.Body.List {
		cc := cl.(*ast.CaseClause)
		if !used[cc] {
			lbl := "default"
			if cc.List != nil {
				var ls []string
				for _, te := range cc.List {
					ls = append(ls, c.src(te))
				}
				lbl = "case " + strings.Join(ls, ", ")
			}
			c.t.skipped[fmt.Sprintf("%s: type switch on `%s`: `%s` selects no operand kind", c.fn.name, c.src(x), lbl)] = true
		}
	}
	return c.guarded(g, fmt.Sprintf("match %s with\n%s", xterm, strings.Join(arms, "\n")))
}

func (c *ntCtx) exprSwitch(s *ast.SwitchStmt, env ntEnv, rest ntCont) (string, error) {
	if s.Init != nil {
		s2 := *s
		s2.Init = nil
		return c.stmts([]ast.Stmt{s.Init, &s2}, env, rest, nil)
	}
	var dflt *ast.CaseClause
	var clauses []*ast.CaseClause
	for _, cl := range s.Body.List {
		cc := cl.(*ast.CaseClause)
		if cc.List == nil {
			dflt = cc
		} else {
			clauses = append(clauses, cc)
		}
	}
	bodyOf := func(cc *ast.CaseClause, e ntEnv) (string, error) {
		if cc == nil {
			return rest(e)
		}
		return c.stmts(cc.Body, e, rest, rest)
	}
	if s.Tag != nil {
		tterm, tt, g, err := c.expr(s.Tag, env)
		if err != nil {
			return "", err
		}
		if tt.k == "enum" {
			vals := c.t.enumVals[tt.enum]
			var arms []string
			used := map[*ast.CaseClause]bool{}
			for _, cn := range ntEnums[tt.enum] {
				var sel *ast.CaseClause
				for _, cc := range clauses {
					for _, le := range cc.List {
						tv := c.t.info.Types[le]
						if tv.Value == nil {
							return "", c.refuse(le, "case label that is not a constant")
						}
						if constant.Compare(tv.Value, token.EQL, vals[cn]) {
							sel = cc
						}
					}
					if sel != nil {
						break
					}
				}
				if sel == nil {
					sel = dflt
				}
				if sel != nil {
					used[sel] = true
				}
				arm, err := bodyOf(sel, env)
				if err != nil {
					return "", err
				}
				arms = append(arms, fmt.Sprintf("| .%s =>\n%s", cn, ntIndent(arm)))
			}
			for _, cl := range s.Body.List {
				cc := cl.(*ast.CaseClause)
				if !used[cc] {
					lbl := "default"
					if cc.List != nil {
						var ls []string
						for _, te := range cc.List {
							ls = append(ls, c.src(te))
						}
						lbl = "case " + strings.Join(ls, ", ")
					}
					c.t.skipped[fmt.Sprintf("%s: switch on `%s`: `%s` selects no %s of the domain", c.fn.name, c.src(s.Tag), lbl, tt.enum)] = true
				}
			}
			return c.guarded(g, fmt.Sprintf("match %s with\n%s", tterm, strings.Join(arms, "\n")))
		}
		if tt.k != "bv" && tt.k != "bool" || tt.ptr != "" {
			return "", c.refuse(s.Tag, "switch on a value of this type")
		}
		// integer / bool tag with constant labels: an if-chain on `tag == label`
		chain, err := c.caseChain(clauses, dflt, env, rest, func(le ast.Expr) (string, []string, error) {
			if c.t.info.Types[le].Value == nil {
				return "", nil, c.refuse(le, "case label that is not a constant")
			}
			lt, lty, lg, err := c.expr(le, env)
			if err != nil {
				return "", nil, err
			}
			term, _, g2, err := c.binop(le, token.EQL, "tag_", tt, lt, lty, nil)
			return term, append(lg, g2...), err
		})
		if err != nil {
			return "", err
		}
		return c.guarded(g, fmt.Sprintf("let tag_ : %s := %s\n%s", tt.lean(), tterm, chain))
	}
	return c.caseChain(clauses, dflt, env, rest, func(le ast.Expr) (string, []string, error) {
		t, ty, g, err := c.expr(le, env)
		if err == nil && ty.k != "bool" {
			err = c.refuse(le, "case condition that is not a bool")
		}
		return t, g, err
	})
}

// caseChain: clauses tried in order, `default` (wherever it is written) last.
func (c *ntCtx) caseChain(clauses []*ast.CaseClause, dflt *ast.CaseClause, env ntEnv, rest ntCont,
	cond func(ast.Expr) (string, []string, error)) (string, error) {
	if len(clauses) == 0 {
		if dflt == nil {
			return rest(env)
		}
		return c.stmts(dflt.Body, env, rest, rest)
	}
	cc := clauses[0]
	var conds []string
	for _, le := range cc.List {
		t, g, err := cond(le)
		if err != nil {
			return "", err
		}
		if len(g) > 0 {
			return "", c.refuse(le, "case condition that can panic")
		}
		conds = append(conds, "("+t+")")
	}
	thenS, err := c.stmts(cc.Body, env, rest, rest)
	if err != nil {
		return "", err
	}
	elseS, err := c.caseChain(clauses[1:], dflt, env, rest, cond)
	if err != nil {
		return "", err
	}
	return fmt.Sprintf("if %s then\n%s\nelse\n%s", strings.Join(conds, " || "), ntIndent(thenS), ntIndent(elseS)), nil
}

// ---------------------------------------------------------------- return

func (c *ntCtx) isNilErr(e ast.Expr, env ntEnv) bool {
	if c.t.info.Types[e].IsNil() {
		return true
	}
	if id, ok := e.(*ast.Ident); ok {
		if v, ok := env[c.t.info.ObjectOf(id)]; ok && v.state == "errnil" {
			return true
		}
	}
	return false
}

// errorValue: an expression of type error that is certainly non-nil and has no effect.
func (c *ntCtx) errorValue(e ast.Expr, env ntEnv) bool {
	switch e := e.(type) {
	case *ast.Ident:
		// a package-level error variable (WrongType, WrongNargs, …)
		if v, ok := c.t.info.Uses[e].(*types.Var); ok && v.Parent() == v.Pkg().Scope() {
			return true
		}
	case *ast.CallExpr:
		return c.pureOpaque(e, env)
	}
	return false
}

func (c *ntCtx) ret(s *ast.ReturnStmt, env ntEnv) (string, error) {
	f := c.fn
	wrapOK := func(term string) string {
		if c.monadic {
			return ".ok " + ntParen(term)
		}
		return term
	}
	value := func(e ast.Expr) (string, error) {
		// a call of a fallible translated function
		if call, callee := c.zygoCall(e); callee != nil {
			c.t.translate(callee)
			if callee.state == 4 {
				return "", c.refuse(e, "call of %s, which is not translatable (%s) and has no last-good translation", callee.name, callee.why.construct)
			}
			if callee.isMonadic(c.t) && !callee.hasErr {
				if !c.monadic {
					return "", errNeedMonad
				}
				ct, g, err := c.callTerm(call, callee, env)
				if err != nil {
					return "", err
				}
				conv, err := c.coerce(e, "r_", callee.res, f.res)
				if err != nil {
					return "", err
				}
				if conv == "r_" {
					return c.guarded(g, fmt.Sprintf("bind (%s) .ok", ct))
				}
				return c.guarded(g, fmt.Sprintf("bind (%s) (fun r_ => .ok %s)", ct, conv))
			}
		}
		term, ty, g, err := c.expr(e, env)
		if err != nil {
			return "", err
		}
		term, err = c.coerce(e, term, ty, f.res)
		if err != nil {
			return "", err
		}
		return c.guarded(g, wrapOK(term))
	}
	switch {
	case !f.hasErr && len(s.Results) == 1:
		return value(s.Results[0])
	case f.hasErr && len(s.Results) == 2:
		if c.isNilErr(s.Results[1], env) {
			return value(s.Results[0])
		}
		if !c.errorValue(s.Results[1], env) {
			return "", c.refuse(s.Results[1], "error value `%s`", c.src(s.Results[1]))
		}
		// the value returned beside a non-nil error is not modelled; it must be effect-free
		switch v := s.Results[0].(type) {
		case *ast.Ident, *ast.BasicLit:
			_ = v
		default:
			if _, _, g, err := c.expr(s.Results[0], env); err != nil || len(g) > 0 {
				return "", c.refuse(s.Results[0], "value returned beside an error is not a plain variable or constant")
			}
		}
		return ".err", nil
	case f.hasErr && len(s.Results) == 1:
		call, callee := c.zygoCall(s.Results[0])
		if callee == nil {
			return "", c.refuse(s, "return of a multi-value call that is not a translated function")
		}
		c.t.translate(callee)
		if callee.state == 4 {
			return "", c.refuse(s, "call of %s, which is not translatable (%s) and has no last-good translation", callee.name, callee.why.construct)
		}
		if !callee.hasErr {
			return "", c.refuse(s, "return of a single-value call from a (value, error) function")
		}
		ct, g, err := c.callTerm(call, callee, env)
		if err != nil {
			return "", err
		}
		conv, err := c.coerce(s, "r_", callee.res, f.res)
		if err != nil {
			return "", err
		}
		if conv == "r_" {
			return c.guarded(g, ct)
		}
		return c.guarded(g, fmt.Sprintf("bind (%s) (fun r_ => .ok %s)", ct, conv))
	}
	return "", c.refuse(s, "return with %d values", len(s.Results))
}

// ---------------------------------------------------------------- calls

func (f *ntFn) isMonadic(t *ntTranslator) bool {
	if f.state == 3 {
		return t.goodMonadic(f.name)
	}
	return f.monadic
}

// zygoCall: is e a call of a package-level function / method of package zygo (not a conversion)?
func (c *ntCtx) zygoCall(e ast.Expr) (*ast.CallExpr, *ntFn) {
	for {
		p, ok := e.(*ast.ParenExpr)
		if !ok {
			break
		}
		e = p.X
	}
	call, ok := e.(*ast.CallExpr)
	if !ok {
		return nil, nil
	}
	var id *ast.Ident
	switch f := call.Fun.(type) {
	case *ast.Ident:
		id = f
	case *ast.SelectorExpr:
		id = f.Sel
	default:
		return nil, nil
	}
	fn, ok := c.t.info.Uses[id].(*types.Func)
	if !ok || fn.Pkg() != c.t.w.Zygo.Types {
		return nil, nil
	}
	if sig := fn.Type().(*types.Signature); sig.Recv() != nil {
		if _, isIface := sig.Recv().Type().Underlying().(*types.Interface); isIface {
			return nil, nil
		}
	}
	return call, c.t.lookup(fn)
}

func (c *ntCtx) callTerm(call *ast.CallExpr, callee *ntFn, env ntEnv) (string, []string, error) {
	if callee.state == 1 {
		return "", nil, c.refuse(call, "recursion through %s", callee.name)
	}
	if err := c.t.signature(callee); err != nil {
		return "", nil, err
	}
	if len(call.Args) != len(callee.keep) {
		return "", nil, c.refuse(call, "call with a multi-value argument")
	}
	parts := []string{callee.name, "fs"}
	var guards []string
	k := 0
	for i, a := range call.Args {
		if !callee.keep[i] {
			if !c.pureOpaque(a, env) {
				return "", nil, c.refuse(a, "argument of a type outside the subset that is not a plain variable")
			}
			continue
		}
		if _, inner := c.zygoCall(a); inner != nil {
			c.t.translate(inner)
			if inner.state != 4 && inner.isMonadic(c.t) {
				return "", nil, c.refuse(a, "call of the fallible function %s inside an argument list", inner.name)
			}
		}
		term, ty, g, err := c.expr(a, env)
		if err != nil {
			return "", nil, err
		}
		term, err = c.coerce(a, term, ty, callee.params[k].typ)
		if err != nil {
			return "", nil, err
		}
		k++
		guards = append(guards, g...)
		parts = append(parts, ntParen(term))
	}
	return strings.Join(parts, " "), guards, nil
}

var ntAtom = regexp.MustCompile(`^[A-Za-z_][A-Za-z0-9_'.]*$|^[0-9]+#[0-9]+$|^\(.*\)$`)

func ntParen(s string) string {
	if ntAtom.MatchString(s) && balancedOuter(s) {
		return s
	}
	return "(" + s + ")"
}

// balancedOuter: for a string starting with '(' check that this paren closes at the very end.
func balancedOuter(s string) bool {
	if !strings.HasPrefix(s, "(") {
		return true
	}
	d := 0
	for i, r := range s {
		switch r {
		case '(':
			d++
		case ')':
			d--
			if d == 0 && i != len(s)-1 {
				return false
			}
		}
	}
	return d == 0
}

// coerce converts a term of Go static type `from` to `to` (only *SexpT → Sexp is implicit in Go).
func (c *ntCtx) coerce(n ast.Node, term string, from, to ntType) (string, error) {
	if from.same(to) {
		return term, nil
	}
	if to.k == "sx" && to.ptr == "" && from.ptr != "" {
		return fmt.Sprintf("(Sx.%s %s)", from.ptr, ntParen(term)), nil
	}
	return "", c.refuse(n, "conversion of a %s value to %s", ntDescribe(from), ntDescribe(to))
}

func ntDescribe(t ntType) string {
	if t.ptr != "" {
		return "*Sexp(" + t.ptr + ")"
	}
	return t.k
}

// ---------------------------------------------------------------- expressions

func ntLit(v constant.Value, t ntType) (string, bool) {
	iv := constant.ToInt(v)
	if iv.Kind() != constant.Int {
		return "", false
	}
	d := iv.ExactString()
	if strings.HasPrefix(d, "-") {
		return fmt.Sprintf("(-%s#%d)", d[1:], t.width), true
	}
	return fmt.Sprintf("%s#%d", d, t.width), true
}

// expr returns (Lean term, type, panic guards in evaluation order).
func (c *ntCtx) expr(e ast.Expr, env ntEnv) (string, ntType, []string, error) {
	none := ntType{}
	tv, has := c.t.info.Types[e]
	if has && tv.Value != nil {
		ty := c.t.repr(tv.Type)
		switch ty.k {
		case "bv":
			if ty.ptr == "" {
				if s, ok := ntLit(tv.Value, ty); ok {
					return s, ty, nil, nil
				}
			}
		case "bool":
			if constant.BoolVal(tv.Value) {
				return "true", ty, nil, nil
			}
			return "false", ty, nil, nil
		case "float":
			if constant.Sign(tv.Value) == 0 {
				return "fs.zero", ty, nil, nil
			}
			return "", none, nil, c.refuse(e, "float constant %s (only 0 is in the subset)", tv.Value.ExactString())
		case "enum":
			for _, cn := range ntEnums[ty.enum] {
				if constant.Compare(tv.Value, token.EQL, c.t.enumVals[ty.enum][cn]) {
					return ty.enum + "." + cn, ty, nil, nil
				}
			}
			return "", none, nil, c.refuse(e, "%s constant `%s` outside the translated domain", ty.enum, c.src(e))
		}
		return "", none, nil, c.refuse(e, "constant `%s` of type %s", c.src(e), tv.Type)
	}
	switch e := e.(type) {
	case *ast.ParenExpr:
		return c.expr(e.X, env)
	case *ast.Ident:
		if has && tv.IsNil() {
			return "", none, nil, c.refuse(e, "nil as a value")
		}
		v, err := c.readVar(e, env)
		if err != nil {
			return "", none, nil, err
		}
		return v.lean, v.typ, nil, nil
	case *ast.SelectorExpr:
		xt := c.t.repr(c.t.info.TypeOf(e.X))
		if xt.ptr == "" || e.Sel.Name != "Val" {
			return "", none, nil, c.refuse(e, "selector `%s`", c.src(e))
		}
		term, ty, g, err := c.expr(e.X, env)
		if err != nil {
			return "", none, nil, err
		}
		ty.ptr = ""
		return term, ty, g, nil
	case *ast.UnaryExpr:
		if e.Op == token.AND {
			cl, ok := e.X.(*ast.CompositeLit)
			if !ok {
				return "", none, nil, c.refuse(e, "address-of something that is not a struct literal")
			}
			pt := c.t.repr(c.t.info.TypeOf(e))
			if pt.ptr == "" {
				return "", none, nil, c.refuse(e, "literal of type %s", c.t.info.TypeOf(e))
			}
			if len(cl.Elts) != 1 {
				return "", none, nil, c.refuse(e, "struct literal that does not set exactly the field Val")
			}
			kv, ok := cl.Elts[0].(*ast.KeyValueExpr)
			if !ok || c.src(kv.Key) != "Val" {
				return "", none, nil, c.refuse(e, "struct literal that does not set exactly the field Val")
			}
			term, ty, g, err := c.expr(kv.Value, env)
			if err != nil {
				return "", none, nil, err
			}
			want := pt
			want.ptr = ""
			if !ty.same(want) {
				return "", none, nil, c.refuse(kv.Value, "field value of type %s", ntDescribe(ty))
			}
			return term, pt, g, nil
		}
		term, ty, g, err := c.expr(e.X, env)
		if err != nil {
			return "", none, nil, err
		}
		switch {
		case e.Op == token.NOT && ty.k == "bool":
			return "!" + ntParen(term), ty, g, nil
		case e.Op == token.SUB && ty.k == "bv" && ty.ptr == "":
			return "-" + ntParen(term), ty, g, nil
		case e.Op == token.XOR && ty.k == "bv" && ty.ptr == "":
			return "~~~" + ntParen(term), ty, g, nil
		case e.Op == token.ADD && ty.k == "bv" && ty.ptr == "":
			return term, ty, g, nil
		}
		return "", none, nil, c.refuse(e, "unary %s on a %s", e.Op, ntDescribe(ty))
	case *ast.BinaryExpr:
		if e.Op == token.LAND || e.Op == token.LOR {
			l, lt, lg, err := c.expr(e.X, env)
			if err != nil {
				return "", none, nil, err
			}
			r, rt, rg, err := c.expr(e.Y, env)
			if err != nil {
				return "", none, nil, err
			}
			if lt.k != "bool" || rt.k != "bool" {
				return "", none, nil, c.refuse(e, "%s on non-bool operands", e.Op)
			}
			if len(rg) > 0 {
				return "", none, nil, c.refuse(e, "right operand of %s can panic", e.Op)
			}
			op := "&&"
			if e.Op == token.LOR {
				op = "||"
			}
			return fmt.Sprintf("(%s %s %s)", ntParen(l), op, ntParen(r)), lt, lg, nil
		}
		l, lt, lg, err := c.expr(e.X, env)
		if err != nil {
			return "", none, nil, err
		}
		r, rt, rg, err := c.expr(e.Y, env)
		if err != nil {
			return "", none, nil, err
		}
		var rconst constant.Value
		if tvy, ok := c.t.info.Types[e.Y]; ok {
			rconst = tvy.Value
		}
		term, ty, g, err := c.binop(e, e.Op, l, lt, r, rt, rconst)
		if err != nil {
			return "", none, nil, err
		}
		return term, ty, append(append(lg, rg...), g...), nil
	case *ast.CallExpr:
		if ftv, ok := c.t.info.Types[e.Fun]; ok && ftv.IsType() {
			if len(e.Args) != 1 {
				return "", none, nil, c.refuse(e, "conversion with %d arguments", len(e.Args))
			}
			term, from, g, err := c.expr(e.Args[0], env)
			if err != nil {
				return "", none, nil, err
			}
			to := c.t.repr(ftv.Type)
			out, err := c.convert(e, term, from, to)
			return out, to, g, err
		}
		if sel, ok := e.Fun.(*ast.SelectorExpr); ok {
			if f, ok := c.t.info.Uses[sel.Sel].(*types.Func); ok && f.Pkg() != nil && f.Pkg().Path() == "math" && f.Name() == "IsNaN" && len(e.Args) == 1 {
				term, ty, g, err := c.expr(e.Args[0], env)
				if err != nil {
					return "", none, nil, err
				}
				if ty.k != "float" {
					return "", none, nil, c.refuse(e, "math.IsNaN of a non-float")
				}
				return "fs.isNaN " + ntParen(term), ntType{k: "bool"}, g, nil
			}
		}
		call, callee := c.zygoCall(e)
		if callee == nil {
			return "", none, nil, c.refuse(e, "call of `%s`", c.src(e.Fun))
		}
		c.t.translate(callee)
		if callee.state == 4 {
			return "", none, nil, c.refuse(e, "call of %s, which is not translatable (%s) and has no last-good translation", callee.name, callee.why.construct)
		}
		if callee.state == 1 {
			return "", none, nil, c.refuse(e, "recursion through %s", callee.name)
		}
		if callee.isMonadic(c.t) {
			return "", none, nil, c.refuse(e, "call of the fallible function %s inside an expression", callee.name)
		}
		ct, g, err := c.callTerm(call, callee, env)
		if err != nil {
			return "", none, nil, err
		}
		return "(" + ct + ")", callee.res, g, nil
	}
	return "", none, nil, c.refuse(e, "expression %T", e)
}

func (c *ntCtx) convert(n ast.Node, term string, from, to ntType) (string, error) {
	if from.ptr != "" || to.ptr != "" {
		return "", c.refuse(n, "conversion between pointer types")
	}
	switch {
	case from.k == "bv" && to.k == "bv":
		switch {
		case to.width == from.width:
			return term, nil
		case to.width < from.width:
			return fmt.Sprintf("BitVec.truncate %d %s", to.width, ntParen(term)), nil
		case from.signed:
			return fmt.Sprintf("BitVec.signExtend %d %s", to.width, ntParen(term)), nil
		default:
			return fmt.Sprintf("BitVec.zeroExtend %d %s", to.width, ntParen(term)), nil
		}
	case from.k == "bv" && to.k == "float":
		if from.signed {
			return fmt.Sprintf("fs.ofInt (BitVec.toInt %s)", ntParen(term)), nil
		}
		return fmt.Sprintf("fs.ofInt (BitVec.toNat %s : Int)", ntParen(term)), nil
	case from.k == "float" && to.k == "float":
		return term, nil
	case from.k == "bool" && to.k == "bool":
		return term, nil
	}
	return "", c.refuse(n, "conversion from %s to %s", ntDescribe(from), ntDescribe(to))
}

// binop: Go's binary operator on operands of the given static types.
func (c *ntCtx) binop(n ast.Node, op token.Token, l string, lt ntType, r string, rt ntType, rconst constant.Value) (string, ntType, []string, error) {
	none := ntType{}
	boolT := ntType{k: "bool"}
	// Identity is not expressible: a Sexp / *SexpT is translated as the VALUE it holds, so any
	// operator applied to the references themselves (a == b, a != nil, …) must be refused —
	// never skipped (seeded C07-m3: `if a == b { return 0, nil }` in Compare makes a NaN object
	// equal to itself).
	if lt.ptr != "" || rt.ptr != "" || lt.k == "sx" || rt.k == "sx" {
		return "", none, nil, c.refuse(n, "operator %s on Sexp references (object identity has no counterpart in the value-level translation)", op)
	}
	L, R := ntParen(l), ntParen(r)
	if op == token.SHL || op == token.SHR {
		if lt.k != "bv" || rt.k != "bv" {
			return "", none, nil, c.refuse(n, "shift of a %s by a %s", lt.k, rt.k)
		}
		if rt.signed && rconst == nil {
			return "", none, nil, c.refuse(n, "shift by a signed count (panics when negative)")
		}
		// GoSem.shl/shrU/shrS = BitVec's <<< / >>> / sshiftRight by the count's toNat (shl_eq, …)
		switch {
		case op == token.SHL:
			return fmt.Sprintf("shl %s %s", L, R), lt, nil, nil
		case lt.signed:
			return fmt.Sprintf("shrS %s %s", L, R), lt, nil, nil
		default:
			return fmt.Sprintf("shrU %s %s", L, R), lt, nil, nil
		}
	}
	if !lt.same(rt) {
		return "", none, nil, c.refuse(n, "operator %s on operands of different types (%s, %s)", op, ntDescribe(lt), ntDescribe(rt))
	}
	switch lt.k {
	case "bv":
		zero := fmt.Sprintf("0#%d", lt.width)
		var guards []string
		needGuard := rconst == nil || constant.Sign(rconst) == 0
		switch op {
		case token.ADD:
			return L + " + " + R, lt, nil, nil
		case token.SUB:
			return L + " - " + R, lt, nil, nil
		case token.MUL:
			return L + " * " + R, lt, nil, nil
		case token.AND:
			return L + " &&& " + R, lt, nil, nil
		case token.OR:
			return L + " ||| " + R, lt, nil, nil
		case token.XOR:
			return L + " ^^^ " + R, lt, nil, nil
		case token.AND_NOT:
			return L + " &&& ~~~" + R, lt, nil, nil
		case token.QUO, token.REM:
			if needGuard {
				guards = []string{fmt.Sprintf("%s == %s", R, zero)}
			}
			fn := map[bool]map[token.Token]string{true: {token.QUO: "sdiv", token.REM: "srem"}, false: {token.QUO: "udiv", token.REM: "umod"}}[lt.signed][op]
			return fmt.Sprintf("BitVec.%s %s %s", fn, L, R), lt, guards, nil
		case token.EQL:
			return L + " == " + R, boolT, nil, nil
		case token.NEQ:
			return L + " != " + R, boolT, nil, nil
		case token.LSS, token.LEQ, token.GTR, token.GEQ:
			a, b := L, R
			if op == token.GTR || op == token.GEQ {
				a, b = R, L
			}
			strict := op == token.LSS || op == token.GTR
			fn := map[bool]map[bool]string{true: {true: "slt", false: "sle"}, false: {true: "ult", false: "ule"}}[lt.signed][strict]
			return fmt.Sprintf("BitVec.%s %s %s", fn, a, b), boolT, nil, nil
		}
	case "float":
		switch op {
		case token.ADD:
			return fmt.Sprintf("fs.add %s %s", L, R), lt, nil, nil
		case token.SUB:
			return fmt.Sprintf("fs.sub %s %s", L, R), lt, nil, nil
		case token.MUL:
			return fmt.Sprintf("fs.mul %s %s", L, R), lt, nil, nil
		case token.QUO:
			return fmt.Sprintf("fs.div %s %s", L, R), lt, nil, nil
		case token.LSS:
			return fmt.Sprintf("fs.lt %s %s", L, R), boolT, nil, nil
		case token.GTR:
			return fmt.Sprintf("fs.lt %s %s", R, L), boolT, nil, nil
		}
		return "", none, nil, c.refuse(n, "float operator %s (FloatSem has + - * / < > only)", op)
	case "bool":
		switch op {
		case token.EQL:
			return L + " == " + R, boolT, nil, nil
		case token.NEQ:
			return L + " != " + R, boolT, nil, nil
		}
	case "enum":
		switch op {
		case token.EQL:
			return L + " == " + R, boolT, nil, nil
		case token.NEQ:
			return L + " != " + R, boolT, nil, nil
		}
	}
	return "", none, nil, c.refuse(n, "operator %s on %s operands", op, ntDescribe(lt))
}

// ---------------------------------------------------------------- last-good file

var ntSigLine = regexp.MustCompile(`(?m)^\s*\("([^"]+)", "((?:[^"\\]|\\.)*)", (true|false)\)`)

type ntGood struct {
	sig     map[string]string
	monadic map[string]bool
}

var ntGoodFile ntGood

func (t *ntTranslator) goodMonadic(name string) bool { return ntGoodFile.monadic[name] }

func ntLoadGood() (ntGood, string) {
	g := ntGood{sig: map[string]string{}, monadic: map[string]bool{}}
	var cands []string
	if p := os.Getenv("NUMGO_LASTGOOD"); p != "" {
		cands = append(cands, p)
	}
	cands = append(cands, filepath.Join("..", "lean", "ZygoVerif", "Model", "NumGoGood.lean"))
	if exe, err := os.Executable(); err == nil {
		cands = append(cands, filepath.Join(filepath.Dir(exe), "..", "lean", "ZygoVerif", "Model", "NumGoGood.lean"))
	}
	for _, p := range cands {
		b, err := os.ReadFile(p)
		if err != nil {
			continue
		}
		for _, m := range ntSigLine.FindAllStringSubmatch(string(b), -1) {
			g.sig[m[1]] = strings.ReplaceAll(m[2], `\"`, `"`)
			g.monadic[m[1]] = m[3] == "true"
		}
		return g, p
	}
	return g, ""
}

// ---------------------------------------------------------------- emitter

func init() {
	register(Emitter{File: "NumGo.lean", Run: runNumTrans})
}

func ntHeader() string {
	return "import ZygoVerif.Model.Num\nimport ZygoVerif.Model.GoSem\nimport ZygoVerif.Model.NumGoGood\n" +
		"set_option linter.unusedVariables false\nnamespace ZygoVerif.NumGo\nopen ZygoVerif.Num ZygoVerif.GoSem\n\n"
}

func runNumTrans(w *World) (out string, err error) {
	good, goodPath := ntLoadGood()
	ntGoodFile = good
	defer func() {
		if r := recover(); r != nil {
			// never break the shared T1 step: every function falls back, the panic is a problem
			var b strings.Builder
			b.WriteString(ntHeader())
			names := make([]string, 0, len(good.sig))
			for n := range good.sig {
				names = append(names, n)
			}
			sort.Strings(names)
			var refused []string
			for _, n := range names {
				fmt.Fprintf(&b, "@[reducible] def %s := @ZygoVerif.NumGoGood.%s\n", n, n)
				refused = append(refused, fmt.Sprintf("(%s, %s, %s)", LeanString(n), LeanString("translator panic"), LeanString("-")))
			}
			b.WriteString(LeanList("refused", "(String × String × String)", refused, 100))
			b.WriteString(LeanList("problems", "String", []string{LeanString(fmt.Sprint("translator panic: ", r))}, 100))
			b.WriteString("def goSigs : List (String × String × Bool) := []\ndef skippedArms : List String := []\n")
			b.WriteString("end ZygoVerif.NumGo\n")
			var unf []string
			for _, n := range names {
				unf = append(unf, "ZygoVerif.NumGo."+n)
			}
			fmt.Fprintf(&b, "macro \"numgo_unfold\" : tactic => `(tactic| (try simp only [%s]; try numgogood_unfold))\n", strings.Join(unf, ", "))
			out, err = b.String(), nil
			w.Facts["numgo"] = map[string]interface{}{"panic": fmt.Sprint(r)}
		}
	}()
	t := &ntTranslator{w: w, info: w.Info(), fns: map[*types.Func]*ntFn{}, byName: map[string]*ntFn{},
		kindPtr: map[string]types.Type{}, enumVals: map[string]map[string]constant.Value{}, skipped: map[string]bool{}, good: good.sig}
	if goodPath == "" {
		t.problems = append(t.problems, "last-good translation Model/NumGoGood.lean not found: no fallback available")
	}
	scope := w.Zygo.Types.Scope()
	for _, kd := range ntKinds {
		obj, _ := scope.Lookup(kd.goStruct).(*types.TypeName)
		ok := false
		if obj != nil {
			if st, isStruct := obj.Type().Underlying().(*types.Struct); isStruct {
				for i := 0; i < st.NumFields(); i++ {
					if b, isB := st.Field(i).Type().(*types.Basic); st.Field(i).Name() == "Val" && isB && b.Kind() == kd.val {
						ok = true
					}
				}
			}
		}
		if !ok {
			t.problems = append(t.problems, fmt.Sprintf("struct %s with a field Val of the expected basic type not found", kd.goStruct))
			continue
		}
		t.kindPtr[kd.ctor] = types.NewPointer(obj.Type())
	}
	for en, cs := range ntEnums {
		t.enumVals[en] = map[string]constant.Value{}
		seen := map[string]string{}
		for _, cn := range cs {
			cobj, _ := scope.Lookup(cn).(*types.Const)
			if cobj == nil || types.TypeString(cobj.Type(), func(*types.Package) string { return "" }) != en {
				t.problems = append(t.problems, fmt.Sprintf("constant %s of type %s not found", cn, en))
				t.enumVals[en][cn] = constant.MakeInt64(-1 - int64(len(seen)))
				continue
			}
			if prev, dup := seen[cobj.Val().ExactString()]; dup {
				t.problems = append(t.problems, fmt.Sprintf("constants %s and %s of %s have the same value", prev, cn, en))
			}
			seen[cobj.Val().ExactString()] = cn
			t.enumVals[en][cn] = cobj.Val()
		}
	}
	// roots
	for _, rn := range ntRoots {
		fd := w.FuncDecl(rn)
		if fd == nil {
			continue // a helper that no longer exists is not an error: what is called is what matters
		}
		obj, _ := t.info.Defs[fd.Name].(*types.Func)
		if obj == nil {
			continue
		}
		if len(t.kindPtr) == len(ntKinds) {
			t.translate(t.lookup(obj))
		}
	}
	var b strings.Builder
	b.WriteString(ntHeader())
	var refused, sigs []string
	emitted := map[string]bool{}
	for _, f := range t.order {
		b.WriteString(f.text)
		b.WriteString("\n")
		emitted[f.name] = true
		mon := f.monadic
		if f.state == 3 {
			mon = good.monadic[f.name]
			refused = append(refused, fmt.Sprintf("(%s, %s, %s)", LeanString(f.name), LeanString(f.why.construct), LeanString(f.why.pos)))
		}
		sigs = append(sigs, fmt.Sprintf("(%s, %s, %v)", LeanString(f.name), LeanString(f.goSig), mon))
	}
	for _, f := range t.fns {
		if f.state == 4 {
			t.problems = append(t.problems, fmt.Sprintf("%s refused (%s at %s) and no last-good translation with the same Go signature exists", f.name, f.why.construct, f.why.pos))
		}
	}
	for _, rq := range ntRequired {
		if !emitted[rq] {
			t.problems = append(t.problems, fmt.Sprintf("required function %s is not available", rq))
			if _, ok := good.sig[rq]; ok {
				// keep the library and the driver building: the stale last-good text stands in
				fmt.Fprintf(&b, "@[reducible] def %s := @ZygoVerif.NumGoGood.%s\n\n", rq, rq)
			}
		}
	}
	sort.Strings(t.problems)
	var skipped []string
	for s := range t.skipped {
		skipped = append(skipped, s)
	}
	sort.Strings(skipped)
	var sk, pr []string
	for _, s := range skipped {
		sk = append(sk, LeanString(s))
	}
	for _, s := range t.problems {
		pr = append(pr, LeanString(s))
	}
	b.WriteString("/-- Go signature of every definition above and whether it lives in `Res` (read back by the\ntranslator from the last-good copy to decide whether a refused function may fall back). -/\n")
	b.WriteString("def goSigs : List (String × String × Bool) := [\n  " + strings.Join(sigs, ",\n  ") + "]\n\n")
	b.WriteString("/-- functions the translator refused (name, construct, position); each is an alias of its\nlast-good translation above. Not an alarm by itself: the `num` channel compares them with the code. -/\n")
	b.WriteString(LeanList("refused", "(String × String × String)", refused, 100))
	b.WriteString("\n/-- arms skipped because no operand of the translated domain reaches them. -/\n")
	b.WriteString(LeanList("skippedArms", "String", sk, 100))
	b.WriteString("\n/-- what the translator could neither translate nor fall back on. Props/C07 requires `[]`. -/\n")
	b.WriteString(LeanList("problems", "String", pr, 100))
	// a tactic that unfolds every definition of this file (and then of the last-good copy, for
	// aliases), so that proof scripts in Props/C07.lean do not name helper functions
	var unf []string
	for _, f := range t.order {
		unf = append(unf, "ZygoVerif.NumGo."+f.name)
	}
	for _, rq := range ntRequired {
		if !emitted[rq] {
			if _, ok := good.sig[rq]; ok {
				unf = append(unf, "ZygoVerif.NumGo."+rq)
			}
		}
	}
	b.WriteString("\nend ZygoVerif.NumGo\n\n/-- unfolds every translated definition (helpers included, whatever they are called today). -/\n")
	fmt.Fprintf(&b, "macro \"numgo_unfold\" : tactic => `(tactic| (try simp only [%s, ZygoVerif.GoSem.bind_ok, ZygoVerif.GoSem.bind_err, ZygoVerif.GoSem.bind_panic, ZygoVerif.GoSem.bind_ok_right, ZygoVerif.GoSem.bind_ite]; try numgogood_unfold))\n", strings.Join(unf, ", "))
	var rf []map[string]string
	for _, f := range t.order {
		if f.state == 3 {
			rf = append(rf, map[string]string{"function": f.name, "construct": f.why.construct, "pos": f.why.pos})
		}
	}
	w.Facts["numgo"] = map[string]interface{}{"translated": len(t.order) - len(rf), "refused": rf, "problems": t.problems, "skipped_arms": skipped, "last_good": goodPath}
	return b.String(), nil
}
