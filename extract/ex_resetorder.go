package main

// Generated/ResetOrder.lean (tie T1 for C13, history clause): the ORDER in which
// Parser.Reset, Parser.ResetAddNewInput and Parser.Stop act on the parser — assignments to
// fields of the receiver ("assign:<field>"), calls of function-typed fields ("call:stop" is
// the stop function of the suspended iter.Pull coroutine) and calls of methods of fields
// ("call:lexer.Reset", "call:lexer.AddNextStream"). Calls of other methods of the same
// receiver type (helpers such as a factored-out teardown) are replaced by what the helper
// does, in place, so a refactoring that keeps the order keeps the table.
// The model (Model/Abandon.PSt.reset / resetAddNewInput) performs the steps in this order;
// Props/C13.reset_stops_coroutine_first states the protocol rule on the regenerated table.
// Purely syntactic; straight-line code with `if` only, anything else is "left the readable shape".

import (
	"fmt"
	"go/ast"
	"strings"
)

func init() { register(Emitter{File: "ResetOrder.lean", Run: emitResetOrder}) }

type effectWalker struct {
	w     *World
	typ   string
	out   []string
	err   error
	depth int
}

func recvIdent(fd *ast.FuncDecl) string {
	if fd == nil || fd.Recv == nil || len(fd.Recv.List) == 0 || len(fd.Recv.List[0].Names) == 0 {
		return ""
	}
	return fd.Recv.List[0].Names[0].Name
}

// selOf: e is `<recv>.<name>` -> name
func selOf(e ast.Expr, recv string) (string, bool) {
	if s, ok := e.(*ast.SelectorExpr); ok {
		if id, ok := s.X.(*ast.Ident); ok && id.Name == recv {
			return s.Sel.Name, true
		}
	}
	return "", false
}

func (ew *effectWalker) fail(format string, a ...interface{}) {
	if ew.err == nil {
		ew.err = fmt.Errorf(format, a...)
	}
}

// expr records the calls inside an expression in evaluation (source) order.
func (ew *effectWalker) expr(e ast.Expr, recv string) {
	if e == nil {
		return
	}
	ast.Inspect(e, func(n ast.Node) bool {
		switch t := n.(type) {
		case *ast.FuncLit:
			return false
		case *ast.CallExpr:
			// arguments first
			for _, a := range t.Args {
				ew.expr(a, recv)
			}
			if s, ok := t.Fun.(*ast.SelectorExpr); ok {
				if name, ok := selOf(t.Fun, recv); ok {
					// recv.name(...): a method of the same type (inlined) or a function-typed field
					if callee := ew.w.FuncDecl(ew.typ + "." + name); callee != nil {
						if ew.depth >= 6 {
							ew.fail("helper calls nested deeper than 6 (recursion?) at %s.%s", ew.typ, name)
							return false
						}
						ew.depth++
						ew.block(callee.Body, recvIdent(callee))
						ew.depth--
					} else {
						ew.out = append(ew.out, "call:"+name)
					}
					return false
				}
				if f, ok := selOf(s.X, recv); ok {
					ew.out = append(ew.out, "call:"+f+"."+s.Sel.Name)
					return false
				}
			}
			return false
		}
		return true
	})
}

func (ew *effectWalker) block(b *ast.BlockStmt, recv string) {
	if b == nil {
		return
	}
	for _, st := range b.List {
		ew.stmt(st, recv)
	}
}

func (ew *effectWalker) stmt(st ast.Stmt, recv string) {
	switch t := st.(type) {
	case *ast.BlockStmt:
		ew.block(t, recv)
	case *ast.ExprStmt:
		ew.expr(t.X, recv)
	case *ast.AssignStmt:
		for _, r := range t.Rhs {
			ew.expr(r, recv)
		}
		for _, l := range t.Lhs {
			if f, ok := selOf(l, recv); ok {
				ew.out = append(ew.out, "assign:"+f)
			}
		}
	case *ast.IfStmt:
		if t.Init != nil {
			ew.stmt(t.Init, recv)
		}
		ew.expr(t.Cond, recv)
		ew.block(t.Body, recv)
		if t.Else != nil {
			ew.stmt(t.Else, recv)
		}
	case *ast.ReturnStmt:
		for _, r := range t.Results {
			ew.expr(r, recv)
		}
	case *ast.DeclStmt, *ast.EmptyStmt:
	default:
		ew.fail("statement %T: not straight-line code", st)
	}
}

func (w *World) orderedEffects(typ, method string) ([]string, error) {
	fd := w.FuncDecl(typ + "." + method)
	if fd == nil || fd.Body == nil {
		return nil, fmt.Errorf("%s.%s not found", typ, method)
	}
	ew := &effectWalker{w: w, typ: typ}
	ew.block(fd.Body, recvIdent(fd))
	if ew.err != nil {
		return nil, fmt.Errorf("%s.%s left the readable shape: %v", typ, method, ew.err)
	}
	return ew.out, nil
}

func emitResetOrder(w *World) (string, error) {
	var b strings.Builder
	b.WriteString("namespace ZygoVerif.Generated.ResetOrder\n\n")
	for _, m := range []struct{ lean, method string }{{"parserReset", "Reset"}, {"parserResetAddNewInput", "ResetAddNewInput"}, {"parserStop", "Stop"}} {
		l, err := w.orderedEffects("Parser", m.method)
		if err != nil {
			return "", err
		}
		b.WriteString(leanStrList(m.lean, l))
	}
	b.WriteString("\nend ZygoVerif.Generated.ResetOrder\n")
	return b.String(), nil
}
