package main

import (
	"bytes"
	"fmt"
	"go/ast"
	"go/printer"
	"strings"
	"unicode"
)

// Pkg.lean (C18):
//   - upperRanges: the maximal intervals of code points for which Go's unicode.IsUpper is
//     true (computed by running the standard library here, so the model of errIfPrivate is
//     exact for every code point);
//   - the source text of the privacy test in errIfPrivate;
//   - per path walker (Stack.nestedPathGetSet, SexpHash.nestedPathGetSet), in source order,
//     the text of every call to errIfPrivate and of every hand-over call to the other
//     walker (receiver.nestedPathGetSet(args…)), and of the callers in dotGetSetHelper.
//
// The expectations about these strings are Lean theorems in Props/C18.lean.
func init() {
	register(Emitter{File: "Pkg.lean", Run: func(w *World) (string, error) {
		var b strings.Builder
		b.WriteString("namespace ZygoVerif.Generated.Pkg\n")
		// 1. unicode.IsUpper
		var iv []string
		n := 0
		for r := rune(0); r <= unicode.MaxRune; {
			if !unicode.IsUpper(r) {
				r++
				continue
			}
			lo := r
			for r <= unicode.MaxRune && unicode.IsUpper(r) {
				r++
				n++
			}
			iv = append(iv, fmt.Sprintf("(%d, %d)", lo, r-1))
		}
		w.Facts["unicode_upper_code_points"] = n
		b.WriteString("/-- maximal intervals [lo, hi] of code points with unicode.IsUpper -/\n")
		b.WriteString(LeanList("upperRanges", "(Nat × Nat)", iv, 120))
		fmt.Fprintf(&b, "def upperCount : Nat := %d\n", n)

		show := func(n ast.Node) string {
			var buf bytes.Buffer
			printer.Fprint(&buf, w.Fset, n)
			return strings.Join(strings.Fields(buf.String()), " ")
		}
		// 2. errIfPrivate's test
		fd := w.FuncDecl("errIfPrivate")
		if fd == nil || fd.Body == nil {
			return "", fmt.Errorf("errIfPrivate not found")
		}
		var conds []string
		ast.Inspect(fd.Body, func(n ast.Node) bool {
			if s, ok := n.(*ast.IfStmt); ok {
				conds = append(conds, LeanString(show(s.Cond)))
			}
			return true
		})
		if len(conds) == 0 {
			return "", fmt.Errorf("errIfPrivate has no if statement")
		}
		b.WriteString(LeanList("errIfPrivateConds", "String", conds, 120))

		// 3. calls in the walkers
		calls := func(fname string) ([]string, error) {
			fd := w.FuncDecl(fname)
			if fd == nil || fd.Body == nil {
				return nil, fmt.Errorf("%s not found", fname)
			}
			var out []string
			ast.Inspect(fd.Body, func(n ast.Node) bool {
				c, ok := n.(*ast.CallExpr)
				if !ok {
					return true
				}
				switch f := c.Fun.(type) {
				case *ast.Ident:
					if f.Name == "errIfPrivate" {
						out = append(out, LeanString(show(c)))
					}
				case *ast.SelectorExpr:
					if f.Sel.Name == "nestedPathGetSet" {
						out = append(out, LeanString(show(c)))
					}
				}
				return true
			})
			return out, nil
		}
		for _, p := range [][2]string{{"Stack.nestedPathGetSet", "stackWalkerCalls"},
			{"SexpHash.nestedPathGetSet", "hashWalkerCalls"}, {"dotGetSetHelper", "helperCalls"}} {
			cs, err := calls(p[0])
			if err != nil {
				return "", err
			}
			b.WriteString(LeanList(p[1], "String", cs, 120))
		}
		b.WriteString("end ZygoVerif.Generated.Pkg\n")
		return b.String(), nil
	}})
}
