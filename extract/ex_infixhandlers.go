package main

// Generated/InfixHandlers.lean (C06, tie T1): where the Pratt machinery keeps state that OUTLIVES one interpreter.
//
// Every assignment (=, :=, op=, ++/--) whose left-hand side is rooted in a PACKAGE-LEVEL variable of package zygo,
// inside any function of zygo/pratt.go and inside the interpreter constructors (NewZlisp, NewZlispSandbox,
// NewZlispWithFuncs, Zlisp.Clone, Zlisp.Duplicate). One `Store` per stored value; a composite literal
// `&T{F: v, …}` is listed field by field. For each stored value:
//   kind     "const"      a literal constant
//            "funcIdent"  the bare name of a top-level function of the package (no captured state)
//            "funclit"    a function literal (a closure: may capture anything in scope)
//            "call"       the result of a call (e.g. a constructor that returns a closure)
//            "other"      anything else
//   usesLocal  the stored expression mentions a parameter, the receiver or a local variable of the
//              enclosing function (i.e. per-call / per-interpreter data flows into package-level state)
// A symbol, closure or table built from one interpreter and parked in a package-level variable is shared by
// every interpreter of the process; symbols resolve by NUMBER, and numbers differ between interpreters with
// different builtin sets. Props/C06 requires: the variables written are exactly an explicit allow-list, and
// nothing stored there is a closure/call result or mentions per-interpreter data.

import (
	"fmt"
	"go/ast"
	"go/token"
	"go/types"
	"sort"
	"strings"
)

type pkgStore struct {
	fn, v, field, kind string
	usesLocal          bool
}

func init() {
	register(Emitter{File: "InfixHandlers.lean", Run: func(w *World) (string, error) {
		info := w.Info()
		if info == nil || w.Zygo.Types == nil {
			return "", fmt.Errorf("no type information for package zygo")
		}
		pkgScope := w.Zygo.Types.Scope()
		isPkgVar := func(id *ast.Ident) bool {
			obj := info.ObjectOf(id)
			v, ok := obj.(*types.Var)
			return ok && v.Parent() == pkgScope
		}
		rootIdent := func(e ast.Expr) *ast.Ident {
			for {
				switch x := e.(type) {
				case *ast.Ident:
					return x
				case *ast.SelectorExpr:
					e = x.X
				case *ast.IndexExpr:
					e = x.X
				case *ast.StarExpr:
					e = x.X
				case *ast.ParenExpr:
					e = x.X
				default:
					return nil
				}
			}
		}
		usesLocal := func(e ast.Expr) bool {
			found := false
			ast.Inspect(e, func(n ast.Node) bool {
				id, ok := n.(*ast.Ident)
				if !ok {
					return true
				}
				if v, ok := info.ObjectOf(id).(*types.Var); ok && !v.IsField() && v.Parent() != pkgScope && v.Parent() != types.Universe {
					found = true
				}
				return true
			})
			return found
		}
		kindOf := func(e ast.Expr) string {
			switch x := e.(type) {
			case *ast.BasicLit:
				return "const"
			case *ast.Ident:
				switch o := info.ObjectOf(x).(type) {
				case *types.Func:
					if o.Parent() == pkgScope {
						return "funcIdent"
					}
				case *types.Const, *types.Nil:
					return "const"
				}
				return "other"
			case *ast.FuncLit:
				return "funclit"
			case *ast.CallExpr:
				return "call"
			}
			return "other"
		}
		var stores []pkgStore
		add := func(fn, v, field string, e ast.Expr) {
			stores = append(stores, pkgStore{fn, v, field, kindOf(e), usesLocal(e)})
		}
		record := func(fn string, lhs ast.Expr, rhs ast.Expr) {
			id := rootIdent(lhs)
			if id == nil || !isPkgVar(id) {
				return
			}
			path := strings.TrimPrefix(srcText(w, lhs), id.Name)
			e := rhs
			if u, ok := e.(*ast.UnaryExpr); ok && u.Op == token.AND {
				e = u.X
			}
			if cl, ok := e.(*ast.CompositeLit); ok && len(cl.Elts) > 0 {
				for i, el := range cl.Elts {
					if kv, ok := el.(*ast.KeyValueExpr); ok {
						add(fn, id.Name, path+"."+srcText(w, kv.Key), kv.Value)
					} else {
						add(fn, id.Name, fmt.Sprintf("%s.#%d", path, i), el)
					}
				}
				return
			}
			add(fn, id.Name, path, rhs)
		}
		scan := func(name string, fd *ast.FuncDecl) {
			if fd == nil || fd.Body == nil {
				return
			}
			ast.Inspect(fd.Body, func(n ast.Node) bool {
				switch s := n.(type) {
				case *ast.AssignStmt:
					for i, l := range s.Lhs {
						var r ast.Expr
						if len(s.Rhs) == len(s.Lhs) {
							r = s.Rhs[i]
						} else if len(s.Rhs) == 1 {
							r = s.Rhs[0]
						}
						if r != nil {
							record(name, l, r)
						}
					}
				case *ast.IncDecStmt:
					record(name, s.X, s.X)
				}
				return true
			})
		}
		declName := func(fd *ast.FuncDecl) string {
			n := fd.Name.Name
			if fd.Recv != nil && len(fd.Recv.List) == 1 {
				n = recvName(fd.Recv.List[0].Type) + "." + n
			}
			return n
		}
		scanned := []string{}
		pf := w.fileOf("pratt.go")
		if pf == nil {
			return "", fmt.Errorf("zygo/pratt.go not found")
		}
		for _, d := range pf.Decls {
			if fd, ok := d.(*ast.FuncDecl); ok {
				scan(declName(fd), fd)
				scanned = append(scanned, declName(fd))
			}
		}
		for _, c := range []string{"NewZlisp", "NewZlispSandbox", "NewZlispWithFuncs", "Zlisp.Clone", "Zlisp.Duplicate"} {
			fd := w.FuncDecl(c)
			if fd == nil {
				return "", fmt.Errorf("constructor %s not found", c)
			}
			scan(c, fd)
			scanned = append(scanned, c)
		}
		// package-level variables DECLARED in pratt.go (with or without initialiser)
		var declared []string
		for _, d := range pf.Decls {
			gd, ok := d.(*ast.GenDecl)
			if !ok || gd.Tok != token.VAR {
				continue
			}
			for _, sp := range gd.Specs {
				for _, n := range sp.(*ast.ValueSpec).Names {
					declared = append(declared, n.Name)
				}
			}
		}
		sort.Strings(declared)
		var b strings.Builder
		b.WriteString("namespace ZygoVerif.Generated.InfixHandlers\n\n")
		b.WriteString("structure Store where\n  fn : String\n  var : String\n  field : String\n  kind : String\n  usesLocal : Bool\nderiving DecidableEq, Repr\n\n")
		var ss []string
		for _, s := range stores {
			ss = append(ss, fmt.Sprintf("⟨%s, %s, %s, %s, %v⟩", LeanString(s.fn), LeanString(s.v), LeanString(s.field), LeanString(s.kind), s.usesLocal))
		}
		b.WriteString("/-- every write to a package-level variable from zygo/pratt.go and the interpreter constructors, in source order -/\n")
		fmt.Fprintf(&b, "def packageStores : List Store := [\n  %s]\n\n", strings.Join(ss, ",\n  "))
		var ds []string
		for _, d := range declared {
			ds = append(ds, LeanString(d))
		}
		fmt.Fprintf(&b, "/-- package-level variables declared in zygo/pratt.go -/\ndef prattPackageVars : List String := [%s]\n\n", strings.Join(ds, ", "))
		fmt.Fprintf(&b, "/-- number of functions scanned -/\ndef scannedFunctions : Nat := %d\n\n", len(scanned))
		b.WriteString("end ZygoVerif.Generated.InfixHandlers\n")
		return b.String(), nil
	}})
}
