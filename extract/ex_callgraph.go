package main

// CallGraph.lean (C08): the reference graph of package zygo (+ cmd/zygo).
//
// Nodes
//   * every function and method declared in the two packages (`init` functions excepted,
//     see "start-up" below), every function literal (a node of its own, `F$k` = the k-th
//     literal inside top-level declaration F, with an edge from the function that
//     directly encloses it);
//   * one node per *external* object that the two packages reference: functions, concrete
//     methods, interface methods and package-level variables of any other package
//     (standard library and third party). Their classification (outside-world primitive /
//     console / pure) is NOT decided here: the table `externals` carries package path and
//     name and Spec/Prims.lean classifies them, so an unclassified package breaks a
//     theorem instead of being silently treated as harmless;
//   * INIT — what process start-up leaves behind (see below); EXT — calls that external
//     code makes back into the package through interfaces (fmt calling String/Error,
//     sort calling Less, codecs calling their hooks): an edge EXT -> T.M for every method
//     M of the two packages whose NAME is a method name of some interface type written
//     anywhere in the transitive imports (named or anonymous), plus `Error`.
//
// Edges f -> g ("reference edges"): g is called OR merely mentioned in f. A function value
// can only come into existence where a function is mentioned, so calls through function
// values (userfun, Factory, hooks, iterators) need no target resolution. A call of an
// interface method I.M gives edges to every method named M of the two packages (class
// hierarchy analysis by name: coarser than necessary, never finer).
//
// Labels (bit set; an edge is dropped for a configuration whose facts contradict it):
//   1  only when the interpreter's sandbox flag is FALSE   (inside `if !env.sandboxed {…}`,
//      after `if env.sandboxed { …; return }`, the else-branch of `if env.sandboxed`)
//   2  only when the interpreter's sandbox flag is TRUE
//   4  only when cfg.Sandboxed (ZlispConfig) is FALSE      8  only when it is TRUE
//   16 a reference to an external object made directly by a wrapper function of the command
//      line tool (main, usage, ReplMain, Repl, runScript): host behaviour; listed in
//      `hostSites` and compared with a hand-written allow-list in Props/C08.lean
// The sandbox flag is the bool field of struct Zlisp whose name contains "sandbox"
// (none on a tree that has no such flag: then no edge carries 1/2); an accessor method
// whose body is `return recv.<flag>` counts as the flag. Only `if` conditions built from
// the flag with !, &&, || and parentheses are understood; anything else leaves the edge
// unlabelled (kept — the conservative direction).
//
// Start-up. `init` functions and package-level initialisers run before any script. What
// they leave behind are the function values they create: every function mentioned in
// VALUE position (not called) and every function literal inside them gets an edge from
// INIT. Functions they CALL are listed in `startupCalls` together with a computed flag
// "something reachable from this callee mentions a function in value position" — such a
// callee could store a function value in a global, so it is made a root of every
// configuration, unless it is on a short hand-justified list (Props/C08.lean checks both). Their own direct use of outside-world primitives
// (SetShellCmd -> os.Getenv, os.Stat; time.LoadLocation) is host start-up, not script
// behaviour, and is listed in `startupExternals` for the record.
//
// Certificates. For each configuration {bare, std, cli} the set of nodes reachable from its
// roots over the edges kept for it, as one Nat bit mask. Lean re-checks closedness
// (`decide +kernel`) and derives unreachability of every primitive from the general lemma
// Proofs/Reach.closed_contains_reach. When a primitive IS reachable the mask contains it,
// the Lean check fails, and facts.json carries a shortest root -> primitive path for the
// failing-input search of checks/C08.py.
//
// The emitter never returns an error (that would break the T1 step of every property):
// anything it cannot read is listed in `extractorProblems`, which Props/C08.lean requires
// to be empty.

import (
	"fmt"
	"go/ast"
	"go/constant"
	"go/token"
	"go/types"
	"math/big"
	"regexp"
	"sort"
	"strconv"
	"strings"

	"golang.org/x/tools/go/packages"
)

const (
	labU    = 1
	labS    = 2
	labUcfg = 4
	labScfg = 8
	labHost = 16
)

type cgNode struct {
	ID   int
	Name string
	Kind string // func | method | lit | pseudo | ext
	// externals only
	Pkg, Ext, ExtKind string // ExtKind: func | method | imethod | var
	HasValueMention   bool
}

type cgEdge struct{ Src, Dst, Lab int }

type cgBuilder struct {
	w        *World
	nodes    []*cgNode
	byName   map[string]int
	byObj    map[types.Object]int
	edges    map[cgEdge]bool
	problems []string

	methodsByName map[string][]int
	zflag, cflag  *types.Var
	zaccessors    map[*types.Func]bool
	wrappers      map[int]bool

	startupCalls     map[string]bool
	startupExternals map[string]bool
	unsafeUsers      map[string]bool
	funcAsserts      map[string]bool
	litCount         map[string]int
}

func (b *cgBuilder) problem(format string, a ...interface{}) {
	b.problems = append(b.problems, fmt.Sprintf(format, a...))
}

func (b *cgBuilder) node(name, kind string) int {
	if id, ok := b.byName[name]; ok {
		return id
	}
	id := len(b.nodes)
	b.nodes = append(b.nodes, &cgNode{ID: id, Name: name, Kind: kind})
	b.byName[name] = id
	return id
}

func (b *cgBuilder) addEdge(src, dst, lab int) {
	b.edges[cgEdge{src, dst, lab}] = true
}

func (b *cgBuilder) shortPkg(p *types.Package) string {
	if p == nil {
		return ""
	}
	if p == b.w.Zygo.Types {
		return "zygo"
	}
	if b.w.Cmd != nil && p == b.w.Cmd.Types {
		return "main"
	}
	return p.Path()
}

func (b *cgBuilder) ours(p *types.Package) bool {
	return p != nil && (p == b.w.Zygo.Types || (b.w.Cmd != nil && p == b.w.Cmd.Types))
}

// funcName gives the node name of a function or method object of the two packages, and
// (package path, relative name) for an external one.
func (b *cgBuilder) relName(f *types.Func) string {
	sig, _ := f.Type().(*types.Signature)
	if sig != nil && sig.Recv() != nil {
		rt := types.TypeString(sig.Recv().Type(), func(*types.Package) string { return "" })
		// generic receivers print their type parameters; cut them
		if i := strings.Index(rt, "["); i >= 0 {
			rt = rt[:i]
		}
		if strings.HasPrefix(rt, "*") {
			return "(" + rt + ")." + f.Name()
		}
		return rt + "." + f.Name()
	}
	return f.Name()
}

func (b *cgBuilder) extNode(pkg *types.Package, rel, kind string) int {
	path := "universe"
	if pkg != nil {
		path = pkg.Path()
	}
	name := "ext:" + path + "." + rel
	if id, ok := b.byName[name]; ok {
		return id
	}
	id := b.node(name, "ext")
	n := b.nodes[id]
	n.Pkg, n.Ext, n.ExtKind = path, rel, kind
	return id
}

// ---------------------------------------------------------------- the walker

type cgWalker struct {
	b       *cgBuilder
	info    *types.Info
	owner   int
	top     string
	callPos map[*ast.Ident]bool
	startup bool // owner is INIT: value mentions become edges, calls are only recorded
}

func unparen(e ast.Expr) ast.Expr {
	for {
		p, ok := e.(*ast.ParenExpr)
		if !ok {
			return e
		}
		e = p.X
	}
}

// implications of a condition on the two designated flags: what holds when it is true,
// what holds when it is false (bit sets of labS/labU/labScfg/labUcfg).
func (w *cgWalker) implications(e ast.Expr) (t, f int) {
	e = unparen(e)
	switch x := e.(type) {
	case *ast.UnaryExpr:
		if x.Op == token.NOT {
			a, c := w.implications(x.X)
			return c, a
		}
	case *ast.BinaryExpr:
		if x.Op == token.LAND {
			at, af := w.implications(x.X)
			bt, bf := w.implications(x.Y)
			return at | bt, af & bf
		}
		if x.Op == token.LOR {
			at, af := w.implications(x.X)
			bt, bf := w.implications(x.Y)
			return at & bt, af | bf
		}
	case *ast.SelectorExpr:
		if v, ok := w.info.Uses[x.Sel].(*types.Var); ok {
			if w.b.zflag != nil && v == w.b.zflag {
				return labS, labU
			}
			if w.b.cflag != nil && v == w.b.cflag {
				return labScfg, labUcfg
			}
		}
	case *ast.CallExpr:
		if len(x.Args) == 0 {
			if s, ok := unparen(x.Fun).(*ast.SelectorExpr); ok {
				if fn, ok := w.info.Uses[s.Sel].(*types.Func); ok && w.b.zaccessors[fn] {
					return labS, labU
				}
			}
		}
	}
	return 0, 0
}

func isPanicLike(info *types.Info, s ast.Stmt) bool {
	es, ok := s.(*ast.ExprStmt)
	if !ok {
		return false
	}
	c, ok := es.X.(*ast.CallExpr)
	if !ok {
		return false
	}
	switch f := unparen(c.Fun).(type) {
	case *ast.Ident:
		if _, ok := info.Uses[f].(*types.Builtin); ok && f.Name == "panic" {
			return true
		}
	case *ast.SelectorExpr:
		if fn, ok := info.Uses[f.Sel].(*types.Func); ok && fn.Pkg() != nil && fn.Pkg().Path() == "os" && fn.Name() == "Exit" {
			return true
		}
	}
	return false
}

// terminates: control never falls out of the end of this statement list.
func terminates(info *types.Info, list []ast.Stmt) bool {
	if len(list) == 0 {
		return false
	}
	switch s := list[len(list)-1].(type) {
	case *ast.ReturnStmt:
		return true
	case *ast.BranchStmt:
		return s.Tok == token.CONTINUE || s.Tok == token.BREAK || s.Tok == token.GOTO
	case *ast.BlockStmt:
		return terminates(info, s.List)
	case *ast.IfStmt:
		if s.Else == nil {
			return false
		}
		var el []ast.Stmt
		switch e := s.Else.(type) {
		case *ast.BlockStmt:
			el = e.List
		default:
			el = []ast.Stmt{e}
		}
		return terminates(info, s.Body.List) && terminates(info, el)
	default:
		return isPanicLike(info, list[len(list)-1])
	}
}

func (w *cgWalker) stmts(list []ast.Stmt, lab int) {
	for _, s := range list {
		if ifs, ok := s.(*ast.IfStmt); ok {
			t, f := w.implications(ifs.Cond)
			w.stmt(s, lab)
			if terminates(w.info, ifs.Body.List) {
				lab |= f
			}
			if ifs.Else != nil {
				var el []ast.Stmt
				switch e := ifs.Else.(type) {
				case *ast.BlockStmt:
					el = e.List
				default:
					el = []ast.Stmt{e}
				}
				if terminates(w.info, el) {
					lab |= t
				}
			}
			continue
		}
		w.stmt(s, lab)
	}
}

func (w *cgWalker) stmt(s ast.Stmt, lab int) {
	switch x := s.(type) {
	case nil:
	case *ast.BlockStmt:
		w.stmts(x.List, lab)
	case *ast.IfStmt:
		if x.Init != nil {
			w.stmt(x.Init, lab)
		}
		w.expr(x.Cond, lab)
		t, f := w.implications(x.Cond)
		w.stmts(x.Body.List, lab|t)
		if x.Else != nil {
			w.stmt(x.Else, lab|f)
		}
	case *ast.ForStmt:
		if x.Init != nil {
			w.stmt(x.Init, lab)
		}
		if x.Cond != nil {
			w.expr(x.Cond, lab)
		}
		if x.Post != nil {
			w.stmt(x.Post, lab)
		}
		w.stmts(x.Body.List, lab)
	case *ast.RangeStmt:
		if x.Key != nil {
			w.expr(x.Key, lab)
		}
		if x.Value != nil {
			w.expr(x.Value, lab)
		}
		w.expr(x.X, lab)
		w.stmts(x.Body.List, lab)
	case *ast.SwitchStmt:
		if x.Init != nil {
			w.stmt(x.Init, lab)
		}
		if x.Tag != nil {
			w.expr(x.Tag, lab)
		}
		w.stmts(x.Body.List, lab)
	case *ast.TypeSwitchStmt:
		if x.Init != nil {
			w.stmt(x.Init, lab)
		}
		w.stmt(x.Assign, lab)
		w.stmts(x.Body.List, lab)
	case *ast.SelectStmt:
		w.stmts(x.Body.List, lab)
	case *ast.CaseClause:
		for _, e := range x.List {
			if tv, ok := w.info.Types[e]; ok && tv.IsType() {
				w.funcTypeTarget(e)
			}
			w.expr(e, lab)
		}
		w.stmts(x.Body, lab)
	case *ast.CommClause:
		if x.Comm != nil {
			w.stmt(x.Comm, lab)
		}
		w.stmts(x.Body, lab)
	case *ast.LabeledStmt:
		w.stmt(x.Stmt, lab)
	default:
		w.expr(s, lab)
	}
}

// expr walks a node that contains no statement lists of its own except inside function
// literals (which become nodes).
func (w *cgWalker) expr(n ast.Node, lab int) {
	if n == nil {
		return
	}
	ast.Inspect(n, func(x ast.Node) bool {
		switch e := x.(type) {
		case *ast.CallExpr:
			switch f := unparen(e.Fun).(type) {
			case *ast.Ident:
				w.callPos[f] = true
			case *ast.SelectorExpr:
				w.callPos[f.Sel] = true
			case *ast.IndexExpr:
				switch g := unparen(f.X).(type) {
				case *ast.Ident:
					w.callPos[g] = true
				case *ast.SelectorExpr:
					w.callPos[g.Sel] = true
				}
			}
		case *ast.FuncLit:
			w.b.litCount[w.top]++
			name := fmt.Sprintf("%s$%d", w.top, w.b.litCount[w.top])
			id := w.b.node(name, "lit")
			if w.b.wrappers[w.owner] {
				w.b.wrappers[id] = true // a literal inside a command line wrapper is wrapper code
			}
			w.b.addEdge(w.owner, id, lab)
			w.b.nodes[w.owner].HasValueMention = true
			sub := &cgWalker{b: w.b, info: w.info, owner: id, top: w.top, callPos: w.callPos}
			sub.stmts(e.Body.List, 0)
			return false
		case *ast.Ident:
			w.ident(e, lab)
		case *ast.TypeAssertExpr:
			if e.Type != nil {
				w.funcTypeTarget(e.Type)
			}
		}
		return true
	})
}

// funcTypeTarget records a type assertion (or type-switch case) whose target is a function
// type: the one way to obtain a callable function value that was not syntactically
// mentioned (out of an interface{} / reflect.Value.Interface()).
func (w *cgWalker) funcTypeTarget(t ast.Expr) {
	if ty := w.info.TypeOf(t); ty != nil {
		if _, ok := ty.Underlying().(*types.Signature); ok {
			w.b.funcAsserts[w.b.nodes[w.owner].Name] = true
		}
	}
}

func (w *cgWalker) ident(id *ast.Ident, lab int) {
	b := w.b
	switch obj := w.info.Uses[id].(type) {
	case *types.Func:
		obj = obj.Origin()
		isCall := w.callPos[id]
		sig, _ := obj.Type().(*types.Signature)
		isIface := false
		if sig != nil && sig.Recv() != nil {
			_, isIface = sig.Recv().Type().Underlying().(*types.Interface)
		}
		if isIface {
			// dispatch by name over the two packages
			for _, m := range b.methodsByName[obj.Name()] {
				if w.startup && isCall {
					b.startupCalls[b.nodes[m].Name] = true
				} else {
					b.addEdge(w.owner, m, lab)
				}
			}
			if !isCall {
				b.nodes[w.owner].HasValueMention = true
			}
			if !b.ours(obj.Pkg()) {
				x := b.extNode(obj.Pkg(), b.relName(obj), "imethod")
				w.extRef(x, lab)
			}
			return
		}
		if b.ours(obj.Pkg()) {
			t, ok := b.byObj[obj]
			if !ok {
				b.problem("no node for %s referenced in %s", obj.FullName(), b.nodes[w.owner].Name)
				return
			}
			if w.startup && isCall {
				b.startupCalls[b.nodes[t].Name] = true
				return
			}
			if !isCall {
				b.nodes[w.owner].HasValueMention = true
			}
			b.addEdge(w.owner, t, lab)
			return
		}
		kind := "func"
		if sig != nil && sig.Recv() != nil {
			kind = "method"
		}
		w.extRef(b.extNode(obj.Pkg(), b.relName(obj), kind), lab)
	case *types.Var:
		// package-level variables of other packages (os.Stdout, os.Args, …)
		if obj.Pkg() != nil && !b.ours(obj.Pkg()) && !obj.IsField() && obj.Parent() == obj.Pkg().Scope() {
			w.extRef(b.extNode(obj.Pkg(), obj.Name(), "var"), lab)
		}
	case *types.PkgName:
		if obj.Imported().Path() == "unsafe" {
			b.unsafeUsers[b.nodes[w.owner].Name] = true
		}
	}
}

func (w *cgWalker) extRef(x int, lab int) {
	b := w.b
	if w.startup {
		b.startupExternals[b.nodes[x].Name] = true
		return
	}
	if b.wrappers[w.owner] {
		lab |= labHost
	}
	b.addEdge(w.owner, x, lab)
}

// ---------------------------------------------------------------- building

var cgEntryPoints = []string{
	"zygo.(*Zlisp).EvalString", "zygo.(*Zlisp).EvalExpressions", "zygo.(*Zlisp).LoadString",
	"zygo.(*Zlisp).LoadStream", "zygo.(*Zlisp).LoadFile", "zygo.(*Zlisp).LoadExpressions",
	"zygo.(*Zlisp).Run", "zygo.(*Zlisp).Clear", "zygo.(*Zlisp).GetStackTrace",
	"zygo.(*Zlisp).ReplLineInfixWrap", "zygo.(*Zlisp).Clone", "zygo.(*Zlisp).Duplicate",
	"zygo.(*Zlisp).Close", "zygo.(*Zlisp).Apply", "zygo.(*Parser).ParseTokens",
}

// start-up callees whose function values do not outlive start-up (mirrors
// Spec.Prims.startupDiscards; Props/C08.lean checks that every name used here is on that list)
var cgStartupDiscards = map[string]bool{"zygo.AllBuiltinFunctions": true}

var cgWrapperNames = []string{"main.main", "main.usage", "zygo.ReplMain", "zygo.Repl", "zygo.runScript"}

func (b *cgBuilder) declName(pkg *packages.Package, fd *ast.FuncDecl) (string, *types.Func) {
	obj, _ := pkg.TypesInfo.Defs[fd.Name].(*types.Func)
	if obj == nil {
		return "", nil
	}
	return b.shortPkg(pkg.Types) + "." + b.relName(obj), obj
}

func (b *cgBuilder) findFlags() {
	look := func(structName string, pred func(*types.Var) bool) []*types.Var {
		o := b.w.Zygo.Types.Scope().Lookup(structName)
		if o == nil {
			b.problem("struct %s not found", structName)
			return nil
		}
		st, ok := o.Type().Underlying().(*types.Struct)
		if !ok {
			b.problem("%s is not a struct", structName)
			return nil
		}
		var out []*types.Var
		for i := 0; i < st.NumFields(); i++ {
			if pred(st.Field(i)) {
				out = append(out, st.Field(i))
			}
		}
		return out
	}
	isBool := func(v *types.Var) bool {
		bt, ok := v.Type().Underlying().(*types.Basic)
		return ok && bt.Kind() == types.Bool
	}
	z := look("Zlisp", func(v *types.Var) bool {
		return isBool(v) && strings.Contains(strings.ToLower(v.Name()), "sandbox")
	})
	if len(z) == 1 {
		b.zflag = z[0]
	} else if len(z) > 1 {
		b.problem("more than one sandbox flag on Zlisp")
	}
	c := look("ZlispConfig", func(v *types.Var) bool { return isBool(v) && v.Name() == "Sandboxed" })
	if len(c) == 1 {
		b.cflag = c[0]
	}
}

// accessor: a method of Zlisp whose whole body is `return recv.<flag>`
func (b *cgBuilder) findAccessors() {
	if b.zflag == nil {
		return
	}
	for _, f := range b.w.Zygo.Syntax {
		for _, d := range f.Decls {
			fd, ok := d.(*ast.FuncDecl)
			if !ok || fd.Recv == nil || fd.Body == nil || len(fd.Body.List) != 1 {
				continue
			}
			rs, ok := fd.Body.List[0].(*ast.ReturnStmt)
			if !ok || len(rs.Results) != 1 {
				continue
			}
			se, ok := unparen(rs.Results[0]).(*ast.SelectorExpr)
			if !ok {
				continue
			}
			if v, ok := b.w.Zygo.TypesInfo.Uses[se.Sel].(*types.Var); ok && v == b.zflag {
				if obj, ok := b.w.Zygo.TypesInfo.Defs[fd.Name].(*types.Func); ok {
					b.zaccessors[obj] = true
				}
			}
		}
	}
}

func (b *cgBuilder) pkgs() []*packages.Package {
	ps := []*packages.Package{b.w.Zygo}
	if b.w.Cmd != nil {
		ps = append(ps, b.w.Cmd)
	}
	return ps
}

func (b *cgBuilder) build() {
	initID := b.node("INIT", "pseudo")
	extID := b.node("EXT", "pseudo")
	b.findFlags()
	b.findAccessors()
	// pass 1: nodes for declarations
	for _, p := range b.pkgs() {
		for _, f := range p.Syntax {
			for _, d := range f.Decls {
				fd, ok := d.(*ast.FuncDecl)
				if !ok {
					continue
				}
				if fd.Recv == nil && fd.Name.Name == "init" {
					continue
				}
				name, obj := b.declName(p, fd)
				if obj == nil {
					b.problem("declaration %s has no object", fd.Name.Name)
					continue
				}
				kind := "func"
				if fd.Recv != nil {
					kind = "method"
				}
				if _, dup := b.byName[name]; dup {
					b.problem("two declarations named %s", name)
					continue
				}
				id := b.node(name, kind)
				b.byObj[obj] = id
				if fd.Recv != nil {
					b.methodsByName[fd.Name.Name] = append(b.methodsByName[fd.Name.Name], id)
				}
			}
		}
	}
	for _, wn := range cgWrapperNames {
		if id, ok := b.byName[wn]; ok {
			b.wrappers[id] = true
		}
	}
	// pass 2: bodies
	for _, p := range b.pkgs() {
		short := b.shortPkg(p.Types)
		ninit := 0
		for _, f := range p.Syntax {
			for _, d := range f.Decls {
				switch dd := d.(type) {
				case *ast.FuncDecl:
					if dd.Body == nil {
						if !(dd.Recv == nil && dd.Name.Name == "init") {
							b.problem("function %s has no Go body (assembly / linkname?)", dd.Name.Name)
						}
						continue
					}
					if dd.Recv == nil && dd.Name.Name == "init" {
						ninit++
						w := &cgWalker{b: b, info: p.TypesInfo, owner: initID, top: fmt.Sprintf("%s.init#%d", short, ninit), callPos: map[*ast.Ident]bool{}, startup: true}
						w.stmts(dd.Body.List, 0)
						continue
					}
					name, obj := b.declName(p, dd)
					if obj == nil {
						continue
					}
					id, ok := b.byObj[obj]
					if !ok {
						continue
					}
					w := &cgWalker{b: b, info: p.TypesInfo, owner: id, top: name, callPos: map[*ast.Ident]bool{}}
					w.stmts(dd.Body.List, 0)
				case *ast.GenDecl:
					if dd.Tok != token.VAR {
						continue
					}
					for _, sp := range dd.Specs {
						vs, ok := sp.(*ast.ValueSpec)
						if !ok {
							continue
						}
						for _, v := range vs.Values {
							w := &cgWalker{b: b, info: p.TypesInfo, owner: initID, top: short + ".vars", callPos: map[*ast.Ident]bool{}, startup: true}
							w.expr(v, 0)
						}
					}
				}
			}
			// cgo / linkname escape hatches
			for _, imp := range f.Imports {
				if imp.Path.Value == `"C"` {
					b.problem("cgo import in %s", b.w.Fset.Position(f.Pos()).Filename)
				}
			}
			for _, cg := range f.Comments {
				for _, c := range cg.List {
					if strings.HasPrefix(c.Text, "//go:linkname") {
						b.problem("go:linkname in %s", b.w.Fset.Position(c.Pos()).Filename)
					}
				}
			}
		}
	}
	// EXT: callbacks from external code through interfaces, by method name
	names := map[string]bool{"Error": true}
	seen := map[*packages.Package]bool{}
	var visit func(p *packages.Package)
	visit = func(p *packages.Package) {
		if seen[p] {
			return
		}
		seen[p] = true
		for _, q := range p.Imports {
			visit(q)
		}
		if p == b.w.Zygo || p == b.w.Cmd || p.TypesInfo == nil {
			return
		}
		for _, f := range p.Syntax {
			ast.Inspect(f, func(x ast.Node) bool {
				it, ok := x.(*ast.InterfaceType)
				if !ok {
					return true
				}
				if t, ok := p.TypesInfo.TypeOf(it).(*types.Interface); ok && t != nil {
					for i := 0; i < t.NumMethods(); i++ {
						if m := t.Method(i); m.Exported() {
							names[m.Name()] = true
						}
					}
				}
				return true
			})
		}
	}
	for _, p := range b.pkgs() {
		visit(p)
	}
	for nm, ms := range b.methodsByName {
		if names[nm] {
			for _, m := range ms {
				b.addEdge(extID, m, 0)
			}
		}
	}
}

// ---------------------------------------------------------------- analysis

func (b *cgBuilder) sortedEdges() []cgEdge {
	es := make([]cgEdge, 0, len(b.edges))
	for e := range b.edges {
		es = append(es, e)
	}
	sort.Slice(es, func(i, j int) bool {
		if es[i].Src != es[j].Src {
			return es[i].Src < es[j].Src
		}
		if es[i].Dst != es[j].Dst {
			return es[i].Dst < es[j].Dst
		}
		return es[i].Lab < es[j].Lab
	})
	return es
}

// keep mirrors Spec/Prims.lean `keepEdge`: which labels a configuration drops.
func cgKeep(config string, lab int) bool {
	switch config {
	case "cli":
		return lab&(labU|labUcfg|labHost) == 0
	default:
		return lab&labU == 0
	}
}

func (b *cgBuilder) reach(es []cgEdge, roots []int, keep func(lab int) bool) (map[int]int, []int) {
	adj := map[int][]int{}
	for _, e := range es {
		if keep(e.Lab) {
			adj[e.Src] = append(adj[e.Src], e.Dst)
		}
	}
	par := map[int]int{}
	var order []int
	q := []int{}
	for _, r := range roots {
		if _, ok := par[r]; !ok {
			par[r] = -1
			q = append(q, r)
		}
	}
	for len(q) > 0 {
		a := q[0]
		q = q[1:]
		order = append(order, a)
		for _, c := range adj[a] {
			if _, ok := par[c]; !ok {
				par[c] = a
				q = append(q, c)
			}
		}
	}
	return par, order
}

// dist: breadth-first distances from one node over the kept edges.
func (b *cgBuilder) dist(es []cgEdge, from int, keep func(lab int) bool) map[int]int {
	adj := map[int][]int{}
	for _, e := range es {
		if keep(e.Lab) {
			adj[e.Src] = append(adj[e.Src], e.Dst)
		}
	}
	d := map[int]int{from: 0}
	q := []int{from}
	for len(q) > 0 {
		a := q[0]
		q = q[1:]
		for _, c := range adj[a] {
			if _, ok := d[c]; !ok {
				d[c] = d[a] + 1
				q = append(q, c)
			}
		}
	}
	return d
}

// ---------------------------------------------------------------- name tables (syntactic)

type cgBinding struct {
	Name, Kind, Target string // Kind: function | builder | macro | global | type | defmac
	Lab                int
	Where              string
}

var defmacRe = regexp.MustCompile(`\(defmac\s+(\S+)`)

func (b *cgBuilder) stringLit(info *types.Info, e ast.Expr) (string, bool) {
	if tv, ok := info.Types[e]; ok && tv.Value != nil && tv.Value.Kind() == constant.String {
		return constant.StringVal(tv.Value), true
	}
	return "", false
}

// targetOf: the function a table value stands for: `F` or `F("…")` (a factory).
func (b *cgBuilder) targetOf(info *types.Info, e ast.Expr) string {
	e = unparen(e)
	if c, ok := e.(*ast.CallExpr); ok {
		e = unparen(c.Fun)
	}
	var id *ast.Ident
	switch x := e.(type) {
	case *ast.Ident:
		id = x
	case *ast.SelectorExpr:
		id = x.Sel
	}
	if id == nil {
		return ""
	}
	if f, ok := info.Uses[id].(*types.Func); ok {
		if n, ok := b.byObj[f.Origin()]; ok {
			return b.nodes[n].Name
		}
	}
	return ""
}

// funcTables: functions `func X() map[string]ZlispUserFunction` that return a map literal
// (table) or MergeFuncMap(A(), B(), …) (composition).
func (b *cgBuilder) funcTables() (tables map[string][]cgBinding, comps map[string][]string) {
	tables = map[string][]cgBinding{}
	comps = map[string][]string{}
	info := b.w.Zygo.TypesInfo
	for _, f := range b.w.Zygo.Syntax {
		for _, d := range f.Decls {
			fd, ok := d.(*ast.FuncDecl)
			if !ok || fd.Recv != nil || fd.Body == nil || fd.Type.Results == nil || len(fd.Type.Results.List) != 1 {
				continue
			}
			rt := info.TypeOf(fd.Type.Results.List[0].Type)
			if rt == nil || !strings.HasSuffix(rt.String(), "map[string]"+b.w.Zygo.Types.Path()+".ZlispUserFunction") {
				continue
			}
			if len(fd.Body.List) != 1 {
				continue
			}
			rs, ok := fd.Body.List[0].(*ast.ReturnStmt)
			if !ok || len(rs.Results) != 1 {
				continue
			}
			switch r := unparen(rs.Results[0]).(type) {
			case *ast.CompositeLit:
				var bs []cgBinding
				for _, el := range r.Elts {
					kv, ok := el.(*ast.KeyValueExpr)
					if !ok {
						continue
					}
					k, ok := b.stringLit(info, kv.Key)
					if !ok {
						b.problem("table %s has a non-constant key", fd.Name.Name)
						continue
					}
					bs = append(bs, cgBinding{Name: k, Kind: "function", Target: b.targetOf(info, kv.Value), Where: fd.Name.Name})
				}
				tables[fd.Name.Name] = bs
			case *ast.CallExpr:
				if id, ok := unparen(r.Fun).(*ast.Ident); ok && id.Name == "MergeFuncMap" {
					var parts []string
					for _, a := range r.Args {
						if c, ok := unparen(a).(*ast.CallExpr); ok {
							if cid, ok := unparen(c.Fun).(*ast.Ident); ok {
								parts = append(parts, cid.Name)
								continue
							}
						}
						b.problem("composition %s has an argument that is not a table call", fd.Name.Name)
					}
					comps[fd.Name.Name] = parts
				}
			}
		}
	}
	return
}

func (b *cgBuilder) expandTable(name string, tables map[string][]cgBinding, comps map[string][]string, depth int) []cgBinding {
	if depth > 8 {
		return nil
	}
	if t, ok := tables[name]; ok {
		return t
	}
	var out []cgBinding
	for _, p := range comps[name] {
		out = append(out, b.expandTable(p, tables, comps, depth+1)...)
	}
	return out
}

// addCalls collects AddFunction/AddBuilder/AddMacro/AddGlobal calls with a constant name in
// the body of `fn`, following direct calls of methods of Zlisp named Import* (depth-first,
// in source order), with the sandbox-flag label of each call site.
func (b *cgBuilder) addCalls(fname string, lab int, seen map[string]bool, out *[]cgBinding) {
	if seen[fname] {
		return
	}
	seen[fname] = true
	fd := b.w.FuncDecl(fname)
	if fd == nil || fd.Body == nil {
		return
	}
	info := b.w.Zygo.TypesInfo
	var walkList func(list []ast.Stmt, lab int)
	helper := &cgWalker{b: b, info: info}
	var walkStmt func(s ast.Stmt, lab int)
	visitExpr := func(n ast.Node, lab int) {
		ast.Inspect(n, func(x ast.Node) bool {
			switch e := x.(type) {
			case *ast.FuncLit:
				return false
			case *ast.BasicLit:
				if e.Kind == token.STRING {
					if s, err := strconv.Unquote(e.Value); err == nil {
						for _, m := range defmacRe.FindAllStringSubmatch(s, -1) {
							*out = append(*out, cgBinding{Name: m[1], Kind: "defmac", Lab: lab, Where: fname})
						}
					}
				}
			case *ast.CallExpr:
				se, ok := unparen(e.Fun).(*ast.SelectorExpr)
				if !ok {
					return true
				}
				fn, ok := info.Uses[se.Sel].(*types.Func)
				if !ok || !b.ours(fn.Pkg()) {
					return true
				}
				switch fn.Name() {
				case "AddFunction", "AddBuilder", "AddMacro", "AddGlobal":
					if len(e.Args) == 2 {
						if nm, ok := b.stringLit(info, e.Args[0]); ok {
							kind := map[string]string{"AddFunction": "function", "AddBuilder": "builder", "AddMacro": "macro", "AddGlobal": "global"}[fn.Name()]
							*out = append(*out, cgBinding{Name: nm, Kind: kind, Target: b.targetOf(info, e.Args[1]), Lab: lab, Where: fname})
						}
					}
				default:
					if strings.HasPrefix(fn.Name(), "Import") {
						if sig, ok := fn.Type().(*types.Signature); ok && sig.Recv() != nil {
							b.addCalls("Zlisp."+fn.Name(), lab, seen, out)
						}
					}
				}
			}
			return true
		})
	}
	walkStmt = func(s ast.Stmt, lab int) {
		switch x := s.(type) {
		case nil:
		case *ast.BlockStmt:
			walkList(x.List, lab)
		case *ast.IfStmt:
			if x.Init != nil {
				walkStmt(x.Init, lab)
			}
			visitExpr(x.Cond, lab)
			t, f := helper.implications(x.Cond)
			walkList(x.Body.List, lab|t)
			if x.Else != nil {
				walkStmt(x.Else, lab|f)
			}
		case *ast.ForStmt:
			walkList(x.Body.List, lab)
		case *ast.RangeStmt:
			walkList(x.Body.List, lab)
		default:
			visitExpr(s, lab)
		}
	}
	walkList = func(list []ast.Stmt, lab int) {
		for _, s := range list {
			walkStmt(s, lab)
			if ifs, ok := s.(*ast.IfStmt); ok {
				_, f := helper.implications(ifs.Cond)
				if terminates(info, ifs.Body.List) {
					lab |= f
				}
			}
		}
	}
	walkList(fd.Body.List, lab)
}

// specialForms: the case labels of the switch on sym.name in GenerateCallBySymbol.
func (b *cgBuilder) specialForms() []cgBinding {
	fd := b.w.FuncDecl("Generator.GenerateCallBySymbol")
	if fd == nil || fd.Body == nil {
		b.problem("Generator.GenerateCallBySymbol not found")
		return nil
	}
	info := b.w.Zygo.TypesInfo
	var out []cgBinding
	ast.Inspect(fd.Body, func(x ast.Node) bool {
		sw, ok := x.(*ast.SwitchStmt)
		if !ok {
			return true
		}
		for _, c := range sw.Body.List {
			cc, ok := c.(*ast.CaseClause)
			if !ok {
				continue
			}
			target := ""
			for _, s := range cc.Body {
				ast.Inspect(s, func(y ast.Node) bool {
					if ce, ok := y.(*ast.CallExpr); ok && target == "" {
						if t := b.targetOf(info, ce); strings.Contains(t, "Generate") {
							target = t
						}
					}
					return true
				})
			}
			for _, e := range cc.List {
				if nm, ok := b.stringLit(info, e); ok {
					out = append(out, cgBinding{Name: nm, Kind: "special", Target: target, Where: "GenerateCallBySymbol"})
				}
			}
		}
		return false
	})
	if len(out) == 0 {
		b.problem("no special forms read from GenerateCallBySymbol")
	}
	return out
}

// baseTypes: constant first arguments of RegisterBuiltin calls in start-up code.
func (b *cgBuilder) baseTypes() []cgBinding {
	info := b.w.Zygo.TypesInfo
	var out []cgBinding
	for _, f := range b.w.Zygo.Syntax {
		for _, d := range f.Decls {
			fd, ok := d.(*ast.FuncDecl)
			if !ok || fd.Body == nil || fd.Recv != nil || fd.Name.Name != "init" {
				continue
			}
			ast.Inspect(fd.Body, func(x ast.Node) bool {
				ce, ok := x.(*ast.CallExpr)
				if !ok {
					return true
				}
				if se, ok := unparen(ce.Fun).(*ast.SelectorExpr); ok && se.Sel.Name == "RegisterBuiltin" && len(ce.Args) >= 1 {
					if nm, ok := b.stringLit(info, ce.Args[0]); ok {
						out = append(out, cgBinding{Name: nm, Kind: "type", Where: "init"})
					}
				}
				return true
			})
		}
	}
	return out
}

// flagSites: where the sandbox flag is written, and where a Zlisp is allocated.
//   assign kinds: constTrue | constFalse | copy (rhs is <expr>.<flag>) | other
type cgFlagSite struct{ Func, Kind string }

func (b *cgBuilder) flagSites() (assigns []cgFlagSite, allocs []cgFlagSite) {
	zl := b.w.Zygo.Types.Scope().Lookup("Zlisp")
	for _, p := range b.pkgs() {
		info := p.TypesInfo
		for _, f := range p.Syntax {
			for _, d := range f.Decls {
				fd, ok := d.(*ast.FuncDecl)
				if !ok || fd.Body == nil {
					continue
				}
				name, _ := b.declName(p, fd)
				if name == "" {
					name = b.shortPkg(p.Types) + ".init"
				}
				isFlag := func(e ast.Expr) bool {
					se, ok := unparen(e).(*ast.SelectorExpr)
					if !ok || b.zflag == nil {
						return false
					}
					v, ok := info.Uses[se.Sel].(*types.Var)
					return ok && v == b.zflag
				}
				copies := false
				var localAllocs []string
				ast.Inspect(fd.Body, func(x ast.Node) bool {
					switch e := x.(type) {
					case *ast.AssignStmt:
						for i, l := range e.Lhs {
							if !isFlag(l) {
								continue
							}
							kind := "other"
							if len(e.Rhs) == len(e.Lhs) {
								r := unparen(e.Rhs[i])
								if tv, ok := info.Types[r]; ok && tv.Value != nil && tv.Value.Kind() == constant.Bool {
									if constant.BoolVal(tv.Value) {
										kind = "constTrue"
									} else {
										kind = "constFalse"
									}
								} else if isFlag(r) {
									kind = "copy"
									copies = true
								}
							}
							assigns = append(assigns, cgFlagSite{name, kind})
						}
					case *ast.UnaryExpr:
						if e.Op == token.AND && isFlag(e.X) {
							assigns = append(assigns, cgFlagSite{name, "addressTaken"})
						}
					case *ast.IncDecStmt:
					case *ast.CompositeLit:
						if zl != nil {
							if t := info.TypeOf(e); t != nil && types.Identical(t, zl.Type()) {
								hasFlag := false
								for _, el := range e.Elts {
									if kv, ok := el.(*ast.KeyValueExpr); ok {
										if id, ok := kv.Key.(*ast.Ident); ok && b.zflag != nil && id.Name == b.zflag.Name() {
											hasFlag = true
											kind := "other"
											if isFlag(kv.Value) {
												kind = "copy"
												copies = true
											} else if tv, ok := info.Types[kv.Value]; ok && tv.Value != nil && tv.Value.Kind() == constant.Bool && constant.BoolVal(tv.Value) {
												kind = "constTrue"
											}
											assigns = append(assigns, cgFlagSite{name, kind})
										}
									}
								}
								_ = hasFlag
								localAllocs = append(localAllocs, "literal")
							}
						}
					case *ast.CallExpr:
						if id, ok := unparen(e.Fun).(*ast.Ident); ok && id.Name == "new" && len(e.Args) == 1 {
							if _, isB := info.Uses[id].(*types.Builtin); isB && zl != nil {
								if t := info.TypeOf(e.Args[0]); t != nil && types.Identical(t, zl.Type()) {
									localAllocs = append(localAllocs, "new")
								}
							}
						}
					}
					return true
				})
				for range localAllocs {
					k := "fresh"
					if copies {
						k = "copiesFlag"
					}
					allocs = append(allocs, cgFlagSite{name, k})
				}
			}
		}
	}
	return
}

// replFacts: the guard structure of the command line wrapper.
//   dotCommands: every string constant starting with "." that `Repl` compares `first`
//   with, and whether the comparison sits under !cfg.Sandboxed;
//   ctorSites: calls of NewZlisp* in ReplMain with their cfg label.
type cgGuarded struct {
	Name string
	Lab  int
}

func (b *cgBuilder) replFacts() (dots []cgGuarded, ctors []cgGuarded) {
	info := b.w.Zygo.TypesInfo
	scan := func(fname string, visit func(n ast.Node, lab int)) {
		fd := b.w.FuncDecl(fname)
		if fd == nil || fd.Body == nil {
			b.problem("%s not found", fname)
			return
		}
		helper := &cgWalker{b: b, info: info}
		var walkList func(list []ast.Stmt, lab int)
		var walkStmt func(s ast.Stmt, lab int)
		exprs := func(n ast.Node, lab int) {
			if n == nil {
				return
			}
			ast.Inspect(n, func(x ast.Node) bool {
				if _, ok := x.(*ast.FuncLit); ok {
					return false
				}
				if x != nil {
					visit(x, lab)
				}
				return true
			})
		}
		walkStmt = func(s ast.Stmt, lab int) {
			switch x := s.(type) {
			case nil:
			case *ast.BlockStmt:
				walkList(x.List, lab)
			case *ast.IfStmt:
				if x.Init != nil {
					walkStmt(x.Init, lab)
				}
				exprs(x.Cond, lab)
				t, f := helper.implications(x.Cond)
				walkList(x.Body.List, lab|t)
				if x.Else != nil {
					walkStmt(x.Else, lab|f)
				}
			case *ast.ForStmt:
				if x.Init != nil {
					walkStmt(x.Init, lab)
				}
				exprs(x.Cond, lab)
				if x.Post != nil {
					walkStmt(x.Post, lab)
				}
				walkList(x.Body.List, lab)
			case *ast.RangeStmt:
				exprs(x.X, lab)
				walkList(x.Body.List, lab)
			case *ast.SwitchStmt:
				if x.Init != nil {
					walkStmt(x.Init, lab)
				}
				exprs(x.Tag, lab)
				walkList(x.Body.List, lab)
			case *ast.TypeSwitchStmt:
				walkList(x.Body.List, lab)
			case *ast.CaseClause:
				for _, e := range x.List {
					exprs(e, lab)
				}
				walkList(x.Body, lab)
			case *ast.LabeledStmt:
				walkStmt(x.Stmt, lab)
			default:
				exprs(s, lab)
			}
		}
		walkList = func(list []ast.Stmt, lab int) {
			for _, s := range list {
				walkStmt(s, lab)
				if ifs, ok := s.(*ast.IfStmt); ok {
					_, f := helper.implications(ifs.Cond)
					if terminates(info, ifs.Body.List) {
						lab |= f
					}
				}
			}
		}
		walkList(fd.Body.List, 0)
	}
	scan("Repl", func(n ast.Node, lab int) {
		// any string constant that looks like a dot command
		if e, ok := n.(ast.Expr); ok {
			if s, ok := b.stringLit(info, e); ok && len(s) >= 2 && s[0] == '.' && s[1] >= 'a' && s[1] <= 'z' {
				if _, isLit := e.(*ast.BasicLit); isLit {
					dots = append(dots, cgGuarded{s, lab})
				}
			}
		}
	})
	scan("ReplMain", func(n ast.Node, lab int) {
		if ce, ok := n.(*ast.CallExpr); ok {
			if id, ok := unparen(ce.Fun).(*ast.Ident); ok && strings.HasPrefix(id.Name, "NewZlisp") && id.Name != "NewZlispConfig" {
				ctors = append(ctors, cgGuarded{id.Name, lab})
			}
		}
	})
	return
}

// ---------------------------------------------------------------- names looked up by Go code

// cgNameSite: a constant string that Go code turns into a symbol (it flows, possibly through
// parameters of intermediate functions, into the index of env.symtable): a NAME the
// interpreter itself looks up or binds. Kind "bind" when the callee is one of the Add*
// registration helpers, "lookup" otherwise. A script can bind such a name too, so a decision
// that depends on what the name resolves to is under the script's control.
type cgNameSite struct{ Func, Callee, Name, Kind string }

func (b *cgBuilder) forEachDecl(f func(p *packages.Package, fd *ast.FuncDecl, obj *types.Func)) {
	for _, p := range b.pkgs() {
		for _, file := range p.Syntax {
			for _, d := range file.Decls {
				fd, ok := d.(*ast.FuncDecl)
				if !ok || fd.Body == nil {
					continue
				}
				obj, _ := p.TypesInfo.Defs[fd.Name].(*types.Func)
				if obj != nil {
					f(p, fd, obj)
				}
			}
		}
	}
}

func paramIndex(fd *ast.FuncDecl, info *types.Info, e ast.Expr) int {
	id, ok := unparen(e).(*ast.Ident)
	if !ok {
		return -1
	}
	obj := info.Uses[id]
	k := 0
	for _, fl := range fd.Type.Params.List {
		if len(fl.Names) == 0 {
			k++
			continue
		}
		for _, n := range fl.Names {
			if info.Defs[n] == obj && obj != nil {
				return k
			}
			k++
		}
	}
	return -1
}

func calleeOf(info *types.Info, ce *ast.CallExpr) *types.Func {
	switch f := unparen(ce.Fun).(type) {
	case *ast.Ident:
		fn, _ := info.Uses[f].(*types.Func)
		return fn
	case *ast.SelectorExpr:
		fn, _ := info.Uses[f.Sel].(*types.Func)
		return fn
	}
	return nil
}

func (b *cgBuilder) nameSites() []cgNameSite {
	pos := map[*types.Func]map[int]bool{}
	add := func(f *types.Func, i int) bool {
		if pos[f] == nil {
			pos[f] = map[int]bool{}
		}
		if pos[f][i] {
			return false
		}
		pos[f][i] = true
		return true
	}
	// seed: a parameter used as index of a field named symtable
	b.forEachDecl(func(p *packages.Package, fd *ast.FuncDecl, obj *types.Func) {
		ast.Inspect(fd.Body, func(x ast.Node) bool {
			ix, ok := x.(*ast.IndexExpr)
			if !ok {
				return true
			}
			if se, ok := unparen(ix.X).(*ast.SelectorExpr); ok && se.Sel.Name == "symtable" {
				if k := paramIndex(fd, p.TypesInfo, ix.Index); k >= 0 {
					add(obj, k)
				}
			}
			return true
		})
	})
	for changed := true; changed; {
		changed = false
		b.forEachDecl(func(p *packages.Package, fd *ast.FuncDecl, obj *types.Func) {
			ast.Inspect(fd.Body, func(x ast.Node) bool {
				ce, ok := x.(*ast.CallExpr)
				if !ok {
					return true
				}
				g := calleeOf(p.TypesInfo, ce)
				if g == nil || pos[g.Origin()] == nil {
					return true
				}
				for i := range pos[g.Origin()] {
					if i < len(ce.Args) {
						if k := paramIndex(fd, p.TypesInfo, ce.Args[i]); k >= 0 && add(obj, k) {
							changed = true
						}
					}
				}
				return true
			})
		})
	}
	var out []cgNameSite
	seen := map[cgNameSite]bool{}
	b.forEachDecl(func(p *packages.Package, fd *ast.FuncDecl, obj *types.Func) {
		fname, _ := b.declName(p, fd)
		if fname == "" {
			fname = b.shortPkg(p.Types) + ".init"
		}
		ast.Inspect(fd.Body, func(x ast.Node) bool {
			ce, ok := x.(*ast.CallExpr)
			if !ok {
				return true
			}
			g := calleeOf(p.TypesInfo, ce)
			if g == nil || pos[g.Origin()] == nil {
				return true
			}
			for i := range pos[g.Origin()] {
				if i < len(ce.Args) {
					if nm, ok := b.stringLit(p.TypesInfo, ce.Args[i]); ok {
						kind := "lookup"
						if strings.HasPrefix(g.Name(), "Add") || strings.HasPrefix(g.Name(), "LazyAdd") {
							kind = "bind"
						}
						st := cgNameSite{fname, g.Name(), nm, kind}
						if !seen[st] {
							seen[st] = true
							out = append(out, st)
						}
					}
				}
			}
			return true
		})
	})
	sort.Slice(out, func(i, j int) bool {
		if out[i].Func != out[j].Func {
			return out[i].Func < out[j].Func
		}
		return out[i].Name < out[j].Name
	})
	return out
}

// scriptGates: `if` conditions (of an `if` one branch of which always leaves the function: a gate)
// that call a bool-valued function of the two packages from which
// a constant-name LOOKUP is reachable (reference graph): a decision that depends on what a
// name resolves to, hence on bindings a script can make. (func containing the if, predicate,
// names the predicate can look up)
type cgGate struct {
	Func, Pred string
	Names      []string
}

func (b *cgBuilder) scriptGates(es []cgEdge, sites []cgNameSite) []cgGate {
	lookupIn := map[string][]string{}
	for _, st := range sites {
		if st.Kind == "lookup" {
			lookupIn[st.Func] = append(lookupIn[st.Func], st.Name)
		}
	}
	predNames := map[*types.Func][]string{}
	isPred := func(f *types.Func) ([]string, bool) {
		f = f.Origin()
		if ns, ok := predNames[f]; ok {
			return ns, len(ns) > 0
		}
		predNames[f] = nil
		sig, _ := f.Type().(*types.Signature)
		if sig == nil || sig.Results().Len() != 1 {
			return nil, false
		}
		if bt, ok := sig.Results().At(0).Type().Underlying().(*types.Basic); !ok || bt.Kind() != types.Bool {
			return nil, false
		}
		id, ok := b.byObj[f]
		if !ok {
			return nil, false
		}
		dm := b.dist(es, id, func(int) bool { return true })
		best := map[string]int{}
		for nid, dd := range dm {
			base := strings.SplitN(b.nodes[nid].Name, "$", 2)[0]
			for _, n := range lookupIn[base] {
				if old, ok := best[n]; !ok || dd < old {
					best[n] = dd
				}
			}
		}
		var ns []string
		for n := range best {
			ns = append(ns, n)
		}
		// nearest first: the name looked up by the predicate itself comes before the names
		// that anything it can reach looks up
		sort.Slice(ns, func(i, j int) bool {
			if best[ns[i]] != best[ns[j]] {
				return best[ns[i]] < best[ns[j]]
			}
			return ns[i] < ns[j]
		})
		predNames[f] = ns
		return ns, len(ns) > 0
	}
	var out []cgGate
	b.forEachDecl(func(p *packages.Package, fd *ast.FuncDecl, obj *types.Func) {
		fname, _ := b.declName(p, fd)
		ast.Inspect(fd.Body, func(x ast.Node) bool {
			ifs, ok := x.(*ast.IfStmt)
			if !ok {
				return true
			}
			// not inside functions that are themselves predicates (predicates built from predicates)
			if sig, _ := obj.Type().(*types.Signature); sig != nil && sig.Results().Len() == 1 {
				if bt, ok := sig.Results().At(0).Type().Underlying().(*types.Basic); ok && bt.Kind() == types.Bool {
					return true
				}
			}
			// only gates that cut the rest of the function off (one branch always leaves)
			cuts := terminates(p.TypesInfo, ifs.Body.List)
			if eb, ok := ifs.Else.(*ast.BlockStmt); ok && terminates(p.TypesInfo, eb.List) {
				cuts = true
			}
			if !cuts {
				return true
			}
			ast.Inspect(ifs.Cond, func(y ast.Node) bool {
				if _, isLit := y.(*ast.FuncLit); isLit {
					return false
				}
				if ce, ok := y.(*ast.CallExpr); ok {
					if g := calleeOf(p.TypesInfo, ce); g != nil && b.ours(g.Pkg()) {
						if ns, ok := isPred(g); ok {
							out = append(out, cgGate{fname, b.shortPkg(g.Pkg()) + "." + b.relName(g.Origin()), ns})
						}
					}
				}
				return true
			})
			return true
		})
	})
	return out
}

// flagGuards: the functions in which an `if` condition reads the sandbox flag, and how:
// "field" (a selector of the field itself) or "accessor" (a call of a method whose body is
// `return recv.<flag>`).
func (b *cgBuilder) flagGuards() [][3]string {
	var out [][3]string
	seen := map[[3]string]bool{}
	b.forEachDecl(func(p *packages.Package, fd *ast.FuncDecl, obj *types.Func) {
		fname, _ := b.declName(p, fd)
		id := -1
		if n, ok := b.byObj[obj]; ok {
			id = n
		}
		ast.Inspect(fd.Body, func(x ast.Node) bool {
			ifs, ok := x.(*ast.IfStmt)
			if !ok {
				return true
			}
			ast.Inspect(ifs.Cond, func(y ast.Node) bool {
				kind := ""
				switch e := y.(type) {
				case *ast.SelectorExpr:
					if v, ok := p.TypesInfo.Uses[e.Sel].(*types.Var); ok && b.zflag != nil && v == b.zflag {
						kind = "field"
					}
				case *ast.CallExpr:
					if g := calleeOf(p.TypesInfo, e); g != nil && b.zaccessors[g] {
						kind = "accessor"
					}
				}
				if kind != "" {
					k := [3]string{fname, strconv.Itoa(id), kind}
					if !seen[k] {
						seen[k] = true
						out = append(out, k)
					}
				}
				return true
			})
			return true
		})
	})
	return out
}

// ---------------------------------------------------------------- emission

func leanNatList(xs []int) string {
	ss := make([]string, len(xs))
	for i, x := range xs {
		ss[i] = strconv.Itoa(x)
	}
	return "[" + strings.Join(ss, ", ") + "]"
}

func init() {
	register(Emitter{File: "CallGraph.lean", Run: runCallGraph})
}

func runCallGraph(w *World) (out string, err error) {
	b := &cgBuilder{w: w, byName: map[string]int{}, byObj: map[types.Object]int{}, edges: map[cgEdge]bool{},
		methodsByName: map[string][]int{}, zaccessors: map[*types.Func]bool{}, wrappers: map[int]bool{},
		startupCalls: map[string]bool{}, startupExternals: map[string]bool{}, unsafeUsers: map[string]bool{}, funcAsserts: map[string]bool{}, litCount: map[string]int{}}
	defer func() {
		if r := recover(); r != nil {
			// never break the shared T1 step: emit a file whose only content is the problem
			out = "namespace ZygoVerif.Generated.CallGraph\ndef extractorProblems : List String := [" + LeanString(fmt.Sprint("extractor panic: ", r)) + "]\nend ZygoVerif.Generated.CallGraph\n"
			err = nil
		}
	}()
	b.build()
	es := b.sortedEdges()

	// roots
	need := func(names []string) []int {
		var ids []int
		for _, n := range names {
			if id, ok := b.byName[n]; ok {
				ids = append(ids, id)
			} else {
				b.problem("root %s not found", n)
			}
		}
		return ids
	}
	base := append([]int{b.byName["INIT"], b.byName["EXT"]}, need(append([]string{"zygo.NewZlispSandbox"}, cgEntryPoints...))...)
	roots := map[string][]int{
		"bare": base,
		"std":  append(append([]int{}, base...), need([]string{"zygo.(*Zlisp).StandardSetup"})...),
	}
	roots["cli"] = append(append([]int{}, roots["std"]...), need(cgWrapperNames)...)

	// start-up callees: can anything reachable from them create a function value?
	var scalls []string
	for n := range b.startupCalls {
		scalls = append(scalls, n)
	}
	sort.Strings(scalls)
	type scall struct {
		Name    string
		Creates bool
		Node    int
		AsRoot  bool
	}
	var startup []scall
	for _, n := range scalls {
		par, _ := b.reach(es, []int{b.byName[n]}, func(int) bool { return true })
		creates := false
		for id := range par {
			if b.nodes[id].HasValueMention {
				creates = true
			}
		}
		// a callee that could create function values is made a ROOT of every configuration
		// (sound: whatever it leaves behind is then covered) unless it is on the short list of
		// callees whose function values are known to be dropped; Lean checks that list
		// against Spec.Prims.startupDiscards
		asRoot := creates && !cgStartupDiscards[n]
		if asRoot {
			for _, c := range []string{"bare", "std", "cli"} {
				roots[c] = append(roots[c], b.byName[n])
			}
		}
		startup = append(startup, scall{n, creates, b.byName[n], asRoot})
	}

	var sb strings.Builder
	sb.WriteString("/- Reference graph of package zygo + cmd/zygo (see extract/ex_callgraph.go for the exact\nmeaning of nodes, edges, labels and certificates). -/\n")
	sb.WriteString("namespace ZygoVerif.Generated.CallGraph\n\n")
	fmt.Fprintf(&sb, "def numNodes : Nat := %d\n", len(b.nodes))
	var names []string
	for _, n := range b.nodes {
		names = append(names, LeanString(n.Name))
	}
	sb.WriteString(LeanList("nodeNames", "String", names, 150))
	sb.WriteString("\n/-- adjacency: (source, label bits, bit mask of the targets reached from that source by edges\nwith exactly that label). Bit i of a mask = node i of `nodeNames`. -/\n")
	type sl struct{ Src, Lab int }
	masks := map[sl]*big.Int{}
	var keys []sl
	for _, e := range es {
		k := sl{e.Src, e.Lab}
		if masks[k] == nil {
			masks[k] = new(big.Int)
			keys = append(keys, k)
		}
		masks[k].SetBit(masks[k], e.Dst, 1)
	}
	var astr []string
	for _, k := range keys {
		astr = append(astr, fmt.Sprintf("(%d,%d,0x%s)", k.Src, k.Lab, masks[k].Text(16)))
	}
	sb.WriteString(LeanList("adj", "(Nat × Nat × Nat)", astr, 60))
	fmt.Fprintf(&sb, "def numEdges : Nat := %d\n", len(es))
	sb.WriteString("\n/-- external objects referenced, grouped by package path: (package, [(node id, name inside the\npackage, kind)]) -/\n")
	groups := map[string][]string{}
	var gorder []string
	for _, n := range b.nodes {
		if n.Kind == "ext" {
			if _, ok := groups[n.Pkg]; !ok {
				gorder = append(gorder, n.Pkg)
			}
			groups[n.Pkg] = append(groups[n.Pkg], fmt.Sprintf("(%d, %s, %s)", n.ID, LeanString(n.Ext), LeanString(n.ExtKind)))
		}
	}
	sort.Strings(gorder)
	var gdefs []string
	for i, g := range gorder {
		gn := fmt.Sprintf("extGroup_%d", i)
		sb.WriteString(LeanList(gn, "(Nat × String × String)", groups[g], 60))
		gdefs = append(gdefs, fmt.Sprintf("(%s, %s)", LeanString(g), gn))
	}
	fmt.Fprintf(&sb, "def extGroups : List (String × List (Nat × String × String)) := [%s]\n", strings.Join(gdefs, ", "))
	sb.WriteString("\n")
	for _, c := range []string{"bare", "std", "cli"} {
		fmt.Fprintf(&sb, "def roots%s : List Nat := %s\n", strings.Title(c), leanNatList(roots[c]))
	}
	// certificates
	facts := map[string]interface{}{}
	isExt := func(id int) bool { return b.nodes[id].Kind == "ext" }
	for _, c := range []string{"bare", "std", "cli"} {
		cc := c
		par, _ := b.reach(es, roots[c], func(lab int) bool { return cgKeep(cc, lab) })
		mask := new(big.Int)
		var reachedExt []map[string]interface{}
		var reachNames []string
		ids := make([]int, 0, len(par))
		for id := range par {
			ids = append(ids, id)
		}
		sort.Ints(ids)
		for _, id := range ids {
			mask.SetBit(mask, id, 1)
			reachNames = append(reachNames, b.nodes[id].Name)
			if isExt(id) {
				var path []string
				for x := id; x != -1; x = par[x] {
					path = append([]string{b.nodes[x].Name}, path...)
				}
				reachedExt = append(reachedExt, map[string]interface{}{"pkg": b.nodes[id].Pkg, "name": b.nodes[id].Ext, "kind": b.nodes[id].ExtKind, "path": path})
			}
		}
		fmt.Fprintf(&sb, "def cert%s : Nat := 0x%s\n", strings.Title(c), mask.Text(16))
		facts[c] = map[string]interface{}{"reached": len(par), "reached_externals": reachedExt, "reachable": reachNames}
	}
	// a witness that the analysis has teeth: in the FULL interpreter (NewZlisp + StandardSetup,
	// sandbox flag false) a primitive is reachable; Lean re-checks the path edge by edge
	{
		var fr []int
		for _, n := range []string{"zygo.NewZlisp", "zygo.(*Zlisp).StandardSetup"} {
			if id, ok := b.byName[n]; ok {
				fr = append(fr, id)
			}
		}
		par, order := b.reach(es, fr, func(lab int) bool { return lab&labS == 0 })
		var wit []int
		for _, id := range order {
			n := b.nodes[id]
			if n.Kind == "ext" && (n.Pkg == "os/exec" || (n.Pkg == "os" && (n.Ext == "Open" || n.Ext == "Exit" || n.Ext == "Create" || n.Ext == "Getenv"))) {
				for x := id; x != -1; x = par[x] {
					wit = append([]int{x}, wit...)
				}
				break
			}
		}
		fmt.Fprintf(&sb, "\n/-- a path root → primitive in the full (unsandboxed) interpreter, first element = root -/\ndef witnessFull : List Nat := %s\n", leanNatList(wit))
		tp, tn := "", ""
		if len(wit) > 0 {
			tp, tn = b.nodes[wit[len(wit)-1]].Pkg, b.nodes[wit[len(wit)-1]].Ext
		}
		fmt.Fprintf(&sb, "/-- (package, member) of its last node -/\ndef witnessFullTarget : String × String := (%s, %s)\n", LeanString(tp), LeanString(tn))
	}
	sb.WriteString("\n/-- functions CALLED by init functions / package-level initialisers: (name, does anything\nreachable from it mention a function in value position, node id, was it made a root) -/\n")
	var sc []string
	for _, s := range startup {
		sc = append(sc, fmt.Sprintf("(%s, %v, %d, %v)", LeanString(s.Name), s.Creates, s.Node, s.AsRoot))
	}
	sb.WriteString(LeanList("startupCalls", "(String × Bool × Nat × Bool)", sc, 100))
	var se []string
	for n := range b.startupExternals {
		se = append(se, n)
	}
	sort.Strings(se)
	var seq []string
	for _, n := range se {
		seq = append(seq, LeanString(n))
	}
	sb.WriteString(LeanList("startupExternals", "String", seq, 100))

	// host sites: label-16 edges that stay active under cfg.Sandboxed
	sb.WriteString("\n/-- references to external objects made directly by the command line wrapper functions and\nNOT under `!cfg.Sandboxed`: (wrapper, package, name) -/\n")
	var hs []string
	hseen := map[string]bool{}
	for _, e := range es {
		if e.Lab&labHost != 0 && e.Lab&labUcfg == 0 {
			n := b.nodes[e.Dst]
			s := fmt.Sprintf("(%s, %s, %s)", LeanString(b.nodes[e.Src].Name), LeanString(n.Pkg), LeanString(n.Ext))
			if !hseen[s] {
				hseen[s] = true
				hs = append(hs, s)
			}
		}
	}
	sb.WriteString(LeanList("hostSites", "(String × String × String)", hs, 100))
	// edges into wrappers
	var wn []int
	for id := range b.wrappers {
		wn = append(wn, id)
	}
	sort.Ints(wn)
	fmt.Fprintf(&sb, "def wrapperNodes : List Nat := %s\n", leanNatList(wn))

	// flag protocol
	assigns, allocs := b.flagSites()
	flagName := ""
	if b.zflag != nil {
		flagName = b.zflag.Name()
	}
	fmt.Fprintf(&sb, "\n/-- name of the sandbox flag field of Zlisp (\"\" when the tree has none) -/\ndef sandboxFlag : String := %s\n", LeanString(flagName))
	var as, al []string
	for _, a := range assigns {
		as = append(as, fmt.Sprintf("(%s, %s)", LeanString(a.Func), LeanString(a.Kind)))
	}
	for _, a := range allocs {
		al = append(al, fmt.Sprintf("(%s, %s)", LeanString(a.Func), LeanString(a.Kind)))
	}
	sb.WriteString(LeanList("flagAssignSites", "(String × String)", as, 100))
	sb.WriteString(LeanList("zlispAllocSites", "(String × String)", al, 100))

	// names looked up by Go code, gates that depend on them, functions guarded by the flag
	sites := b.nameSites()
	gates := b.scriptGates(es, sites)
	var nsq, gq, fgq []string
	for _, st := range sites {
		nsq = append(nsq, fmt.Sprintf("(%s, %s, %s, %s)", LeanString(st.Func), LeanString(st.Callee), LeanString(st.Name), LeanString(st.Kind)))
	}
	for _, g := range gates {
		gq = append(gq, fmt.Sprintf("(%s, %s)", LeanString(g.Func), LeanString(g.Pred)))
	}
	for _, g := range b.flagGuards() {
		fgq = append(fgq, fmt.Sprintf("(%s, %s, %s)", LeanString(g[0]), g[1], LeanString(g[2])))
	}
	sb.WriteString("\n/-- constant strings that Go code turns into symbols: (function, callee, name, lookup|bind) -/\n")
	sb.WriteString(LeanList("nameSites", "(String × String × String × String)", nsq, 100))
	sb.WriteString("/-- `if` conditions calling a bool-valued function from which a constant-name lookup is reachable:\n(function containing the if, predicate) -/\n")
	sb.WriteString(LeanList("scriptGates", "(String × String)", gq, 100))
	sb.WriteString("/-- functions in which an `if` condition reads the sandbox flag: (function, node id, field|accessor) -/\n")
	sb.WriteString(LeanList("flagGuards", "(String × Nat × String)", fgq, 100))
	dots, ctors := b.replFacts()
	var ds, cs []string
	for _, d := range dots {
		ds = append(ds, fmt.Sprintf("(%s, %d)", LeanString(d.Name), d.Lab))
	}
	for _, c := range ctors {
		cs = append(cs, fmt.Sprintf("(%s, %d)", LeanString(c.Name), c.Lab))
	}
	sb.WriteString("\n/-- dot commands compared in Repl and constructor calls in ReplMain, with label bits -/\n")
	sb.WriteString(LeanList("replDotCommands", "(String × Nat)", ds, 100))
	sb.WriteString(LeanList("replMainCtors", "(String × Nat)", cs, 100))

	var uu []string
	for n := range b.unsafeUsers {
		uu = append(uu, n)
	}
	sort.Strings(uu)
	var uq []string
	for _, n := range uu {
		uq = append(uq, LeanString(n))
	}
	sb.WriteString("\n/-- functions that mention package unsafe -/\n")
	sb.WriteString(LeanList("unsafeUsers", "String", uq, 100))
	var fa []string
	for n := range b.funcAsserts {
		fa = append(fa, n)
	}
	sort.Strings(fa)
	for i := range fa {
		fa[i] = LeanString(fa[i])
	}
	sb.WriteString("\n/-- functions containing a type assertion / type-switch case to a function type -/\n")
	sb.WriteString(LeanList("funcAssertions", "String", fa, 100))

	// name tables
	tables, comps := b.funcTables()
	sandboxTable := ""
	if fd := w.FuncDecl("NewZlispSandbox"); fd != nil && fd.Body != nil {
		ast.Inspect(fd.Body, func(x ast.Node) bool {
			if ce, ok := x.(*ast.CallExpr); ok {
				if id, ok := unparen(ce.Fun).(*ast.Ident); ok && id.Name == "NewZlispWithFuncs" && len(ce.Args) == 1 {
					if c, ok := unparen(ce.Args[0]).(*ast.CallExpr); ok {
						if cid, ok := unparen(c.Fun).(*ast.Ident); ok {
							sandboxTable = cid.Name
						}
					}
				}
			}
			return true
		})
	}
	if sandboxTable == "" {
		b.problem("NewZlispSandbox does not pass a function table call to NewZlispWithFuncs")
	}
	var bare []cgBinding
	bare = append(bare, b.expandTable(sandboxTable, tables, comps, 0)...)
	b.addCalls("NewZlispWithFuncs", 0, map[string]bool{}, &bare)
	var std []cgBinding
	b.addCalls("Zlisp.StandardSetup", 0, map[string]bool{}, &std)
	std = append(std, b.baseTypes()...)
	system := b.expandTable("SystemFunctions", tables, comps, 0)
	reflection := b.expandTable("ReflectionFunctions", tables, comps, 0)
	special := b.specialForms()
	emitBindings := func(name string, bs []cgBinding) {
		var ss []string
		for _, x := range bs {
			tid := len(b.nodes) // numNodes = "no Go function read for this name"
			if id, ok := b.byName[x.Target]; ok && x.Target != "" {
				tid = id
			}
			ss = append(ss, fmt.Sprintf("(%s, %s, %d, %d)", LeanString(x.Name), LeanString(x.Kind), tid, x.Lab))
		}
		sb.WriteString(LeanList(name, "(String × String × Nat × Nat)", ss, 100))
	}
	sb.WriteString("\n/-- name tables read from the source: (script name, kind, node id of the Go function behind it\n(numNodes when none was read), label bits) -/\n")
	emitBindings("bareBindings", bare)
	emitBindings("stdBindings", std)
	emitBindings("systemTable", system)
	emitBindings("reflectionTable", reflection)
	emitBindings("specialForms", special)

	var ps []string
	for _, p := range b.problems {
		ps = append(ps, LeanString(p))
	}
	sb.WriteString("\n/-- anything the extractor could not read (must be empty) -/\n")
	sb.WriteString(LeanList("extractorProblems", "String", ps, 100))
	sb.WriteString("\nend ZygoVerif.Generated.CallGraph\n")

	// facts for checks/C08.py
	bind := func(bs []cgBinding) []map[string]interface{} {
		var o []map[string]interface{}
		for _, x := range bs {
			o = append(o, map[string]interface{}{"name": x.Name, "kind": x.Kind, "target": x.Target, "lab": x.Lab, "where": x.Where})
		}
		return o
	}
	// per bound name: which external objects the Go function behind it can reach (over the
	// edges kept for the configuration) and in how many steps. checks/C08.py turns names that reach something
	// forbidden into the "suspect names" of the failing-input search.
	{
		var extNames []string
		extIdx := map[int]int{}
		for _, n := range b.nodes {
			if n.Kind == "ext" {
				extIdx[n.ID] = len(extNames)
				extNames = append(extNames, n.Pkg+"\t"+n.Ext)
			}
		}
		facts["externals"] = extNames
		nameReach := map[string]map[string][][2]int{}
		for _, c := range []string{"bare", "std"} {
			cc := c
			bs := append([]cgBinding{}, bare...)
			if c == "std" {
				bs = append(bs, std...)
			}
			bs = append(bs, special...)
			m := map[string][][2]int{}
			for _, x := range bs {
				id, ok := b.byName[x.Target]
				if !ok || x.Target == "" || !cgKeep(cc, x.Lab) {
					continue
				}
				dm := b.dist(es, id, func(lab int) bool { return cgKeep(cc, lab) })
				xs := [][2]int{}
				for nid, dd := range dm {
					if k, ok := extIdx[nid]; ok {
						xs = append(xs, [2]int{k, dd})
					}
				}
				sort.Slice(xs, func(i, j int) bool { return xs[i][0] < xs[j][0] })
				m[x.Name] = xs
			}
			nameReach[c] = m
		}
		facts["name_reach"] = nameReach
	}
	{
		var ns []map[string]string
		for _, st := range sites {
			ns = append(ns, map[string]string{"func": st.Func, "callee": st.Callee, "name": st.Name, "kind": st.Kind})
		}
		facts["name_sites"] = ns
		var gs []map[string]interface{}
		for _, g := range gates {
			gs = append(gs, map[string]interface{}{"func": g.Func, "pred": g.Pred, "names": g.Names})
		}
		facts["script_gates"] = gs
	}
	facts["nodes"] = len(b.nodes)
	facts["edges"] = len(es)
	facts["problems"] = b.problems
	facts["sandbox_flag"] = flagName
	facts["bare_bindings"] = bind(bare)
	facts["std_bindings"] = bind(std)
	facts["system_table"] = bind(system)
	facts["special_forms"] = bind(special)
	facts["startup_calls"] = startup
	facts["host_sites"] = hs
	w.Facts["c08"] = facts
	return sb.String(), nil
}
