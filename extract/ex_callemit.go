package main

import (
	"fmt"
	"go/ast"
	"sort"
	"strings"
)

// CallEmit.lean (C16): every place in package zygo where one of the instructions that start
// or prepare a call — CallInstr, CallExprInstr, DispatchInstr, PushLazyArgInstr,
// PrepareCallInstr, TailGuardInstr — is constructed (a composite literal of that type),
// as (enclosing function, instruction type), sorted, with repetitions. The expectation in
// Props/C16.lean says which functions may build which: an ordinary call is a CallExprInstr
// (callee resolved and laziness decided when the call runs); CallInstr — which evaluates all
// operands in line and looks the name up afterwards — is built for array literals only.
func init() {
	register(Emitter{File: "CallEmit.lean", Run: func(w *World) (string, error) {
		kinds := map[string]bool{"CallInstr": true, "CallExprInstr": true, "DispatchInstr": true,
			"PushLazyArgInstr": true, "PrepareCallInstr": true, "TailGuardInstr": true}
		type site struct{ fn, instr string }
		var sites []site
		for _, f := range w.Zygo.Syntax {
			for _, d := range f.Decls {
				fd, ok := d.(*ast.FuncDecl)
				if !ok || fd.Body == nil {
					continue
				}
				name := fd.Name.Name
				if fd.Recv != nil && len(fd.Recv.List) == 1 {
					name = recvName(fd.Recv.List[0].Type) + "." + name
				}
				ast.Inspect(fd.Body, func(n ast.Node) bool {
					if cl, ok := n.(*ast.CompositeLit); ok {
						if id, ok := cl.Type.(*ast.Ident); ok && kinds[id.Name] {
							sites = append(sites, site{name, id.Name})
						}
					}
					return true
				})
			}
		}
		if len(sites) == 0 {
			return "", fmt.Errorf("no call instruction is constructed anywhere: the source left the readable shape")
		}
		sort.Slice(sites, func(i, j int) bool {
			if sites[i].fn != sites[j].fn {
				return sites[i].fn < sites[j].fn
			}
			return sites[i].instr < sites[j].instr
		})
		var elems []string
		for _, s := range sites {
			elems = append(elems, fmt.Sprintf("(%s, %s)", LeanString(s.fn), LeanString(s.instr)))
		}
		w.Facts["call_emit_sites"] = len(sites)
		var b strings.Builder
		b.WriteString("namespace ZygoVerif.Generated.CallEmit\n")
		b.WriteString("/-- (enclosing function, instruction type) for every composite literal of a call instruction. -/\n")
		b.WriteString(LeanList("sites", "(String × String)", elems, 100))
		b.WriteString("end ZygoVerif.Generated.CallEmit\n")
		return b.String(), nil
	}})
}
