package main

import (
	"fmt"
	"go/ast"
	"go/types"
	"strings"
)

// EvalCallRet.lean (C02, constructor freshness): every `return` of Zlisp.EvalCallExpression,
// in source order, with the kind of its first result:
//
//	null        the constant SexpNull
//	var:<name>  a local variable that is not the argument (result of a lookup / of Run)
//	expr        any other expression
//	arg         the ARGUMENT ITSELF, unchanged (the parameter, or a name bound to it by a type
//	            assertion / type switch / plain assignment) — together with the Go types the
//	            argument can have at that point: the types of the enclosing type-switch case or
//	            `x, ok := expr.(*T)` guard, or — for a guard `if f(expr)` where f is a function of
//	            the package whose body is one type switch over its parameter — the types of the
//	            cases of f that can answer true; "any" when no such guard is readable.
//
// An operand expression is evaluated by compiling and running it; handing the expression back
// as its own value is right only for kinds that are immutable and self-evaluating. The Lean fact
// (Props/C02Alias.lean, `decide` over the whole table) admits `arg` only under immutable kinds.
func init() {
	register(Emitter{File: "EvalCallRet.lean", Run: func(w *World) (string, error) {
		fd := w.FuncDecl("Zlisp.EvalCallExpression")
		if fd == nil || fd.Body == nil {
			return "", fmt.Errorf("Zlisp.EvalCallExpression not found")
		}
		if fd.Type.Params == nil || len(fd.Type.Params.List) != 1 || len(fd.Type.Params.List[0].Names) != 1 {
			return "", fmt.Errorf("EvalCallExpression: expected exactly one parameter")
		}
		param := fd.Type.Params.List[0].Names[0].Name
		type ret struct {
			kind  string
			guard []string
		}
		var rets []ret
		typeStr := func(e ast.Expr) string {
			if e == nil {
				return "any"
			}
			if id, ok := e.(*ast.Ident); ok && id.Name == "nil" {
				return "nil"
			}
			return types.ExprString(e)
		}
		// helperTypes: the types for which a package function `f(x Sexp) bool` whose body is one
		// type switch over x may answer something else than `false`; nil = unreadable (any)
		helperTypes := func(name string) []string {
			h := w.FuncDecl(name)
			if h == nil || h.Body == nil || h.Type.Params == nil || len(h.Type.Params.List) != 1 || len(h.Type.Params.List[0].Names) != 1 {
				return nil
			}
			hp := h.Type.Params.List[0].Names[0].Name
			var sw *ast.TypeSwitchStmt
			for _, st := range h.Body.List {
				switch s := st.(type) {
				case *ast.TypeSwitchStmt:
					if sw != nil {
						return nil
					}
					sw = s
				case *ast.ReturnStmt:
					if len(s.Results) != 1 {
						return nil
					}
					if id, ok := s.Results[0].(*ast.Ident); !ok || id.Name != "false" {
						return nil
					}
				default:
					return nil
				}
			}
			if sw == nil {
				return nil
			}
			var ta *ast.TypeAssertExpr
			switch a := sw.Assign.(type) {
			case *ast.AssignStmt:
				if len(a.Rhs) == 1 {
					ta, _ = a.Rhs[0].(*ast.TypeAssertExpr)
				}
			case *ast.ExprStmt:
				ta, _ = a.X.(*ast.TypeAssertExpr)
			}
			if ta == nil {
				return nil
			}
			if id, ok := ta.X.(*ast.Ident); !ok || id.Name != hp {
				return nil
			}
			out := []string{}
			for _, c := range sw.Body.List {
				cc := c.(*ast.CaseClause)
				onlyFalse := len(cc.Body) == 1
				if onlyFalse {
					r, ok := cc.Body[0].(*ast.ReturnStmt)
					onlyFalse = ok && len(r.Results) == 1
					if onlyFalse {
						id, ok := r.Results[0].(*ast.Ident)
						onlyFalse = ok && id.Name == "false"
					}
				}
				if onlyFalse {
					continue
				}
				if cc.List == nil {
					return nil // default clause may answer true
				}
				for _, t := range cc.List {
					out = append(out, typeStr(t))
				}
			}
			return out
		}
		copyAl := func(m map[string][]string) map[string][]string {
			n := map[string][]string{}
			for k, v := range m {
				n[k] = v
			}
			return n
		}
		narrow := func(m map[string][]string, g []string) map[string][]string {
			n := map[string][]string{}
			for k := range m {
				n[k] = g
			}
			return n
		}
		var walk func(st ast.Stmt, al map[string][]string)
		walkList := func(l []ast.Stmt, al map[string][]string) {
			al = copyAl(al)
			for _, s := range l {
				// a plain assignment x := <alias> makes x an alias from here on
				if a, ok := s.(*ast.AssignStmt); ok && len(a.Lhs) == 1 && len(a.Rhs) == 1 {
					if r, ok := a.Rhs[0].(*ast.Ident); ok {
						if g, isAl := al[r.Name]; isAl {
							if l, ok := a.Lhs[0].(*ast.Ident); ok && l.Name != "_" {
								al[l.Name] = g
							}
						}
					} else if l, ok := a.Lhs[0].(*ast.Ident); ok {
						delete(al, l.Name) // re-assigned to something else
					}
				}
				walk(s, al)
			}
		}
		walk = func(st ast.Stmt, al map[string][]string) {
			switch s := st.(type) {
			case nil:
			case *ast.ReturnStmt:
				if len(s.Results) == 0 {
					rets = append(rets, ret{"expr", nil})
					return
				}
				switch r := s.Results[0].(type) {
				case *ast.Ident:
					if g, ok := al[r.Name]; ok {
						rets = append(rets, ret{"arg", g})
					} else if r.Name == "SexpNull" {
						rets = append(rets, ret{"null", nil})
					} else {
						rets = append(rets, ret{"var:" + r.Name, nil})
					}
				default:
					rets = append(rets, ret{"expr", nil})
				}
			case *ast.BlockStmt:
				walkList(s.List, al)
			case *ast.IfStmt:
				body := copyAl(al)
				// if x, ok := <alias>.(*T); ok { … }
				if a, ok := s.Init.(*ast.AssignStmt); ok && len(a.Rhs) == 1 {
					if ta, ok := a.Rhs[0].(*ast.TypeAssertExpr); ok {
						if x, ok := ta.X.(*ast.Ident); ok {
							if _, isAl := al[x.Name]; isAl {
								g := []string{typeStr(ta.Type)}
								body = narrow(body, g)
								if l, ok := a.Lhs[0].(*ast.Ident); ok && l.Name != "_" {
									body[l.Name] = g
								}
							}
						}
					}
				}
				// if f(<alias>) { … }
				if c, ok := s.Cond.(*ast.CallExpr); ok && len(c.Args) == 1 {
					if x, ok := c.Args[0].(*ast.Ident); ok {
						if _, isAl := al[x.Name]; isAl {
							if f, ok := c.Fun.(*ast.Ident); ok {
								if g := helperTypes(f.Name); g != nil {
									body = narrow(body, g)
								}
							}
						}
					}
				}
				walk(s.Body, body)
				walk(s.Else, al)
			case *ast.TypeSwitchStmt:
				var ta *ast.TypeAssertExpr
				bind := ""
				switch a := s.Assign.(type) {
				case *ast.AssignStmt:
					if len(a.Rhs) == 1 {
						ta, _ = a.Rhs[0].(*ast.TypeAssertExpr)
					}
					if l, ok := a.Lhs[0].(*ast.Ident); ok {
						bind = l.Name
					}
				case *ast.ExprStmt:
					ta, _ = a.X.(*ast.TypeAssertExpr)
				}
				onAlias := false
				if ta != nil {
					if x, ok := ta.X.(*ast.Ident); ok {
						_, onAlias = al[x.Name]
					}
				}
				for _, c := range s.Body.List {
					cc := c.(*ast.CaseClause)
					b := copyAl(al)
					if onAlias {
						g := []string{"any"}
						if cc.List != nil {
							g = nil
							for _, t := range cc.List {
								g = append(g, typeStr(t))
							}
						}
						b = narrow(b, g)
						if bind != "" {
							b[bind] = g
						}
					}
					walkList(cc.Body, b)
				}
			case *ast.SwitchStmt:
				for _, c := range s.Body.List {
					walkList(c.(*ast.CaseClause).Body, al)
				}
			case *ast.ForStmt:
				walk(s.Body, al)
			case *ast.RangeStmt:
				walk(s.Body, al)
			case *ast.LabeledStmt:
				walk(s.Stmt, al)
			}
		}
		walk(fd.Body, map[string][]string{param: {"any"}})
		if len(rets) < 3 {
			return "", fmt.Errorf("EvalCallExpression: only %d return statements found", len(rets))
		}
		var el []string
		nArg := 0
		for _, r := range rets {
			var g []string
			for _, t := range r.guard {
				g = append(g, LeanString(t))
			}
			if r.kind == "arg" {
				nArg++
			}
			el = append(el, fmt.Sprintf("(%s, [%s])", LeanString(r.kind), strings.Join(g, ", ")))
		}
		w.Facts["evalcallexpr_returns"] = len(rets)
		w.Facts["evalcallexpr_returns_of_argument"] = nArg
		var b strings.Builder
		b.WriteString("namespace ZygoVerif.Generated.EvalCallRet\n")
		b.WriteString("/-- every `return` of `Zlisp.EvalCallExpression` in source order: kind of the first result, and for kind\n`arg` (the argument itself, unchanged) the Go types the argument can have there (`any` = no readable guard) -/\n")
		b.WriteString(LeanList("returns", "(String × List String)", el, 100))
		b.WriteString("end ZygoVerif.Generated.EvalCallRet\n")
		return b.String(), nil
	}})
}
