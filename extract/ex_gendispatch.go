package main

import (
	"fmt"
	"go/ast"
	"go/printer"
	"go/token"
	"sort"
	"strings"
)

// GenDispatch.lean (C01): the dispatch of Generator.Generate's `*SexpPair` case — for every
// call made there, the chain of if-conditions that dominate it (outermost first; a call in
// an else branch carries the negated condition `!(…)`). GenerateAssignment turns a failed
// ListToArray into a panic (`panicOn(err)`: "should never happen since we prevalidate that we
// have a list"); the prevalidation is the `IsList(e)` guard of this case. Props/C01 requires
// that guard to dominate the call, so re-ordering the tests breaks a table fact. Domination is
// lexical: enclosing if-bodies, else branches (`!(c)`), and statements after an
// `if c { …; return }` (`!(c)`).
func init() {
	register(Emitter{File: "GenDispatch.lean", Run: func(w *World) (string, error) {
		fd := w.FuncDecl("Generator.Generate")
		if fd == nil || fd.Body == nil {
			return "", fmt.Errorf("Generator.Generate not found")
		}
		src := func(n ast.Node) string {
			var b strings.Builder
			printer.Fprint(&b, token.NewFileSet(), n)
			return strings.Join(strings.Fields(b.String()), " ")
		}
		var pairCase *ast.CaseClause
		ast.Inspect(fd.Body, func(n ast.Node) bool {
			ts, ok := n.(*ast.TypeSwitchStmt)
			if !ok {
				return true
			}
			for _, c := range ts.Body.List {
				cc := c.(*ast.CaseClause)
				for _, t := range cc.List {
					if src(t) == "*SexpPair" {
						pairCase = cc
					}
				}
			}
			return true
		})
		if pairCase == nil {
			return "", fmt.Errorf("no `case *SexpPair` in Generator.Generate")
		}
		type call struct {
			callee string
			guards []string
		}
		var calls []call
		var walk func(n ast.Node, guards []string)
		endsInReturn := func(b *ast.BlockStmt) bool {
			if len(b.List) == 0 {
				return false
			}
			_, ok := b.List[len(b.List)-1].(*ast.ReturnStmt)
			return ok
		}
		walkStmts := func(l []ast.Stmt, guards []string) {
			for _, s := range l {
				walk(s, guards)
				// `if c { …; return }` without else: what follows is dominated by !(c)
				if ifs, ok := s.(*ast.IfStmt); ok && ifs.Else == nil && endsInReturn(ifs.Body) {
					guards = append(append([]string{}, guards...), "!("+src(ifs.Cond)+")")
				}
			}
		}
		walk = func(n ast.Node, guards []string) {
			switch s := n.(type) {
			case nil:
				return
			case *ast.IfStmt:
				if s.Init != nil {
					walk(s.Init, guards)
				}
				walk(s.Cond, guards)
				cond := src(s.Cond)
				walkStmts(s.Body.List, append(append([]string{}, guards...), cond))
				if s.Else != nil {
					walk(s.Else, append(append([]string{}, guards...), "!("+cond+")"))
				}
				return
			case *ast.BlockStmt:
				walkStmts(s.List, guards)
				return
			}
			ast.Inspect(n, func(m ast.Node) bool {
				switch e := m.(type) {
				case *ast.IfStmt, *ast.BlockStmt:
					if m != n {
						walk(m, guards)
						return false
					}
				case *ast.FuncLit:
					return false
				case *ast.CallExpr:
					name := ""
					switch f := e.Fun.(type) {
					case *ast.Ident:
						name = f.Name
					case *ast.SelectorExpr:
						name = f.Sel.Name
					}
					if name != "" {
						calls = append(calls, call{name, append([]string{}, guards...)})
					}
				}
				return true
			})
		}
		walkStmts(pairCase.Body, nil)
		if len(calls) == 0 {
			return "", fmt.Errorf("no calls found in the *SexpPair case")
		}
		var rows []string
		seen := map[string]bool{}
		for _, c := range calls {
			var gs []string
			for _, g := range c.guards {
				gs = append(gs, LeanString(g))
			}
			row := fmt.Sprintf("(%s, [%s])", LeanString(c.callee), strings.Join(gs, ", "))
			if !seen[row] {
				seen[row] = true
				rows = append(rows, row)
			}
		}
		sort.Strings(rows)
		var b strings.Builder
		b.WriteString("namespace ZygoVerif.Generated.GenDispatch\n\n")
		b.WriteString("/-- calls inside `case *SexpPair` of Generator.Generate with the if-conditions that dominate them\n(outermost first; `!(c)` = the else branch of `c`) -/\n")
		b.WriteString(LeanList("pairCase", "(String × List String)", rows, 100))
		b.WriteString("\nend ZygoVerif.Generated.GenDispatch\n")
		return b.String(), nil
	}})
}
