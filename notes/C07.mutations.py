#!/usr/bin/env python3
"""python3 notes/C07.mutations.py <name> : apply mutation <name> to a scratch worktree of /repo, run unit tests, run bin/check C07 quick."""
import subprocess, sys, os, json, re
WT = "/tmp/C07-mut-x"
V = os.path.dirname(os.path.dirname(os.path.abspath(__file__)))
def sh(cmd, **kw):
    return subprocess.run(cmd, shell=True, stdout=subprocess.PIPE, stderr=subprocess.STDOUT, text=True, **kw)
MUTS = {
 # behaviour-changing
 "M1-ule": [("zygo/comparisons.go", "		if i.Val < e.Val {\n			return -1, nil", "		if i.Val <= e.Val {\n			return -1, nil")],
 "M2-bysub": [("zygo/comparisons.go", "func cmpInt64(a, b int64) int {\n	if a < b {\n		return -1\n	}\n	if a > b {\n		return 1\n	}\n	return 0\n}", "func cmpInt64(a, b int64) int {\n	return signumInt(a - b)\n}")],
 "M3-viafloat": [("zygo/comparisons.go", "		return cmpInt64(i.Val, e.Val), nil\n	case *SexpFloat:", "		return signumFloat(float64(i.Val) - float64(e.Val)), nil\n	case *SexpFloat:")],
 "M4-order": [("zygo/comparisons.go", "		return cmpInt64(int64(c.Val), e.Val), nil", "		return cmpInt64(e.Val, int64(c.Val)), nil")],
 "M5-modsign": [("zygo/numerictower.go", "		if a.Val%b.Val == 0 {\n			return &SexpInt{Val: a.Val / b.Val}", "		if uint64(a.Val)%uint64(b.Val) == 0 {\n			return &SexpInt{Val: a.Val / b.Val}")],
 "M6-refused-ge": [("zygo/comparisons.go", "func signumFloat(f float64) int {\n	if f > 0 {", "func signumFloat(f float64) int {\n	if f >= 0 {")],
 "M7-modulo-abs": [("zygo/numerictower.go", "		return &SexpInt{Val: ia.Val % ib.Val}, nil", "		return &SexpInt{Val: int64(uint64(ia.Val) % uint64(ib.Val))}, nil")],
 # harmless
 "H1-rename": [("zygo/comparisons.go", "nanCount", "nans"), ("zygo/comparisons.go", "func cmpInt64(a, b int64) int {\n	if a < b {\n		return -1\n	}\n	if a > b {", "func cmpInt64(x, y int64) int {\n	if x < y {\n		return -1\n	}\n	if x > y {")],
 "H2-reorder": [("zygo/comparisons.go", "		if math.IsNaN(f.Val) {\n			nanCount++\n		}\n		if math.IsNaN(e.Val) {\n			nanCount++\n		}", "		if math.IsNaN(e.Val) {\n			nanCount++\n		}\n		if math.IsNaN(f.Val) {\n			nanCount++\n		}")],
 "H3-switch": [("zygo/comparisons.go", "func cmpInt64(a, b int64) int {\n	if a < b {\n		return -1\n	}\n	if a > b {\n		return 1\n	}\n	return 0\n}", "func cmpInt64(a, b int64) int {\n	switch {\n	case a < b:\n		return -1\n	case a > b:\n		return 1\n	}\n	return 0\n}"),
               ("zygo/comparisons.go", "		if i.Val < e.Val {\n			return -1, nil\n		}\n		if i.Val > e.Val {\n			return 1, nil\n		}\n		return 0, nil", "		switch {\n		case i.Val < e.Val:\n			return -1, nil\n		case i.Val > e.Val:\n			return 1, nil\n		default:\n			return 0, nil\n		}")],
 "H4-refused-loop": [("zygo/comparisons.go", "func cmpInt64(a, b int64) int {\n	if a < b {\n		return -1\n	}", "func cmpInt64(a, b int64) int {\n	for a < b {\n		return -1\n	}")],
 "H6-stress": [("zygo/comparisons.go", "func cmpInt64(a, b int64) int {\n	if a < b {\n		return -1\n	}\n	if a > b {\n		return 1\n	}\n	return 0\n}", """func cmpInt64(a, b int64) int {
	var e Sexp = &SexpInt{Val: b}
	r := 0
	switch a := e.(type) {
	case *SexpInt:
		_ = a
		r += 0
	}
	var d int64 = 3
	d -= 3
	switch r {
	case 0:
		if a < b+d {
			return -1
		}
	default:
		return 7
	}
	if a > b {
		return 1
	}
	return r
}""")],
 "H5-inline-rename": [("zygo/comparisons.go", "cmpInt64", "order64"),
                      ("zygo/comparisons.go", "	case *SexpInt:\n		return order64(i.Val, e.Val), nil", "	case *SexpInt:\n		if i.Val < e.Val {\n			return -1, nil\n		} else if e.Val < i.Val {\n			return 1, nil\n		}\n		return 0, nil")],
}
name = sys.argv[1]
sh("git -C /repo worktree remove --force %s" % WT)
r = sh("git -C /repo worktree add --detach %s HEAD" % WT)
assert r.returncode == 0, r.stdout
for f, a, b in MUTS[name]:
    p = os.path.join(WT, f); s = open(p).read()
    assert a in s, (name, a)
    open(p, "w").write(s.replace(a, b))
print(sh("git -C %s diff --stat" % WT).stdout.strip())
env = dict(os.environ, GOFLAGS="-mod=mod", GOPROXY="off")
t = sh("go test -vet=off -count=1 ./zygo/ 2>&1 | tail -3", cwd=WT, env=env)
print("UNIT TESTS:", t.stdout.strip().replace("\n", " | "))
env["VERIF_REPO"] = WT
c = sh("bin/check C07 quick", cwd=V, env=env)
print("CHECK exit", c.returncode)
for l in c.stdout.split("\n"):
    if l.startswith("VIOLATION") or l.startswith("KNOWN"):
        print("  ", l)
        m = re.search(r"replay=(\S+)", l)
        if m:
            j = json.load(open(m.group(1)))
            print("     kind=%s ops=%s impl=%s spec=%s model=%s thm=%s" % (j.get("kind"), (j.get("ops") or [""])[0], j.get("impl_did"), j.get("spec_requires", j.get("spec")), j.get("model_did"), str(j.get("theorem_or_correspondence"))[:150]))
e = json.load(open(os.path.join(V, "evidence/C07.json")))
cov = e["coverage"]
print("  translator:", json.dumps(cov.get("translator")))
print("  lean_errors:", [x[:160] for x in cov.get("lean_errors", [])][:3])
print("  wall", e["wall_s"], "discharged %s/%s" % (cov.get("discharged"), cov.get("obligations")))
sh("git -C /repo worktree remove --force %s" % WT)
