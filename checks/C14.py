"""C14 — hashes are insertion-ordered maps under every history.
Theorems: lean/ZygoVerif/Props/C14.lean over the hand-written model Model/Hash.lean
(buckets by hash code + KeyOrder + NumKeys, generic in the key type, the hash-code
function and the key equality) against the association-list spec Spec/OrderedMap.lean.
Tie: channel `hash` — whole histories on one hash, script level (EvalString) and
in-package (builtin Go functions + dump of Map bucket sizes / KeyOrder / NumKeys after every
op); exhaustive over small key universes with forced collisions, random to length 200."""
import vcommon as V

META = dict(
    text="Lean 4 theorems (Props/C14.lean) prove, for every operation history of any length over any key type, any hash-code function that respects key equality (collisions arbitrary) and any key equality that is an equivalence, that the model of HashSet/HashDelete/HashGet/HashGetDefault/HashPairi/HashCountKeys/keys/range/SexpString/json keeps its three pieces of bookkeeping consistent (invariant Inv: KeyOrder = the live keys once each, NumKeys = total bucket size, buckets hold pairwise different keys of their code) and that every observation equals that of an association list in first-insertion order; deleting or looking up a missing key changes nothing; read off the model directly: a key that no hset/hdel of the history writes (in any spelling) keeps its binding through every history (get_stable), the latest write wins and a deleted key stays gone (latest_write_wins, deleted_stays_gone), overwriting keeps the key's place, a new key goes last, delete-then-set moves it last, and no builtin reorders the keys that stay; for the defining loop `for k, v := range h` (one mdef per iteration, Model/RangeBind, fix C14-03) that it presents exactly the pairs of range when the keys have one type and otherwise stops with an error, never with a wrong list (defining_range_partial, defining_range_never_wrong; the full statement fails for keys of different types: known finding). Unit tests reach one delete; the theorem covers all interleavings.",
    note="Trusted: Lean kernel; axioms propext/Classical.choice/Quot.sound; Model/Hash.lean is hand-written and tied to zygo/hashutils.go + functions.go + jsonmsgp.go by the `hash` correspondence (differential testing: exhaustive histories over 5/6-key universes with symbol/int and string/int code collisions, char/int and [k]/k aliases, every observer after every step, script route and direct route with bookkeeping dump; random histories to length 200). Key equality enters as hypotheses (KeyLaws: equivalence + code congruence), proved for the channel's concrete key universe (symbols, strings, ints, chars). hash/fnv and symbol numbering are exercised by the channel, not proved. Multi-element array keys, list keys, typed records and CloneFrom aliasing are outside the property.",
    technique="Lean 4 refinement proof (bucket/KeyOrder/NumKeys model refines ordered association list) + model/implementation correspondence on exhaustive small-scope histories",
    design_ref="DESIGN.md §7 C14",
)

# The two-variable `:=` range form is lowered to one `mdef` per iteration in the loop's scope; with
# keys of different types the re-binding is refused. Since repo fix C14-03 BindlistInstr reports
# that error (before, the loop variable silently kept the first key). Model/RangeBind models the
# binding; one fixed history of mixed key types is the known finding (notes/C14.known.json), a
# stream of histories over keys of one type checks that `ranged` presents what `range` presents.


def run(rep):
    # known findings proposed by this property (merged into known_findings.json by the integrator)
    import json, os
    try:
        with open(os.path.join(V.VERIF, "notes", "C14.known.json")) as f:
            for k in json.load(f).get("findings", []):
                if k.get("property") == "C14" and not rep.match_known(k.get("key")):
                    rep.known.append(k)
    except FileNotFoundError:
        pass
    prep = V.prepare(["ZygoVerif.Props.C14"])
    V.lean_phase(rep, prep, "ZygoVerif.Props.C14")
    rep.assumptions += [
        "Model/Hash.lean is hand-written; tied to zygo/hashutils.go, functions.go (hash builtins, range helpers) and jsonmsgp.go (jsonHashHelper) by the `hash` correspondence only",
        "key equality (Compare == 0 without error) is an equivalence and equal keys have equal hash codes: hypotheses KeyLaws of the theorems, proved (concrete_laws) for symbols/strings/ints/chars as modelled in Model/HashKey.lean",
        "Go int counters are unbounded integers in the model",
        "multi-element array keys (Compare-equal arrays can print, hence hash, differently), list keys, typed records, SetHashKeyOrder/unjson and CloneFrom aliasing are outside the property's operation set",
    ]
    if not (prep["ok_drv"] and prep["ok_harness"]):
        rep.violation("machinery-failure", {"what": "driver or harness did not build against the current tree",
                      "theorem_or_correspondence": "build of zydrv/zyh", "log": (prep["drv_out"] + prep["harness_out"])[-3000:]}, no_input=True)
        return
    rows, stats = V.run_channel("hash", rep.seed, rep.tier)

    def nontrivial(op, impl):
        # a history is non-trivial when it deletes something and the hash is observed afterwards
        return " del/" in op and "bad-op" not in impl

    bad_spec, bad_model = V.correspondence(rep, "hash", rows, stats, nontrivial=nontrivial)
    # A known finding is recorded the way the MODEL describes it (the defining range loop stops
    # with an error). If the real code fails the property on that input in another way, that is
    # not the recorded finding: e.g. BindlistInstr swallowing the error again (fix C14-03
    # reverted) makes the loop repeat the first key silently.
    for op, impl, model, spec in rows:
        if rep.match_known(op) and impl != spec and impl != model:
            rep.violation("failing-input", {"channel": "hash", "ops": [op], "spec_requires": spec, "impl_did": impl,
                                            "model_did": model,
                                            "note": "fails differently from the recorded known finding (which is what the model answers)"})
            bad_spec = list(bad_spec) + [(op, impl, model, spec)]
    rep.coverage["exhaustive"] = True
    rep.coverage["rule"] = ("every history of set/del over the universes uA (symbol + int with the symbol's number, 'x' + 120 + [120]) and uB "
                            "(string + int with its FNV-32 code, symbol, [symbol], [string], char) up to the length recorded in the distribution, "
                            "with every observer (hget/hget-default of every key, keys, len, hpair at every position, two-variable range, str, json) "
                            "after every step, on the script route and on the direct route (with Map/KeyOrder/NumKeys dump); plus random histories "
                            "of all ops up to length 200; a history is counted non-trivial when it contains a delete")
    V.proof_break_resolution(rep, bool(bad_spec))
