"""C07 — numbers compare and compute exactly as specified.
Theorems: lean/ZygoVerif/Props/C07.lean over the hand-written model Model/Num.lean AND over
Generated/NumGo.lean, the Lean TRANSLATION of zygo/comparisons.go + numerictower.go that
extract/ex_numtrans.go regenerates from the Go source on every run (tie T1; theorems
generated_eq_model_*). Tie T2: channel `num` (boundary grid exhaustive + random 64-bit
patterns, direct builtin call and script-level route; g-ops run the translated functions
against the Go originals); spec column = mathematical order / ℤ arithmetic."""
import os, re
import vcommon as V

META = dict(
    text="Lean 4 theorems (Props/C07.lean) prove, for every pair of 64-bit integers, unsigned integers and 32-bit chars with no assumption, and for floats relative to a stated IEEE hypothesis record, that Compare/CompareFunction equal the mathematical order (NaN unordered from either side, trichotomy, (< a b) = (> b a)), that + - * wrap modulo 2^64, that division is exact when it divides and floating otherwise, and that a zero divisor is an error. The theorems are stated about a hand-written model and carried over to the code itself: on every run a Go-subset → Lean translator re-translates (*Zlisp).Compare, compare{Int,Uint64,Char,Float,Bool}, cmpInt64, signum*, NumericDo, NumericMatch{Float,Int,Uint64,Char}, Numeric{Float,Int,Uint64}Do, IntegerDo and UintegerDo from their current go/ast + go/types form, and the theorems generated_eq_model_compare / _numericDo / _modulo prove the translated functions equal to the model on all operands (gen_cmp_exact, gen_compareFn_spec, gen_int_arith_wraps, gen_div_mod_zero_is_error … restate the headline results on the translated code). A unit test can only sample pairs; the theorem covers all 2^128, for the source as it is now.",
    note="Trusted: Lean kernel; axioms propext/Classical.choice/Quot.sound; IEEE-754 laws enter as hypotheses (IEEELaws), sampled not proved. NEW in the trusted base: the translator extract/ex_numtrans.go (≈1900 lines of Go) and its 60-line target vocabulary Model/GoSem.lean. It handles exactly: types int64/int/uint64/uint/int32(rune)/other sized ints (BitVec of that width, signedness by static type; Go `int` is taken to be 64 bits), float64 (abstract FloatSem carrier), bool, the interface Sexp restricted to the dynamic types *SexpInt/*SexpUint64/*SexpChar/*SexpFloat/*SexpBool (sum type Sx; a pointer to such a struct is its Val field, Typ/Scientific are not modelled), the enums NumericOp without Pow and IntegerOp, error as nil/non-nil; expressions: constants, locals, x.Val, &SexpT{Val: e}, integer↔integer and integer→float64 conversions, math.IsNaN, calls of translated functions, + - * / % & | ^ &^ << >> == != < <= > >= on integers with wrap-around (a zero divisor is the outcome `panic`), + - * / < > on floats, the float constant 0, && || !; statements: return, if/else with init, type switch on a Sexp, switch on an enum / integer / bool tag or tagless, break out of a switch, := = op= ++ -- on locals, var, blocks, `if v, ok := x.(I); ok` when no operand kind implements I, error values from errors.New / fmt.Errorf / fmt.Sprintf / package variables. Control flow is translated path by path; arms unreachable for the operand domain (other Sexp types, Pow) are skipped and listed in NumGo.skippedArms. Operands are translated as VALUES: any construct that observes which object holds a value (== / != on Sexp or *SexpT references, nil tests) is refused, never skipped; what a value-level model cannot see by construction is covered by the `same` ops of channel `num`: ONE object as both operands, every operator × every grid value + random patterns, through Compare/NumericDo/IntegerDo(v, v), the builtin called with [v, v] and five script routes (variable twice, let, two parameters, one parameter twice, array element), judged by the spec on the values (Spec compare_is_value_level, Props nan_self_unordered); a refusal is accepted only when that shared-operand distribution was run (else it is reported as a proof break). Everything else (loops, closures, slices, strings as data, float ==/<=/>=, float→int, other calls, recursion, …) is REFUSED with function, construct and position: the function then falls back to its committed last-good translation Model/NumGoGood.lean (refreshed only by bin/numgo-accept) and is tied by correspondence only — reported in the evidence (coverage.translator.refused), not an alarm. The translator itself is validated on every run: the g-ops of channel `num` run the TRANSLATED Compare/NumericDo/IntegerDo (all 7 integer ops) and the Go originals on the exhaustive boundary grid (incl. bools) and on random 64-bit patterns, so a translator bug shows as a correspondence break rather than a false proof. Still hand-modelled and tied by correspondence only: the glue of CompareFunction (argument count, operator name → condition on the three-way result; genCompareFn in Props/C07.lean), the accumulation loop of NumericFunction, the name→op table of BinaryIntFunction, and CallUserFunction's recover.",
    technique="Lean 4 proof over a BitVec 64 model + Go-subset → Lean translation of the current source proved equal to the model (T1) + model/implementation and translation/implementation correspondence on a boundary grid (T2)",
    design_ref="DESIGN.md §3 T1 (Generated/Num.lean row), §5, §7 C07",
)

def run(rep):
    prep = V.prepare(["ZygoVerif.Props.C07"])
    ok = V.lean_phase(rep, prep, "ZygoVerif.Props.C07")
    name_broken_theorems(rep)
    rep.assumptions += [
        "IEEE-754 binary64 behaviour enters the float theorems only through the hypothesis record IEEELaws (sampled on native floats by this run, labelled a test)",
        "Model/Num.lean is hand-written; it is tied to zygo/comparisons.go + numerictower.go by the theorems generated_eq_model_* over the translation regenerated from the current source (T1), and by the `num` correspondence (T2)",
        "the Go-subset → Lean translator extract/ex_numtrans.go is trusted (validated on every run by the g-ops of channel `num`); Go `int` is taken to be 64 bits; operands are restricted to the five numeric/bool Sexp types",
        "CompareFunction's glue, NumericFunction's accumulation loop, BinaryIntFunction's name table and CallUserFunction's recover are hand-modelled and tied by correspondence only",
        "** (Pow) and shifts are outside the property and not modelled",
    ]
    if not (prep["ok_drv"] and prep["ok_harness"]):
        rep.violation("machinery-failure", {"what": "driver or harness did not build against the current tree",
                      "theorem_or_correspondence": "build of zydrv/zyh", "log": (prep["drv_out"] + prep["harness_out"])[-3000:]}, no_input=True)
        return
    translator_report(rep)
    rows, stats = V.run_channel("num", rep.seed, rep.tier)
    def nontrivial(op, impl):
        return impl not in ("err", "bad-op")
    bad_spec, bad_model = V.correspondence(rep, "num", rows, stats, nontrivial=nontrivial)
    gen_rows = [r for r in rows if r[0].split()[1] in ("gcmp", "gar", "gint")]
    same_rows = [r for r in rows if r[0].split()[1] == "same"]
    tr = rep.coverage["translator"]
    tr["validation_ops"] = len(gen_rows)
    tr["validation_mismatches"] = sum(1 for r in gen_rows if r[1] != r[2])
    tr["shared_operand_ops"] = len(same_rows)
    tr["shared_operand_routes"] = sorted({r[0].split()[2] for r in same_rows})
    tr["shared_operand_mismatches"] = sum(1 for r in same_rows if r[1] != r[2] or (r[3] != "-" and r[1] != r[3]))
    # A refused function has no proof about today's code: its tie is the correspondence of the
    # last-good text with the Go original. That is only acceptable when the operand
    # distribution covers what a value-level model cannot see by construction — one object used
    # as both operands (every route) — and the translated-vs-Go and shared-operand columns are
    # clean. (An unclean column is already a violation through `correspondence`.)
    if tr.get("refused"):
        need = {"api", "fn", "var", "let", "param", "self", "arr"}
        missing = sorted(need - set(tr["shared_operand_routes"]))
        if missing or not gen_rows:
            rep.violation("proof-break", {"what": "the translator refused %s and the fallback correspondence does not cover shared operands (routes missing: %s) — the refused code has neither a proof nor an adequate correspondence"
                                                  % ("; ".join(tr["refused"])[:400], ", ".join(missing) or "-"),
                                          "theorem_or_correspondence": "generated_eq_model_* (fallback to Model/NumGoGood.lean)"}, no_input=True)
    rep.coverage["exhaustive"] = False
    rep.coverage["rule"] = ("every pair of the boundary grid (see harness/ch_num.go numGrid) under every comparison and arithmetic operator, "
                            "plus random 64-bit patterns; an op is non-trivial when the implementation answered with a value (not a type error); "
                            "g-ops: the same grid (plus bools) and random patterns through the TRANSLATED Compare/NumericDo/IntegerDo against the Go originals; "
                            "same-ops: every grid value and random patterns with ONE OBJECT as both operands, under every operator, through the direct Go API "
                            "(Compare/NumericDo/IntegerDo(v, v)), the builtin called with [v, v], and five script routes (variable twice, let, two parameters, one parameter twice, array element)")
    V.proof_break_resolution(rep, bool(bad_spec))


def translator_report(rep):
    """What the translator did on this tree, asked from the very driver binary the ops run
    through (`num meta`): functions translated, functions refused (aliases of the committed
    last-good translation: not an alarm, the g-ops compare them with the code), problems
    (gating through the theorem translator_problems_empty)."""
    info = {"translated": None, "refused": [], "problems": []}
    try:
        rc, out = V.sh([V.ZYDRV], stdin="num meta\n", timeout=60)
        line = out.split("\n")[0].split("\t")[0]
        head, _, tail = line.partition(" | ")
        for kv in head.split():
            k, _, v = kv.partition("=")
            if k == "translated":
                info["translated"] = int(v)
        refused, _, problems = tail.partition(" | ")
        info["refused"] = [x for x in refused.split(" ;; ") if x.strip()]
        info["problems"] = [x for x in problems.split(" ;; ") if x.strip()]
    except Exception as e:            # the driver did not build: reported by the caller
        info["error"] = str(e)[:200]
    rep.coverage["translator"] = info
    if info["refused"]:
        rep.assumptions.append("the translator refused %d function(s) on this tree (%s): for them the T1 tie is the committed last-good translation Model/NumGoGood.lean, compared with the Go code by the g-ops of channel `num` (T2) — not an alarm by itself"
                               % (len(info["refused"]), "; ".join(info["refused"])[:600]))


def name_broken_theorems(rep):
    """Lean reports a failed proof by file:line; name the theorem it belongs to, so that the
    violation says e.g. `generated_eq_model_compare` (the translated code no longer equals the
    model) rather than a line number."""
    errs = getattr(rep, "pending_proof_break", None)
    if not errs:
        return
    path = os.path.join(V.LEAN, "ZygoVerif", "Props", "C07.lean")
    try:
        lines = open(path).read().split("\n")
    except OSError:
        return
    def owner(n):
        for i in range(min(n, len(lines)) - 1, -1, -1):
            m = re.match(r"(?:private\s+)?(?:theorem|example|def)\s*(\S*)", lines[i])
            if m:
                return m.group(1) or "example"
        return "?"
    named, seen = [], set()
    for e in errs:
        m = re.search(r"Props/C07\.lean:(\d+):", e)
        if m:
            t = owner(int(m.group(1)))
            if t not in seen:
                seen.add(t)
                named.append("theorem %s no longer checks (%s)" % (t, e[:160]))
    if named:
        rep.pending_proof_break = named + errs
        rep.coverage["broken_theorems"] = sorted(seen)
