"""C07 — numbers compare and compute exactly as specified.
Theorems: lean/ZygoVerif/Props/C07.lean over the hand-written model Model/Num.lean.
Tie: channel `num` (boundary grid exhaustive + random 64-bit patterns, direct builtin
call and script-level route); spec column = mathematical order / ℤ arithmetic."""
import vcommon as V

META = dict(
    text="Lean 4 theorems (Props/C07.lean) prove, for every pair of 64-bit integers, unsigned integers and 32-bit chars with no assumption, and for floats relative to a stated IEEE hypothesis record, that the model of Compare/CompareFunction equals the mathematical order (NaN unordered from either side, trichotomy, (< a b) = (> b a)), that + - * wrap modulo 2^64, that division is exact when it divides and floating otherwise, and that a zero divisor is an error. A unit test can only sample pairs; the theorem covers all 2^128.",
    note="Trusted: Lean kernel; axioms propext/Classical.choice/Quot.sound; IEEE-754 laws enter as hypotheses (IEEELaws), sampled not proved; the model Model/Num.lean is hand-written and tied to zygo/comparisons.go and numerictower.go by the `num` correspondence (exhaustive boundary grid x all operators x all type pairs + random 64-bit patterns, direct and script-level routes), which is differential testing.",
    technique="Lean 4 proof over BitVec 64 model + model/implementation correspondence on a boundary grid",
    design_ref="DESIGN.md §7 C07",
)

def run(rep):
    prep = V.prepare(["ZygoVerif.Props.C07"])
    ok = V.lean_phase(rep, prep, "ZygoVerif.Props.C07")
    rep.assumptions += [
        "IEEE-754 binary64 behaviour enters the float theorems only through the hypothesis record IEEELaws (sampled on native floats by this run, labelled a test)",
        "Model/Num.lean is hand-written; tied to zygo/comparisons.go + numerictower.go by the `num` correspondence only",
        "** (Pow) and shifts are outside the property and not modelled",
    ]
    if not (prep["ok_drv"] and prep["ok_harness"]):
        rep.violation("machinery-failure", {"what": "driver or harness did not build against the current tree",
                      "theorem_or_correspondence": "build of zydrv/zyh", "log": (prep["drv_out"] + prep["harness_out"])[-3000:]}, no_input=True)
        return
    translator_report(rep)
    rows, stats = V.run_channel("num", rep.seed, rep.tier)
    def nontrivial(op, impl):
        return impl not in ("err", "bad-op")
    bad_spec, bad_model = V.correspondence(rep, "num", rows, stats, nontrivial=nontrivial)
    gen_rows = [r for r in rows if r[0].split()[1] in ("gcmp", "gar", "gint")]
    rep.coverage["translator"]["validation_ops"] = len(gen_rows)
    rep.coverage["translator"]["validation_mismatches"] = sum(1 for r in gen_rows if r[1] != r[2])
    rep.coverage["exhaustive"] = False
    rep.coverage["rule"] = ("every pair of the boundary grid (see harness/ch_num.go numGrid) under every comparison and arithmetic operator, "
                            "plus random 64-bit patterns; an op is non-trivial when the implementation answered with a value (not a type error); "
                            "g-ops: the same grid (plus bools) and random patterns through the TRANSLATED Compare/NumericDo/IntegerDo against the Go originals")
    V.proof_break_resolution(rep, bool(bad_spec))


def translator_report(rep):
    """What the translator did on this tree, asked from the very driver binary the ops run
    through (`num meta`): functions translated, functions refused (aliases of the committed
    last-good translation: not an alarm, the g-ops compare them with the code), problems
    (gating through the theorem translator_problems_empty)."""
    info = {"translated": None, "refused": [], "problems": []}
    try:
        rc, out = V.sh([V.ZYDRV], stdin="num meta\n", timeout=60)
        line = out.split("\n")[0].split("\t")[0]
        head, _, tail = line.partition(" | ")
        for kv in head.split():
            k, _, v = kv.partition("=")
            if k == "translated":
                info["translated"] = int(v)
        refused, _, problems = tail.partition(" | ")
        info["refused"] = [x for x in refused.split(" ;; ") if x.strip()]
        info["problems"] = [x for x in problems.split(" ;; ") if x.strip()]
    except Exception as e:            # the driver did not build: reported by the caller
        info["error"] = str(e)[:200]
    rep.coverage["translator"] = info
    if info["refused"]:
        rep.assumptions.append("the translator refused %d function(s) on this tree (%s): for them the T1 tie is the committed last-good translation Model/NumGoGood.lean, compared with the Go code by the g-ops of channel `num` (T2) — not an alarm by itself"
                               % (len(info["refused"]), "; ".join(info["refused"])[:600]))
