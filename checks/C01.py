"""C01 — no input can crash the host: evaluation always returns a value or an error.

Lean: Props/C01.lean (front end: the panic-capable sites of lexer/parser/Pratt/generator
models are guarded; VM: typed pops never meet a nil element; inventory table facts over
Generated/PanicSites.lean). Tie: T1 panic-site inventory regenerated from the source on every
run; T2 channel `crash` (real entry points: EvalString, LoadString+Run, ParseTokens chunk API,
EvalExpressions, macexpand, REPL line path in-process and the real Repl() in a child process)
over every string of the token alphabet up to a length bound, mutations of /repo/tests/*.zy
and every special form / bound name x 0..3 assorted arguments; channel `eval` for the outcome
class of implementation vs VM model on the modelled core."""
import json, os, re
import vcommon as V

META = dict(
    text="Lean 4 + regenerated inventory + crash search through every script-facing entry point. T1: on every run the extractor rebuilds from the Go source the set of functions reachable from EvalString/LoadString/LoadExpressions/Run/EvalExpressions/ParseTokens/ParsingIter/the REPL line reader/every SexpString method WITHOUT crossing a deferred recover(), with the index, slice, unchecked-type-assertion, explicit-panic, division and map-write operations each holds; `inventory_classified` (decide over the whole table) requires each to be classified as sites/behaviour/residual, so a new unrecovered function with a panic-capable operation breaks the proof; `stack_pushes_typed` fixes what is pushed on which VM stack. Proved for all inputs: the `{` look-ahead never indexes the token queue out of range (every parser state, distance, continuation); the index/slice expressions of dumpBuffer/DecodeAtom/DecodeChar are in range for every buffer; the panic-capable GenerateAssignment (ListToArray+panicOn) is reached from Generate's pair case by proper lists only (and a regenerated table fact pins the guard order in the source); the argument prologues of 21 special-form generators (incl. buildSexpFun) never index outside their argument list, for every argument list and any non-panicking sub-generator (Go int arithmetic modelled in Int, so args[size-1] with size=0 is a panic: pre-repair (and) and (mdef (hash) ..) are proved counterexamples); the VM's typed pops, call prologue, scope/stack-mark pops and symbol binding keep the stacks free of nil cells and do not panic on such stacks. T2: channel `crash` feeds the real EvalString(+SexpString), LoadString+Run, ParseTokens chunk API, EvalExpressions, macexpand, the REPL line reader in-process and the real Repl() in a child process with every string over a 26-symbol token alphabet up to length 4 (35 symbols to length 3), every sequence of up to 4 tokens from `a b 1 = := \\ ( ) [ ] ' : & *` inside ( ) [ ] { }, mutations of tests/*.zy, 43 statement forms inside 13 function shapes (tail calls, loops, package bodies), 51 data-not-code fillers (improper lists, assignments, infix blocks) in every position of 41 templates, every special form/reserved word/bound name of three configurations x 0..3 assorted arguments in 26 contexts, every special form and reserved word x EVERY pool element as its only operand inside a loop body and inside a function body and as its first operand before a loop header (not sampled), value pairs through binding/container/printing templates, infix token sequences and 380 regression texts; after every text the stack depths are recorded and a follow-up battery (def, defn+call, let, for, defmac+call, str of a hash) runs on the SAME interpreter, so a text that silently corrupts a long-lived interpreter is exposed; any Go panic, nil value with nil error or process death is a failing input with replay. The Lean front-end model is compared on the status of every ParseTokens call (hash per enumeration range), the prologue model on which argument lists LoadString must refuse, the VM model on the outcome class of every `eval` text. A unit test feeds a few dozen malformed inputs; the theorems cover every input of the modelled sites and the table covers every function of the current tree.",
    note="Partial. Proved on site models, not on a translation of the Go code: Model/GenSites, Model/FrontSites and the parser's peekAt are hand-written after the code and tied behaviourally (P: and G: columns, crash search). VM model: c01_no_panic_served (Props/C01.lean §5b, from C04's three contracts of the VM's mutual block - normal returns, errors, no host panic - by induction on the fuel over all 13 interpreter functions) is proved with NO hypothesis: every text of the model generator's grammar Bal.okLs (all core forms, loops, break/continue, functions, closures, tail calls, lazy parameters, apply/map/force), from every state reached from the fresh interpreter by value-returning and erroring texts of that grammar, with any fuel, never has outcome class panic (the `Fits` hypothesis of c01_no_panic_partial is gone: binds never meet an empty scope stack, typed pops never meet a nil cell, because nil cells only come from restoreControlState growing a stack, every restore on a normal return is exact, and after an error nothing runs any more). FINDING (c01NoPanic_asFirstStated_false, decide +kernel on a concrete run): the full statement C01NoPanic as first written (no nil cell after EVERY run from EVERY nil-free state) is FALSE - a Run entered with operands on the stack (Apply/map push the arguments, then Run) that fails after consuming them is padded with nil cells by TruncateToSize; Apply's own restore, recorded before the push, truncates the padding away before anything pops it. It is kept visible as a def. REMAINS outside the theorem: the full surface language beyond Bal.okLs (package, return, macros, infix, structs ...: behavioural models + crash search), histories containing compile errors or timeouts (the served states are closed under value-returning and erroring texts only), the front end beyond the site theorems, and the tie of Model/VM.lean to the Go code (eval/crash correspondence). `restore_can_pad` shows the TruncateToSize padding mechanism. 67 functions of the unrecovered region are residual (printing of exotic values, hash/selector helpers, REPL glue, syntax-quote generators): crash search only. Runtime resources are outside the claim: Go stack exhaustion (infinite macro expansion, a self-containing value given to ==/json/Type(), deep non-tail recursion) kills the process and cannot be recovered; the harness bounds each text by a 20000-call budget and a 2 s watchdog and classifies what does not return as `hang` without reporting it. Names that reach outside the process are on a deny list and are never executed. Trusted: Lean kernel (propext, Classical.choice, Quot.sound), the extractor's call graph (calls only; function values by signature), harness, driver.",
    technique="Lean 4 proof over executable front-end, generator-prologue and VM-primitive models with explicit panic-capable primitives + decide over a regenerated panic-site inventory + crash search through every script-facing entry point of the real code",
    design_ref="DESIGN.md §7 C01, §13",
)

HERE = V.VERIF
BAD = re.compile(r"panic:|gonil|HOSTPANIC|HOSTDEATH|R:death")


def decode_op(op):
    t = op.split(" ")
    try:
        if len(t) >= 4 and t[1] in ("s", "r", "h"):
            txt = "" if t[3] == "-" else "".join(chr(int(c)) for c in t[3].split("."))
            return {"kind": t[1], "cfg": t[2], "text": txt}
        if len(t) >= 4 and t[1] == "b":
            return {"kind": "b", "cfg": t[2], "text_bytes_hex": t[3], "text": bytes.fromhex(t[3]).decode("utf-8", "replace")}
    except Exception:
        pass
    return {"op": op}


# Known findings identified by CALL SITE: a Go stack overflow (fatal, not recoverable) whose goroutine trace
# recurses in one of these functions, reached with a self-containing array/hash (built with aset/hset).
# The printer, Type() and the macro expander have cycle/depth guards since fixes 2c156d1, d2a50f2, 1a3d12c;
# deep comparison and the JSON/msgpack conversion do not.
OVERFLOW_SITES = {"(*Zlisp).Compare": "compare", "(*Zlisp).compareArray": "compare",
                  "SexpToJson": "tojson", "(*SexpArray).jsonArrayHelper": "tojson", "jsonHashHelper": "tojson",
                  "(*SexpHash).jsonHashHelper": "tojson"}
_overflow_key = {}


def note_overflow_sites(rows):
    for op, impl, _, _ in rows:
        m = re.search(r"HOSTDEATH rc=\d+ runtime: goroutine stack exceeds.* in (\S+)$", impl)
        if m and m.group(1) in OVERFLOW_SITES:
            _overflow_key[op] = "crash stack-overflow in " + OVERFLOW_SITES[m.group(1)] + " on a self-containing value"


def canon_key(op):
    """known findings are keyed by the text and the configuration, not by the wire form"""
    if op in _overflow_key:
        return _overflow_key[op]
    d = decode_op(op)
    if "text" in d:
        return "crash %s %s :: %s" % (d["kind"], d["cfg"], d["text"])
    return op


def field(ans, name):
    for f in ans.split(" "):
        if f.startswith(name):
            return f
    return ""


def judge_crash(rows, stats):
    """rows (op, impl, model, spec) -> rows for vcommon.correspondence.
    spec column: the property on the real code = no entry point panicked, returned a nil
    value without an error, or killed the process. model column: the P record / the
    enumeration hash of the front-end model."""
    out = []
    st = {"skipped_denied": 0, "hang": 0, "classes": {}}
    for op, impl, model, spec in rows:
        kind = op.split(" ")[1] if " " in op else "?"
        if impl == "skip":
            st["skipped_denied"] += 1
            out.append((op, impl, impl, "-"))
            continue
        if impl == "hang" or impl == "R:hang" or impl == "HOSTDEATH timeout":
            st["hang"] += 1      # did not return within the watchdog: classified, not reported
            out.append((op, "hang", "hang", "-"))
            continue
        for f in impl.split(" "):
            if len(f) > 2 and f[1] == ":" and f[0] in "EFXMR":
                c = f.split(":")[1]
                st["classes"][f[0] + ":" + c] = st["classes"].get(f[0] + ":" + c, 0) + 1
        bad = BAD.search(impl) is not None
        dfield = field(impl, "D:")
        if dfield not in ("", "D:-", "D:0,1,0,0"):
            # a text that came back but left a stack off its rest depth (C04's subject; here it is
            # the earliest witness when the follow-up battery then fails)
            key = "off_rest_after_" + field(impl, "E:")[2:]
            st[key] = st.get(key, 0) + 1
        if kind == "v":
            bad = bad or not impl.endswith(" F=-")
            i_cmp = m_cmp = impl
        elif kind == "e":
            bad = bad or not impl.endswith(" F=-")
            i_cmp = " ".join(impl.split(" ")[:2])      # n=… h=…
            m_cmp = model
        elif kind == "s":
            # front end: status of every ParseTokens call and number of expressions;
            # generator prologues: what the model refuses, LoadString must refuse
            i_cmp = field(impl, "P:")
            m_cmp = field(model, "P:")
            if m_cmp == "P:*":          # text too long for the model's parser (see Driver/Crash.lean)
                m_cmp = i_cmp
                st["p_not_modelled_long_text"] = st.get("p_not_modelled_long_text", 0) + 1
            g = field(model, "G:")
            if g == "G:err":
                i_cmp += " " + field(impl, "E:")
                m_cmp += " E:cerr"
                st["prologue_refused"] = st.get("prologue_refused", 0) + 1
            elif g == "G:ok":
                st["prologue_accepted"] = st.get("prologue_accepted", 0) + 1
            elif g == "G:panic":
                m_cmp += " G:panic"
        else:
            i_cmp = m_cmp = impl
        if bad:
            out.append((op, impl, model, "every entry point returns a value or an error"))
        elif i_cmp != m_cmp:
            out.append((op, i_cmp, m_cmp, "-"))
        else:
            out.append((op, impl, impl, impl))
    return out, st


def split_enum(rep, op, impl):
    """an enumeration range that holds failing strings: report each string as its own op"""
    m = re.search(r" F=(\S+)$", impl)
    ops = []
    if m and m.group(1) != "-":
        kind = op.split(" ")[1]
        for item in m.group(1).split(","):
            codes = item.split("=")[0]
            ops.append(("crash h b " if kind == "v" else "crash s b ") + codes)
    return ops


def shrink_repl(op, impl):
    """a REPL batch that killed the child: the first single line that does it alone, else the
    shortest prefix of the batch that does"""
    t = op.split(" ")
    lines = decode_op(op).get("text", "").split("\n")
    def run(ls):
        o = "crash r %s %s" % (t[2], ".".join(str(ord(c)) for c in "\n".join(ls)) or "-")
        a = V.exec_impl(o + "\n", timeout=120)
        ans = a[0] if a else ""
        return BAD.search(ans) is not None, o, ans
    for l in lines:
        bad, o, a = run([l])
        if bad:
            return o, a
    for n in range(2, len(lines)):
        bad, o, a = run(lines[:n])
        if bad:
            return o, a
    return op, impl


def judge_eval(rows):
    """channel eval, read for C01: per text of the history only "is the outcome a host panic".
    An implementation panic (or host death) is a failing input; a panic predicted by the VM
    model that the implementation does not show (or the reverse, caught by the first rule) is a
    correspondence break. Differences between ok and err are C02's business (its own check
    compares the full records)."""
    out = []
    for op, impl, model, spec in rows:
        icls = [r.split(" ")[0] for r in impl.split(" ;; ")]
        mcls = [r.split(" ")[0] for r in model.split(" ;; ")]
        if impl.startswith("HOST") or "panic" in icls:
            out.append((op, impl, model, "every text evaluates to a value or an error"))
        elif impl == "hang" or "timeout" in icls or "timeout" in mcls:
            out.append((op, "nonterminating", "nonterminating", "-"))
        elif "panic" in mcls:
            out.append((op, "no-panic: " + " ".join(icls), "panic predicted: " + " ".join(mcls), "-"))
        else:
            out.append((op, "no-panic", "no-panic", "no-panic"))
    return out


def inventory_by_cover():
    """joins the regenerated table (Generated/PanicSites.lean) with the committed classification
    (Props/C01.lean `Classified`): site counts per cover class, and the residual functions with
    their counts"""
    gen = open(os.path.join(V.LEAN, "ZygoVerif", "Generated", "PanicSites.lean")).read()
    props = open(os.path.join(V.LEAN, "ZygoVerif", "Props", "C01.lean")).read()
    cover = dict(re.findall(r'\("([^"]+)", \.(\w+)\)', props))
    kinds = ["index", "slice", "assert", "explicit", "div", "mapwrite"]
    out = {"sites": {"functions": 0}, "behaviour": {"functions": 0}, "residual": {"functions": 0}, "unclassified": {"functions": 0}}
    residual = {}
    for m in re.finditer(r'⟨"([^"]+)", "([^"]+)", (\d+), (\d+), (\d+), (\d+), (\d+), (\d+)⟩', gen):
        name, counts = m.group(1), [int(x) for x in m.groups()[2:]]
        c = cover.get(name, "unclassified")
        out[c]["functions"] += 1
        for k, n in zip(kinds, counts):
            out[c][k] = out[c].get(k, 0) + n
        if c in ("residual", "unclassified"):
            residual[name] = {k: n for k, n in zip(kinds, counts) if n}
    out["residual_functions"] = residual
    return out


def run_channel_parallel(channel, seed, tier, timeout=6000):
    """vcommon.run_channel with the two sides running at the same time: the real code through
    `zyh exec` (process isolation, restarts) and the Lean model through `zydrv`."""
    import concurrent.futures, subprocess
    env = V.goenv()
    statf = os.path.join(V.BUILD, "%s.%d.stats" % (channel, os.getpid()))
    rc, out = V.sh([V.ZYH, "gen", channel, "-seed", str(seed), "-tier", tier, "-stats", statf], env=env, timeout=timeout)
    if rc != 0:
        raise RuntimeError("zyh gen %s failed: %s" % (channel, out[-2000:]))
    ops = [l for l in out.split("\n") if l]
    stats = {}
    try:
        with open(statf) as f:
            for l in f:
                k, _, v = l.rstrip("\n").rpartition(" ")
                stats[k] = int(v)
        os.remove(statf)
    except FileNotFoundError:
        pass
    text = "\n".join(ops) + "\n" if ops else ""
    def model():
        p = subprocess.run([V.ZYDRV], input=text, stdout=subprocess.PIPE, stderr=subprocess.STDOUT, text=True, timeout=timeout)
        if p.returncode != 0:
            raise RuntimeError("zydrv failed: %s" % p.stdout[-2000:])
        return p.stdout.split("\n")[:len(ops)]
    with concurrent.futures.ThreadPoolExecutor(max_workers=2) as ex:
        fm = ex.submit(model)
        impl = V.exec_impl(text, timeout)
        mlines = fm.result()
    if len(mlines) != len(ops):
        raise RuntimeError("zydrv answered %d lines for %d ops" % (len(mlines), len(ops)))
    rows = []
    for op, i, m in zip(ops, impl, mlines):
        mm, _, ss = m.partition("\t")
        rows.append((op, i, mm, ss))
    return rows, stats


def load_known(rep):
    for fn in ("C01.known.json",):
        try:
            with open(os.path.join(HERE, "notes", fn)) as f:
                data = json.load(f)
            items = data.get("findings", []) if isinstance(data, dict) else data
            for k in items:
                if k.get("property") == "C01" and not rep.match_known(k.get("key")):
                    rep.known.append(k)
        except FileNotFoundError:
            pass


def run(rep):
    load_known(rep)
    import time
    t0 = time.time()
    phases = {}
    prep = V.prepare(["ZygoVerif.Props.C01"])
    phases["build_s"] = round(time.time() - t0, 1)
    V.lean_phase(rep, prep, "ZygoVerif.Props.C01")
    phases["lean_audit_s"] = round(time.time() - t0 - phases["build_s"], 1)
    rep.coverage["phases"] = phases
    try:
        with open(os.path.join(V.BUILD, "facts.json")) as f:
            facts = json.load(f)
        if "panicsites" in facts:
            rep.coverage["inventory"] = facts["panicsites"]
        rep.coverage["inventory_by_cover"] = inventory_by_cover()
    except Exception:
        pass
    if not (prep["ok_drv"] and prep["ok_harness"]):
        rep.violation("machinery-failure", {"what": "driver or harness did not build against the current tree",
                      "theorem_or_correspondence": "build of zydrv/zyh", "log": (prep["drv_out"] + prep["harness_out"])[-3000:]}, no_input=True)
        return
    found = False
    os.environ.setdefault("VERIF_REPO", V.REPO)
    t1 = time.time()
    rows, stats = run_channel_parallel("crash", rep.seed, rep.tier)
    phases["crash_run_s"] = round(time.time() - t1, 1)
    # enumeration ranges / REPL batches with failures are re-run as single-text ops
    extra = []
    for op, impl, model, spec in rows:
        k = op.split(" ")[1] if " " in op else ""
        if k in ("e", "v") and not impl.endswith(" F=-"):
            extra += split_enum(rep, op, impl)
    if extra:
        xrows, _ = V.run_channel("crash", rep.seed, rep.tier, extra_ops=sorted(set(extra)), gen=False)
        # the ranges whose failing members were re-run as single ops are represented by those
        rows = [r for r in rows if not (r[0].split(" ")[1] in ("e", "v") and not r[1].endswith(" F=-"))] + xrows
    fixed = []
    for op, impl, model, spec in rows:
        if op.split(" ")[1] == "r" and BAD.search(impl):
            o2, a2 = shrink_repl(op, impl)
            fixed.append((o2, a2, model, spec))
        else:
            fixed.append((op, impl, model, spec))
    jrows, jst = judge_crash(fixed, stats)
    note_overflow_sites(jrows)
    bad_spec, bad_model = V.correspondence(rep, "crash", jrows, stats, keyfn=canon_key, max_report=6,
                                           nontrivial=lambda op, impl: "E:ok" in impl or "c=" in impl)
    rep.coverage["channels"]["crash"].update(jst)
    found = found or bool(bad_spec)
    # outcome class of implementation vs VM model on the modelled core
    phases["crash_total_s"] = round(time.time() - t1, 1)
    t2 = time.time()
    rows, stats = V.run_channel("eval", rep.seed, rep.tier)
    phases["eval_run_s"] = round(time.time() - t2, 1)
    bs, bm = V.correspondence(rep, "eval", judge_eval(rows), stats,
                              nontrivial=lambda op, impl: "ok" in impl)
    found = found or bool(bs)
    for (path, _) in rep.violations:
        try:
            body = json.load(open(path))
            if body.get("ops") and body.get("channel") == "crash":
                body["decoded"] = [decode_op(o) for o in body["ops"]]
                json.dump(body, open(path, "w"), indent=1)
        except Exception:
            pass
    V.proof_break_resolution(rep, found)
