"""C15 — macro templates expand by exact substitution.
Theorems: lean/ZygoVerif/Props/C15.lean over Model/SQ.lean (GenerateSyntaxQuote & the VM
instructions it emits) against Spec/Subst.lean. Tie: channel `sq` (templates x bindings in
reader-sugar, longhand and Go-API form; macro bodies x argument forms x call sites)."""
import json
import os
import vcommon as V

META = dict(
    text="(Strengthened: freshness and call-site contexts, see the end.) Lean 4 theorems (Props/C15.lean) prove for every template at any nesting depth of lists, arrays and hashes, every value of the unquoted expressions and every data stack that the instruction sequence GenerateSyntaxQuote emits (marker / squash / explode / vectorize / hashize), run on the stack machine of vm.go, pushes exactly the structurally substituted template (Spec/Subst.lean: unquote -> its value, splice -> the elements of its list, incl. first/last/adjacent/empty splices), leaves the stack below untouched, fails exactly when the substitution is undefined, and that a splice outside any sequence is refused; on a model of the macro call path (Duplicate / Apply / Generate of the expansion) that compiling a call of a template macro equals compiling the substituted body and that expansion leaves the caller's control state unchanged. The emission skeleton of the generator functions is regenerated from source and checked against the model by decide. The six unit-level examples in tests/*.zy cover flat templates only; the theorem covers all of them. Freshness: sq_code_pushes_no_container (the code of a template never pushes an array or hash as a literal), sq_result_fresh (on a machine that reports allocations, one evaluation allocates exactly one new array/hash per array/hash sub-template, holding its substituted value; built_length: as many as the template is written with), sq_history (every evaluation of a history with in-place mutations in between yields the substitution). Call sites: the generator model genC carries scopes, tail flag, function name and the loop stack; macro_call_in_context proves for every context that compiling a macro call yields exactly the code of compiling its expansion in that context (break/continue pop counts, tail-call scope removal, labelled loops). Regenerated tables pin the only literal push of the template generator, the macro branch (Duplicate, Apply, gen.Generate on the same generator) and every creation of a generator / write of Tail, scopes, funcname in generator.go.",
    note="Trusted: Lean kernel; axioms propext/Classical.choice/Quot.sound. Model/SQ.lean is hand-written and tied to zygo/generator.go + vm.go by the `sq` correspondence (exhaustive sequences up to length 3 over an 8-element alphabet x list/array x 3 input routes, random templates to depth 4, instruction listings compared one by one, macro bodies x call sites), which is differential testing. The code of an unquoted expression is abstracted as one step that pushes one value (property C04); its value and the hash constructor are parameters. The reader sugar (^ ~ ~@) and the macro call path (Duplicate/Apply/Generate of the expansion) are tied by correspondence only. Object identity is not part of the Lean value type: freshness is stated through allocation events (runA) and the absence of literal pushes, and observed on the real code by the history ops (sq h: impl vs substitution after in-place mutation). genC models the context-sensitive instructions of the generator only (scopes, breaks, tail jumps, calls, closures) for the special forms used at call sites; it is tied by the sq k listings (impl vs model) and the regenerated tables; the run-time behaviour of a call site is judged impl-with-macro vs impl-with-hand-written-expansion.",
    technique="Lean 4 proof (marker discipline by mutual structural induction on templates) over an executable model + model/implementation correspondence",
    design_ref="DESIGN.md §7 C15",
)


def run(rep):
    # property-local known findings (notes/C15.known.json) in addition to the shared file
    try:
        with open(os.path.join(V.VERIF, "notes", "C15.known.json")) as f:
            d = json.load(f)
        for k in (d.get("findings", []) if isinstance(d, dict) else d):
            if k.get("property") == "C15" and k not in rep.known:
                rep.known.append(k)
    except (OSError, ValueError):
        pass
    prep = V.prepare(["ZygoVerif.Props.C15"])
    ok = V.lean_phase(rep, prep, "ZygoVerif.Props.C15")
    rep.assumptions += [
        "the code gen.Generate(e) emits for an unquoted expression e is abstracted as one step that leaves the stack below untouched and pushes exactly one value (property C04), and evaluating it has no side effect on other unquoted expressions",
        "SexpMarker is not the value of any script expression",
        "MakeHash is a parameter (ordered-map behaviour is C14); the driver instantiates it for atom keys only",
        "Model/SQ.lean is hand-written; tied to generator.go/vm.go by the `sq` correspondence only; lexer/parser sugar and the macro call path are tied by correspondence only",
        "object identity is modelled by allocation events (vectorize / hashize allocate, push does not); that `aset`/`hset` change exactly the object they are given is not modelled",
        "genC (Model/MacroCall.lean) covers the context-sensitive instructions only and the special forms and, or, cond, quote, def, set, fn, defn, begin, let, letseq, for, break, continue, newScope, return; other forms at a call site are outside the model",
    ]
    if not (prep["ok_drv"] and prep["ok_harness"]):
        rep.violation("machinery-failure", {"what": "driver or harness did not build against the current tree",
                      "theorem_or_correspondence": "build of zydrv/zyh", "log": (prep["drv_out"] + prep["harness_out"])[-3000:]}, no_input=True)
        return
    rows, stats = V.run_channel("sq", rep.seed, rep.tier)
    if rep.tier == "thorough":
        # more seeds for the random part (the exhaustive part is emitted by the first only)
        for extra in (1, 2):
            r2, s2 = V.run_channel("sq", rep.seed + extra, "thorough-more")
            rows += r2
            for k, v in s2.items():
                stats[k] = stats.get(k, 0) + v
        rep.coverage["seeds"] = [rep.seed, rep.seed + 1, rep.seed + 2]

    def nontrivial(op, impl):
        return (impl.startswith("ok ") or impl.startswith("code ") or (impl.startswith("x ") and " eq " in impl)
                or impl.startswith("k eq") or (impl.startswith("kc ") and not impl.endswith("ctx= err")))

    # One comparison per input route, so that a defect of one route (reader sugar, hash
    # templates, macro path …) is reported with its own failing input and does not hide
    # behind the shortest inputs of another.
    def category(op):
        t = op.split(" ")
        if t[1] == "m":
            return "sq/macro-" + t[2]
        if t[1] == "c":
            return "sq/listing"
        if t[1] == "h":
            return "sq/history-" + t[2]
        if t[1] == "k":
            return "sq/call-site"
        if t[1] == "kc":
            return "sq/call-site-listing"
        if "{" in t:
            return "sq/hash-template"
        return {"sv": "sq/reader-sugar", "sh": "sq/reader-sugar", "lg": "sq/longhand", "dr": "sq/go-api"}.get(t[2], "sq/other")
    cats = {}
    for r in rows:
        cats.setdefault(category(r[0]), []).append(r)
    bad_spec, bad_model = [], []
    first = True
    for name in sorted(cats):
        bs, bm = V.correspondence(rep, name, cats[name], stats if first else {}, nontrivial=nontrivial, max_report=2)
        first = False
        bad_spec += bs
        bad_model += bm
    rep.coverage["exhaustive"] = False
    rep.coverage["rule"] = ("sq t: every sequence of length <= 3 over {literal, ~int, ~list, ~@(), ~@(1), ~@(1 2), nested list with splice, nested array with unquote} "
                            "as list and as array, through reader sugar, longhand and Go-API routes (exhaustive), plus random templates nested to depth 4 with error cases; "
                            "sq c: the same templates compiled only — the real instruction listing (overlay accessor) against the model's genTop output, instruction by instruction; "
                            "sq m: macro bodies x type-directed argument forms x call sites (top, fn, let, loop, other macro), incl. wrong arity and ill-typed splices; "
                            "sq h: one template evaluated 2-3 times (top level, function called repeatedly, function in a loop, loop body, call argument, macexpand, Go-API form loaded repeatedly) "
                            "with every container the template built mutated in place (aset / hset) after each evaluation - every later result and every final state against the substitution; "
                            "sq k: macro call vs the expansion written by hand in the same program - loop shape (none, plain, labelled, nested) x 0..3 let/letseq/newScope between loop and call x "
                            "top level / function tail / non-tail / anonymous fn x 24 expansions (break, continue, labelled, let+break, set/def of caller variables, nested macro calls, self tail call, return, inner loop, and/or, array) "
                            "systematically, plus random compositions of frames: value, observable globals, four stack depths, complete instruction listing, and the context-sensitive instructions against the Lean generator model. "
                            "Non-trivial = the implementation produced a value / a listing.")
    V.proof_break_resolution(rep, bool(bad_spec))
