"""C12 — printed data reads back as the same data; literals denote what is written.
Theorems: lean/ZygoVerif/Props/C12.lean over Model/PrintData.lean (printer), Model/Lexer.lean +
Model/Parser.lean (reader, shared with C13), Model/NumLit.lean (literal conversion),
Model/EvalData.lean, Spec/DataValue.lean (data domain, exact value of a spelling).
Tie: T1 Generated/ReadPrint.lean + LexTables + IsPrint; T2 channel `rt`."""
import json, os, re
import vcommon as V

META = dict(
    text="Lean 4 theorems (Props/C12.lean) prove for the models of the printer and of the reader: (1) read_print_data_partial, by structural induction over any nesting depth and length: for every value built from 64-bit integers, uint64, finite floats, characters, strings, booleans, symbols, lists (also with a dotted tail) and arrays, the printed text, delivered whole or in any pieces to a parser with any history, is accepted and yields exactly that value; it is assembled from string_literal_roundtrip / char_literal_roundtrip / escapes_inverse (what strconv.Quote and QuoteRune write for ANY rune - all 0x110000 code points through the regenerated IsPrint table - is read back as that rune by the lexer's escape table, including \\a \\b \\f \\v \\xHH \\uHHHH \\UHHHHHHHH), print_int_reads_back and print_uint_reads_back (every 64-bit numeral is a decimal/uint64 token converting back to the same number), print_float_reads_back (under an explicit law on FormatFloat/ParseFloat the printed float is one atom, a FLOAT token and never an integer token, and converts back with the same Scientific flag), the lexing of the whole text (every separator, bracket and the dotted-tail backslash), lazy = eager lexing for every parser program, and the parse of the token list with the model's fuel bound; (2) literal_value_int and literal_value_uint, for spellings of any length: EVERY spelling to which the specification (Spec.mathValue, written from the property text) gives an integer or uint64 verdict and that does not begin with '+' - every hex 0x.., octal 0o.., binary 0b.. literal, every decimal literal with underscores (well placed or not) with or without a minus sign, every <digits>ULL / 0x..ULL / 0o..ULL literal - is read by the whole reader model (lexer from a fresh state incl. the sign look-back, the DecodeAtom cascade in source order, ParseInt/ParseUint with the base of the token, top-level loop, end of input) as exactly the positional value of its digits with its sign, and is refused exactly when that value is outside int64 / uint64 (literal_digits_positional: Horner = positional value in every base; Proofs/LiteralSpec inverts the specification, Proofs/LiteralNotations walks the cascade per notation, Proofs/LiteralRead is the glue from one atom to the reader's answer); (2b) eval_print_jsonlike_partial, by structural induction over any nesting: every JSON-like value without a hash inside (64-bit integers, finite floats, strings, booleans, nil, arrays) printed, read and evaluated is the value again - nil included (it reads back as the symbol nil, which evaluates to nil). The models are tied to zygo/lexer.go, parser.go, expressions.go, hashutils.go by regenerated tables (regexp sources, DecodeAtom cascade order, escape table, hexEscapeLen, the strconv call of every literal token and of every printer method) and by the rt channel, which prints with the real code, reads back with the real parser and evaluates with the real interpreter: impl vs spec (the value itself; Spec.require for literal spellings, an independent positional/bisection specification checked against math/big) and impl vs model, over every code point of the first planes, every IsPrint transition, integer and float grids over all binades, every pair of atoms in every container, every spelling up to length 4 (thorough 5). (3) History independence (Spec/LiteralHistory.lean: what a text denotes is a function of the text alone - in every history every text gets the answer a fresh reader gives it): proved for the reader model from every state and for every text (model_reader_history_independent), parser_state_inventory ties the state of the real Parser to the modelled one (regenerated field list), and the rt H ops run 2-6 spellings / print-read round trips on ONE long-lived reader (one Parser object; one interpreter through (read ...) and through evaluation), systematically pairing the spellings that share a digit string across notations (bases 2/8/10/16, ULL, signs, leading zeros, underscores, float spellings) in every order, each step judged by the specification independently of the steps before it. Unit tests compare about sixty spellings and a handful of printed strings, each on a fresh interpreter.",
    note="Trusted: Lean kernel; axioms propext/Classical.choice/Quot.sound; strconv.FormatFloat/ParseFloat enter as the hypothesis FloatLaw (shape of the text + parse-back), sampled over all binades on every run, not proved; ParseFloat's rounding is re-implemented (Model/NumLit) and compared bit for bit with strconv, math/big and Spec.nearestF64; regexp recognisers are hand-written for the regenerated source strings; the models are hand-written (Model/Lexer+Parser shared with C13, PrintData, EvalData) and tied by differential testing. Stated in full but NOT proved in full (the rest is compared on every generated input instead): ReadPrintData (fails today for nil: known finding); LiteralValue (over one-word spellings - literal_value_blank_counterexample shows why blanks must be excluded): proved for all integer and uint64 verdicts (literal_value_int, literal_value_uint), and the words Inf/-Inf/+Inf/NaN (literal_value_inf_nan; together literal_value_partial over CoveredSpelling), NOT proved for the finite fraction/exponent literals (ParseFloat's rounding in Model/NumLit vs Spec.nearestF64 is compared bit for bit, not proved equal), for spellings with a leading '+' or a minus on a based literal ('may' verdicts) and for the 'not a number' verdicts (that no other spelling is read as a number: the cascade classification of arbitrary atoms); EvalPrintJsonlike: proved for hash-free values (eval_print_jsonlike_partial), NOT proved for hashes ({k:v ...} goes through the '{' look-ahead, MakeHash/HashSet) and +-Inf. The symbol domain of the theorem is 'names DecodeAtom classifies as a symbol and that hold no rune special to the lexer' (symOK), not an independent grammar. Holds for the tree with fixes C12-01..05 and C13-02 applied; known finding: nil reads back as the symbol nil.",
    technique="Lean 4 proof over executable models of the printer, the lexer/parser and the literal conversion + regenerated tables + model/implementation/specification correspondence (channel rt) with math/big as second judge of literal values",
    design_ref="DESIGN.md §7 C12",
)

NIL_SYM = "y 110.105.108"


def _nil_as_symbol(spec):
    """the canonical form with every nil replaced by the symbol nil (token-wise)"""
    toks = spec.split(" ")
    out, i = [], 0
    while i < len(toks):
        t = toks[i]
        if t == "n":
            out.append(NIL_SYM)
            i += 1
        elif t in ("i", "u", "c", "s", "r", "y", "d", "l", "a", "p", "h"):
            out.extend(toks[i:i + 2])
            i += 2
        else:
            out.append(t)
            i += 1
    return " ".join(out)


def run(rep):
    try:
        with open(os.path.join(V.VERIF, "notes", "C12.known.json")) as f:
            for k in json.load(f):
                if k.get("property") == "C12" and k not in rep.known:
                    rep.known.append(k)
    except FileNotFoundError:
        pass
    prep = V.prepare(["ZygoVerif.Props.C12"])
    V.lean_phase(rep, prep, "ZygoVerif.Props.C12")
    rep.coverage["proved"] = ("read_print_data_partial (+ read_print_sign, string/char/escape/int/uint/float round trips): any nesting, any pieces, any parser history; "
        "literal_value_int: every spelling with an integer verdict of Spec.mathValue and no leading '+' (hex, octal, binary, decimal with underscores well placed or not, minus sign) is read as exactly its positional value, refused exactly outside [-2^63, 2^63); "
        "literal_value_uint: every spelling with a uint64 verdict (<digits>ULL, 0x..ULL, 0o..ULL) likewise, refused exactly at >= 2^64; literal_value_inf_nan (Inf, -Inf, +Inf, NaN); literal_value_partial (their union, CoveredSpelling); literal_digits_positional, literal_int_tokens, neg_fraction_begins/fixed; "
        "eval_print_jsonlike_partial: every JSON-like value without a hash and with finite floats (nil included, arrays nested to any depth) printed, read and evaluated is the value again (relative to FloatLaw); "
        "model_reader_history_independent, parser_state_inventory; the T1 table theorems; the pre-fix counterexamples")
    rep.coverage["not_proved"] = ("ReadPrintData in full (false today: nil, read_print_nil_counterexample; NaN/Inf, raw strings, operator/dotted symbols are correspondence only); "
        "LiteralValue in full: the finite fraction/exponent literals (the model's ParseFloat rounding vs Spec.nearestF64: compared bit for bit on every op, not proved equal), "
        "spellings with a leading '+' and signed based literals ('may' verdicts), and the 'not a number' verdicts (that nothing else is read as a number); "
        "EvalPrintJsonlike for hashes and +-Inf; FloatLaw (strconv.FormatFloat/ParseFloat) is a hypothesis sampled over all binades")
    rep.assumptions += [
        "strconv.FormatFloat / ParseFloat: the printer model takes the text of every float from the op (computed by the standard library in the harness); the theorems use the FloatLaw record (shape of the text, parse-back) as an explicit hypothesis, sampled by this run over all binades",
        "strconv.IsPrint is the table regenerated from the Go standard library (Generated/IsPrint.lean); strconv.Quote/QuoteRune are modelled at rune level for valid UTF-8 (Model/PrintData.lean) and compared with the real printer on every op",
        "regexp: each lexer regex is a hand-written recogniser; the source strings are regenerated and proved equal (Props/C13 regex_sources_match); the DecodeAtom cascade order is regenerated (Generated/ReadPrint.lean)",
        "Model/Lexer.lean, Model/Parser.lean (shared with C13), Model/PrintData.lean, Model/EvalData.lean are hand-written after the Go code with fixes/C12-01..04 applied; tied by the rt correspondence (differential testing)",
        "strings that are not UTF-8, invalid code points and symbol names no reader produces are outside the property's quantifier: compared between implementation and model where the rune-level model applies ('unmodelled' otherwise), never judged",
    ]
    if not (prep["ok_drv"] and prep["ok_harness"]):
        rep.violation("machinery-failure", {"what": "driver or harness did not build against the current tree",
                      "theorem_or_correspondence": "build of zydrv/zyh", "log": (prep["drv_out"] + prep["harness_out"])[-3000:]}, no_input=True)
        return
    rows, stats = V.run_channel("rt", rep.seed, rep.tier)
    keys = {}
    out = []
    unmodelled = 0
    verdicts = {"must": 0, "may": 0, "not-number": 0}
    hist_verdicts = {"must": 0, "may": 0, "not-number": 0}
    hist_steps = {}
    def proc(op, impl, model, spec):
        nonlocal unmodelled
        kind = op.split(" ", 2)[1]
        if model == "unmodelled":
            # outside the rune-level model (a string that is not UTF-8): implementation only
            unmodelled += 1
            model = impl
        if kind == "l":
            spelling = op.split(" ")[2]
            if spec == "!num":
                verdicts["not-number"] += 1
                spec = impl if impl in ("err", "nonnum") else "not-a-number"
            elif spec.startswith("?"):
                verdicts["may"] += 1
                spec = impl if impl in ("err", "nonnum") else spec[1:]
            else:
                verdicts["must"] += 1
        elif kind == "H":
            # a history on ONE long-lived reader: every step judged by the specification's answer to that step ALONE
            # (Spec/LiteralHistory.lean: the value of a literal is a function of its spelling)
            si, ss = impl.split(" | "), spec.split(" | ")
            if len(si) == len(ss):
                res = []
                for a, sp in zip(si, ss):
                    if sp == "!num":
                        hist_verdicts["not-number"] += 1
                        sp = a if a in ("err", "nonnum") else "not-a-number"
                    elif sp.startswith("?"):
                        hist_verdicts["may"] += 1
                        sp = a if a in ("err", "nonnum") else sp[1:]
                    else:
                        hist_verdicts["must"] += 1
                    res.append(sp)
                spec = " | ".join(res)
                hist_steps[len(si)] = hist_steps.get(len(si), 0) + 1
        elif kind == "r" and spec != "-" and impl != spec and _nil_as_symbol(spec) == impl:
            keys[op] = "rt r n"
        return (op, impl, model, spec)

    out = [proc(*r) for r in rows]
    # Every line is self-contained (a history is INSIDE an `H` line), but the batch process is a history of its own:
    # state that outlives a reader (package level) makes a line's answer depend on earlier lines. Lines that disagree
    # are re-run ALONE in a fresh process and the lone answer is judged, so that a replay is one line; how many
    # answers changed is recorded, and if no line fails alone the batch dependence itself is reported.
    badi = [i for i, (op, impl, model, spec) in enumerate(out)
            if op not in keys and ((spec != "-" and impl != spec) or (spec == "-" and impl != model))]
    def first_wrong_is_first_step(i):
        a, b = out[i][1].split(" | "), out[i][3].split(" | ")
        return 1 if (len(a) != len(b) or a[0] != b[0]) else 0
    # candidates most likely to fail alone first: history lines whose FIRST step is right and a later one wrong
    badi = [i for i in badi if not rep.match_known(out[i][0])]
    badi.sort(key=lambda i: (0 if out[i][0].startswith("rt H ") else 1, first_wrong_is_first_step(i), len(out[i][0])))
    confirmed, changed = 0, []
    cand = badi[:400]
    from concurrent.futures import ThreadPoolExecutor
    with ThreadPoolExecutor(max_workers=6) as ex:      # only on a tree that disagrees; a green tree has no candidates
        alone_ans = list(ex.map(lambda i: V.exec_impl(rows[i][0] + "\n")[0], cand))
    for i, alone in zip(cand, alone_ans):
        if alone != rows[i][1]:
            changed.append((rows[i][0], rows[i][1], alone))
        out[i] = proc(rows[i][0], alone, rows[i][2], rows[i][3])
        op, impl, model, spec = out[i]
        if (spec != "-" and impl != spec) or (spec == "-" and impl != model):
            confirmed += 1
    if confirmed:
        # what still disagrees only inside the batch must not be reported as a one-line replay
        for i in badi[400:]:
            if rows[i][2] != "unmodelled":
                out[i] = proc(rows[i][0], rows[i][2], rows[i][2], rows[i][3])   # judged as if it had answered like the model (its lone answer is unknown)
    rep.coverage["rerun_alone"] = {"disagreeing_in_batch": len(badi), "confirmed_alone": confirmed, "answer_depends_on_earlier_lines": len(changed)}
    if changed and not confirmed:
        op, inbatch, alone = changed[0]
        rep.violation("failing-input", {"channel": "rt", "ops": [op], "impl_did": inbatch, "impl_alone": alone,
                      "why": "the answer to this line depends on lines run earlier in the same process (alone it is what the specification requires): what a text denotes is not a function of the text alone",
                      "others_like_it": len(changed)}, key=op, no_input=True)

    def nontrivial(op, impl):
        return impl not in ("err", "bad-op", "none", "multi", "nonnum")

    # one correspondence record per class of value, so that the failing inputs reported for a
    # broken tree name one (shortest) input per class instead of three of the same kind
    def cls(op):
        t = op.split(" ")
        k = t[1]
        if k in ("l", "j"):
            return "literal-spelling"
        if k == "H":
            return "literal-history"
        if k == "k":
            return "literal-text"
        if k == "e":
            return "jsonlike-eval"
        return {"c": "char", "s": "string", "r": "string", "y": "symbol", "d": "float", "e": "float", "i": "int", "u": "int",
                "n": "atom", "t": "atom", "f": "atom", "h": "jsonlike-print"}.get(t[2], "structure")
    groups = {}
    for r in out:
        groups.setdefault(cls(r[0]), []).append(r)
    n_before = len(rep.violations)
    first = True
    for name in sorted(groups):
        V.correspondence(rep, "rt/" + name, groups[name], stats if first else {}, keyfn=lambda op: keys.get(op, op),
                         nontrivial=nontrivial, max_report=1)
        first = False
    found_failing_input = any(not suffix for _, suffix in rep.violations[n_before:])
    kinds = {}
    for op, impl, model, spec in out:
        k = op.split(" ", 2)[1]
        d = kinds.setdefault(k, {"ops": 0, "judged_by_spec": 0})
        d["ops"] += 1
        if spec != "-":
            d["judged_by_spec"] += 1
    rep.coverage["ops_by_kind"] = kinds
    rep.coverage["unmodelled_ops"] = unmodelled
    rep.coverage["literal_verdicts"] = verdicts
    rep.coverage["history_ops"] = {"lines_by_number_of_steps": {str(k): v for k, v in sorted(hist_steps.items())}, "step_verdicts": hist_verdicts,
                                   "rule": "rt H <mode> step…: 2-6 spellings / print-read round trips on ONE long-lived reader (p: one Parser object, r: (read \"…\") on one interpreter, "
                                           "e: the literal evaluated on one interpreter); every step is judged by Spec.require / the printed number itself, independently of the steps before it"}
    rep.coverage["exhaustive"] = True
    rep.coverage["rule"] = ("p = printed text (impl vs model), r = read back (impl vs spec = the value itself, vs model), e = evaluated JSON-like value, "
                            "l = numeric spelling read (impl vs Spec.require vs model), j = Spec.mathValue/nearestF64 vs math/big+strconv, k = hand-written string/char literal texts. "
                            "Exhaustive: every code point below 0x300 (thorough: the whole BMP, below 0x11000) and every strconv.IsPrint transition point as a character and as a one-character string; "
                            "integer grid ±2^k, ±2^k±1, ±10^k; floats: every 16th binade (thorough: every binade) with its neighbours, powers of ten, in both formats; "
                            "every pair of 15 atoms as list, array, dotted pair; every spelling up to length 4 (thorough: 5) over `-+0179abefEFxoUL_.` starting with a sign, digit or dot; "
                            "random nested values to depth 6. Non-trivial = the implementation answered with data")
    V.proof_break_resolution(rep, found_failing_input)
