"""C16 — lazy parameters delay, memoise and stay lexical; strict ones do not.

Lean: Props/C16.lean (theorems about the three decision points of the VM model:
`prepareArgs`/`callResolved`, `compileCallArgs` + `pushLazy`, `applyFn`; about `forceLazy`; and
the whole-machine invariant `LazyExt`), lemmas in Proofs/Lazy.lean; Spec/RefEval.lean is the
call-by-need reference.  Tie: channel `lazy` (harness/gen_lazy.go, Driver/Lazy.lean) — the
`eval` op format and Exec with scenario generators for lazy parameters."""
import json, os, re, importlib.util
import vcommon as V

META = dict(
    text="Lean 4, on the executable model of the code that exists (Model/VM.lean, Model/Gen.lean; tied to zygo/environment.go PrepareCallExprArgs/CallResolved/Apply, vm.go CallExprInstr/PushLazyArgInstr, expressions.go SexpLazyArg.Force/IsLazyCallArg, functions.go ForceFunction/SubstituteFunction, generator.go GenerateCallArgsForFunction by the `lazy` correspondence). Proved for every function object, argument list, machine state and amount of fuel (Props/C16.lean, 25 theorems): (a) preparing a call is its plan — a lazy position is `allocThunk` (one thunk with the expression, the current scope stack and function; one operand) and runs nothing, a strict position is exactly one evalCallExpr whose value is the operand, in order, all before callFunction (position forms lazy_not_evaluated_at_call / strict_args_evaluated_once_before_call, closed form for all-lazy calls, same effect for the compile-time PushLazyArgInstr); (b) force_memoises: a successful force stores its value, and after ANY further activity of the machine (Reach: instructions, calls, applies, forces, later program texts, failed or not) every force returns it with the state — trace included — unchanged; this rests on allPres (Proofs/Lazy.lean): all 13 mutually recursive functions of the machine, every instruction and outcome, only extend the thunk table (expression, captured stack, function immutable; a stored value stays); (c) force_in_callers_env: the thunk keeps the call site's scope stack and function for ever and force runs the compiled expression on exactly that stack inside a function closed over it with the call site's function as parent; lookups there equal the call site's lookups (force_lookup_is_callsite_lookup_partial, two hypotheses named); (d) strict_never_receives_thunk: the run-time, compile-time (self tail call) and apply/map decisions are one predicate of the function object the callee evaluated to, so name/alias/parameter/computed callee cannot differ (every non-tail call is one CallExprInstr: callee value first); variadic tails, Go builtins and unknown callees are strict; apply hands lazy positions already-forced value thunks; (e) source_recoverable: substitute returns the expression the thunk was made from, unevaluated, at any later time. The full statement LazySemantics (machine = call-by-need reference evaluator on class, value, trace for all programs) is stated, not proved; it is held by the 3-way correspondence of channel `lazy`: scenario generators over every mix of lazy/strict/variadic parameters x 16 call routes (direct, alias, parameter, three computed callees, apply array/list, map array/list, wrappers with locals / lazy parameter / closure over the free variable, recursion, self tail call, self tail call with a nested same-name defn, typed func) x 13 argument kinds (effects, errors, free variables, and expressions that only READ mutable state: bare variable, compound, closure calls) x mutation points (the callee changes that state before any use / between parameters / between two forces; later texts change it before and between forces of a kept thunk) x 19 use patterns (0/1/2/3 forces, nested closure, kept and forced in later texts, substitute, thunk of thunk, through strict/lazy/ignoring helpers, shadowing let) plus an exhaustive small scope, a malformed stream, and the history family `rebinding` (the callee a call site resolves to at run time differs in laziness/arity/kind from what the name denoted when the caller was compiled: redefinition by defn/def/set in a later text, shadowing by a parameter / let / closure variable of the same name, alias swap). T1: Generated/CallEmit.lean (where call instructions are built) with the expectation call_emit_sites_expected; compile_call_independent_of_bindings proves the model's generator ignores compile-time bindings for ordinary calls.",
    note="Trusted: Lean kernel; axioms propext/Classical.choice/Quot.sound. Model/VM.lean, Model/Gen.lean are hand-written and tied to the Go code only by differential testing (channels `lazy`, `eval`); Model/Prim.lean (builtins on values) and Model/LazySrc.lean (source shown as data) are shared by model and reference. Not proved: the execution half of the VM/reference simulation (binding operand i to formal i in the prologue; lookups of the forced expression beyond the partial theorem) — C02's CompileCorrect. Typed `func` declarations are not modelled: such ops are judged implementation vs reference after rewriting `func` to the `defn` it abbreviates (model column informational, stack depths not compared: FuncBuilder leaves one operand, C04's subject). By design of both sides a FAILED force stores nothing (a later force re-runs the expression) and a thunk forced re-entrantly from inside its own evaluation runs once per nesting level. Duplicate parameter names and (set #x ..) (silently ignored by UpdateInstr for sigil symbols) are outside the property and not generated.",
    technique="Lean 4 theorems over the executable VM model (whole-machine invariant by induction over the 13-function mutual block with a small program logic) and the call-by-need reference evaluator; 3-way model/spec/implementation correspondence through the line protocol (channel `lazy`)",
    design_ref="DESIGN.md §7 C16, §13; notes/C16.md",
)

HERE = os.path.dirname(os.path.dirname(os.path.abspath(__file__)))

def _c02():
    spec = importlib.util.spec_from_file_location("check_C02_for_C16", os.path.join(HERE, "checks", "C02.py"))
    mod = importlib.util.module_from_spec(spec)
    spec.loader.exec_module(mod)
    return mod

_D = re.compile(r" D\[[^\]]*\]")

def strip_depths(ans):
    return _D.sub("", ans)

def norm_timeouts(ans):
    """Of a text that did not terminate only the class is compared (the two sides bound work
    differently). Done per record here because a trace may itself contain `]` (arrays), which
    C02's regular expression does not expect."""
    return " ;; ".join("timeout - T[*]" if r.startswith("timeout ") else r for r in ans.split(" ;; "))

def prejudge(rows):
    """Ops flagged +std use typed `func` declarations, which neither the VM model nor the
    reference evaluator knows: the driver rewrites them to the `defn` they abbreviate. They are
    judged implementation vs reference (class, value, trace); the model column of such an op is
    not a model of FuncBuilder (which also leaves one operand on the data stack — C04's
    business), so it is compared without the stack depths."""
    out, nstd, nabst = [], 0, 0
    for op, impl, model, spec in rows:
        if op.startswith("lazy +std "):
            nstd += 1
            impl, model = strip_depths(impl), strip_depths(model)
        impl, model = norm_timeouts(impl), norm_timeouts(model)
        if '"?source"' in model:
            # `substitute` was asked for the source of a form the elaborator rejects (`bad`,
            # `assign`: only the malformed stream does that). The model's `Expr` keeps no source for
            # those and says so with this marker: it abstains on the op (the reference is not
            # defined on such programs either).
            nabst += 1
            model = impl
        out.append((op, impl, model, spec))
    return out, nstd, nabst

def run(rep):
    try:
        with open(os.path.join(HERE, "notes", "C16.known.json")) as f:
            for k in json.load(f).get("findings", []):
                if k.get("property") == "C16" and not rep.match_known(k.get("key")):
                    rep.known.append(k)
    except FileNotFoundError:
        pass
    prep = V.prepare(["ZygoVerif.Props.C16"])
    ok = V.lean_phase(rep, prep, "ZygoVerif.Props.C16")
    if not (prep["ok_drv"] and prep["ok_harness"]):
        rep.violation("machinery-failure", {"what": "driver or harness did not build against the current tree",
                      "theorem_or_correspondence": "build of zydrv/zyh", "log": (prep["drv_out"] + prep["harness_out"])[-3000:]}, no_input=True)
        return
    rows, stats = V.run_channel("lazy", rep.seed, rep.tier)
    seeds = [rep.seed]
    if rep.tier == "thorough":
        # two more generator seeds (the small-scope enumeration is complete in each)
        for extra in (rep.seed + 1000, rep.seed + 2000):
            r2, s2 = V.run_channel("lazy", extra, rep.tier)
            seen = {r[0] for r in rows}
            rows += [r for r in r2 if r[0] not in seen]
            for k, v in s2.items():
                stats[k] = stats.get(k, 0) + v
            seeds.append(extra)
    rep.coverage["seeds"] = seeds
    rows, nstd, nabst = prejudge(rows)
    rows, jstats = _c02().judge(rows)
    def nontrivial(op, impl):
        return impl.startswith("ok") or " ;; ok" in impl
    bad_spec, bad_model = V.correspondence(rep, "lazy", rows, stats, nontrivial=nontrivial)
    rep.coverage["channels"]["lazy"].update(jstats)
    rep.coverage["channels"]["lazy"]["ops_with_typed_func"] = nstd
    rep.coverage["channels"]["lazy"]["model_abstains_source_of_rejected_form"] = nabst
    rep.coverage["exhaustive"] = False
    rep.coverage["proved"] = ("Props/C16.lean: prepare_is_plan, lazy_not_evaluated_at_call (+_all_lazy, _pushLazy, allocThunk_effect), "
                              "force_returns_memo, force_memoises, machine_extends_thunk_table (allPres), thunk_keeps_call_site, force_in_callers_env, force_reads_at_force_time, "
                              "strict_args_evaluated_once_before_call, call_prepares_then_enters, every_call_route_resolves_at_run_time, "
                              "compile_call_independent_of_bindings, call_emit_sites_expected (T1), strict_never_receives_thunk, apply_wraps_values, apply_lazy_position_gets_forced_thunk, self_tail_call_uses_own_template, "
                              "self_tail_call_lazy_position, source_recoverable, reference_is_call_by_need; all for every function object, argument "
                              "list, state and fuel")
    rep.coverage["partial"] = ("force_lookup_is_callsite_lookup_partial (hypotheses: closure-chain fuel adequacy, main's captured scopes add nothing); "
                               "lazy_semantics_partial: LazySemantics (machine = reference on all programs) is stated, not proved — missing the "
                               "execution simulation (C02 CompileCorrect F0-F3), held by the `lazy` correspondence of this run")
    rep.coverage["rule"] = ("histories of 1-5 texts: 57 hand-written; exhaustive small scope (parameter lists of length 1-2 over {lazy,strict} x rest "
                            "{none, r, #r} x 16 routes x 6 use patterns x 4 argument kinds, state-reading kinds with the three mutation modes; one third per quick run rotating with the seed, all in "
                            "thorough); random scenarios (0-3 parameters, 13 argument kinds, 19 use patterns, 4 mutation modes, follow-up texts forcing kept thunks); "
                            "malformed stream (one tree mutation or an arity error of the outer call); typed `func` scenarios (+std); rebinding histories of 8-9 texts (old binding x new binding x defn/def/set x argument kind exhaustive, half per quick run, plus random)")
    rep.assumptions += [
        "Model/VM.lean, Model/Gen.lean are hand-written; tied to the Go code by the `lazy`/`eval` correspondence only (class, value, trace, four stack depths per text)",
        "Model/Prim.lean and Model/LazySrc.lean (how source is shown as data) are shared by model and reference evaluator",
        "typed `func` declarations: judged implementation vs reference after rewriting to `defn`; not modelled",
        "a failed force is not memoised (Go and reference agree); re-entrant force of the same thunk evaluates once per nesting level (both)",
        "the model abstains when `substitute` is asked for the source of a form the elaborator rejects (malformed stream only; counted)",
        "mutated self calls (tail-call arity, tail call inside an array literal) are kept out of the malformed stream: known findings of C02/C09",
    ]
    V.proof_break_resolution(rep, bool(bad_spec))
