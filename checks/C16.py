"""C16 — lazy parameters delay, memoise and stay lexical; strict ones do not.

Lean: Props/C16.lean (theorems about the three decision points of the VM model:
`prepareArgs`/`callResolved`, `compileCallArgs` + `pushLazy`, `applyFn`; about `forceLazy`; and
the whole-machine invariant `LazyExt`), lemmas in Proofs/Lazy.lean; Spec/RefEval.lean is the
call-by-need reference.  Tie: channel `lazy` (harness/gen_lazy.go, Driver/Lazy.lean) — the
`eval` op format and Exec with scenario generators for lazy parameters."""
import json, os, re, importlib.util
import vcommon as V

META = dict(
    text="(filled in below)",
    note="",
    technique="Lean 4 theorems over the executable VM model (Model/VM.lean) and the call-by-need reference evaluator (Spec/RefEval.lean); 3-way model/spec/implementation correspondence through the line protocol (channel `lazy`)",
    design_ref="DESIGN.md §7 C16, §13; notes/C16.md",
)

HERE = os.path.dirname(os.path.dirname(os.path.abspath(__file__)))

def _c02():
    spec = importlib.util.spec_from_file_location("check_C02_for_C16", os.path.join(HERE, "checks", "C02.py"))
    mod = importlib.util.module_from_spec(spec)
    spec.loader.exec_module(mod)
    return mod

_D = re.compile(r" D\[[^\]]*\]")

def strip_depths(ans):
    return _D.sub("", ans)

def prejudge(rows):
    """Ops flagged +std use typed `func` declarations, which neither the VM model nor the
    reference evaluator knows: the driver rewrites them to the `defn` they abbreviate. They are
    judged implementation vs reference (class, value, trace); the model column of such an op is
    not a model of FuncBuilder (which also leaves one operand on the data stack — C04's
    business), so it is compared without the stack depths."""
    out, nstd = [], 0
    for op, impl, model, spec in rows:
        if op.startswith("lazy +std "):
            nstd += 1
            impl, model = strip_depths(impl), strip_depths(model)
        out.append((op, impl, model, spec))
    return out, nstd

def run(rep):
    try:
        with open(os.path.join(HERE, "notes", "C16.known.json")) as f:
            for k in json.load(f).get("findings", []):
                if k.get("property") == "C16" and not rep.match_known(k.get("key")):
                    rep.known.append(k)
    except FileNotFoundError:
        pass
    prep = V.prepare(["ZygoVerif.Props.C16"])
    ok = V.lean_phase(rep, prep, "ZygoVerif.Props.C16")
    if not (prep["ok_drv"] and prep["ok_harness"]):
        rep.violation("machinery-failure", {"what": "driver or harness did not build against the current tree",
                      "theorem_or_correspondence": "build of zydrv/zyh", "log": (prep["drv_out"] + prep["harness_out"])[-3000:]}, no_input=True)
        return
    rows, stats = V.run_channel("lazy", rep.seed, rep.tier)
    rows, nstd = prejudge(rows)
    rows, jstats = _c02().judge(rows)
    def nontrivial(op, impl):
        return impl.startswith("ok") or " ;; ok" in impl
    bad_spec, bad_model = V.correspondence(rep, "lazy", rows, stats, nontrivial=nontrivial)
    rep.coverage["channels"]["lazy"].update(jstats)
    rep.coverage["channels"]["lazy"]["ops_with_typed_func"] = nstd
    rep.coverage["exhaustive"] = False
    V.proof_break_resolution(rep, bool(bad_spec))
