"""C10 — records convert to Go structs and back without loss (PARTIAL: the truth lives in Go's reflect).
Theorems: lean/ZygoVerif/Props/C10.lean over Model/ToGo.lean (the walk over an abstract Go type
descriptor, level by level, for an arbitrary recursive call; the field table with its embed paths for
every embedding depth) and Model/ToGoHist.lean (histories on shared records: togo / hset / method
argument / mutating method / read / receiver). Specs: Spec/RecordGo.lean, Spec/RecordGoHist.lean.
Tie: channels `togo` and `togohist` — the type descriptors are read from the live types by reflect
for every op line, real (togo r) / (_method obj M: r) results are dumped as canonical trees with
pointer-sharing classes and compared with the model, with the spec, and with the dump of the
generating Go value."""
import json, os, re, time
import vcommon as V

META = dict(
    text="Lean 4 theorems (Props/C10.lean) about an executable model of SexpToGoStructs/fillJsonMap/FillHashFromShadow/toGoHelper/CallGoMethodFunction over an abstract Go type descriptor. One conversion: a key that names no field (by json tag, name, capitalised name, through embedded structs) or is not a string/symbol fails the conversion whatever else the record holds; every field named by the record ends up holding exactly the converted value when no other pair writes an overlapping path; a record already in the dedup cache converts to the same Go object (pointer and interface targets); scalar kind pairs outside the spec's exact-conversion table are errors and pairs inside it store exactly the spec's value; each holds for an arbitrary function doing the nested levels, hence for every nesting depth. Field table, for EVERY embedding depth: each entry's EmbedPath leads field by field to a declared field with the entry's key and type; no two entries share a path; 'last table entry with the key' is exactly the spec's 'search the declarations from the last to the first through embedded structs' (model = spec for lookups). Histories, for ALL sequences of togo / hset / method calls from any state: the script's records are changed by hset only; a record passed to a Go method is converted from its current fields alone (the answer equals that of a never-converted record with these fields: no stale cache); (togo r) on a record with an attached struct runs the field loop over the current pairs. The descriptor and the models are tied to the real code by two channels: togo (reflect-extracted descriptors on every op, exhaustive field-type x value-kind grid over 16 registered struct types (one with an embedded pointer) with embedding depth 0..4, two embedded siblings, by-value struct slices, pointers/interfaces inside embedded levels; type-directed random values with sharing; ill-formed stream) and togohist (a generated record lives through 2..8 steps: togo, hset of generated well-typed values on any record of the tree, identity method, argument-mutating method, read, receiver call; each op run three times against Go's random map iteration).",
    note="PARTIAL. Not proved: the round trip as one theorem (fromGo(toGo r) = complete r); the full statement 'every conversion step answers from the current fields only' is REFUTED for (togo r) on a record that already has a struct attached (Props: togo_reflects_current_record_counterexample = keyed known finding: a by-value struct field keeps content the new nested record does not name) and proved for argument conversions and unattached records (togo_reflects_current_record_partial). Unspecified by the property text and accepted either way (spec answer `?`): what a method RECEIVER shows after the record changed since its struct was attached; object identity across conversions. Trusted: Lean kernel; axioms propext/Classical.choice/Quot.sound; Go's reflect (abstracted by descriptors the harness reads from the live types); the canonical dumpers in harness/ch_togo.go and Driver/Togo.lean; the harness's own Touch method and its Lean twin; differential testing bounds. Outside the model: record-into-string-field (printed text), script-only record types in interface{}, hdel, two spellings of one key, cycles, methods mutating their receiver. Known findings: a time.Time does not come back from Go (Test018 pins time:nil); the by-value refill above.",
    technique="Lean 4 proof over an abstract reflect descriptor (induction on embedding depth, on field lists, on histories) + model/implementation/spec correspondence with reflect-extracted descriptors",
    design_ref="DESIGN.md §7 C10, §14.4",
)


_TIME = re.compile(r"t:\d+")
TIME_KEY = "togo echo weather E H1:2:weather k116.105.109.101 t1600000000 k115.105.122.101 i12 X -"

def strip_world(op):
    """known-finding key: the op line without the (long, regenerated) type-descriptor block"""
    a = op.find(" W ")
    b = op.find(" E ", a)
    return op if a < 0 or b < 0 else op[:a] + op[b:]


def spec_accepts(impl, spec):
    """The spec column, step by step (steps joined by ';'): `<tree>` exactly this; `<tree>|err` this
    value or an error, nothing else (pairs the property does not promise); `?` unspecified by the
    property text (any outcome). Returns (accepted, lenient answers met, unspecified answers met)."""
    if spec == "-":
        return True, 0, 0
    ia, sa = impl.split(";"), spec.split(";")
    nl = sum(1 for y in sa if y.endswith("|err"))
    nu = sum(1 for y in sa if y == "?")
    if len(ia) != len(sa):
        return False, nl, nu
    for x, y in zip(ia, sa):
        if y == "?":
            continue
        if y.endswith("|err"):
            if x != "err" and x != y[:-4]:
                return False, nl, nu
        elif x != y:
            return False, nl, nu
    return True, nl, nu


def prepare_c10(lean_targets):
    """V.prepare without the table extractor when regenerated tables are already on disk: C10 uses
    no table regenerated by zyx (its type descriptors are read with reflect by the harness on every
    op), and the go/packages load of zyx costs more than the whole rest of the quick tier. The
    harness, the driver and the theorems are always rebuilt from the current tree."""
    log, res = [], {}
    with V.Lock():
        t0 = time.time()
        gen_dir = os.path.join(V.LEAN, "ZygoVerif", "Generated")
        if os.path.isdir(gen_dir) and any(f.endswith(".lean") for f in os.listdir(gen_dir)):
            res["ok_generate"], res["generate_out"] = True, "skipped (no regenerated table is used by C10)"
        else:
            res["ok_generate"], res["generate_out"] = V.build_extractor_and_generate(log)
        V.gen_lean_roots()
        res["ok_lean"], res["lean_out"] = V.lake_build(lean_targets, log)
        res["ok_drv"], res["drv_out"] = V.lake_build(["zydrv"], log)
        res["ok_harness"], res["harness_out"] = V.build_harness(log)
        res["build_s"] = round(time.time() - t0, 2)
    res["log"] = "\n".join(log)
    return res


def run(rep):
    # property-local known findings (notes/C10.known.json) in addition to the shared file
    try:
        with open(os.path.join(V.VERIF, "notes", "C10.known.json")) as f:
            rep.known += [k for k in json.load(f).get("findings", []) if k.get("property") == "C10"]
    except FileNotFoundError:
        pass
    prep = prepare_c10(["ZygoVerif.Props.C10"])
    V.lean_phase(rep, prep, "ZygoVerif.Props.C10")
    rep.assumptions += [
        "Go's reflect package is trusted; the model sees Go types only through descriptors that the harness reads from the live types with reflect on every op (exec answers bad-world if they changed)",
        "Model/ToGo.lean is hand-written; tied to zygo/jsonmsgp.go, hashutils.go, callgo.go by the `togo` correspondence only",
        "the dedup cache is modelled by value (what the remembered target held when it was cached): exact unless one field is written twice by two spellings of its key",
        "the way back is compared up to record identity (a Go object referenced twice comes back as two equal records)",
        "spec answers of the form <tree>|err mean: exactly this value or an error, nothing else (pairs the property does not promise)",
        "Model/ToGoHist.lean is hand-written; tied to toGoHelper (jsonmsgp.go), CallGoMethodFunction (callgo.go), HashSet (hashutils.go) by the `togohist` correspondence only; object numbering across conversions is the model's (a conversion from a fresh top object runs in a heap of its own)",
        "history spec answer `?`: unspecified by the property text (receiver of a method after the record changed since its struct was attached) — any outcome accepted",
        "the harness methods Echo<T>/Touch<T>/Self and the generic mutation touchStruct (harness/ch_togo_types.go) are trusted to be what Model/ToGoHist.touch says",
    ]
    if not (prep["ok_drv"] and prep["ok_harness"]):
        rep.violation("machinery-failure", {"what": "driver or harness did not build against the current tree",
                      "theorem_or_correspondence": "build of zydrv/zyh", "log": (prep["drv_out"] + prep["harness_out"])[-3000:]}, no_input=True)
        return
    seeds = [rep.seed] if rep.tier == "quick" else [rep.seed, rep.seed + 1, rep.seed + 2]
    found = False
    for chan in ("togo", "togohist"):
        rows, stats = [], {}
        for sd in seeds:
            r, st = V.run_channel(chan, sd, rep.tier)
            rows += r
            for k, v in st.items():
                stats[k] = stats.get(k, 0) + v
        fixed = []
        lenient = unspecified = time_class = 0
        for op, impl, model, spec in rows:
            ok, nl, nu = spec_accepts(impl, spec)
            lenient += nl
            unspecified += nu
            if ok and spec != "-":
                spec = impl
            elif spec != "-" and impl == model and _TIME.sub("nil", spec) == impl and _TIME.search(spec):
                # The known finding "a time.Time does not come back from Go" is identified by its CALL SITE
                # (fillHashHelper has no time.Time arm; the repo's Test018 pins time:nil): an op whose only
                # difference to the spec is a time value that came back as nil - wherever the time sat
                # (a time-typed field, an interface{} field after an hset, a nested record) - is that finding,
                # not a new one. Met in the thorough tier: a history that hsets a time into an interface{}
                # field and then sends the record through a Go method. Anything else that differs is reported.
                time_class += 1
                rep.violation("failing-input", {}, key=TIME_KEY)
                spec = impl
            fixed.append((op, impl, model, spec))
        def nontrivial(op, impl):
            return not impl.startswith("bad-")
        bad_spec, bad_model = V.correspondence(rep, chan, fixed, stats, keyfn=strip_world, nontrivial=nontrivial)
        found = found or bool(bad_spec)
        ch = rep.coverage["channels"][chan]
        ch["lenient_spec_answers"] = lenient
        ch["unspecified_step_answers"] = unspecified
        ch["time_does_not_come_back_ops (known finding, by call site)"] = time_class
        ch["converted_ok"] = sum(1 for r in fixed if r[1].startswith("&") or r[1].startswith("rec:"))
        ch["errors_expected_and_reported"] = sum(1 for r in fixed if r[1].split(";")[-1] == "err" and r[3].split(";")[-1] == "err")
        ch["nondeterministic_answers"] = sum(1 for r in fixed if r[1].startswith("nondet("))
        if chan == "togohist":
            ch["steps_executed"] = sum(len(r[1].split(";")) for r in fixed if not r[1].startswith("bad-"))
    for s in rep.coverage["samples"]:
        s["op"] = strip_world(s["op"])[:600]
        for k in ("impl", "model", "spec"):
            s[k] = s[k][:300]
    rep.coverage["exhaustive"] = False
    rep.coverage["rule"] = ("togo grid: every field of every registered struct type (16 types, embedding depth 0..4, embedded pointer) x every value-kind sample (exhaustive over that finite grid); "
                            "togo random: a Go value is generated from the reflect type (nesting depth <= 3, shared objects, nil/empty/filled slices and maps, interfaces), "
                            "its canonical dump is the expectation and the record term is derived from it; ill-formed: unknown fields, non-symbol keys, wrong-kind "
                            "values, retyped records; togohist: a generated record lives through 2..8 steps (togo / hset of a well-typed generated value on any record of the "
                            "tree, sharing existing records / record passed to an identity method / to a method that mutates its argument / record read back / record as "
                            "receiver), templates and random plans, 12% end in an ill-formed update followed by a conversion; every op is executed 3 times on fresh records; "
                            "an op is non-trivial when the harness could build and run it (answer not bad-*); distinct = distinct op lines")
    V.proof_break_resolution(rep, found)
