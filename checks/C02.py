"""C02 — evaluation matches the reference semantics (work in progress: see notes/C02.md)."""
import vcommon as V

META = dict(
    text="(filled in below)",
    note="",
    technique="Lean 4 proof over an executable model of generator+VM against a reference evaluator + 3-way correspondence",
    design_ref="DESIGN.md §7 C02",
)

def split_records(ans):
    return ans.split(" ;; ")

def project(rec):
    """impl/model record -> what the reference evaluator predicts (class value trace)."""
    i = rec.rfind(" D[")
    return rec if i < 0 else rec[:i]

def judge(rows):
    """Rewrites the spec column so that vcommon.correspondence (string equality) judges
    impl vs spec per text on the projection, and impl vs model on the full record."""
    out = []
    skipped = 0
    for op, impl, model, spec in rows:
        irecs, srecs = split_records(impl), split_records(spec)
        if "timeout" in impl or impl.startswith("HOST"):
            if impl.startswith("HOST"):
                out.append((op, impl, model, spec))
            else:
                skipped += 1
            continue
        ok = True
        compared = 0
        for k, s in enumerate(srecs):
            if s == "-":
                break
            compared += 1
            if k >= len(irecs) or project(irecs[k]) != s:
                ok = False
                break
        if model.startswith("stub"):
            model = impl
        if compared == 0:
            out.append((op, impl, model, "-"))
        elif ok:
            out.append((op, impl, model, impl))
        else:
            out.append((op, impl, model, spec))
    return out, skipped

def run(rep):
    prep = V.prepare(["ZygoVerif.Spec.RefEval"])
    if not (prep["ok_lean"] and prep["ok_drv"] and prep["ok_harness"]):
        rep.violation("machinery-failure", {"what": "build failed", "theorem_or_correspondence": "build",
                      "log": (prep["lean_out"] + prep["drv_out"] + prep["harness_out"])[-3000:]}, no_input=True)
        return
    rows, stats = V.run_channel("eval", rep.seed, rep.tier)
    rows, skipped = judge(rows)
    V.correspondence(rep, "eval", rows, stats)
    rep.obligations = rep.discharged = 1
