"""C02 — evaluation matches the reference semantics: values, control flow, effect order.

Lean: Spec/RefEval.lean (reference evaluator), Model/Gen.lean + Model/VM.lean (executable
model of generator and stack VM), Props/C02.lean (theorems about the generator's jump
arithmetic, and the execution half - segment lemma and CompileCorrect - for the fragments Fv, Fc and F2,
lemmas in Proofs/Sim*.lean; the semantic statement CompileCorrect stays visible, its unproved
remainder is the def CompileCorrectOutsideProved named in compile_correct_partial).  Tie: channel `eval` — a history of program texts against one
interpreter; impl vs model on class/value/trace/stack depths, impl vs RefEval on
class/value/trace."""
import json, os, re
import vcommon as V

META = dict(
    text="Lean 4: an executable model of the code generator (Model/Gen.lean, one function per Generate*) and of the stack VM (Model/VM.lean: every instruction, Run, CallFunction, CallUserFunction+recover, CallResolved/EvalCallExpression nested runs, scopes/closures/lazy arguments by reference in explicit tables, loops, self tail calls) is compared with an independent big-step reference evaluator (Spec/RefEval.lean: frames, closures by environment pointer, no stack/jumps/TCO, effect trace). PROVED, for programs of every size and nesting (Props/C02.lean, lemmas in Proofs/Sim*.lean): (layout) GenerateBegin pops exactly between statements; in cond with any number of arms every brn lands on the next arm and every jump behind the form; in and/or every br lands behind the form; the for-loop layout and its break/continue offsets; (execution) one turn of the Run loop and push/pop/dup/jump/goto/branch as state transformers; the SEGMENT LEMMA for the fragment Fv = literals, symbol reference, def, set, begin (also empty), cond with any number of arms, and/or of any arity, non-empty newScope, letseq, and let with pairwise distinct names, nested arbitrarily: the code compile produces for such an expression, embedded at any offset of any compiled function, run from a VM state related to the reference state (same bindings in every scope/frame, linear stack = static chain, same heap and trace), reaches its own end within code.length instructions with exactly one more value on the data stack - the value Ref.eval returns - and related states again, or ends in a script error with the same trace exactly when Ref.eval reports an error; the same SEGMENT LEMMA for the fragment Fc = Fv with binder names that are not builtin names, plus array literals [e1 ... en], plus for loops (labelled or not) whose init/test/increment/body are in Fc (so without break/continue; nested arbitrarily), plus calls (h a1 ... an) of first-order builtins (+ - * mod < > <= >= == != not cons first rest second list array len append concat aget aset hash hget hset, and the host function trace) with operands in Fc - a call is one VM instruction whose execution compiles every operand at run time into a fresh function object and runs it in a nested Run (EvalCallExpression/nested), then runs the builtin under CallUserFunction; callee first, operands once, left to right, errors propagate with the trace; the SEGMENT LEMMA for the fragment F2 = expressions built from literals, symbol reference, def, set, begin, cond, and, or, non-empty newScope, letseq, let with distinct names, array literals, for loops without break/continue, calls (h a1 ... an) whose head symbol is looked up at run time and may denote a USER FUNCTION (closure object; a wrong number of operands is the script error of both sides), a first-order builtin, or something that cannot be called (the value itself without operands, an error with them), and - anywhere but inside the operands of a call - (fn [p1 ... pn] body...) and (defn name [p1 ... pn] body...) of fixed arity or with a rest parameter [p1 ... pn & rest] (the arguments beyond the fixed ones are packed into a list by wrangleOptargs in CallFunction, resp. by PrepareCall on the self-tail-call path; too few arguments is the script error of both sides), at top level or nested in function bodies to any depth: closures capture the scopes of the functions they were made in (and may assign to captured variables), are values (bound by def, passed as operands, returned, kept in lists) and are called later; recursion included (not in a position compiled as a self tail call); under a relation (Sim.RelF) in which values correspond modulo the numbering of closures (the VM names a closure by its index in the function table, the reference by its index in its closure table: Sim.tr, every first-order builtin commutes with the renaming: Sim.prim_tr) and in which the linear scope stack inside a callee is its own scopes down to the function scope on top of the caller's stack, the rest of the static chain being what stage 2 of LexicalLookupSymbol finds, segment by segment, in the closing stacks of the closure object and of the functions that made it (Sim.ChainF, Sim.FnChainF, Sim.RelF.lexLookup); templates are compiled when the text is loaded and closures made from them at run time (Sim.GenOk, Sim.closure_step); the SEGMENT LEMMA WITH NON-LOCAL EXITS for the fragment Fx = F2 plus, in top-level code (not inside function bodies or call operands), break and continue - plain or labelled - of the enclosing for loops, under begin/cond arms/let/letseq/newScope/nested for bodies (segment_lemma_Fx: a third kind of outcome besides landing and failing - when the reference evaluator yields brk l/cont l the VM has found the loop's LoopStart (the first one carrying its id: Sim.findLoopStart_at), popped exactly the scopes opened inside that loop, and stands on the loop's clearMark resp. continue label with only values above the loop's stack mark (Sim.JumpedF; the offsets are the ones GenerateForLoop stored after compiling the body: Sim.LoopsFinal); one loop with exits against Ref.loop: Sim.XClaimF); SELF TAIL CALLS (F2c, after fix C09-02): a call of the function being compiled, in tail position of its body (under begin/cond/let/letseq/newScope), is compiled as TailGuard, operands inline, PrepareCall, RemoveScope x (scopes+1), Goto 0, and behind the jump the ordinary call; tail_call_simulates (Sim.simT_selfcall): if the guard passes (the name still denotes the running function object) the operands are evaluated once, left to right, the scopes of the activation are dropped, the function is re-entered at instruction 0 in exactly the state CallFunction would leave for an ordinary call of the same closure from the original call site, so the rest of the activation is that application (FClaimU) and its return is the return of this activation (a fourth outcome of the simulation: Sim.RetOut); if the guard fails (name unbound, re-bound to something else, another closure) the ordinary call behind the jump runs; the arity check of the generator (knownFunctions) is tied to the running closure (Sim.KnownOk); the body of every closure object is simulated in tail position (Sim.TClaimB in FClaimU); LAZY PARAMETERS (F3-lazy): fn/defn of F2 and F2c may declare lazy parameters #p and every program may call force - the operand at a lazy position of a call of a closure object is not evaluated at the call: PrepareCallExprArgs (ordinary call) resp. PushLazyArgInstr (inline operands of a self tail call) appends a lazy argument object holding the expression, the live scope stack and the current function, the reference evaluator a thunk holding the expression and the frame (same index in both tables; machine, generator and reference delay the same positions: Sim.isLazyVM_clo, Sim.isLazyVM_eq); the relation carries the two tables (Sim.RelF.lz, Sim.LzOk: the captured stack is the static chain of the thunk's frame, continued along the closing stacks of the function of the call site; memos related); force on a lazy argument (Sim.force_sim, Sim.fclaimG): the expression is compiled at force time, registered as a helper function closed over the captured stack, run in a nested Run with the live stack set aside on `suspended`, the control state restored, the value stored in the same slot of both tables - so it is evaluated at most once, in the environment of the call site, also after the caller returned, from inside another force, and in a later activation reached by a self tail call; force on any other value returns it; wrong arity is the script error of both sides; the proof is by induction on the reference fuel with the segment lemma available at every lower fuel (the thunk's expression is evaluated with less fuel than the call of force); compile_correct_on_F3lazy restates CompileCorrect on these fragments and lazy_semantics_on_F3lazy is C16's LazySemantics restricted to them; APPLY AND MAP (F3): the same fragments may call apply and map and pass builtins as values - (apply f coll) and (map f coll) with f a closure object or a Go builtin (first-order, force, apply, map) and coll an array or a list: the Go builtin calls back into the machine (Apply: arguments pushed - at a lazy position the index of an already forced lazy argument object made for the value, on the reference side a value thunk in the same slot -, CallFunction, a nested Run whose return address names the builtin's pseudo-function, an error restores the captured control state): Sim.aclaim_succ against Ref.applyValues with the closure-application claim FClaimU at lower fuel (the relation is stated for the function that called the builtin: St.withCur, threaded through FClaimU/InAct/RetOut/SimT), Sim.marr_succ and Sim.mlist_succ against Ref.mapArr/Ref.mapList (one call per element, first to last, on the element as the collection holds it at that moment, results in a new array resp. list), Sim.hclaims: every Go builtin of the fragment inside its frame (Sim.BOk/Sim.BClaim) by induction on the reference fuel, Sim.fclaimH_of_bclaim: the call instruction around it; compile_correct_on_F3; NESTED FUNCTIONS: a defn or an anonymous fn that is a statement (or the last form) of a function body of F2c may itself have a body of F2c, to any depth - self tail calls and loops that break/continue inside nested functions (Sim.Fs, Sim.simF_defnZ, the generator on such bodies: Sim.total_stmt; compile_correct_on_F2c_nested); COMPUTED CALL HEADS: the callee of a call may be any operand expression of the fragment instead of a symbol - ((g 1) 2), ((cond c + -) a b): CallExprInstr evaluates it like an operand (compiled when the instruction runs, nested Run), then proceeds as for a call by name with the value found (Sim.simF_callE, Sim.simF_callV over a closure object / first-order builtin / force, apply, map / array / non-callable value; Sim.SimVia: the instruction stands at one state and its execution goes on from the state after the callee was evaluated; the five call lemmas are stated once for both kinds of callee); compile_correct_on_F2heads; and from them CompileCorrect RESTRICTED TO Fv, TO Fc, TO F2, TO Fx AND TO F2c PROGRAMS (compile_correct_on_Fv, compile_correct_on_Fc, compile_correct_on_F2, compile_correct_on_F2x, compile_correct_on_F2c - F2c = top-level statements of Fx and top-level defns with self tail calls and, in the statements before the last form of their bodies, for loops that break/continue (the loop table facts travel with every closure object: Sim.GenOk now carries Sim.LoopsFinal, Sim.FnsKeep the growth of the loop table): whenever the reference evaluator reports value/error+trace for the program text, VM.runText = LoadExpressions+Run on the generator model reports the same), with explicit fuel bounds on both sides for the effect-free sub-fragment F0c (compile_correct_F0c: VM fuel 3*size+3). NOT PROVED: CompileCorrect for the remaining programs (def CompileCorrectOutsideProved: fn/defn inside an operand of a call or a self call in a directly compiled non-tail position, a self tail call or break/continue in a function that is not a defn/fn statement or last form of a function body (under def/set, in a loop body, in an operand), substitute, empty newScope); compile_correct_partial proves that CompileCorrect follows from that remainder. The remainder - and the tie of both models to the Go code - is held by the 3-way correspondence of channel `eval` (implementation vs VM model on class/value/trace/four stack depths; implementation vs reference evaluator on class/value/trace) over grammar- and type-directed programs, a malformed stream and an exhaustive small scope. A unit test fixes a few hundred programs; the theorems cover every arm count and nesting of the fragment, the correspondence every generated shape. Constructor freshness (channel `alias`, Props/C02Alias.lean): every evaluation of an array literal or other constructor of a mutable value allocates a fresh object (array_literal_allocates_fresh, array_literal_twice_distinct on the VM model and on the reference), checked on the real code by re-executing one call site with in-place mutation in between.",
    note="Trusted: Lean kernel; axioms propext/Classical.choice/Quot.sound. The models are hand-written and tied to zygo/generator.go, vm.go, environment.go, scopes.go, closing.go, stack.go, expressions.go only by the `eval` correspondence (differential testing): the theorems are about Model/Gen.lean + Model/VM.lean vs Spec/RefEval.lean, not about the Go code. The builtin semantics on values (Model/Prim.lean) are shared by model and reference. Partial: the execution half of the simulation is proved for the fragments Fv, Fc, F2, Fx and F2c only (Fc: builtin calls, array literals and for loops without break/continue; F2: defn/fn of fixed arity at any depth, closures capturing locals, calls of user functions by name, recursion, functions as values, with def/set/begin/cond/and/or/newScope/letseq/let/array literals/for loops and builtin calls - no fn/defn inside call operands, no self tail call, no break/continue; lazy parameters #p, force, apply and map included; Fx: F2 plus break/continue - plain or labelled - in top-level loops; F2c: Fx plus top-level defns with self tail calls and loops that break/continue in their bodies); an empty (newScope) is outside the fragment (the reference allocates a frame, the VM pushes nil without a scope: the index-by-index relation does not cover it); a parallel let with a repeated name is outside the fragment and, by Ref.wf, outside the property's domain (implementation/VM model bind the last name first: (let [a 1 a 2] a) = 1, a first-name-first reading gives 2). Infix surface syntax, floats, chars, hashes and `/` are outside the modelled core; break/continue inside call operands are outside the random generators' domain (known finding). The `compile` listing channel is not implemented (jump arithmetic is tied to the Go code through `eval` only).",
    technique="Lean 4 theorems over an executable model of generator+VM and a reference evaluator; 3-way model/spec/implementation correspondence through the line protocol (channels `eval` and `alias`)",
    design_ref="DESIGN.md §7 C02, §13",
)

HERE = os.path.dirname(os.path.dirname(os.path.abspath(__file__)))

def project(rec):
    """impl/model record -> what the reference evaluator predicts (class value trace)."""
    i = rec.rfind(" D[")
    return rec if i < 0 else rec[:i]

_TO = re.compile(r"timeout - T\[.*?\](?= D\[-\]| ;; |$)")   # trace entries may contain brackets (printed arrays)

def norm_timeout(ans):
    """The two sides bound work differently (calls vs steps): of a text that did not
    terminate only the class is compared, not how far the trace got."""
    return _TO.sub("timeout - T[*]", ans)

def judge(rows):
    """Per text of the history: impl vs spec on the projection (class value trace) wherever
    the spec answers; impl vs model on the full record. The spec column handed on to
    vcommon.correspondence is rewritten to the impl answer when every judged text agrees,
    so that its string comparison means 'some text disagrees'."""
    out, stats = [], {"texts": 0, "texts_judged_by_spec": 0, "ops_without_spec": 0, "impl_timeouts": 0}
    for op, impl, model, spec in rows:
        impl, model = norm_timeout(impl), norm_timeout(model)
        irecs, srecs = impl.split(" ;; "), spec.split(" ;; ")
        stats["texts"] += len(srecs)
        if impl.startswith("HOST"):
            out.append((op, impl, model, spec if spec != "-" else "(host crash)"))
            continue
        if impl == "hang":
            stats["impl_timeouts"] += 1
            if model.startswith("timeout") or " ;; timeout" in model:
                impl_for_model = model      # both do not terminate
            else:
                impl_for_model = impl
            if impl_for_model != impl:
                # implementation and model both do not terminate on some text of this history: the whole op
                # was killed, so the implementation's answers for the EARLIER texts are lost and the
                # reference cannot be compared text by text (false alarm met on a history whose 2nd text
                # recurses forever: the reference had answered the 1st text)
                stats["hang_histories_unjudged"] = stats.get("hang_histories_unjudged", 0) + 1
                out.append((op, impl_for_model, model, "-"))
            elif srecs[0] != "-":
                out.append((op, impl, model, spec))
            else:
                out.append((op, impl, model, "-"))
            continue
        ok, compared = True, 0
        for k, s in enumerate(srecs):
            if s == "-":
                break
            compared += 1
            if k >= len(irecs) or project(irecs[k]) != s:
                ok = False
                break
        stats["texts_judged_by_spec"] += compared
        if "timeout" in impl:
            stats["impl_timeouts"] += 1
        if compared == 0:
            stats["ops_without_spec"] += 1
            out.append((op, impl, model, "-"))
        elif ok:
            out.append((op, impl, model, impl))
        else:
            out.append((op, impl, model, spec))
    return out, stats

ALIAS_MOD = "ZygoVerif.Props.C02Alias"

def audit_alias(rep, prep, ok):
    """Props/C02Alias.lean (array literals are constructors; lemmas in Proofs/AliasFresh.lean) is a second
    home of C02 theorems: counted and axiom-audited like Props/C02.lean (lean_phase handles one module)."""
    path = os.path.join(V.LEAN, *ALIAS_MOD.split(".")) + ".lean"
    thms, examples = V.lean_decls(path)
    rep.obligations += len(thms) + examples
    rep.coverage["theorems"] = list(rep.coverage.get("theorems", [])) + thms
    rep.coverage["examples"] = rep.coverage.get("examples", 0) + examples
    if not prep["ok_lean"]:
        return
    with V.Lock():
        ax, raw = V.print_axioms(ALIAS_MOD, thms)
    bad = {t: a for t, a in ax.items() if set(a) - V.ALLOWED_AXIOMS}
    missing = [t for t in thms if t not in ax]
    rep.coverage["axioms"] = sorted(set(rep.coverage.get("axioms", [])) | {a for v in ax.values() for a in v})
    if bad or missing:
        rep.violation("proof-break", {"what": "axiom audit failed", "bad": bad, "unreported": missing,
                                      "theorem_or_correspondence": "#print axioms (%s)" % ALIAS_MOD, "raw": raw[-2000:]}, no_input=True)
    elif ok:
        rep.discharged = rep.obligations

def run(rep):
    # known findings proposed by this property (merged into known_findings.json by the integrator)
    try:
        with open(os.path.join(HERE, "notes", "C02.known.json")) as f:
            for k in json.load(f).get("findings", []):
                if k.get("property") == "C02" and not rep.match_known(k.get("key")):
                    rep.known.append(k)
    except FileNotFoundError:
        pass
    prep = V.prepare(["ZygoVerif.Props.C02", ALIAS_MOD])
    ok = V.lean_phase(rep, prep, "ZygoVerif.Props.C02")
    audit_alias(rep, prep, ok)
    rep.coverage["proved"] = ("for programs of every size and nesting (model of generator+VM vs reference evaluator): "
                              "layout: gen_begin_pops_between, gen_begin_length, gen_cond_targets (+asmCond_suffix), gen_shortcircuit_targets (+asmSC_suffix), gen_for_layout; "
                              "execution: vm_runLoop_step, vm_simple_instructions (push/pop/dup/jump/goto/branch as state transformers); "
                              "segment_lemma_F0c + F0c_total + compile_correct_F0c (pure control fragment: literals, begin, cond, and, or; explicit fuel 3*size+3); "
                              "segment_lemma_Fv + compile_correct_on_Fv (Fv = F0c + symbol reference + def + set + newScope + letseq + let with distinct names: values, errors, traces, effects on every scope, "
                              "simulation relation Sim.Rel between VM scope table / linear stack and reference frame table / static chain); "
                              "segment_lemma_Fc + compile_correct_on_Fc (Fc = Fv with non-builtin binder names + array literals + for loops without break/continue + calls of first-order builtins incl. trace, operands in nested runs: "
                              "relation Sim.RelC with the parent chain of helper functions, frame conditions, no value is a stack mark (Sim.Clean, prim_clean), existential fuel floor and instruction count); "
                              "segment_lemma_Ff + compile_correct_on_F2 (F2 = defn/fn of fixed arity or with a rest parameter at top level and nested (not inside call operands) + expressions with def/set/begin/cond/and/or/newScope/letseq/let/array literals/for loops and calls by name of user functions (closure objects), first-order builtins or non-callable values; closures capturing and assigning locals; recursion; functions as values: "
                              "relation Sim.RelF: values modulo the numbering of closures (Sim.tr, prim_tr: every first-order builtin commutes with it; Sim.ValIn: builtins invent no function id, builtin or mark), "
                              "live stack = callee scopes down to the function scope on top of the caller's stack (Sim.ChainF), stage 2 of the lookup along the closing stacks of the closure object and of its makers, each a segment of the static chain (Sim.FnChainF, RelF.lexLookup), "
                              "closure objects vs reference closures with their captured chains (Sim.GoodFn), templates compiled at load time (Sim.GenOk), CallFunction/prologue/body/epilogue in the caller's Run loop vs applyFn (Sim.fclaimU_succ), createClosure vs fn/defn (Sim.closure_step, simF_fn, simF_defn)); "
                              "segment_lemma_Fx + compile_correct_on_F2x (Fx = F2 + break/continue, plain or labelled, of enclosing for loops in top-level code, under begin/cond/let/letseq/newScope/nested loops: "
                              "a non-landing outcome Sim.SimX/Sim.JumpedF - the loop found by findLoopStart (findLoopStart_at: loop ids before the code are not the ones its compile allocates, Sim.LsOut), the scopes opened inside the loop popped (exec_brk/exec_cont, RelF.relin), control on the loop's clearMark / continue label, "
                              "the data stack only values above the loop's mark (GoodAbove, exec_clearMark_good/exec_popUntilMark_good); run-time loop contexts Sim.CtxF against the generator's loop stack Sim.GsOk, offsets stored after the body was compiled Sim.LoopsFinal; one loop with exits vs Ref.loop: Sim.XClaimF/xclaimF_succ, the for form: xclaimE_for); "
                              "tail_call_simulates + compile_correct_on_F2c (F2c = F2 forms + top-level defns whose bodies call the function itself in tail position under begin/cond/let/letseq/newScope: "
                              "fragment Sim.Fz, generator on tail positions compile_call_eq/compile_total_Fz, machine lemmas TailVM.exec_tailGuard_self/_other, exec_prepareCall_fixed, Sim.reach_removeScopes, entered_of; "
                              "outcome Sim.SimT = SimF or Sim.RetOut (the activation returned), the activation invariant Sim.InAct, operands inline Sim.TClaimV, Sim.simT_selfcall (guard passes: re-entry = ordinary application of the same closure via FClaimU; guard fails: the ordinary call), "
                              "claims Sim.TClaimE/B/C/N, FClaimU over tail-position bodies Sim.fclaimU_succ); "
                              "compile_correct_on_F3lazy + lazy_semantics_on_F3lazy (F3-lazy = F2 and F2c whose fn/defn may declare lazy parameters #p and whose programs may call force: "
                              "relation Sim.RelF.lz between the table of lazy argument objects and the table of thunks (Sim.LzOk: same expression, the captured scope stack is the static chain of the thunk's frame and goes on along the closing stacks of the function of the call site, memos related), "
                              "PrepareCallExprArgs and PushLazyArgInstr at lazy positions vs Ref.evalArgs (FClaimA with the delayed positions, TClaimV for the inline operands of a self tail call, isLazyVM_clo/isLazyVM_eq: machine, generator and reference delay the same positions), "
                              "Force vs Ref.force (Sim.force_sim: compiled at force time, helper function closed over the captured stack - FnChainF.sfx, relF_inForce - live stack set aside and restored from `suspended`, memo in the same slot of both tables RelF.memo; Sim.fclaimG: a call of `force`; the induction carries the segment lemma at all lower fuels)); "
                              "compile_correct_on_F3 (apply and map in F2/F2c, callee a closure object or a Go builtin, arrays and lists: Sim.BOk/BClaim - a Go builtin inside its frame against Ref.applyFn -, bclaim_fo, bclaim_force, bclaim_apply, bclaim_map, "
                              "AClaim/aclaim_succ - Apply from the builtin's frame against Ref.applyValues: vm_applyFn_fn, wrapVals/wrapLz and RelF.allocVals for the already forced lazy argument objects, run_reach_halt, FClaimU at lower fuel with the caller function carried separately (St.withCur) -, "
                              "MArrClaim/MListClaim, hclaims: all of them by induction on the reference fuel from the segment lemma and FClaimU at lower fuels, fclaimH_of_bclaim: operands, CallUserFunction, builtin, value pushed); "
                              "compile_correct_on_F2c_nested (nested defn statements with F2c bodies: Sim.Fs, fs_cases, total_stmt in the mutual generator-totality block, simF_defnZ, the defn cases of simF_stmt/tclaimE_succ); "
                              "compile_correct_on_F2heads (computed call heads: ff_call_nonsym, compile_call_nonsym, SimVia, simF_call_fn/_builtin/_arr/_other and fclaimH_of_bclaim over an arbitrary call instruction with the callee already evaluated, simF_callV, simF_callE, ref_eval_call); "
                              "compile_correct_partial: CompileCorrect on Fv, on Fc, on F2, on Fx and on F2c (F2/F2c with lazy parameters, force, apply, map), and CompileCorrect follows from CompileCorrectOutsideProved; "
                              "constructor freshness (Props/C02Alias.lean): array_literal_code_ends_in_constructor, array_literal_allocates_fresh, array_literal_twice_distinct, builtin_never_shrinks_heap, alloc_never_reuses, "
                              "heap_monotone_partial, ref_array_literal_allocates_fresh, ref_const_literal_twice_distinct")
    rep.coverage["not_proved"] = ("CompileCorrectOutsideProved (def ... : Prop in Props/C02.lean): CompileCorrect for programs that are in none of Fv, Fc, F2, Fx, F2c (F2/F2c include lazy parameters, force, apply and map) - "
                                  "fn/defn inside an operand of a call, a self call in a directly compiled non-tail position, a self tail call or break/continue inside a function that is not a defn/fn statement or last form of a function body (under def/set, in a loop body, in an operand), "
                                  "substitute, empty newScope. "
                                  "Alias.HeapMonotoneAll (def ... : Prop in Proofs/AliasFresh.lean): every instruction of the VM keeps the state closed and never shrinks the data heap (proved for the literal's allocation and for every builtin only). "
                                  "Held by the 3-way `eval` and `alias` correspondences of this run, not by a theorem. The tie of Model/Gen.lean and Model/VM.lean to the Go code is by that correspondence only.")
    rep.assumptions += [
        "Model/Gen.lean, Model/VM.lean are hand-written; tied to the Go code by the `eval` correspondence only (class, value, trace, four stack depths per text)",
        "Model/Prim.lean (what the builtins compute on values, truthiness, the BindSymbol re-binding rule) is shared by model and reference evaluator",
        "the reference evaluator enters the new frame before evaluating let initialisers, treats an array in head position as an error after evaluating the operands, and yields a non-function head applied to no operands as that value (documented language behaviour)",
        "domain of the random generators: s-expression syntax, ints/bools/strings/lists/arrays/closures; no infix, floats, chars, hashes, `/`; no break/continue inside call operands (known finding)",
        "programs whose reference evaluation runs out of fuel are judged against the model only",
        "the two evaluators number closures differently (VM: index in the function table, which also holds templates and helper functions; reference: index in its closure table); nothing observable shows the number (functions print as `fn`, comparisons refuse them): the F2 theorems relate values modulo that renaming",
        "a parallel `let` with a repeated name, e.g. (let [a 1 a 2] a), is outside the property's domain (Ref.wf demands pairwise distinct names; the usual Lisp reading: a syntax error): the implementation binds the last name first and yields 1, a first-name-first reading yields 2; letseq may repeat names",
    ]
    if not (prep["ok_drv"] and prep["ok_harness"]):
        rep.violation("machinery-failure", {"what": "driver or harness did not build against the current tree",
                      "theorem_or_correspondence": "build of zydrv/zyh", "log": (prep["drv_out"] + prep["harness_out"])[-3000:]}, no_input=True)
        return
    rows, stats = V.run_channel("eval", rep.seed, rep.tier)
    rows, jstats = judge(rows)
    def nontrivial(op, impl):
        return impl.startswith("ok") or " ;; ok" in impl
    bad_spec, bad_model = V.correspondence(rep, "eval", rows, stats, nontrivial=nontrivial)
    rep.coverage["channels"]["eval"].update(jstats)
    rep.coverage["exhaustive"] = False
    rep.coverage["rule"] = ("histories of 1-3 program texts: hand-written shapes, type-directed programs over name pools of 2-3 names "
                            "(all core forms, nesting to ~6, up to ~100 nodes, boundary ints), a malformed stream (one tree mutation), and the exhaustive "
                            "set of nesting-1 expressions over {0,1,a} x {+ cond and or let begin def set} (nesting 2 sampled in quick, complete in thorough); "
                            "an op is non-trivial when at least one text evaluated to a value")
    # channel `alias`: constructor freshness / aliasing (harness/gen_alias.go, Driver/Alias.lean): same protocol, same judge
    arows, astats = V.run_channel("alias", rep.seed, rep.tier)
    arows, ajstats = judge(arows)
    abad_spec, abad_model = V.correspondence(rep, "alias", arows, astats, nontrivial=nontrivial)
    rep.coverage["channels"]["alias"].update(ajstats)
    rep.coverage["rule_alias"] = ("constructor freshness / aliasing: every expression form that constructs a mutable value (22 kinds: constant / variable / computed / nested array literals, "
                                  "(array ..), lists and conses holding arrays, append, concat, map, rest, a literal returned by a helper, in a cond arm, as a let initialiser) x every evaluated position "
                                  "(28 kinds: operand of user fn / closure / anonymous fn / host fn / builtin / apply / map, variadic and lazy operands, def/set rhs, let/letseq initialiser and body, begin, newScope, "
                                  "cond arm and default, and/or, aget default; nested up to 3) x re-execution route (fn called twice, called by later texts of the history, for body, for body in a fn called twice, "
                                  "recursion, self tail call, closure called after its creator returned, two closures of one template, map, written twice) x in-place mutation between the executions "
                                  "(aset at each index, through an alias, through a callee's parameter, increment, inside the callee the value was passed to, none) x observation (earlier result, later result, both, "
                                  "equality of an element, identity, trace); plus derived values (append/concat/map of a variable must not share storage with it, both directions, spare capacity) and a malformed stream; "
                                  "quick: every constructor x position pair once, a third of constructor x route x mutation, 250 random; thorough: all of them")
    V.proof_break_resolution(rep, bool(bad_spec) or bool(abad_spec))
