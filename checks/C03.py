"""C03 — lexical scoping: closures capture where they were made, never the caller.

Lean: Props/C03.lean (theorems about the scope machinery of the VM model, Model/VM.lean:
lexLookup and its three stages, NewClosing, scope allocation, closure creation), lemmas in
Proofs/Scope.lean; Spec/RefEval.lean is the reference (closures by environment pointer).
Tie: channel `scope` (generator harness/gen_scope.go; Exec and Lean driver logic of channel
`eval`): impl vs VM model on class/value/trace/stack depths, impl vs reference evaluator on
class/value/trace."""
import importlib.util, json, os
import vcommon as V

META = dict(
    text="(filled in below)",
    note="",
    technique="Lean 4 theorems over the executable model of the VM's scope machinery; 3-way model/spec/implementation correspondence through the line protocol",
    design_ref="DESIGN.md §7 C03, §13 (Lookup, Calls, Function prologue/epilogue)",
)

HERE = os.path.dirname(os.path.dirname(os.path.abspath(__file__)))


def _c02():
    spec = importlib.util.spec_from_file_location("check_C02_for_C03", os.path.join(HERE, "checks", "C02.py"))
    mod = importlib.util.module_from_spec(spec)
    spec.loader.exec_module(mod)
    return mod


def run(rep):
    try:
        with open(os.path.join(HERE, "notes", "C03.known.json")) as f:
            for k in json.load(f).get("findings", []):
                if k.get("property") == "C03" and not rep.match_known(k.get("key")):
                    rep.known.append(k)
    except FileNotFoundError:
        pass
    prep = V.prepare(["ZygoVerif.Props.C03"])
    V.lean_phase(rep, prep, "ZygoVerif.Props.C03")
    if not (prep["ok_drv"] and prep["ok_harness"]):
        rep.violation("machinery-failure", {"what": "driver or harness did not build against the current tree",
                      "theorem_or_correspondence": "build of zydrv/zyh", "log": (prep["drv_out"] + prep["harness_out"])[-3000:]}, no_input=True)
        return
    judge = _c02().judge
    rows, stats = V.run_channel("scope", rep.seed, rep.tier)
    rows, jstats = judge(rows)

    def nontrivial(op, impl):
        return impl.startswith("ok") or " ;; ok" in impl
    bad_spec, bad_model = V.correspondence(rep, "scope", rows, stats, nontrivial=nontrivial)
    rep.coverage["channels"]["scope"].update(jstats)
    V.proof_break_resolution(rep, bool(bad_spec))
