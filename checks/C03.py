"""C03 — lexical scoping: closures capture where they were made, never the caller.

Lean: Props/C03.lean (theorems about the scope machinery of the VM model, Model/VM.lean:
lexLookup and its three stages, NewClosing, scope allocation, closure creation, for all
states / programs / fuel), lemmas in Proofs/Scope.lean (lookups as first-binding searches),
Proofs/ScopeInv.lean (invariants WF/Ext preserved by every function of the VM's mutual
block), Proofs/ScopeGen.lean (the generator only extends the function table),
Proofs/ScopeSim.lean (Sim, lookup_sound); Spec/RefEval.lean is the reference (closures by
environment pointer).  Tie: channel `scope` (generator harness/gen_scope.go; Exec and record
format of channel `eval`; Driver/Scope.lean): impl vs VM model on class/value/trace/four
stack depths, impl vs reference evaluator on class/value/trace.
Props/C03Sim.lean (+ Proofs/ScopeSimF.lean) connects these theorems to the C02 simulation proofs
(Props/C02.lean, Proofs/SimF2*.lean): on the proved fragment lexical scoping is a theorem
(lexical_scoping_on_fragment and five corollaries), Sim.RelF implies C03's Sim up to the order of
bindings (simX_of_relF), preservation per expression (sim_preserved_on_fragment). It is a second
home of C03 theorems, counted and axiom-audited by audit_sim."""
import importlib.util, json, os
import vcommon as V

META = dict(
    text="Lean 4. Proved about the executable model of the VM's scope machinery (Model/VM.lean: LexicalLookupSymbol with its three stages, LookupSymbolUntilFunction, the parent chain of closures, NewClosing, AddScope/AddFuncScope/RemoveScope/CreateClosure, and the whole mutual block Run/exec/CallResolved/Apply/Force around them), for all states, programs, histories and fuel: (1) shadowing_innermost_first / lookup_none_iff — a lookup returns the first scope binding the name along an explicit search list (live scopes of the current activation down to its function scope, then the captured scopes of the running closure and of its creators, then the template's captured scopes); (2) no_dynamic_leak / never_a_callers_local — the scope found is above the innermost live function boundary or captured, never a caller's local (a live scope below the boundary that was not captured); createClosure_captures / closure_captures_no_caller_local — CreateClosure stores exactly the part of the live stack above the boundary; (3) fresh_activation — AddScope/AddFuncScope push a scope id held by no stack, closure or lazy argument, with no variables, from the invariant WF (all ids below the table size) which every function of the VM preserves (wf_preserved, wf_reachable, by induction on fuel over the 13 mutually recursive functions and over the 8 mutually recursive generator functions); function code starts with AddFuncScope and a self tail call re-enters at instruction 0; (4) capture_by_reference / shared_update — closures created while the live stack is the same hold the same scope ids, an assignment through one is read by the other; (5) capture_outlives / pop_keeps_cells — no function of the VM removes a scope cell, changes a boundary flag, or changes the captured stack or parent of an existing closure; (6) lookup_sound — under the explicit simulation relation Sim between a VM state and a reference environment the two lookups agree; per instruction, preservation of Sim is proved for entering a scope only (sim_preserved_partial; SimPreservedFull stays a visible Prop); (7) Props/C03Sim.lean, on the fragment for which the C02 simulation proofs hold (fn/defn anywhere except inside call operands, closures capturing and assigning locals, functions as values, recursion, rest parameters, self tail calls, break/continue, lazy parameters and force, apply/map): lexical_scoping_on_fragment — the VM model computes what the reference evaluator (closure = code + frame pointer at creation, fresh frame per activation/let/loop, static-chain lookup) computes, value / error class / trace, for programs of every size — with the five clauses of the property as corollaries on program families parameterised by the values (free_variables_see_creation_site, closures_of_one_activation_share, fresh_variables_per_activation, captured_outlives_activation, tail_call_gets_fresh_scope); simX_of_relF — the relation Sim.RelF those proofs maintain implies Sim up to the order of bindings in a frame, so sim_preserved_on_fragment: after the whole code of any expression of the fragment (scopes left, def/set, closures made, calls, returns, tail calls, apply/map, lazy arguments) the states are related again and the lookups agree. The model is tied to the Go code by channel `scope`: histories of program texts against one interpreter, every name (ints, closures, makers, arrays of closures, loop counters, parameters, defn names) drawn from ONE pool of 2-3 names with a static type environment, 56 shape templates under colliding name assignments (among them six activation trees: every level of a nest of makers instantiated by several activations of the level above, leaves observed after their siblings exist), and an exhaustive small scope (all programs of up to three nested scope constructs let/letseq/call/defn/newScope/for/def-in-fn/self-tail-call over the names a b, with capture at every level, mutation after capture, observation from the innermost point and after everything returned); implementation vs VM model on class/value/trace/four stack depths, implementation vs reference evaluator on class/value/trace. A unit test pins about twenty nestings; the theorems cover every state, the correspondence every generated shape.",
    note="Trusted: Lean kernel; axioms propext/Classical.choice/Quot.sound. The theorems are about the hand-written model; it is tied to zygo/{environment,scopes,closing,vm,generator,expressions,stack}.go only by the `scope` (and C02's `eval`) correspondence, i.e. by differential testing. Model/Prim.lean (builtins on values) and the elaborator are shared by model and reference. Partial: per instruction, preservation of Sim is proved only for AddScope (SimPreservedFull is not proved). The end-to-end statement 'VM lookup = reference lookup after every expression, VM result = reference result' is a theorem on the proved fragment (Props/C03Sim.lean, resting on the 25 k lines of Proofs/Sim*.lean audited with it); outside it (fn/defn inside call operands, a self call in a directly compiled non-tail position, substitute, empty newScope: C02.CompileCorrectOutsideProved) leaving a scope, def/set, closure creation, call/return/tail call, apply/map, lazy arguments are held by the 3-way correspondence only. RelF gives Sim only up to the order of bindings inside a frame (SimX; simX_not_sim). Reachable is closed under whole texts and under exec/run/apply/force applied to reachable states, not under every intermediate state inside an instruction. The fix C03-01 test is syntactic: a name re-bound by a macro expansion or assigned from another function while the function is in a self-tail-call loop is not seen. Outside the modelled core: infix syntax, macros, packages, eval, hashes, floats.",
    technique="Lean 4 theorems (invariants by induction on fuel over the VM's mutual block and by structural induction over the generator) on an executable model; 3-way model/spec/implementation correspondence through the line protocol with a collision-directed generator and an exhaustive small scope",
    design_ref="DESIGN.md §7 C03, §13 (Lookup, Calls, Function prologue/epilogue)",
)

HERE = os.path.dirname(os.path.dirname(os.path.abspath(__file__)))


def _c02():
    spec = importlib.util.spec_from_file_location("check_C02_for_C03", os.path.join(HERE, "checks", "C02.py"))
    mod = importlib.util.module_from_spec(spec)
    spec.loader.exec_module(mod)
    return mod


SIM_MOD = "ZygoVerif.Props.C03Sim"


def audit_sim(rep, prep, ok):
    """Props/C03Sim.lean (lexical scoping on the fragment proved by the C02 simulation; lemmas in
    Proofs/ScopeSimF.lean) is a second home of C03 theorems: counted and axiom-audited like
    Props/C03.lean (lean_phase handles one module). Same shape as checks/C02.py: audit_alias."""
    path = os.path.join(V.LEAN, *SIM_MOD.split(".")) + ".lean"
    thms, examples = V.lean_decls(path)
    rep.obligations += len(thms) + examples
    rep.coverage["theorems"] = list(rep.coverage.get("theorems", [])) + thms
    rep.coverage["examples"] = rep.coverage.get("examples", 0) + examples
    required = ["lexical_scoping_on_fragment", "free_variables_see_creation_site", "closures_of_one_activation_share",
                "fresh_variables_per_activation", "captured_outlives_activation", "tail_call_gets_fresh_scope",
                "simX_of_relF", "sim_preserved_on_fragment"]
    gone = [t for t in required if "ZygoVerif.C03." + t not in thms]
    if gone:
        rep.violation("proof-break", {"what": "a headline theorem of Props/C03Sim.lean is missing", "missing": gone,
                                      "theorem_or_correspondence": SIM_MOD}, no_input=True)
        return
    if not prep["ok_lean"]:
        return
    with V.Lock():
        ax, raw = V.print_axioms(SIM_MOD, thms)
    bad = {t: a for t, a in ax.items() if set(a) - V.ALLOWED_AXIOMS}
    missing = [t for t in thms if t not in ax]
    rep.coverage["axioms"] = sorted(set(rep.coverage.get("axioms", [])) | {a for v in ax.values() for a in v})
    if bad or missing:
        rep.violation("proof-break", {"what": "axiom audit failed", "bad": bad, "unreported": missing,
                                      "theorem_or_correspondence": "#print axioms (%s)" % SIM_MOD, "raw": raw[-2000:]}, no_input=True)
    elif ok:
        rep.discharged = rep.obligations


def settle_hangs(rows):
    """The harness answers `hang` for a whole history when its wall-clock watchdog fires (a
    self tail call is a jump: no call budget sees the loop). If the reference evaluator ran out
    of fuel on some text of that history and the model times out on the same text, the program
    does not terminate under any of the three: there is nothing to judge (and the texts before
    it cannot be compared, the per-text answers of the implementation being lost). Such an op
    is compared as model = implementation, without a spec answer. A hang anywhere else stays a
    hang and is judged by C02's `judge` (a failing input when the reference terminates)."""
    out, n = [], 0
    for op, impl, model, spec in rows:
        if impl == "hang":
            srecs, mrecs = spec.split(" ;; "), model.split(" ;; ")
            k = next((i for i, r in enumerate(srecs) if r == "-"), None)
            if k is not None and k < len(mrecs) and mrecs[k].startswith("timeout"):
                n += 1
                out.append((op, model, model, "-"))
                continue
        out.append((op, impl, model, spec))
    return out, n


def run(rep):
    try:
        with open(os.path.join(HERE, "notes", "C03.known.json")) as f:
            for k in json.load(f).get("findings", []):
                if k.get("property") == "C03" and not rep.match_known(k.get("key")):
                    rep.known.append(k)
    except FileNotFoundError:
        pass
    prep = V.prepare(["ZygoVerif.Props.C03", SIM_MOD])
    ok = V.lean_phase(rep, prep, "ZygoVerif.Props.C03")
    audit_sim(rep, prep, ok)
    rep.coverage["proved"] = ("shadowing_innermost_first, lookup_none_iff, live_scope_shadows_captured; no_dynamic_leak, never_a_callers_local, "
                              "createClosure_captures, closure_captures_no_caller_local, captured_reads_as_live; wf_preserved(+_run,_text), wf_reachable, "
                              "fresh_activation, function_code_starts_with_addFuncScope, self_tail_call_reenters_at_zero; closingNow_congr, "
                              "capture_by_reference, shared_update; capture_outlives(+_run,_text), pop_keeps_cells; lookup_sound, sim_preserved_partial; "
                              "selfname_shadowed_counterexample / _is_ordinary_call / selfname_as_value_keeps_jump (fix C03-01); "
                              "Props/C03Sim.lean (on the fragment proved by the C02 simulation - fn/defn anywhere except inside call operands, closures capturing and assigning locals, "
                              "functions as values, recursion, rest parameters, self tail calls, break/continue, lazy parameters + force, apply/map): lexical_scoping_on_fragment "
                              "(VM model = reference evaluator on value / error class / trace; the reference evaluator - closure = code + frame pointer, fresh frame per activation/let/loop, "
                              "static-chain lookup - is the definition of lexical scoping); corollaries on program families parameterised by the values, reference side evaluated by simp, "
                              "machine side by the theorem: free_variables_see_creation_site, closures_of_one_activation_share, fresh_variables_per_activation, captured_outlives_activation, "
                              "tail_call_gets_fresh_scope (F2c, not F2: progTail_notF2); simX_of_relF (Sim.RelF implies C03's Sim with rho = id, phi = trf m, up to the ORDER of bindings "
                              "inside a frame: SimX; simX_not_sim shows the difference is real; chain field by Scope.chainF_refChain / fnChainF_dedup over ChainF / FnChainF), "
                              "lookup_sound_x, lookup_agrees_under_relF, sim_preserved_on_fragment (per EXPRESSION of the fragment: after the whole code of the expression - scopes entered "
                              "and left, def/set, closures made, calls and returns, self tail calls inside callees, apply/map, lazy arguments - the states are related again)")
    rep.coverage["not_proved"] = ("SimPreservedFull (def ... : Prop in Props/C03.lean; per INSTRUCTION, from every related state): proved for AddScope only (sim_preserved_partial). "
                                  "On the proved fragment its content is a theorem at the granularity of one expression (sim_preserved_on_fragment, from Sim.RelF's preservation: "
                                  "RemoveScope, def/set, CreateClosure, call/return/self tail call, apply/map, lazy arguments included). Still outside, held by the `scope` correspondence "
                                  "of this run only: programs outside the proved fragments (C02.CompileCorrectOutsideProved: fn/defn inside the operands of a call - templates made at run "
                                  "time close over the dynamic stack -, a self call in a directly compiled non-tail position, substitute, empty newScope), the per-instruction form, "
                                  "and the order of bindings inside a frame (Sim vs SimX; irrelevant to lookups)")
    rep.assumptions += [
        "Model/VM.lean, Model/Gen.lean are hand-written; tied to the Go code by the `scope` correspondence (class, value, trace, four stack depths per text) and by C02's `eval` correspondence",
        "Model/Prim.lean (builtins on values, truthiness, the BindSymbol re-binding rule) and the elaborator are shared by model and reference evaluator",
        "domain: s-expression syntax; ints, closures, arrays/lists of closures; fn/defn/let/letseq/newScope/for/def/set/cond/begin, map/apply/aget/append/concat/first/second/list; no infix, macros, eval, hashes",
        "programs whose reference evaluation runs out of fuel are judged against the model only (none in the quick tier of seed 1)",
        "the channel's own fuel (Driver/Scope.lean: 6000 instructions per run, reference depth 1500) bounds programs much earlier than channel eval; the generator's rank discipline makes non-terminating programs rare",
    ]
    if not (prep["ok_drv"] and prep["ok_harness"]):
        rep.violation("machinery-failure", {"what": "driver or harness did not build against the current tree",
                      "theorem_or_correspondence": "build of zydrv/zyh", "log": (prep["drv_out"] + prep["harness_out"])[-3000:]}, no_input=True)
        return
    judge = _c02().judge
    rows, stats = V.run_channel("scope", rep.seed, rep.tier)
    rows, nonterm = settle_hangs(rows)
    rows, jstats = judge(rows)
    jstats["hang_where_reference_and_model_do_not_terminate_either"] = nonterm

    def nontrivial(op, impl):
        return impl.startswith("ok") or " ;; ok" in impl
    bad_spec, bad_model = V.correspondence(rep, "scope", rows, stats, nontrivial=nontrivial)
    rep.coverage["channels"]["scope"].update(jstats)
    rep.coverage["channels"]["scope"]["ops_with_an_error_text"] = sum(1 for r in rows if r[1].startswith("err") or " ;; err" in r[1] or r[1].startswith("cerr") or " ;; cerr" in r[1])
    rep.coverage["exhaustive"] = rep.tier == "thorough"
    rep.coverage["rule"] = ("histories of 1-3 texts against one interpreter. Streams: 19 hand-written ops; ~50 shape templates x name assignments from a pool of 2-3 "
                            "names (collisions included); typed random programs where EVERY name comes from one pool of 2-3 names (static type environment, "
                            "termination by a rank discipline); small scope = all programs of k nested scope constructs (8 kinds x 2 names x 2 initialisers x 3 "
                            "mutations = 96 per level) with a capture at every level: k=1 complete, k=2 complete in thorough (700 sampled in quick), k=3 over the "
                            "reduced mutation alphabet: a quarter per seed in thorough (all 393 216 with VERIF_SCOPE_FULL=1), 600 sampled in quick. "
                            "`typed op: …` counters say how many typed ops exercise each feature; an op is non-trivial when at least one text evaluated to a value")
    V.proof_break_resolution(rep, bool(bad_spec))
