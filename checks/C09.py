"""C09 — tail calls are free and invisible (first version; see notes/C09.md)."""
import json, os, re
import vcommon as V

META = dict(text="(being built)", note="", technique="Lean 4 theorems + 3-way correspondence", design_ref="DESIGN.md §7 C09")
HERE = os.path.dirname(os.path.dirname(os.path.abspath(__file__)))

_P = re.compile(r"(P[^:,\]\*]*):(\d+/\d+/\d+)")
_TO = re.compile(r"timeout - T\[[^\]]*\]")

_T = re.compile(r"T\[([^\]]*)\]")
_CNT = re.compile(r"^(.*)\*(\d+)$")

def _entries(body):
    """run-length encoded trace body -> [(entry, count)]"""
    out = []
    if body == "":
        return out
    for e in body.split(","):
        m = _CNT.match(e)
        out.append((m.group(1), int(m.group(2))) if m else (e, 1))
    return out

def _encode(entries):
    merged = []
    for e, c in entries:
        if merged and merged[-1][0] == e:
            merged[-1][1] += c
        else:
            merged.append([e, c])
    return ",".join(e if c == 1 else "%s*%d" % (e, c) for e, c in merged)

def strip_depths(rec):
    """impl/model record -> what the reference evaluator predicts: class value T[trace];
    probe entries lose their depth triple (the trace is re-encoded afterwards)."""
    i = rec.rfind(" D[")
    if i >= 0:
        rec = rec[:i]
    def fix(m):
        return "T[" + _encode([(_P.sub(lambda q: q.group(1), e), c) for e, c in _entries(m.group(1))]) + "]"
    return _T.sub(fix, rec)

def value_only(rec):
    p = rec.split(" T[", 1)[0]
    return p

def probes(rec):
    """{site: set(triples)} of one record."""
    out = {}
    for m in _P.finditer(rec):
        out.setdefault(m.group(1), set()).add(m.group(2))
    return out

def judge(rows):
    out = []
    st = {"texts": 0, "texts_judged_by_reference": 0, "texts_judged_by_closed_form": 0, "texts_compared_with_model": 0,
          "space_judged_ops": 0, "probe_sites_judged": 0, "probe_samples_max_depth_ops": 0, "impl_hangs": 0}
    for op, impl, model, spec in rows:
        toks = op.split(" ")
        space = "+space" in toks
        if impl.startswith("HOST"):
            out.append((op, impl, model, "(host crash)")); continue
        if impl == "hang":
            # the real code did not come back within the watchdog: agrees with a model that ran out
            # of fuel; the spec side objects whenever it has an answer for some text
            st["impl_hangs"] += 1
            model_col = impl if (model.startswith("timeout") or " ;; timeout" in model) else model
            has_spec = any(r != "-" for r in spec.split(" ;; "))
            out.append((op, impl, model_col, ("REQUIRED " + spec) if has_spec else "-")); continue
        irecs, mrecs, srecs = impl.split(" ;; "), model.split(" ;; "), spec.split(" ;; ")
        st["texts"] += len(irecs)
        bad_spec, bad_model = None, None
        for k, ir in enumerate(irecs):
            ir_n = _TO.sub("timeout - T[*]", ir)
            s = srecs[k] if k < len(srecs) else "-"
            if s != "-":
                if s.endswith(" T[*]"):
                    st["texts_judged_by_closed_form"] += 1
                    if value_only(ir_n) != value_only(s):
                        bad_spec = bad_spec or "text %d: closed form %s" % (k, s)
                else:
                    st["texts_judged_by_reference"] += 1
                    if strip_depths(ir_n) != s:
                        bad_spec = bad_spec or "text %d: reference %s" % (k, s)
            m = mrecs[k] if k < len(mrecs) else "-"
            if m != "-":
                st["texts_compared_with_model"] += 1
                if _TO.sub("timeout - T[*]", m) != ir_n:
                    bad_model = bad_model or "text %d: model %s" % (k, m)
        if space:
            st["space_judged_ops"] += 1
            sites = {}
            for ir in irecs:
                for site, tr in probes(ir).items():
                    sites.setdefault(site, set()).update(tr)
            st["probe_sites_judged"] += len(sites)
            for site, tr in sorted(sites.items()):
                if len(tr) != 1:
                    bad_spec = bad_spec or "space: probe site %s must report one depth triple (data/scope/addr) at every re-entry and for every recursion depth; saw %s" % (site, sorted(tr))
        spec_col = impl if bad_spec is None else "REQUIRED " + bad_spec
        model_col = impl if bad_model is None else model
        out.append((op, impl, model_col, spec_col))
    return out, st

def run(rep):
    try:
        with open(os.path.join(HERE, "notes", "C09.known.json")) as f:
            for k in json.load(f).get("findings", []):
                if k.get("property") == "C09" and not rep.match_known(k.get("key")):
                    rep.known.append(k)
    except FileNotFoundError:
        pass
    prep = V.prepare(["ZygoVerif.Props.C09"])
    ok = V.lean_phase(rep, prep, "ZygoVerif.Props.C09")
    if not (prep["ok_drv"] and prep["ok_harness"]):
        rep.violation("machinery-failure", {"what": "driver or harness did not build against the current tree",
                      "theorem_or_correspondence": "build of zydrv/zyh", "log": (prep["drv_out"] + prep["harness_out"])[-3000:]}, no_input=True)
        return
    rows, stats = V.run_channel("tail", rep.seed, rep.tier)
    rows, jstats = judge(rows)
    nontrivial = lambda op, impl: impl.startswith("ok") or " ;; ok" in impl
    bad_spec, bad_model = V.correspondence(rep, "tail", rows, stats, nontrivial=nontrivial)
    rep.coverage["channels"]["tail"].update(jstats)
    V.proof_break_resolution(rep, bool(bad_spec))
