"""C09 — tail calls are free and invisible.

Lean: Spec/TailPos.lean (tail position, from the property text), Proofs/Tail.lean (generator:
which context every sub-expression is compiled under), Proofs/TailVM.lean (the tail sequence
on the real loop of the VM model), Model/LegacyTail.lean (pre-fc05fc7 sequence),
Props/C09.lean (the theorems). Tie: channel `tail` — histories "definitions, then the same
call at growing depths" against one interpreter with the host functions `trace` and
`probe`; implementation vs VM model on class/value/trace/stack depths at every probe;
implementation vs reference evaluator (no tail-call optimisation) on class/value/trace;
implementation vs closed forms beyond the reference's fuel; implementation vs its own unoptimised twin
(the same function bound by (def ff (fn ...))); and the space oracle (one depth
triple per probe site over all iterations and all depths of a history)."""
import json, os, re
import vcommon as V

META = dict(
    text="Lean 4. Tail position is defined from the property text as an inductive relation over the abstract syntax (Spec/TailPos.lean: last form of cond arms/default, begin, let, letseq, newScope bodies, last arm of and/or, nested arbitrarily; k = scopes crossed). About the executable model of the generator (Model/Gen.lean, one function per Generate*) it is proved, for bodies of every size and nesting: a self call in tail position is compiled to operands; PrepareCall; RemoveScope x (k+1); Goto 0 when the operand count fits, to one ordinary call (arity error at run time) when it does not (tail_position_gets_tail_sequence, self_call_wrong_arity, tail_sequence_layout: the pop count is exactly the scopes opened since function entry plus the function scope); a call reached through at least one non-tail step (cond test, non-last statement/arm, let initialiser, array element, def/set/assignment right-hand side) is compiled to one ordinary CallExpr, never to a jump (tail_flag_only_in_tail_position, with flag_mono: no Generate* ever sets the flag); every inline occurrence is one or the other (self_call_dichotomy). About the VM model (Model/VM.lean) it is proved on the real loop runLoop: from the tail sequence the machine reaches instruction 0 of the same function after k+3 steps with the data, scope and address stack depths of the original entry, fixed and variadic parameter lists, touching neither scope table, heap nor trace (tail_call_reenters_at_entry_depths); hence by induction on the number of iterations every re-entry has the depths of the first (tail_call_constant_space_partial, assuming the body stretch between entry and tail sequence is balanced; tail_call_constant_space_same_activation, with no such assumption, for every entry state that satisfies the run-time invariant of C04's calling contract: whatever the activation does before it returns - nested calls, callees with tail calls of their own, any number of its own tail sequences - whenever it stands at instruction 0 again it has the data, scope and address depths of its entry). The statement over all loaded programs as first written is false (it confuses a later activation at the same address depth with the same activation) and is kept as TailCallConstantSpace_asFirstStated; the repaired TailCallConstantSpace (every loaded program of the model generator's grammar, every called function, any number of iterations) is proved: tail_call_constant_space_full, via loaded_invariant (every state such a program reaches satisfies the invariant, the top-level text being the bottom activation). Transparency: TcoTransparent (VM model = reference evaluator) is stated, not proved; proved parts (tco_transparent_partial): no continuation is ever dropped, the tail sequence changes only pc/scope stack/packed operands, and the next iteration binds its parameters in a scope that did not exist before, so no scope captured by an earlier closure is written; the pre-fc05fc7 sequence (Goto 1) does write it (legacy_tail_call_rebinds_captured_scope_counterexample). The unit tests run depth 4 and 11 and look at one stack afterwards; the theorems cover every depth and nesting, and the correspondence runs depths 0..10^5 (thorough 10^6) sampling all three stacks at every re-entry, comparing each shape with the reference evaluator and, on the real code, with the same function bound anonymously (no optimisation).",
    note="Trusted: Lean kernel; axioms propext/Classical.choice/Quot.sound. Model/Gen.lean and Model/VM.lean are hand-written and tied to zygo/generator.go, vm.go, environment.go only by the `tail` (and C02's `eval`) correspondence: differential testing, not proof. The space theorem covers programs of the model generator's grammar (Bal.okLs) loaded into a fresh interpreter, successful steps of the model's loop; for the real interpreter and for forms outside the grammar the depths are held by the probe oracle on implementation and model; TcoTransparent is not proved (needs C02's CompileCorrect for the F3 fragment) and is held by the 3-way correspondence. Tail contexts outside the modelled core (package, return, macro expansions, infix blocks) are not covered by the theorems; `for` parts are non-tail in the model but have no step lemma. Constant space is a statement about the three interpreter stacks, not about Go heap use (closure creation in a loop is not constant-time in this interpreter: GenSymbol scans).",
    technique="Lean 4 theorems over an executable model of generator+VM and an independent definition of tail position; 3-way model/reference/implementation correspondence with stack-depth probes through the line protocol",
    design_ref="DESIGN.md §7 C09, §13; notes/C09.md",
)

HERE = os.path.dirname(os.path.dirname(os.path.abspath(__file__)))

_P = re.compile(r"(P[^:,\]\*]*):(\d+/\d+/\d+)")
_TO = re.compile(r"timeout - T\[[^\]]*\]")

_T = re.compile(r"T\[([^\]]*)\]")
_CNT = re.compile(r"^(.*)\*(\d+)$")

def _entries(body):
    """run-length encoded trace body -> [(entry, count)]"""
    out = []
    if body == "":
        return out
    for e in body.split(","):
        m = _CNT.match(e)
        out.append((m.group(1), int(m.group(2))) if m else (e, 1))
    return out

def _encode(entries):
    merged = []
    for e, c in entries:
        if merged and merged[-1][0] == e:
            merged[-1][1] += c
        else:
            merged.append([e, c])
    return ",".join(e if c == 1 else "%s*%d" % (e, c) for e, c in merged)

def strip_depths(rec):
    """impl/model record -> what the reference evaluator predicts: class value T[trace];
    probe entries lose their depth triple (the trace is re-encoded afterwards)."""
    i = rec.rfind(" D[")
    if i >= 0:
        rec = rec[:i]
    def fix(m):
        return "T[" + _encode([(_P.sub(lambda q: q.group(1), e), c) for e, c in _entries(m.group(1))]) + "]"
    return _T.sub(fix, rec)

def value_only(rec):
    p = rec.split(" T[", 1)[0]
    return p

def probes(rec):
    """{site: set(triples)} of one record."""
    out = {}
    for m in _P.finditer(rec):
        out.setdefault(m.group(1), set()).add(m.group(2))
    return out

def judge(rows):
    out = []
    st = {"texts": 0, "texts_judged_by_reference": 0, "texts_judged_by_closed_form": 0, "texts_compared_with_model": 0,
          "space_judged_ops": 0, "probe_sites_judged": 0, "probe_samples_max_depth_ops": 0, "impl_hangs": 0}
    for op, impl, model, spec in rows:
        toks = op.split(" ")
        space = "+space" in toks
        if impl.startswith("HOST"):
            out.append((op, impl, model, "(host crash)")); continue
        if impl == "hang":
            # the real code did not come back within the watchdog: agrees with a model that ran out
            # of fuel; the spec side objects whenever it has an answer for some text
            st["impl_hangs"] += 1
            model_col = impl if (model.startswith("timeout") or " ;; timeout" in model) else model
            has_spec = any(r != "-" for r in spec.split(" ;; "))
            out.append((op, impl, model_col, ("REQUIRED " + spec) if has_spec else "-")); continue
        irecs, mrecs, srecs = impl.split(" ;; "), model.split(" ;; "), spec.split(" ;; ")
        st["texts"] += len(irecs)
        bad_spec, bad_model = None, None
        for k, ir in enumerate(irecs):
            ir_n = _TO.sub("timeout - T[*]", ir)
            s = srecs[k] if k < len(srecs) else "-"
            if s != "-":
                if s.endswith(" T[*]"):
                    st["texts_judged_by_closed_form"] += 1
                    if value_only(ir_n) != value_only(s):
                        bad_spec = bad_spec or "text %d: closed form %s" % (k, s)
                else:
                    st["texts_judged_by_reference"] += 1
                    if strip_depths(ir_n) != s:
                        bad_spec = bad_spec or "text %d: reference %s" % (k, s)
            m = mrecs[k] if k < len(mrecs) else "-"
            if m != "-":
                st["texts_compared_with_model"] += 1
                if _TO.sub("timeout - T[*]", m) != ir_n:
                    bad_model = bad_model or "text %d: model %s" % (k, m)
        for tk in toks:
            if tk.startswith("+t") and "=" in tk:
                try:
                    a, b = tk[2:].split("=")
                    a, b = int(a), int(b)
                except ValueError:
                    continue
                if a < len(irecs) and b < len(irecs):
                    st["twin_pairs"] = st.get("twin_pairs", 0) + 1
                    ta, tb = strip_depths(_TO.sub("timeout - T[*]", irecs[a])), strip_depths(_TO.sub("timeout - T[*]", irecs[b]))
                    if ta != tb:
                        bad_spec = bad_spec or ("transparency: text %d must report what its unoptimised twin (text %d, the same function bound by (def ff (fn ...))) reports: %s" % (a, b, tb))
        if space:
            st["space_judged_ops"] += 1
            sites = {}
            twins = set()
            for tk in toks:
                if tk.startswith("+t") and "=" in tk:
                    try:
                        twins.add(int(tk[2:].split("=")[1]))
                    except ValueError:
                        pass
            for k, ir in enumerate(irecs):
                if k in twins:
                    continue      # the unoptimised twin is allowed (expected) to grow
                for site, tr in probes(ir).items():
                    sites.setdefault(site, set()).update(tr)
            st["probe_sites_judged"] += len(sites)
            for site, tr in sorted(sites.items()):
                if len(tr) != 1:
                    bad_spec = bad_spec or "space: probe site %s must report one depth triple (data/scope/addr) at every re-entry and for every recursion depth; saw %s" % (site, sorted(tr))
        spec_col = impl if bad_spec is None else "REQUIRED " + bad_spec
        model_col = impl if bad_model is None else model
        out.append((op, impl, model_col, spec_col))
    return out, st

def run_tail_channel(seed, tier):
    """V.run_channel for channel `tail`, with the real code and the Lean driver working at the
    same time (both are single-threaded and each takes about half of the check's time)."""
    import threading
    env = V.goenv()
    statf = os.path.join(V.BUILD, "tail.%d.stats" % os.getpid())
    rc, out = V.sh([V.ZYH, "gen", "tail", "-seed", str(seed), "-tier", tier, "-stats", statf], env=env, timeout=3000)
    if rc != 0:
        raise RuntimeError("zyh gen tail failed: %s" % out[-2000:])
    ops = [l for l in out.split("\n") if l]
    stats = {}
    try:
        with open(statf) as f:
            for l in f:
                k, _, v = l.rstrip("\n").rpartition(" ")
                stats[k] = int(v)
        os.remove(statf)
    except FileNotFoundError:
        pass
    text = "\n".join(ops) + "\n" if ops else ""
    box = {}
    def impl_side():
        try:
            box["impl"] = V.exec_impl(text, 10800)
        except Exception as e:          # reported by the caller
            box["err"] = e
    th = threading.Thread(target=impl_side)
    th.start()
    rc2, out2 = V.sh([V.ZYDRV], stdin=text, timeout=10800)
    th.join()
    if "err" in box:
        raise box["err"]
    if rc2 != 0:
        raise RuntimeError("zydrv failed: %s" % out2[-2000:])
    mlines = out2.split("\n")[:len(ops)]
    if len(mlines) != len(ops) or len(box["impl"]) != len(ops):
        raise RuntimeError("answers: impl %d, zydrv %d, ops %d" % (len(box.get("impl", [])), len(mlines), len(ops)))
    rows = []
    for op, i, m in zip(ops, box["impl"], mlines):
        mm, _, ss = m.partition("\t")
        rows.append((op, i, mm, ss))
    return rows, stats


def run(rep):
    try:
        with open(os.path.join(HERE, "notes", "C09.known.json")) as f:
            for k in json.load(f).get("findings", []):
                if k.get("property") == "C09" and not rep.match_known(k.get("key")):
                    rep.known.append(k)
    except FileNotFoundError:
        pass
    prep = V.prepare(["ZygoVerif.Props.C09"])
    ok = V.lean_phase(rep, prep, "ZygoVerif.Props.C09")
    rep.coverage["proved"] = ("generator, all sizes/nestings: flag_mono, tailAt_emits, nonTailAt_emits (Proofs/Tail.lean) -> "
                              "tail_position_gets_tail_sequence, tail_sequence_layout, tail_flag_only_in_tail_position, self_call_dichotomy; "
                              "VM model, on runLoop: tail_sequence (+fixed/varargs), tail_call_reenters_at_entry_depths; induction over iterations: "
                              "tail_call_constant_space_partial (balance assumed), tail_call_constant_space (balance from C04's verifier, refinement assumed per stretch), "
                              "tail_call_constant_space_same_activation / reentry_has_entry_depths (NO balance or refinement hypothesis: for every entry state satisfying C04's run-time invariant WF+Running, "
                              "every re-entry of that activation at instruction 0 - any number of tail sequences, any calls in between - has the entry's data/scope/address depths; Proofs/RunAct.lean reentry_depths over C04's calling contract); "
                              "tail_call_constant_space_full: the repaired full statement TailCallConstantSpace for every loaded program of the grammar (loaded_invariant: every reachable state satisfies WF+Running with the top-level text as bottom activation, Proofs/RunMain.lean); transparency parts: tco_transparent_partial, bindParams_frame; "
                              "legacy_tail_call_rebinds_captured_scope_counterexample vs current_tail_call_keeps_captured_scope")
    rep.coverage["not_proved"] = ("the statement of (c) as first written (TailCallConstantSpace_asFirstStated) is FALSE - its body relation admits a tail site of a LATER activation of f at the same address depth, "
                                  "and then leaves the successor state unconstrained; kept visible under that name, with the counterexample described, not refuted in Lean. The repaired full statement TailCallConstantSpace "
                                  "(same activation: the run never goes below the entry's address depth; all loaded programs of the generator's grammar Bal.okLs; called functions, a>0) IS proved (tail_call_constant_space_full); "
                                  "programs outside that grammar (package, return, macros, infix) are not covered; "
                                  "TcoTransparent (VM model = reference evaluator on all well-formed programs): held by the `tail` correspondence")
    rep.assumptions += [
        "Model/Gen.lean, Model/VM.lean are hand-written; tied to the Go code by the `tail`/`eval` correspondences only (class, value, trace, four stack depths per text, three stack depths at every probe)",
        "the model follows /repo as it is (aa0fba4: fresh function scope per iteration, flag cleared for let initialisers and array elements, wrong-arity self calls compiled as ordinary calls); the one open defect (assignment target compiled with the tail flag, fixes/C09-01) is reported as KNOWN-FINDING, keyed by op line, until the fix is in /repo",
        "`(def ff (fn ...))` binds the same body under a generated function name, so none of its calls is a self tail call: on the real implementation it is the function evaluated without the optimisation (twin oracle)",
        "the reference evaluator (Spec/RefEval.lean, no tail-call optimisation, fresh frame per call) is 'the same function evaluated without the optimisation'",
        "texts beyond the reference evaluator's fuel are judged on the value only, against a closed form computed by the generator (accumulator sums, closure value lists)",
        "space = sizes of datastack, linearstack (scopes) and addrstack sampled by the host function `probe` while it runs; Go heap usage is out of scope",
        "domain of the generators: s-expression syntax, the core forms of Model/CoreSexp.lean; no package/return/macro/infix contexts around the tail call",
    ]
    if not (prep["ok_drv"] and prep["ok_harness"]):
        rep.violation("machinery-failure", {"what": "driver or harness did not build against the current tree",
                      "theorem_or_correspondence": "build of zydrv/zyh", "log": (prep["drv_out"] + prep["harness_out"])[-3000:]}, no_input=True)
        return
    rows, stats = run_tail_channel(rep.seed, rep.tier)
    rows, jstats = judge(rows)
    nontrivial = lambda op, impl: impl.startswith("ok") or " ;; ok" in impl
    bad_spec, bad_model = V.correspondence(rep, "tail", rows, stats, nontrivial=nontrivial)
    rep.coverage["channels"]["tail"].update(jstats)
    rep.coverage["exhaustive"] = False
    rep.coverage["rule"] = ("one op = definitions + the same call at depths 0,1,2,3,10,100,300 (reference to 100, model to 1000), a sample at 1000 and 10^5 "
                            "(thorough 10^6); shapes: every tail context alone, ordered pairs of tail contexts, random stacks of up to 7 contexts around "
                            "accumulator / closure-collector / variadic / traced bodies with side statements (probes, locals, closures, effects), every "
                            "look-alike non-tail context alone and mixed into tail stacks; hand-written histories incl. wrong-arity tail calls; an op is "
                            "non-trivial when at least one text evaluated to a value")
    V.proof_break_resolution(rep, bool(bad_spec))
