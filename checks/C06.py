"""C06 — infix blocks mean what the precedence table says.
Theorems: lean/ZygoVerif/Props/C06.lean over Model/Pratt.lean (follows zygo/pratt.go),
Spec/Stratified.lean (documented levels as data), Spec/Spacing.lean (legal spacings, on
characters), Model/Lexer.lean + Model/Parser.lean + Model/InfixFront.lean (front end).
Ties: T1 Generated/InfixTable.lean (regenerated from InitInfixOps/LeftBindingPower by
extract/ex_infixtable.go, cross-checked against the live env.infixOps), T2 channel `expand`:
`tree` (real lexer + parser + InfixBuilder vs Pratt model vs stratified spec), `ltoks` (real
lexer vs lexer model vs the token sequence, for legal spacings), `ltree` (real front end +
expander vs lexer model + parser model + Pratt model vs stratified spec, for legal spacings),
then the value phase (value and effects of {…} vs value of the prefix form the SPEC computed)."""
import json, os
import vcommon as V

META = dict(
    text="Lean 4 theorems (Props/C06.lean). (1) table_is_documented: the operator table regenerated from InitInfixOps induces exactly the documented order, partition and associativity of levels (decide over the whole table, numbers not compared). (2) pratt_iff_stratified / expand_iff_statements: for EVERY token list of the fragment (any length, selectors nested to any depth, malformed lists included) the Pratt loop of pratt.go (model, regenerated table) returns a tree and rest iff the textbook stratified recursive-descent parser over the documented levels returns them, and InfixExpandArray returns a statement list iff it is the list of stratified statements (induction on the token list, the loop cut at each level's binding power, stop property of Expression; the table/grammar link corr_generated is re-established by decide on every run with the binding powers read off the table). Fuel adequacy is PROVED (Proofs/FuelSuffices.lean): fuelFor_suffices / fuelFor_never_exhausted / expandBlock_fuel_suffices - termination measure for the model of pratt.go (a loop round consumes a token, a selector recurses into strictly lighter parts, a label weighs 2 because splitColonTailSelectorSymbols makes it two tokens; fuelFor ts exceeds the weight), so with ANY fuel >= fuelFor ts the model returns what it returns with fuelFor ts and a `none` is an error return of pratt.go (e.g. a[1:2:3]), never a fuel shortage; stratified_fuelFor_suffices / parseBlock_fuel_suffices - the same for the specification, every grammar, every token list. Hence the CONCRETE-fuel statements: pratt_eq_stratified (for every table/grammar pair in correspondence Corr and every token list of the fragment, Pratt.Expression(0) exactly as the driver runs the model EQUALS Stratified.parse exactly as the driver runs the specification, `none` included), pratt_eq_stratified_generated, expandBlock_eq_parseBlock_concrete (expandBlock = parseBlock on every non-empty token list of the fragment), agree_of_fragment (the bounded theorem without its bounds), text_expandBlock_eq_parseBlock_concrete (from the text). The originally stated PrattEqStratified (fragment condition on top-level tokens only) is REFUTED by PrattEqStratified_counterexample (a[if b c]: the selector holds a cond form for pratt.go and is left as written by the grammar); its repair PrattEqStratifiedRepaired asks the fragment at every depth. (3) lex_spacing: for EVERY token sequence (names, dotted paths, decimal and float numerals, the operators written with operator characters, brackets, comma, semicolon) and EVERY legal spacing of it (Spec/Spacing.lean: a blank is needed only between two words, between characters that would spell another operator or open a comment, before a signed numeral that follows a word or closing bracket, and after a binary minus that follows a blank and precedes a digit) the lexer model reads exactly that token sequence; the four exclusions are shown necessary by counterexample theorems (`a -1` reads as `a`, `-1`: the sign look-back, known finding). (4) infix_text_tokens / text_means_stratified: the text of a block in any legal spacing, nested [ ], ( ), { } to any depth, goes through the lexer and parser models to a token array that depends on the source tree alone, and its expansion is the stratified statement list. (5) Interference histories: the expansion and the value of a block in interpreter A are functions of A and the block alone - htree/hval ops create and use other interpreters of every constructor kind (NewZlisp, NewZlispSandbox, NewZlispWithFuncs with a small and with a shifted table, Duplicate, Clone) before and after A, then require the spec's tree made of A's OWN symbols (symbol numbers compared through an overlay accessor), value/effects equal to those of the prefix form under the same history, and equal to the history-free run in a process of its own, for every operator family incl. indexing, slicing, selectors and assignment forms; table theorems package_level_state_allow_list / no_interpreter_state_in_package_level_handlers (regenerated list of every write to a package-level variable from pratt.go and the interpreter constructors: explicit allow-list, only constants and bare top-level functions stored). A unit test can only sample operator pairs and spacings and uses one interpreter kind at a time; the theorems cover all sequences and all legal spacings, and the exhaustive correspondence ties the models to the code.",
    note="Trusted: Lean kernel; axioms propext/Classical.choice/Quot.sound; the extractor zyx (syntactic, cross-checked against the live env.infixOps each run); Model/Pratt.lean, Model/Lexer.lean, Model/Parser.lean, Model/InfixFront.lean are hand-written and tied to zygo/pratt.go, lexer.go, parser.go, comment.go by correspondence (differential testing: `lex`/`parse` channels of C13/C12 rune by rune, and here `expand`: exhaustive operator pairs/triples with spacing variants, every none/blank combination of the gaps of every operator pair through the lexer alone and end to end, random gap kinds, structured blocks, arbitrary token lists, the excluded adjacencies). Not proved: that wellFormedB T implies the table/grammar correspondence Corr T (grammarOf T) (bpsOf …) for EVERY table — pratt_eq_stratified takes Corr as hypothesis, and Corr is established for the regenerated table on every run (corr_generated); the fuel theorems are about the fragment (no if/for/break/continue at any depth) on the Pratt side — outside it the fuel of the model is checked by the correspondence only (a shortage would show as `err` in the model column against a tree in the impl column). Outside the fragment of the Pratt theorem (specification silent, model = implementation by correspondence only): if/else, for lowering, break/continue, ++/-- or a prefix-only operator directly followed by a tighter operator, the undotted symbol `.`. Outside lex_spacing: labels and slices written with a colon, string/char literals inside blocks (the lexer-level theorem LegalFrom has them), comments in gaps.",
    technique="Lean 4 proof (Pratt loop = stratified grammar by induction on the token list under a table/grammar correspondence discharged by decide; termination measures for both fuel-indexed parsers, so the theorems hold with the concrete fuel the driver uses; lexer model reads every legal spacing as the token sequence, induction over the token list; parser model on the token queue, induction over the source tree; table facts by decide) + model/implementation correspondence through the real lexer, parser and expander",
    design_ref="DESIGN.md §7 C06",
)

def load_local_known(rep):
    p = os.path.join(V.VERIF, "notes", "C06.known.json")
    try:
        with open(p) as f:
            for k in json.load(f).get("findings", []):
                if k.get("property") == "C06" and not rep.match_known(k.get("key")):
                    rep.known.append(k)
    except FileNotFoundError:
        pass

HISTORIES = ["z//", "z//z", "z//s", "z//f", "z//g", "z//d", "z//c", "z//u", "z/z/", "z/s/", "z/f/", "z/g/",
             "z//us", "z//su", "z/s/s", "z//sz", "z//zs", "z//sfgdc", "z/sfg/gfs", "z//sd", "z//ds",
             "s//", "s//z", "s//s", "s//f", "s//g", "s//d", "s//c", "s/z/", "s/g/", "s//uz", "s//zu", "s//zs", "s//sz", "s/z/z",
             "g//", "g//z", "g//s", "g/z/", "g/s/", "g//zs", "g//d"]

def codes(s):
    return ".".join(str(ord(c)) for c in s) if s else "-"

def prefix_program(spec):
    """spec column of a tree op -> zygo source of the prefix form (statements in a begin)."""
    stmts = spec.split(" | ")
    return "(begin " + " ".join(stmts) + ")"



def confirm_htree_alone(rep, rows):
    """An `htree` line is self-contained (its history is inside the line), but the batch process has a history of
    its own (interpreters of earlier lines). Lines that disagree in the batch are re-run ALONE in a fresh process;
    the answer of the lone run is what the correspondence judges (so a replay is one line). Lines that disagree
    only inside the batch are reported as a failing SEQUENCE of lines."""
    idx = [i for i, (op, impl, model, spec) in enumerate(rows) if op.startswith("expand htree ")
           and ((spec != "-" and impl != spec) or (spec == "-" and impl != model))]
    if not idx:
        return rows
    rows = list(rows)
    idx.sort(key=lambda i: len(rows[i][0]))
    confirmed, batch_only = 0, []
    for i in idx[:80]:
        op, impl, model, spec = rows[i]
        alone = V.exec_impl(op + "\n")[0]
        if (spec != "-" and alone != spec) or (spec == "-" and alone != model):
            confirmed += 1
            if confirmed >= 3:
                break
        else:
            batch_only.append((i, op, impl))
        rows[i] = (op, alone, model, spec)
    rep.coverage["htree_rerun_alone"] = {"disagreeing_in_batch": len(idx), "confirmed_alone": confirmed, "batch_only": len(batch_only)}
    if batch_only and not confirmed:
        i, op, impl = batch_only[0]
        seq = [r[0] for r in rows[:i + 1] if r[0].startswith("expand htree ")]
        again = V.exec_impl("\n".join(seq) + "\n")[-1]
        spec = rows[i][3] if rows[i][3] != "-" else rows[i][2]
        rep.violation("failing-input", {"channel": "expand", "ops": seq, "spec_requires": spec, "impl_did": again if again != spec else impl,
                      "why": "the LAST line of this sequence, run in one process, expands differently than alone: the expansion in one interpreter depends on interpreters created by earlier lines",
                      "others_like_it": len(batch_only)}, key=op, no_input=(again == spec))
    return rows

def history_phase(rep, rows, vops):
    """Phase 3 — INTERFERENCE HISTORIES. The meaning of {…} in interpreter A must not depend on which other
    interpreters (NewZlisp, NewZlispSandbox, NewZlispWithFuncs with a small / a shifted table, Duplicate, Clone of A)
    were created and used in the process before A expands or evaluates the block. Two judgements per op, both
    on the real code:
      (a) under the history, value + (tr …) trace + final bindings of the block = those of the prefix form the
          Lean SPEC computed (`eq`);
      (b) the value under the history = the value of the same block in a process in which no other kind of
          interpreter exists (reference ops `<akind>//`, one `zyh exec` process per kind of A).
    Ops that fail in the batch are re-run ALONE in a fresh process, so that the replay is one self-contained line."""
    hops = []
    for op, impl, model, spec in rows:
        if not op.startswith("expand htree "):
            continue
        _, _, hist, rest = op.split(" ", 3)
        tree = spec if spec != "-" else None
        if tree is None:
            if model in ("err", "-empty-", "bad-op"):
                continue
            hops.append("expand hval %s %s => -" % (hist, rest))
        elif tree not in ("err", "-empty-", "bad-op"):
            hops.append("expand hval %s %s => %s" % (hist, rest, codes(prefix_program(tree.split(" ## ")[0]))))
    # the sampled value ops of phase 2 once more, each under a history
    hs = HISTORIES
    step = 4 if rep.tier == "quick" else 2
    for k, vop in enumerate(vops[::step]):
        hops.append("expand hval %s %s" % (hs[k % len(hs)], vop[len("expand val "):]))
    hops = list(dict.fromkeys(hops))
    if not hops:
        return []
    def refop(op):
        t = op.split(" ", 3)
        return "expand hval %s// %s" % (t[2][0], t[3])
    refs = {}
    for akind in "zsg":
        rl = list(dict.fromkeys(refop(o) for o in hops if o.split(" ", 3)[2][0] == akind))
        if rl:
            ans = V.exec_impl("\n".join(rl) + "\n")      # a process of its own: only interpreters of this kind
            refs.update(zip(rl, ans))
    impl = V.exec_impl("\n".join(hops) + "\n")
    def value(ans):
        t = ans.split(" ")
        return t[1] if len(t) >= 2 and t[0] in ("eq", "ne", "only") else ans
    def judge(op, ans, ref):
        if ans.startswith("ne "):
            return "under the history the block and its prefix form differ"
        if not (ans.startswith("eq ") or ans.startswith("only ")):
            return "no value (%s)" % ans[:40]
        if value(ans) != value(ref):
            return "the value differs from the history-free run"
        return None
    dist = {"eq": 0, "only(spec silent)": 0, "both-err": 0, "bad": 0}
    bad = []
    for op, ans in zip(hops, impl):
        why = judge(op, ans, refs.get(refop(op), "?"))
        if why:
            dist["bad"] += 1
            bad.append((op, ans, why))
        elif value(ans).startswith("err"):
            dist["both-err"] += 1
        elif ans.startswith("only "):
            dist["only(spec silent)"] += 1
        else:
            dist["eq"] += 1
    rep.coverage["channels"]["expand-history-value"] = {
        "ops": len(hops), "reference_ops": len(refs), "distribution": dist, "histories": hs,
        "rule": "hval <akind>/<pre>/<post>: interpreters of <pre> created and used before A, of <post> after A, then A evaluates {…} "
                "and (a second A) the prefix form computed by the Lean spec: equal values, traces, bindings; and equal to the run of the "
                "same block with the empty history in a process holding only interpreters of A's kind"}
    rep.coverage["evaluations"] = rep.coverage.get("evaluations", 0) + len(hops) + len(refs)
    bad.sort(key=lambda r: (0 if r[1].startswith("ne ") else 1, len(r[0].split(" => ")[0])))
    reported = 0
    confirmed = []
    for op, ans, why in bad[:12]:
        if reported >= 3:
            break
        alone = V.exec_impl(op + "\n")[0]
        ref_alone = V.exec_impl(refop(op) + "\n")[0]
        why2 = judge(op, alone, ref_alone)
        if why2:
            reported += 1
            confirmed.append(op)
            rep.violation("failing-input", {"channel": "expand", "ops": [op], "reference_op": refop(op),
                          "spec_requires": "eq " + value(ref_alone) + "   (the meaning of the block in A is a function of A and the block alone)",
                          "impl_did": alone, "why": why2, "others_like_it": len(bad)}, key=op)
    if bad and not confirmed:
        op, ans, why = bad[0]
        k = hops.index(op)
        rep.violation("failing-input", {"channel": "expand", "ops": hops[:k + 1], "spec_requires": "eq " + value(refs.get(refop(op), "?")),
                      "impl_did": ans, "why": why + " (only as the last line of this sequence of ops run in ONE process; alone it passes)",
                      "others_like_it": len(bad)}, key=op)
    return bad


def replay(body):
    """bin/replay: value ops (`val`, `hval`) are judged here (the Lean driver does not evaluate); tree ops as usual."""
    ops = body.get("ops") or []
    V.prepare([])
    rc = 0
    plain = [o for o in ops if not (o.startswith("expand hval ") or o.startswith("expand val "))]
    if plain:
        rows, _ = V.run_channel("expand", 1, "quick", extra_ops=plain, gen=False)
        for op, impl, model, spec in rows:
            print("op   :", op); print("impl :", impl); print("model:", model); print("spec :", spec)
            if spec != "-" and impl != spec:
                print("=> property fails on this input"); rc = 1
            elif impl != model:
                print("=> implementation and model differ"); rc = 1
    vals = [o for o in ops if o not in plain]
    if vals:
        ans = V.exec_impl("\n".join(vals) + "\n")           # all lines in ONE process, in order
        op, a = vals[-1], ans[-1]
        print("op   :", op); print("impl :", a)
        if op.startswith("expand hval "):
            t = op.split(" ", 3)
            ref = "expand hval %s// %s" % (t[2][0], t[3])
            r = V.exec_impl(ref + "\n")[0]                    # the history-free run, in a process of its own
            print("reference op:", ref); print("reference   :", r)
            va, vr = a.split(" ")[1:2], r.split(" ")[1:2]
            if a.startswith("ne ") or va != vr:
                print("=> property fails on this input: under the history the block does not mean its prefix form / its history-free value"); rc = 1
        elif not a.startswith("eq "):
            print("=> property fails on this input: value/effects of the block differ from those of its prefix form"); rc = 1
    return rc

def run(rep):
    load_local_known(rep)
    prep = V.prepare(["ZygoVerif.Props.C06"])
    ok = V.lean_phase(rep, prep, "ZygoVerif.Props.C06")
    rep.assumptions += [
        "Model/Pratt.lean is hand-written; tied to zygo/pratt.go (+ the lexer and parser in front of it) by the `expand` correspondence only",
        "Model/Lexer.lean and Model/Parser.lean (C13/C12) are hand-written; lex_spacing and infix_text_tokens are theorems about them; they are tied to lexer.go/parser.go by the `lex`/`parse` channels and here by `expand ltoks`/`ltree` (impl vs model on every spacing generated, legal or not; impl vs spec on the legal ones)",
        "fuel: inside the fragment fuelFor is proved to suffice for both executable functions (fuelFor_suffices, stratified_fuelFor_suffices; expandBlock = parseBlock with the driver's fuel); outside the fragment (if/for/break/continue) the model's fuel is checked by the correspondence only",
        "labels and slice bounds written with a colon, string/char literals and comments inside blocks are outside Spec/Spacing (covered by the `tree`/`ltree` correspondence only)",
        "extract/ex_infixtable.go reads InitInfixOps and LeftBindingPower syntactically; its table is compared with the live env.infixOps on every run (op `expand ops`)",
        "if/else, go-style for, break/continue, and ++/-- or a prefix-only operator directly followed by a tighter operator are outside pratt_iff_stratified (the specification is silent; model = implementation by correspondence only)",
        "value phase: the prefix form is evaluated by the same interpreter (C02 is a separate property)",
        "interference histories: 42 history shapes over the constructor kinds z/s/f/g/d/c; the history-free reference runs in a process holding only interpreters of A's kind; lines that disagree are re-run alone so that a replay is one line",
        "extract/ex_infixhandlers.go uses go/types to decide what is a package-level variable; it scans pratt.go and the five interpreter constructors only (state parked elsewhere is found by the history ops, not by the table)",
    ]
    if not (prep["ok_drv"] and prep["ok_harness"]):
        rep.violation("machinery-failure", {"what": "driver or harness did not build against the current tree",
                      "theorem_or_correspondence": "build of zydrv/zyh", "log": (prep["drv_out"] + prep["harness_out"])[-3000:]}, no_input=True)
        return
    rows, stats = V.run_channel("expand", rep.seed, rep.tier)
    def nontrivial(op, impl):
        return impl not in ("err", "bad-op", "-empty-")
    # ---- phase 2: value and effects of the block vs the prefix form computed by the SPEC
    vops, seen = [], set()
    limit = 2000 if rep.tier == "quick" else 60000
    for op, impl, model, spec in rows:
        if len(vops) >= limit:
            break
        if not op.startswith("expand tree ") or spec in ("-", "err", "-empty-", "bad-op"):
            continue
        if " s:w " in op + " " or " s:z " in op + " ":
            pass
        body = op[len("expand tree "):]
        if body in seen:
            continue
        seen.add(body)
        # sample: every structured block, every 7th of the rest
        if "{" not in body and "(" not in body and (hash(body) % 7) != 0 and len(body) > 40:
            continue
        vops.append("expand val %s => %s" % (body, codes(prefix_program(spec))))
    vrows, _ = V.run_channel("expand", rep.seed, rep.tier, extra_ops=vops, gen=False)
    nv = {"eq": 0, "ne": 0, "other": 0, "both-err": 0}
    bad_val = []
    for op, impl, model, spec in vrows:
        if impl.startswith("eq "):
            nv["both-err" if impl.startswith("eq err") else "eq"] += 1
        elif impl.startswith("ne "):
            nv["ne"] += 1
            bad_val.append((op, impl))
        else:
            nv["other"] += 1
            bad_val.append((op, impl))
    rep.coverage["channels"]["expand-value"] = {"ops": len(vrows), "distribution": nv,
        "rule": "value, trace of (tr …) effects and final bindings of {…} equal those of (begin <prefix form computed by the Lean spec>) in a fresh interpreter"}
    rep.coverage["evaluations"] = rep.coverage.get("evaluations", 0) + len(vrows)
    bad_val.sort(key=lambda r: len(r[0].split(" => ")[0]))
    for op, impl in bad_val[:3]:
        key = op.split(" => ")[0]
        rep.violation("failing-input", {"channel": "expand", "ops": [op], "spec_requires": "eq (same value and effects as the prefix form)",
                                        "impl_did": impl, "others_like_it": len(bad_val)}, key=key)
    bad_hist = history_phase(rep, rows, vops)
    # ---- phase 1 judged last, so that VALUE violations (the property as stated) are listed first
    rows = confirm_htree_alone(rep, rows)
    bad_spec, bad_model = V.correspondence(rep, "expand", rows, stats, nontrivial=nontrivial)
    # how often the spacing specification spoke (legal spacing of tokens of its classes)
    sp = {"ltoks-legal": 0, "ltoks-silent": 0, "ltree-legal-and-in-scope": 0, "ltree-silent": 0}
    for op, impl, model, spec in rows:
        if op.startswith("expand ltoks "):
            sp["ltoks-silent" if spec == "-" else "ltoks-legal"] += 1
        elif op.startswith("expand ltree "):
            sp["ltree-silent" if spec == "-" else "ltree-legal-and-in-scope"] += 1
    rep.coverage["channels"]["expand"]["spacing_spec"] = sp
    rep.coverage["exhaustive"] = True
    rep.coverage["rule"] = ("quick: every sequence of 1, 2 and 3 operators over all 19 binary infix operators (+ - * / mod ** and or == != < <= > >= = := += -= ,) "
                            "in three spacings (all spaces / as tight as the lexer allows / random), every operator pair with 10 operand shapes "
                            "(plain, not x, x[i], dotted path, (call), {nested}, x[1:j], literal, *x, x[i+1].k) sampled, 4-6 operator sequences sampled, "
                            "structured blocks (assignments, if/else, three go-style for forms, labels, nested blocks, calls, selectors), arbitrary token lists; "
                            "lex_spacing streams: every none/blank combination of the four gaps of every operator pair (through the lexer alone, `ltoks`, and end to end, `ltree`), "
                            "every pair of the lexer's operator texts around names, numerals, signed numerals and floats with signed exponents in every none/blank combination (sampled 1/3 in quick), adjacent operators, "
                            "random sequences and structured blocks with random gap kinds (none, blank, tab, newline, CR LF, double blank), and the adjacencies the spacing rules exclude (malformed stream: impl vs model only); "
                            "thorough: all 4-operator sequences and 20-40x the samples. An op is non-trivial when the implementation produced a tree.")
    V.proof_break_resolution(rep, bool(bad_spec) or bool(bad_val) or bool(bad_hist))
