"""C06 — infix blocks mean what the precedence table says.
Theorems: lean/ZygoVerif/Props/C06.lean over Model/Pratt.lean (follows zygo/pratt.go) and
Spec/Stratified.lean (documented levels as data). Ties: T1 Generated/InfixTable.lean
(regenerated from InitInfixOps/LeftBindingPower by extract/ex_infixtable.go, cross-checked
against the live env.infixOps), T2 channel `expand` (real lexer + parser + InfixBuilder vs
model vs stratified spec), then the value phase (value and effects of {…} vs value of the
prefix form the SPEC computed)."""
import json, os
import vcommon as V

META = dict(
    text="Lean 4 theorems (Props/C06.lean): the operator table regenerated from InitInfixOps induces exactly the documented order, partition and associativity of levels (decide over the whole table, numbers not compared); the Pratt loop of pratt.go (model) returns, for EVERY token list of the covered fragment including malformed ones, the same tree and the same unconsumed rest as a textbook stratified recursive-descent parser over those levels; statements of a block are expanded in order. A unit test can only sample operator pairs and spacings; the theorem covers all token lists, and the exhaustive correspondence (all operator pairs and triples x spacings through the real lexer) ties the model to the code.",
    note="Trusted: Lean kernel; axioms propext/Classical.choice/Quot.sound; the extractor zyx (syntactic, cross-checked against the live env.infixOps each run); Model/Pratt.lean is hand-written and tied to zygo/pratt.go, lexer.go, parser.go by the `expand` correspondence (differential testing: exhaustive operator pairs/triples with spacing variants, sampled longer sequences, structured blocks, arbitrary token lists). The lexer is not modelled: that a legal spacing of a token sequence lexes to that sequence is tested, not proved. if/else, for lowering, ++/-- followed by a tighter operator are outside the theorem (correspondence only).",
    technique="Lean 4 proof (Pratt loop = stratified grammar, table facts by decide) + model/implementation correspondence through the real lexer and parser",
    design_ref="DESIGN.md §7 C06",
)

def load_local_known(rep):
    p = os.path.join(V.VERIF, "notes", "C06.known.json")
    try:
        with open(p) as f:
            for k in json.load(f).get("findings", []):
                if k.get("property") == "C06" and not rep.match_known(k.get("key")):
                    rep.known.append(k)
    except FileNotFoundError:
        pass

def codes(s):
    return ".".join(str(ord(c)) for c in s) if s else "-"

def prefix_program(spec):
    """spec column of a tree op -> zygo source of the prefix form (statements in a begin)."""
    stmts = spec.split(" | ")
    return "(begin " + " ".join(stmts) + ")"

def run(rep):
    load_local_known(rep)
    prep = V.prepare(["ZygoVerif.Props.C06"])
    ok = V.lean_phase(rep, prep, "ZygoVerif.Props.C06")
    rep.assumptions += [
        "Model/Pratt.lean is hand-written; tied to zygo/pratt.go (+ the lexer and parser in front of it) by the `expand` correspondence only",
        "the lexer is not modelled: `lex (render ts spacing) = ts` is tested on every generated op (three spacing variants), not proved",
        "extract/ex_infixtable.go reads InitInfixOps and LeftBindingPower syntactically; its table is compared with the live env.infixOps on every run (op `expand ops`)",
        "if/else, go-style for, break/continue, and ++/-- or a prefix-only operator directly followed by a tighter operator are outside pratt_eq_stratified (model = implementation by correspondence only)",
        "value phase: the prefix form is evaluated by the same interpreter (C02 is a separate property)",
    ]
    if not (prep["ok_drv"] and prep["ok_harness"]):
        rep.violation("machinery-failure", {"what": "driver or harness did not build against the current tree",
                      "theorem_or_correspondence": "build of zydrv/zyh", "log": (prep["drv_out"] + prep["harness_out"])[-3000:]}, no_input=True)
        return
    rows, stats = V.run_channel("expand", rep.seed, rep.tier)
    def nontrivial(op, impl):
        return impl not in ("err", "bad-op", "-empty-")
    bad_spec, bad_model = V.correspondence(rep, "expand", rows, stats, nontrivial=nontrivial)
    # ---- phase 2: value and effects of the block vs the prefix form computed by the SPEC
    vops, seen = [], set()
    limit = 2000 if rep.tier == "quick" else 60000
    for op, impl, model, spec in rows:
        if len(vops) >= limit:
            break
        if not op.startswith("expand tree ") or spec in ("-", "err", "-empty-", "bad-op"):
            continue
        if " s:w " in op + " " or " s:z " in op + " ":
            pass
        body = op[len("expand tree "):]
        if body in seen:
            continue
        seen.add(body)
        # sample: every structured block, every 7th of the rest
        if "{" not in body and "(" not in body and (hash(body) % 7) != 0 and len(body) > 40:
            continue
        vops.append("expand val %s => %s" % (body, codes(prefix_program(spec))))
    vrows, _ = V.run_channel("expand", rep.seed, rep.tier, extra_ops=vops, gen=False)
    nv = {"eq": 0, "ne": 0, "other": 0, "both-err": 0}
    bad_val = []
    for op, impl, model, spec in vrows:
        if impl.startswith("eq "):
            nv["both-err" if impl.startswith("eq err") else "eq"] += 1
        elif impl.startswith("ne "):
            nv["ne"] += 1
            bad_val.append((op, impl))
        else:
            nv["other"] += 1
            bad_val.append((op, impl))
    rep.coverage["channels"]["expand-value"] = {"ops": len(vrows), "distribution": nv,
        "rule": "value, trace of (tr …) effects and final bindings of {…} equal those of (begin <prefix form computed by the Lean spec>) in a fresh interpreter"}
    rep.coverage["evaluations"] = rep.coverage.get("evaluations", 0) + len(vrows)
    bad_val.sort(key=lambda r: len(r[0]))
    for op, impl in bad_val[:3]:
        key = op.split(" => ")[0]
        rep.violation("failing-input", {"channel": "expand", "ops": [op], "spec_requires": "eq (same value and effects as the prefix form)",
                                        "impl_did": impl, "others_like_it": len(bad_val)}, key=key)
    rep.coverage["exhaustive"] = True
    rep.coverage["rule"] = ("quick: every sequence of 1, 2 and 3 operators over all 19 binary infix operators (+ - * / mod ** and or == != < <= > >= = := += -= ,) "
                            "in three spacings (all spaces / as tight as the lexer allows / random), every operator pair with 10 operand shapes "
                            "(plain, not x, x[i], dotted path, (call), {nested}, x[1:j], literal, *x, x[i+1].k) sampled, 4-6 operator sequences sampled, "
                            "structured blocks (assignments, if/else, three go-style for forms, labels, nested blocks, calls, selectors), arbitrary token lists; "
                            "thorough: all 4-operator sequences and 20-40x the samples. An op is non-trivial when the implementation produced a tree.")
    V.proof_break_resolution(rep, bool(bad_spec) or bool(bad_val))
