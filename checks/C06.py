"""C06 — infix blocks mean what the precedence table says.
Theorems: lean/ZygoVerif/Props/C06.lean over Model/Pratt.lean (follows zygo/pratt.go),
Spec/Stratified.lean (documented levels as data), Spec/Spacing.lean (legal spacings, on
characters), Model/Lexer.lean + Model/Parser.lean + Model/InfixFront.lean (front end).
Ties: T1 Generated/InfixTable.lean (regenerated from InitInfixOps/LeftBindingPower by
extract/ex_infixtable.go, cross-checked against the live env.infixOps), T2 channel `expand`:
`tree` (real lexer + parser + InfixBuilder vs Pratt model vs stratified spec), `ltoks` (real
lexer vs lexer model vs the token sequence, for legal spacings), `ltree` (real front end +
expander vs lexer model + parser model + Pratt model vs stratified spec, for legal spacings),
then the value phase (value and effects of {…} vs value of the prefix form the SPEC computed)."""
import json, os
import vcommon as V

META = dict(
    text="Lean 4 theorems (Props/C06.lean). (1) table_is_documented: the operator table regenerated from InitInfixOps induces exactly the documented order, partition and associativity of levels (decide over the whole table, numbers not compared). (2) pratt_iff_stratified / expand_iff_statements: for EVERY token list of the fragment (any length, selectors nested to any depth, malformed lists included) the Pratt loop of pratt.go (model, regenerated table) returns a tree and rest iff the textbook stratified recursive-descent parser over the documented levels returns them, and InfixExpandArray returns a statement list iff it is the list of stratified statements (fuel-free form: 'returns with enough fuel'; induction on the token list, the loop cut at each level's binding power, stop property of Expression; the table/grammar link corr_generated is re-established by decide on every run with the binding powers read off the table). (3) lex_spacing: for EVERY token sequence (names, dotted paths, decimal and float numerals, the operators written with operator characters, brackets, comma, semicolon) and EVERY legal spacing of it (Spec/Spacing.lean: a blank is needed only between two words, between characters that would spell another operator or open a comment, before a signed numeral that follows a word or closing bracket, and after a binary minus that follows a blank and precedes a digit) the lexer model reads exactly that token sequence; the four exclusions are shown necessary by counterexample theorems (`a -1` reads as `a`, `-1`: the sign look-back, known finding). (4) infix_text_tokens / text_means_stratified: the text of a block in any legal spacing, nested [ ], ( ), { } to any depth, goes through the lexer and parser models to a token array that depends on the source tree alone, and its expansion is the stratified statement list. A unit test can only sample operator pairs and spacings; the theorems cover all sequences and all legal spacings, and the exhaustive correspondence ties the models to the code.",
    note="Trusted: Lean kernel; axioms propext/Classical.choice/Quot.sound; the extractor zyx (syntactic, cross-checked against the live env.infixOps each run); Model/Pratt.lean, Model/Lexer.lean, Model/Parser.lean, Model/InfixFront.lean are hand-written and tied to zygo/pratt.go, lexer.go, parser.go, comment.go by correspondence (differential testing: `lex`/`parse` channels of C13/C12 rune by rune, and here `expand`: exhaustive operator pairs/triples with spacing variants, every none/blank combination of the gaps of every operator pair through the lexer alone and end to end, random gap kinds, structured blocks, arbitrary token lists, the excluded adjacencies). Not proved: that the fuel the executable models use (fuelFor) always suffices — the unbounded theorems are about 'returns with enough fuel', expandBlock_eq_parseBlock says the two executable functions agree whenever both return, pratt_eq_stratified_partial (bounded, kernel-checked) and the correspondence check the fuel; PrattEqStratified for EVERY well-formed table (only the regenerated one is covered). Outside the fragment of the Pratt theorem (specification silent, model = implementation by correspondence only): if/else, for lowering, break/continue, ++/-- or a prefix-only operator directly followed by a tighter operator, the undotted symbol `.`. Outside lex_spacing: labels and slices written with a colon, string/char literals inside blocks (the lexer-level theorem LegalFrom has them), comments in gaps.",
    technique="Lean 4 proof (Pratt loop = stratified grammar by induction on the token list under a table/grammar correspondence discharged by decide; lexer model reads every legal spacing as the token sequence, induction over the token list; parser model on the token queue, induction over the source tree; table facts by decide) + model/implementation correspondence through the real lexer, parser and expander",
    design_ref="DESIGN.md §7 C06",
)

def load_local_known(rep):
    p = os.path.join(V.VERIF, "notes", "C06.known.json")
    try:
        with open(p) as f:
            for k in json.load(f).get("findings", []):
                if k.get("property") == "C06" and not rep.match_known(k.get("key")):
                    rep.known.append(k)
    except FileNotFoundError:
        pass

def codes(s):
    return ".".join(str(ord(c)) for c in s) if s else "-"

def prefix_program(spec):
    """spec column of a tree op -> zygo source of the prefix form (statements in a begin)."""
    stmts = spec.split(" | ")
    return "(begin " + " ".join(stmts) + ")"

def run(rep):
    load_local_known(rep)
    prep = V.prepare(["ZygoVerif.Props.C06"])
    ok = V.lean_phase(rep, prep, "ZygoVerif.Props.C06")
    rep.assumptions += [
        "Model/Pratt.lean is hand-written; tied to zygo/pratt.go (+ the lexer and parser in front of it) by the `expand` correspondence only",
        "Model/Lexer.lean and Model/Parser.lean (C13/C12) are hand-written; lex_spacing and infix_text_tokens are theorems about them; they are tied to lexer.go/parser.go by the `lex`/`parse` channels and here by `expand ltoks`/`ltree` (impl vs model on every spacing generated, legal or not; impl vs spec on the legal ones)",
        "the unbounded Pratt theorems are fuel-free ('returns … with enough fuel'); that fuelFor suffices is checked by the bounded theorem and the correspondence, not proved",
        "labels and slice bounds written with a colon, string/char literals and comments inside blocks are outside Spec/Spacing (covered by the `tree`/`ltree` correspondence only)",
        "extract/ex_infixtable.go reads InitInfixOps and LeftBindingPower syntactically; its table is compared with the live env.infixOps on every run (op `expand ops`)",
        "if/else, go-style for, break/continue, and ++/-- or a prefix-only operator directly followed by a tighter operator are outside pratt_iff_stratified (the specification is silent; model = implementation by correspondence only)",
        "value phase: the prefix form is evaluated by the same interpreter (C02 is a separate property)",
    ]
    if not (prep["ok_drv"] and prep["ok_harness"]):
        rep.violation("machinery-failure", {"what": "driver or harness did not build against the current tree",
                      "theorem_or_correspondence": "build of zydrv/zyh", "log": (prep["drv_out"] + prep["harness_out"])[-3000:]}, no_input=True)
        return
    rows, stats = V.run_channel("expand", rep.seed, rep.tier)
    def nontrivial(op, impl):
        return impl not in ("err", "bad-op", "-empty-")
    bad_spec, bad_model = V.correspondence(rep, "expand", rows, stats, nontrivial=nontrivial)
    # how often the spacing specification spoke (legal spacing of tokens of its classes)
    sp = {"ltoks-legal": 0, "ltoks-silent": 0, "ltree-legal-and-in-scope": 0, "ltree-silent": 0}
    for op, impl, model, spec in rows:
        if op.startswith("expand ltoks "):
            sp["ltoks-silent" if spec == "-" else "ltoks-legal"] += 1
        elif op.startswith("expand ltree "):
            sp["ltree-silent" if spec == "-" else "ltree-legal-and-in-scope"] += 1
    rep.coverage["channels"]["expand"]["spacing_spec"] = sp
    # ---- phase 2: value and effects of the block vs the prefix form computed by the SPEC
    vops, seen = [], set()
    limit = 2000 if rep.tier == "quick" else 60000
    for op, impl, model, spec in rows:
        if len(vops) >= limit:
            break
        if not op.startswith("expand tree ") or spec in ("-", "err", "-empty-", "bad-op"):
            continue
        if " s:w " in op + " " or " s:z " in op + " ":
            pass
        body = op[len("expand tree "):]
        if body in seen:
            continue
        seen.add(body)
        # sample: every structured block, every 7th of the rest
        if "{" not in body and "(" not in body and (hash(body) % 7) != 0 and len(body) > 40:
            continue
        vops.append("expand val %s => %s" % (body, codes(prefix_program(spec))))
    vrows, _ = V.run_channel("expand", rep.seed, rep.tier, extra_ops=vops, gen=False)
    nv = {"eq": 0, "ne": 0, "other": 0, "both-err": 0}
    bad_val = []
    for op, impl, model, spec in vrows:
        if impl.startswith("eq "):
            nv["both-err" if impl.startswith("eq err") else "eq"] += 1
        elif impl.startswith("ne "):
            nv["ne"] += 1
            bad_val.append((op, impl))
        else:
            nv["other"] += 1
            bad_val.append((op, impl))
    rep.coverage["channels"]["expand-value"] = {"ops": len(vrows), "distribution": nv,
        "rule": "value, trace of (tr …) effects and final bindings of {…} equal those of (begin <prefix form computed by the Lean spec>) in a fresh interpreter"}
    rep.coverage["evaluations"] = rep.coverage.get("evaluations", 0) + len(vrows)
    bad_val.sort(key=lambda r: len(r[0]))
    for op, impl in bad_val[:3]:
        key = op.split(" => ")[0]
        rep.violation("failing-input", {"channel": "expand", "ops": [op], "spec_requires": "eq (same value and effects as the prefix form)",
                                        "impl_did": impl, "others_like_it": len(bad_val)}, key=key)
    rep.coverage["exhaustive"] = True
    rep.coverage["rule"] = ("quick: every sequence of 1, 2 and 3 operators over all 19 binary infix operators (+ - * / mod ** and or == != < <= > >= = := += -= ,) "
                            "in three spacings (all spaces / as tight as the lexer allows / random), every operator pair with 10 operand shapes "
                            "(plain, not x, x[i], dotted path, (call), {nested}, x[1:j], literal, *x, x[i+1].k) sampled, 4-6 operator sequences sampled, "
                            "structured blocks (assignments, if/else, three go-style for forms, labels, nested blocks, calls, selectors), arbitrary token lists; "
                            "lex_spacing streams: every none/blank combination of the four gaps of every operator pair (through the lexer alone, `ltoks`, and end to end, `ltree`), "
                            "every pair of the lexer's operator texts around names, numerals, signed numerals and floats with signed exponents in every none/blank combination (sampled 1/3 in quick), adjacent operators, "
                            "random sequences and structured blocks with random gap kinds (none, blank, tab, newline, CR LF, double blank), and the adjacencies the spacing rules exclude (malformed stream: impl vs model only); "
                            "thorough: all 4-operator sequences and 20-40x the samples. An op is non-trivial when the implementation produced a tree.")
    V.proof_break_resolution(rep, bool(bad_spec) or bool(bad_val))
