"""C13 — parsing depends only on the text: not on chunking, not on history.
Theorems: lean/ZygoVerif/Props/C13.lean over Model/Lexer.lean + Model/Parser.lean (the code
after fixes/C13-*.patch); tables regenerated from lexer.go/parser.go (Generated/LexTables).
Tie: channels `lex` (complete lexer state after every rune) and `parse` (pieces + history ->
statuses + expressions); spec column = whole-text parse on a fresh parser + Spec.Unfinished.
History clause: Model/Abandon.lean (the suspended coroutine of a failed parse, its unwinding, the
parser call by call), Generated/ResetOrder (statement order of Parser.Reset/ResetAddNewInput),
ops `parse h` / `parse ei` (harness/ch_parsehist.go, harness/gen_parsehist.go)."""
import json, os
import vcommon as V

META = dict(
    text="Lean 4 theorems (Props/C13.lean) prove for the model of the lexer and parser, for every text, every cutting of it into pieces (any number, empty pieces, cuts inside tokens/strings/comments/operators) and every earlier history of the parser, that the final status and the expression list equal those of the text delivered whole to a fresh parser (parse_chunks_eq_whole, reset_forgets via a simulation proved for EVERY parser program over the two input-reading instructions), that feeding the lexer in two parts is feeding the concatenation (lex_chunk), and that end of input never drops a pending atom or line comment (last_token_kept). The model is tied to zygo/lexer.go and zygo/parser.go by regenerated tables (regexp sources, enums, EscapeChar, every Lexer field is assigned in Reset) and by differential testing of the complete lexer state after every rune and of parse results at every cut position. Unit tests pause the parser at two hand-picked places; the theorem covers all of them. HISTORY CLAUSE on the real protocol: the suspended coroutine of an unfinished parse is part of the model (Model/Abandon.lean: the parser as a state machine driven call by call — ParseTokens, NewInput, EndInput, Stop, Reset, ResetAddNewInput — keeping the rest of the program as the coroutine, and what that program does when iter.Pull's stop() makes its yield return false: the five inline wait loops return SexpEnd without an error and their callers go on reading the lexer). Proved for every parser state, every suspended program and every reset route: after the reset the lexer holds exactly the new text and nothing else survives (abandoned_parse_consumes_nothing, start_forgets, protocol_reset_forgets); the statement orders that respect 'stop the coroutine before the lexer is reset / given input and before the reply is replaced' all give that state (good_orders_agree), the other orders do not (lexer_first_counterexample, reply_first_counterexample); the order of the statements in parser.go is regenerated on every run and must be one of the good ones (reset_stops_coroutine_first, yield_cleared_after_stop). The annotated parser is the parser of the chunking theorems (annotated_parser_is_the_parser), a coroutine is kept exactly when the answer is `more` (suspended_iff_more), and the kept program resumed on further input computes what the original program computes on the concatenation (suspended_program_is_rest_of_run). PROTOCOL = DELIVERY MODEL (stepwise_is_run_partial): for every parser state (any lexer state, reply, suspended program), every list of pieces and every per-iterator fuel F >= fuelFor, the parser driven call by call (ResetAddNewInput/NewInput, ParseTokens after each piece, EndInput, ParseTokens; a `more` keeps the coroutine, a `done` ends the ParsingIter and the next call starts a new one with new fuel) gives the final status, the expressions AND the statuses of all intermediate calls of parseChunks — the formulation all chunk-independence theorems are about — whenever the parse does not end in an error; the step over a `done` is closed by fuel monotonicity (run_fuel_mono: the model has no timeout outcome, fuel can only turn a result into the error outcome, so a non-error parse is the same parse with any larger fuel); with no `done` before the last call also parses that end in an error agree (stepwise_is_run_until_done); and FuelIsEnough (the fuel of the delivery model is never the cause of an error: stated, not proved) implies the statement for ALL parses (stepwise_is_run_of_fuel); by any reset route after any history (stepwise_is_run_after_history). The `parse h`/`parse ei` ops run the real parser/interpreter through systematically enumerated histories of unfinished, failed and complete earlier texts x every reset route and require the result of a fresh parser / a twin interpreter.",
    note="Trusted: Lean kernel; axioms propext/Classical.choice/Quot.sound; the hand-written model (tied by the lex/parse correspondence = testing, and by table theorems); regexp recognisers are hand-written for the regenerated source strings; strconv.ParseFloat is re-implemented exactly and compared bit for bit. `more iff unfinished` is stated in full (MoreIffUnfinished) but only checked on generated inputs (impl vs Spec.Unfinished), not proved. StepwiseIsRun (call-by-call protocol = delivery model with the pieces known in advance) is proved for every parse that does not end in an error (status, expressions, trace: stepwise_is_run_partial) and for error parses without an intermediate `done` (stepwise_is_run_until_done); NOT proved for parses that end in an error after some call answered `done`: that needs FuelIsEnough (stated in Props/C13: the fuel 4*length+16 of the delivery model is never the cause of an error), because the model has one outcome for syntax errors and exhausted fuel; the implication FuelIsEnough -> StepwiseIsRun IS proved (stepwise_is_run_of_fuel, per text stepwise_is_run_for_text), so the whole gap is that one statement about the delivery model alone. Both models are still computed on every history op and must agree (MODELS-DISAGREE). The unwinding semantics of a stopped coroutine (Model/Abandon.unwind) is hand-written after parser.go and validated by the correspondence only (incl. Stop() without reset, where the dying parse reads queued input); with the statement order 'lexer first' the same model reproduces the seeded defect C13-m3 on all 106586 history ops. A trailing top-level `-`/`+` is an unfinished PREFIX (the next token may be Inf; chunk independence forces the wait) but a finished text (fix C13-02: lone_sign_fixed, sign_at_end_of_finished_input).",
    technique="Lean 4 proof over an executable lexer/parser model (free-monad parser programs, abstraction simulation) + regenerated tables + model/implementation correspondence at every cut position",
    design_ref="DESIGN.md §7 C13",
)


def run(rep):
    try:
        with open(os.path.join(V.VERIF, "notes", "C13.known.json")) as f:
            for k in json.load(f):
                if k.get("property") == "C13" and k not in rep.known:
                    rep.known.append(k)
    except FileNotFoundError:
        pass
    prep = V.prepare(["ZygoVerif.Props.C13"])
    V.lean_phase(rep, prep, "ZygoVerif.Props.C13")
    rep.assumptions += [
        "Model/Lexer.lean and Model/Parser.lean are hand-written after the Go code (with fixes/C13-*.patch applied); tied by the lex and parse correspondence (differential testing) and by the table theorems of Props/C13 §6",
        "each GetNextToken that follows a successful peek is modelled as 'drop the queue head' (the queue is non-empty at those sites)",
        "the suspended coroutine of an unfinished parse is modelled explicitly (Model/Abandon: residual program, unwinding under a stopped yield, Parser.Reset/ResetAddNewInput/Stop in the statement order of parser.go); the statement order is tied by the regenerated table Generated/ResetOrder (reset_stops_coroutine_first); the unwinding semantics is compared with the real code by the `parse h` ops incl. Stop() without a reset",
        "StepwiseIsRun (the parser driven call by call = the delivery model with the pieces known in advance) is proved for all parses that do not end in an error and for error parses without an intermediate `done` (stepwise_is_run_partial, stepwise_is_run_until_done, run_fuel_mono); the rest (an error after a `done`) follows from FuelIsEnough (stepwise_is_run_of_fuel, proved), which is stated and not proved; the driver computes both models on every `parse h` op and reports MODELS-DISAGREE",
        "MoreIffUnfinished is stated, not proved; it is tested on every generated input",
        "inputs are sequences of Unicode scalar values (Go's ReadRune turns invalid bytes into U+FFFD before the lexer sees them)",
    ]
    if not (prep["ok_drv"] and prep["ok_harness"]):
        rep.violation("machinery-failure", {"what": "driver or harness did not build against the current tree",
                      "theorem_or_correspondence": "build of zydrv/zyh", "log": (prep["drv_out"] + prep["harness_out"])[-3000:]}, no_input=True)
        return
    found = False
    rows, stats = V.run_channel("lex", rep.seed, rep.tier)
    bs, bm = V.correspondence(rep, "lex", rows, stats, nontrivial=lambda op, impl: "!" not in impl)
    found = found or bool(bs)
    rows, stats = V.run_channel("parse", rep.seed, rep.tier)
    def parse_nontrivial(op, impl):
        # an op counts when the implementation did not answer with an error; a history op
        # only when at least one earlier text was left unfinished or failed (mode `a`, or a
        # text the interpreter could not load) — all generated history ops have one
        if op.startswith("parse ei"):
            return "v=err" not in impl and "got=err" not in impl
        return "e" not in impl.split(" | ")[0]
    bs, bm = V.correspondence(rep, "parse", rows, stats, nontrivial=parse_nontrivial)
    found = found or bool(bs)
    rep.coverage["exhaustive"] = True
    rep.coverage["rule"] = ("lex: every rune string up to length 2 over a 52-rune alphabet and up to length 3 (thorough: 4) over the 24 state-changing runes, plus grammar-directed, malformed and random texts, each optionally after a history + Reset; "
                            "parse: every text up to length 3 (thorough: 4) over a 20-rune token alphabet x every single and double cut, every pooled atom/malformed fragment alone and inside ( ) and { } x every cut, grammar-directed and malformed texts x every single cut (double cuts when short) + random multi-cuts, x histories of successful, failed and abandoned parses on the same parser; "
                            "HISTORY (ops `parse h`): 1-3 earlier texts on the same parser — every sequence of up to 3 tokens (thorough: 4; quick: a spread sample of the length-4 ones) over ( [ { ) ] } \" a 1 /* % ~ - :, every sequence of up to 2 over a 32-token alphabet (closers of comments, raw strings, char literals, prefixes, lexical errors), every open-bracket stack of depth 1-4 over ( [ { x 8 fillings of the innermost bracket x 22 ways to stop (after the opener, after elements, after a closed nested form, inside a string / escape / raw string / char literal / block comment, after % ^ ~ ~@, a sign, a colon label, a first slash, a backslash); each with and without the end of input signalled, with and without a trailing blank, 0-2 further ParseTokens calls, optionally a queued unparsed piece — x the reset routes ResetAddNewInput / Reset+NewInput / Stop+ResetAddNewInput / Stop+Reset+NewInput x 10 texts under test whole and with one cut; required = a fresh parser on the text alone; Stop()+NewInput without reset is compared with the model only. "
                            "INTERPRETER (ops `parse ei`): EvalString / LoadString / read / ParseFile of such texts (+Clear) on one interpreter, then EvalString of a later text; required = a twin interpreter that never saw the history; "
                            "non-trivial = the implementation did not answer with an error")
    V.proof_break_resolution(rep, found)
