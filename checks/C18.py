"""C18 — package members are private unless capitalised.
Theorems: lean/ZygoVerif/Props/C18.lean over Model/Pkg.lean (the two dot-path walkers, their
hand-overs, errIfPrivate, dotGetSetHelper, the dereferencing routes) against
Spec/Visibility.lean. Tie: channel `pkg` (worlds of nested packages/hashes/functions/aliases,
histories of accesses through every route; exhaustive small scope + random) and the
regenerated Generated/Pkg.lean (unicode.IsUpper table, source shape of the walkers)."""
import vcommon as V

META = dict(
    text="Lean 4 theorems (Props/C18.lean) prove for every heap of scopes and hashes (any nesting depth, any aliasing, cyclic references included), every path length and every name: a dot-path read or assignment issued outside a package succeeds exactly when every member hop at or behind a package is capitalised or is a package member holding a nested package (private_unreachable, public_reachable, private_unassignable, public_assignable, route_get_private, route_set_private over all dereferencing routes), reads never modify anything, and code defined inside a package keeps access to every name of its scope stack (inside_keeps_access, inside_vs_outside). The proof is by functional induction over both path walkers and both hand-overs between them; unit tests sample four private accesses at depth <= 2.",
    note="Trusted: Lean kernel; axioms propext/Classical.choice/Quot.sound; Model/Pkg.lean is hand-written and follows zygo/stack.go, hashutils.go, functions.go AFTER the proposed fixes C18-01 (walkers hand over the remaining path) and C18-02 (hash members reached through a package are private unless capitalised); it is tied to the code by the `pkg` correspondence (differential testing: ~23k exhaustive small-scope histories to nesting depth 4 x name classes x member kinds x all routes, plus random worlds) and by Generated/Pkg.lean (unicode.IsUpper table regenerated from Go's unicode package; source text of the privacy test and of the hand-over calls, pinned by `decide` theorems). Readings of the property text that the spec fixes are listed at the top of Spec/Visibility.lean (non-letter first rune = private; a hash reached through a package; assigning cannot create package members). An alias bound to a hash VALUE taken out of a package is an ordinary hash afterwards.",
    technique="Lean 4 proof over a heap model of the path walkers + model/implementation correspondence through the line protocol + regenerated source facts",
    design_ref="DESIGN.md §7 C18",
)


def _relax(rows):
    """The specification does not distinguish error classes: a spec answer `err` for a step
    stands for whatever error class the implementation reported for that step."""
    out = []
    for op, impl, model, spec in rows:
        if spec != "-" and ";" in spec or spec.startswith(("ok", "err")):
            il, sl = impl.split(";"), spec.split(";")
            if len(il) == len(sl):
                sl = [i if (s == "err" and i.startswith("err ")) else s for i, s in zip(il, sl)]
                spec = ";".join(sl)
        out.append((op, impl, model, spec))
    return out


def run(rep):
    prep = V.prepare(["ZygoVerif.Props.C18"])
    V.lean_phase(rep, prep, "ZygoVerif.Props.C18")
    rep.assumptions += [
        "Model/Pkg.lean is hand-written (tied to the Go walkers by the `pkg` correspondence and the regenerated source facts only)",
        "the model covers packages built by (package …), anonymous hashes with symbol keys, scalars and script functions; typed records, SexpReflect values and non-package *Stack values are not modelled",
        "inside access is modelled as lookup through the closure's captured scope stack (getters/setters with plain symbols); the general closure lookup is C03's subject",
        "unicode.IsUpper is taken from Go's own table (regenerated); the theorems do not depend on its content",
    ]
    if not (prep["ok_drv"] and prep["ok_harness"]):
        rep.violation("machinery-failure", {"what": "driver or harness did not build against the current tree",
                      "theorem_or_correspondence": "build of zydrv/zyh", "log": (prep["drv_out"] + prep["harness_out"])[-3000:]}, no_input=True)
        return
    rows, stats = V.run_channel("pkg", rep.seed, rep.tier)
    rows = _relax(rows)

    def nontrivial(op, impl):
        return op.startswith("pkg seq") and "ok " in impl

    bad_spec, bad_model = V.correspondence(rep, "pkg", rows, stats, nontrivial=nontrivial)
    rep.coverage["exhaustive"] = False
    rep.coverage["rule"] = ("every chain of nested packages to depth 4 with link names of every class combination (upper/lower/non-letter) x "
                            "one member of every kind (value, getter, setter, nested package, hash with nested hash) x member-name class x every "
                            "route (operand, call with/without argument, user-function argument, def/infix right-hand side, three assignment forms, "
                            "assignment from a path), each followed by read-backs; plus random worlds (packages, hashes, packages stored in hashes, "
                            "aliases, paths through enclosing scopes, missing names, hops past a scalar); a history counts as non-trivial when at "
                            "least one of its accesses succeeded")
    V.proof_break_resolution(rep, bool(bad_spec))
