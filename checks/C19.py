"""C19 — symbols are interned consistently across interpreters sharing a table.
Theorems: lean/ZygoVerif/Props/C19.lean over Model/SymTab.lean (family of interpreters,
shared tables, per-member counter), spec Spec/SymTab.lean (a decidable judge of traces).
Tie: channel `sym` — histories through the public API and through script statements, names
AND numbers compared exactly with the model; every trace of the real code is then judged by
the Lean spec (second pass through zydrv: `sym judge … => <impl answer>`)."""
import vcommon as V

META = dict(
    text="Lean 4 theorems (Props/C19.lean) prove for the model of MakeSymbol/GenSymbol/Duplicate/Clone — a family of interpreters of any size sharing the two symbol tables, each with its own counter — that for every history (any interleaving of interning, generation, duplication, cloning and reading on any members) the tables stay mutually inverse, equal names always yield the same symbol, different names never do, and a generated symbol is neither in the tables before nor equal to any symbol handed out earlier or generated later; the executable spec judge accepts every trace of the model. Unit tests create one symbol in one duplicate; the theorems cover all histories and family sizes.",
    note="Trusted: Lean kernel; axioms propext/Classical.choice/Quot.sound; the model Model/SymTab.lean is hand-written and tied to zygo/environment.go by the `sym` correspondence (exhaustive small-scope histories over a name pool containing names shaped like generated symbols + random long histories, Go API and script level; names, numbers, counters and final tables compared exactly), which is differential testing. Counters are Nat (64-bit wrap out of scope). Script-level interning (which statements intern what, macro expansion in a throw-away Duplicate, reading through the root's parser) is a hand-written translation validated by the same exact comparison.",
    technique="Lean 4 proof over an executable model of the shared symbol tables + exact model/implementation correspondence on interleaved histories + Lean spec judging implementation traces",
    design_ref="DESIGN.md §7 C19",
)


def judge_pass(rows):
    """Second pass: the Lean spec judges what the implementation answered. Returns rows with
    the spec column filled: the implementation's own answer when the judge says ok (so
    impl == spec), else the violated clause."""
    lines = []
    for op, impl, model, spec in rows:
        toks = op.split(" ")
        if toks[1] == "base":
            lines.append("sym base %s => %s" % (toks[2], impl))
        else:
            lines.append("sym judge %s => %s" % (" ".join(toks[1:]), impl))
    rc, out = V.sh([V.ZYDRV], stdin="\n".join(lines) + "\n")
    if rc != 0:
        raise RuntimeError("zydrv (judge pass) failed: %s" % out[-2000:])
    outl = out.split("\n")[:len(rows)]
    if len(outl) != len(rows):
        raise RuntimeError("judge pass answered %d lines for %d traces" % (len(outl), len(rows)))
    res, bad = [], 0
    for (op, impl, model, spec), ans, jl in zip(rows, outl, lines):
        v, _, second = ans.partition("\t")
        if op.split(" ")[1] == "base":
            # the model does not predict builtin names; it only assumes that a fresh interpreter
            # uses the numbers 1..n (second column) — an assumption of the model, not the property
            model = impl if second == "ok" else "model-assumes: " + second
        if v == "ok":
            res.append((op, impl, model, impl))
        elif v.startswith("bad:statement-failed-or-unreadable") or v.startswith("bad:unreadable") or v == "bad-op":
            # no trace to judge (stale base, host panic, failed statement): left to impl-vs-model
            res.append((op, impl, model, "-"))
        else:
            bad += 1
            res.append((op, impl, model, "spec-violated " + v + " [judge line: " + jl[:400] + "]"))
    return res, bad


def run(rep):
    prep = V.prepare(["ZygoVerif.Props.C19"])
    V.lean_phase(rep, prep, "ZygoVerif.Props.C19")
    rep.assumptions += [
        "Model/SymTab.lean is hand-written; tied to zygo/environment.go (MakeSymbol, GenSymbol, Duplicate, Clone) by the `sym` correspondence only",
        "counters are Nat in the model: wrap-around of Go's 64-bit int is out of scope",
        "Go maps are modelled as first-match association lists; the two unbounded Go loops are modelled with fuel = table size + 1, proved sufficient (findFree_free)",
        "a fresh interpreter's tables (builtins, reserved words) enter the model as N0-1 opaque base entries numbered 1..N0-1; `sym base` lines dump the real ones and the Lean spec judges them bijective and contiguous",
        "script level: which statements intern what (str2sym/gensym on the evaluating member, read/quote through the root's parser, a macro expansion in a throw-away Duplicate, anonymous functions named by GenSymbol) is a hand-written translation in Driver/Sym.lean validated by exact number comparison",
        "the `existed before` flag of each returned symbol is read off a snapshot of the real tables through an overlay accessor",
    ]
    if not (prep["ok_drv"] and prep["ok_harness"]):
        rep.violation("machinery-failure", {"what": "driver or harness did not build against the current tree",
                      "theorem_or_correspondence": "build of zydrv/zyh", "log": (prep["drv_out"] + prep["harness_out"])[-3000:]}, no_input=True)
        return
    rows, stats = V.run_channel("sym", rep.seed, rep.tier)
    rows, njudged_bad = judge_pass(rows)
    def nontrivial(op, impl):
        # a history is non-trivial when it contains a generation and at least one other step
        toks = op.split(" ")[4:]
        return len(toks) >= 2 and any(t[0] in "gGxXf" for t in toks)
    bad_spec, bad_model = V.correspondence(rep, "sym", rows, stats, nontrivial=nontrivial)
    rep.coverage["traces_judged_by_lean_spec"] = len(rows)
    rep.coverage["traces_rejected_by_lean_spec"] = njudged_bad
    rep.coverage["exhaustive"] = False
    rep.coverage["rule"] = ("one op = one whole history on a fresh family; exhaustive: every history of the stated depth over the small name pool "
                            "(names shaped like generated symbols, see distribution keys `exhaustive …`; shorter histories are prefixes, every step is answered); "
                            "random: histories of 4-31 API steps / 3-16 script statements over a wide pool, family up to 6. "
                            "Non-trivial = contains a symbol generation and at least one more step; distinct = distinct op lines")
    V.proof_break_resolution(rep, bool(bad_spec))
