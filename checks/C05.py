"""C05 — errors are contained: a failed evaluation restores the interpreter.
Theorems: Props/C05.lean over Model/Control.lean (capture/restore, Run's error exit) plus table
facts regenerated from the source (Generated/Control.lean, Generated/ErrDiscard.lean).
Tie/search: channel `contain` — failure injection at every reachable evaluation point of
generated programs x 9 kinds of failure, followed by a follow-up battery compared with a twin
interpreter that only ran the part of the program that precedes the failure."""
import binascii
import vcommon as V

META = dict(
    text="Lean 4 theorems on the EXECUTABLE VM model (Model/VM.lean, the model compared with the Go interpreter text by text on every run) prove, with no hypothesis on state, code, fuel or nesting depth: when Run/runLoop ends with an error — raised at any depth of re-entry (callExpr→evalCallExpr→nested→run, callUser→builtin→apply/map/force→run) — the data, scope and address stacks have exactly the sizes captured at entry, curfunc is restored, the pc is parked behind the function, and the scope-stack object set aside by lazy forces is the one of entry (vm_run_error_at_rest; the last part by induction over all 13 mutually recursive VM functions, allKeeps); a failing text given to an interpreter at rest leaves it at rest and usable with the four depths 0,1,0,0 (vm_text_error_at_rest, vm_text_error_depths; the loop-record stack is handed back balanced by all eight compile functions and left alone by all 13 VM functions), a compile error runs nothing. The stack effect of each of the 25 non-re-entrant instructions of the real instruction set is proved for every state and outcome (vm_instr_effect) and gives the frame condition instruction by instruction (vm_instr_frame); the restored stacks EQUAL the captured ones whenever the state at the fault still stands on them (vm_run_error_exact), and concrete counterexamples show that this hypothesis cannot be dropped (TruncateToSize pads with nil cells; sizes that fit are not enough). Nothing but the control state is rolled back (defs_prefix). `map` never swallows a callback's error: on the model the fault of the head element, or of any later element through every earlier successful one, IS the outcome of the whole map over a list, and a map that returned a value had every callback return a value (map_list_head_error_is_outcome, map_list_later_error_is_outcome, map_list_value_means_no_error). The earlier theorems on the small capture/restore model and the facts regenerated from the Go source (capture and restore cover the same six components; every error exit of every function that captures restores first; no Generate* call drops its error) are kept. On the real code the property is decided by failure injection at every reachable call (k-th call, every k) x 9 kinds with a twin interpreter, now also reading pc/curfunc and the bottom cell of the scope stack; a second op family written in the core language runs the same failing history on the VM model (impl vs model: class, value, four depths, pc/curfunc, scope-stack bottom, follow-up battery) and the twin history on the reference evaluator (impl vs spec).",
    note="Trusted: Lean kernel, axioms propext/Classical.choice/Quot.sound; the extractor (syntactic); the `contain` harness (differential testing: the generator computes the prefix program from the evaluation order of the forms it emits); Spec/RefEval as twin oracle of the core ops. NOT proved: that the fault state of GENERATED code satisfies `Extends3` (nothing below the captured depths was touched) — it is a hypothesis of vm_run_error_exact; the full statement VmErrorAtRestExact is proved except for the content of the one scope cell at top level (vm_error_at_rest_exact_partial). Missing for it: C04's RunAtRest, the simulation between vm_instr_effect and C04's abstract checker_sound (room at every pc of a balanced listing) through the re-entrant instructions, GenBalanced for `for`/function bodies.",
    technique="Lean 4 proof over the executable VM model (induction on fuel; all-13-functions invariant; per-instruction stack-effect table) + capture/restore model + decide over regenerated source tables + failure-injection/twin correspondence (impl vs VM model vs reference evaluator)",
    design_ref="DESIGN.md §7 C05; notes/C05.md",
)

def decode(op):
    t = op.split(" ")
    if len(t) >= 8 and t[1] == "core":
        un = lambda h: [x.replace("~", " ") for x in h.split("|")]
        a, b = un(t[5]), un(t[6])
        return {"kind": "core-" + t[7], "site": t[2], "count": t[3], "setup": a[0], "program": a[1],
                "prefix_candidates": [b[1]], "followups": a[2:]}
    def d(h):
        try:
            return "" if h == "-" else binascii.unhexlify(h).decode()
        except Exception:
            return h
    if len(t) >= 8:
        return {"kind": t[1], "site": t[2], "count": t[3], "setup": d(t[5]), "program": d(t[6]),
                "prefix_candidates": [d(x) for x in t[7].split(",")]}
    return {}

def run(rep):
    prep = V.prepare(["ZygoVerif.Props.C05"])
    V.lean_phase(rep, prep, "ZygoVerif.Props.C05")
    rep.assumptions += [
        "the frame condition (`Extends` on the control model, `Extends3` at the fault state on the VM model) is a hypothesis of the GENERAL exactness theorems (arbitrary code); for generated code it is DISCHARGED: vm_text_error_exact_generated (from C04 err_leaves_served) - an erroring text of the model generator's grammar Bal.okLs from any state served by value-returning and erroring texts of that grammar leaves data/scope/address/set-aside stacks exactly those of entry, no hypothesis; vm_text_no_panic_generated. vm_run_error_exact_of_invariant was not the route (its hstep quantifies over every instruction in every state and over failing re-entrant steps; a typing of states speaks about the FETCHED instruction) - C04 proves the loop lemma for the fetched instruction and an error specification per interpreter function. Still a hypothesis: value-level exactness of the data stack for NESTED runs entered with data below, texts outside the grammar, compile errors (class cerr of VmErrorAtRestExact); the size/function/pc/scope-stack-object theorems need no hypothesis",
        "core ops: the failure is written in the program text (k-th dynamic execution of a site told apart by a counter global); the twin oracle of the spec column is Spec/RefEval on setup|prefix|follow-ups",
        "host functions used for injection are registered through the public AddFunction API",
        "a compile error of a nested call argument surfaces when the call executes (arguments are compiled lazily); every 'just before an enclosing form starts' prefix is accepted as 'the part that ran before the failure'",
    ]
    if not (prep["ok_drv"] and prep["ok_harness"]):
        rep.violation("machinery-failure", {"what": "driver or harness did not build against the current tree",
                      "theorem_or_correspondence": "build of zydrv/zyh", "log": (prep["drv_out"] + prep["harness_out"])[-3000:]}, no_input=True)
        return
    rows, stats = V.run_channel("contain", rep.seed, rep.tier)
    def keyfn(op):
        d = decode(op)
        return "contain %s site=%s count=%s :: %s" % (d.get("kind"), d.get("site"), d.get("count"), d.get("program", "").strip())
    bad_spec, bad_model = V.correspondence(rep, "contain", rows, stats, keyfn=keyfn,
                                           nontrivial=lambda op, impl: not (op.startswith("contain none") or op.startswith("contain core 0 ")))
    # make the replays readable: add the decoded program to every violation written
    for (path, _) in rep.violations:
        try:
            import json
            body = json.load(open(path))
            if body.get("ops"):
                body["decoded"] = [decode(o) for o in body["ops"]]
                json.dump(body, open(path, "w"), indent=1)
        except Exception:
            pass
    rep.coverage["rule"] = ("programs generated over begin/let/letseq/newScope/cond/and/+/list/array/hash/infix/fn/defn/apply/map/eval/lazy/for/recursion "
                            "(tail and non-tail); for every reachable dynamic call of the host function `boom` (k-th call, every k up to a cap) the kinds err and panic, "
                            "plus one sampled site per program for undef/arity/typeerr/evalcompile/loadcompile/macroexp, plus a parse error and a fault-free control; "
                            "core ops (kind `core`): programs of the core language only over begin/+/let/letseq/newScope/cond/and/array/list/fn/defn/apply/map (over arrays AND lists)/lazy+force/for/recursion, "
                            "failure (unbound symbol / arity / rejected operands) at the k-th dynamic execution of a site for every reachable k (cap 8), the same history run on the VM model and the twin history on the reference evaluator; "
                            "non-trivial = an op with an injected failure")
    V.proof_break_resolution(rep, bool(bad_spec))
