"""C05 — errors are contained: a failed evaluation restores the interpreter.
Theorems: Props/C05.lean over Model/Control.lean (capture/restore, Run's error exit) plus table
facts regenerated from the source (Generated/Control.lean, Generated/ErrDiscard.lean).
Tie/search: channel `contain` — failure injection at every reachable evaluation point of
generated programs x 9 kinds of failure, followed by a follow-up battery compared with a twin
interpreter that only ran the part of the program that precedes the failure."""
import binascii
import vcommon as V

META = dict(
    text="Lean 4 theorems prove on a model of the VM's capture/restore discipline that, for ANY intermediate state reached at any call depth, the error exit of Run returns an interpreter that was at rest to rest (restore_depths, run_error_at_rest), and that the restored state equals the captured one, contents included, whenever execution stayed above the captured depths (restore_exact, run_error_exact). Facts regenerated from the Go source on every run and closed by `decide` over the whole table tie the model to the code: capture and restore cover the same six components, every error exit of every function that captures the control state restores it first, and no Generate* call in the compiler drops its error result. What the model does not carry (that the real instruction set satisfies the frame condition; that globals equal those of the prefix run) is decided on the real code by failure injection at every reachable call (k-th call for every k) x 9 failure kinds with a twin-interpreter comparison.",
    note="Trusted: Lean kernel, axioms propext/Classical.choice/Quot.sound; the extractor (syntactic: statements of restoreControlState, fields of captureControlState, error returns after a capture, dropped error results of Generate* calls); the `contain` harness (differential testing: the generator computes the prefix program from the evaluation order of the forms it emits). `Extends` (nothing below the captured depth is touched) is a hypothesis of restore_exact, not proved for the real instruction set.",
    technique="Lean 4 proof over a capture/restore model + decide over regenerated source tables + failure-injection/twin correspondence",
    design_ref="DESIGN.md §7 C05",
)

def decode(op):
    t = op.split(" ")
    if len(t) >= 8 and t[1] == "core":
        un = lambda h: [x.replace("~", " ") for x in h.split("|")]
        a, b = un(t[5]), un(t[6])
        return {"kind": "core-" + t[7], "site": t[2], "count": t[3], "setup": a[0], "program": a[1],
                "prefix_candidates": [b[1]], "followups": a[2:]}
    def d(h):
        try:
            return "" if h == "-" else binascii.unhexlify(h).decode()
        except Exception:
            return h
    if len(t) >= 8:
        return {"kind": t[1], "site": t[2], "count": t[3], "setup": d(t[5]), "program": d(t[6]),
                "prefix_candidates": [d(x) for x in t[7].split(",")]}
    return {}

def run(rep):
    prep = V.prepare(["ZygoVerif.Props.C05"])
    V.lean_phase(rep, prep, "ZygoVerif.Props.C05")
    rep.assumptions += [
        "the frame condition `Extends` is a hypothesis of restore_exact/run_error_exact (it is what C04's balance discipline provides); restore_depths/run_error_at_rest need no hypothesis",
        "host functions used for injection are registered through the public AddFunction API",
        "a compile error of a nested call argument surfaces when the call executes (arguments are compiled lazily); every 'just before an enclosing form starts' prefix is accepted as 'the part that ran before the failure'",
    ]
    if not (prep["ok_drv"] and prep["ok_harness"]):
        rep.violation("machinery-failure", {"what": "driver or harness did not build against the current tree",
                      "theorem_or_correspondence": "build of zydrv/zyh", "log": (prep["drv_out"] + prep["harness_out"])[-3000:]}, no_input=True)
        return
    rows, stats = V.run_channel("contain", rep.seed, rep.tier)
    def keyfn(op):
        d = decode(op)
        return "contain %s site=%s count=%s :: %s" % (d.get("kind"), d.get("site"), d.get("count"), d.get("program", "").strip())
    bad_spec, bad_model = V.correspondence(rep, "contain", rows, stats, keyfn=keyfn,
                                           nontrivial=lambda op, impl: not (op.startswith("contain none") or op.startswith("contain core 0 ")))
    # make the replays readable: add the decoded program to every violation written
    for (path, _) in rep.violations:
        try:
            import json
            body = json.load(open(path))
            if body.get("ops"):
                body["decoded"] = [decode(o) for o in body["ops"]]
                json.dump(body, open(path, "w"), indent=1)
        except Exception:
            pass
    rep.coverage["rule"] = ("programs generated over begin/let/letseq/newScope/cond/and/+/list/array/hash/infix/fn/defn/apply/map/eval/lazy/for/recursion "
                            "(tail and non-tail); for every reachable dynamic call of the host function `boom` (k-th call, every k up to a cap) the kinds err and panic, "
                            "plus one sampled site per program for undef/arity/typeerr/evalcompile/loadcompile/macroexp, plus a parse error and a fault-free control; "
                            "non-trivial = an op with an injected failure")
    V.proof_break_resolution(rep, bool(bad_spec))
