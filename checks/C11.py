"""C11 — JSON and msgpack encodings round-trip and are well-formed.
Theorems: lean/ZygoVerif/Props/C11.lean over the hand-written models Model/Json.lean,
Model/Print.lean, Model/Quote.lean (+ the generated IsPrint table) and the independent
spec Spec/Rfc8259.lean (RFC 8259 parser) / Spec/JsonData.lean (domain, denotation).
Tie: channel `json` — real (json v) bytes vs model, Go's encoding/json as a second judge of
well-formedness vs the Rfc8259 parser vs the denotation, (unjson (json v)) and
(unmsgpack (msgpack v)) vs the value, printer and strconv.Quote/QuoteRune vs their models."""
import vcommon as V

META = dict(
    text="Lean 4 theorems (Props/C11.lean) prove for every nested value of the property's domain, at any depth and for all string contents (any sequence of Unicode scalar values), that the model of SexpToJson produces a text which the RFC 8259 parser of Spec/Rfc8259.lean accepts and which denotes exactly that value (type name, members in field order, zKeyOrder), that decoding it again (sorted map walk, MakeHash, SetHashKeyOrder) gives the value back with the same record type names and the same key order at every level, numbers compared by value, and the same for msgpack under a stated codec round-trip law; quote_is_json_string characterises exactly for which byte strings Go's strconv.Quote output is a JSON string literal (over all 0x110000 code points through the IsPrint table regenerated from the standard library), which is why the pre-fix encoder was wrong. Unit tests only encode three records of plain ASCII words.",
    note="Trusted: Lean kernel; axioms propext/Classical.choice/Quot.sound; the ugorji codec is modelled by the RFC 8259 parser plus its observable number/map choices, strconv.FormatFloat/ParseFloat enter as a per-value parameter with a shape law and a parse-back law (sampled, not proved); msgpack is a corollary under the codec law decode(encode g) = g (sampled through the channel). The models are hand-written and tied to zygo/jsonmsgp.go, expressions.go, hashutils.go by the `json` correspondence (exhaustive single-byte strings, every IsPrint transition point, boundary numbers, key-kind x value-kind grid, key-order permutations, random nested values), which is differential testing. Holds for the tree with fixes C11-01 (JSON string quoting) and C11-02 (nil is null) applied.",
    technique="Lean 4 proof over an executable model of the encoder/decoder and an RFC 8259 parser spec + model/implementation correspondence with encoding/json as second judge",
    design_ref="DESIGN.md §7 C11",
)


def run(rep):
    prep = V.prepare(["ZygoVerif.Props.C11"])
    ok = V.lean_phase(rep, prep, "ZygoVerif.Props.C11")
    rep.assumptions += [
        "the ugorji JSON decoder is modelled by the RFC 8259 parser of Spec/Rfc8259.lean plus: integer literal within int64 -> int64, any other number -> float64, object -> map walked in sorted key order, last duplicate wins",
        "strconv.FormatFloat / ParseFloat are parameters: each float of an op carries the text the standard library printed; shape law (finite floats print as [-]digits[.digits][e+-digits]) and parse-back law are hypotheses of the theorems, sampled by this run",
        "msgpack: codec law decode(encode g) = g for Go values built from string/int64/float64/bool/nil/[]interface{}/map[string]interface{} is a hypothesis (msgpack_roundtrip), sampled by the `mp` ops",
        "domain: strings/symbols/type names are valid UTF-8, floats finite, keys symbols or strings; uint64, chars, NaN/Inf, lists are outside the property's domain (modelled and compared, not judged); round trip additionally needs pairwise distinct symbol keys other than Atype/zKeyOrder",
        "Model/Json.lean, Model/Print.lean, Model/Quote.lean are hand-written; tied to the Go code by the `json` correspondence only; Generated/IsPrint.lean is computed by the Go standard library inside zyx",
    ]
    if not (prep["ok_drv"] and prep["ok_harness"]):
        rep.violation("machinery-failure", {"what": "driver or harness did not build against the current tree",
                      "theorem_or_correspondence": "build of zydrv/zyh", "log": (prep["drv_out"] + prep["harness_out"])[-3000:]}, no_input=True)
        return
    rows, stats = V.run_channel("json", rep.seed, rep.tier)

    def nontrivial(op, impl):
        return impl not in ("err", "bad-op", "panic", "malformed")
    bad_spec, bad_model = V.correspondence(rep, "json", rows, stats, nontrivial=nontrivial)
    kinds = {}
    for op, impl, model, spec in rows:
        k = op.split(" ", 2)[1]
        d = kinds.setdefault(k, {"ops": 0, "judged_by_spec": 0})
        d["ops"] += 1
        if spec != "-":
            d["judged_by_spec"] += 1
    rep.coverage["ops_by_kind"] = kinds
    rep.coverage["exhaustive"] = False
    rep.coverage["rule"] = ("structured generators of harness/ch_json_gen.go: every single-byte string (as value, key, type name), every IsPrint transition "
                            "point, boundary ints/floats in both float formats, the key-kind x value-kind grid, all key-order permutations of a nested "
                            "3-key record, random nested values to depth 5 / 40 nodes; an op is non-trivial when the implementation answered with data "
                            "(not err/panic/malformed); distinct = distinct op lines")
    V.proof_break_resolution(rep, bool(bad_spec))
