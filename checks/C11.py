"""C11 — JSON and msgpack encodings round-trip and are well-formed.
Theorems: lean/ZygoVerif/Props/C11.lean over the hand-written models Model/Json.lean,
Model/Print.lean, Model/Quote.lean (+ the generated IsPrint table) and the independent
spec Spec/Rfc8259.lean (RFC 8259 parser) / Spec/JsonData.lean (domain, denotation).
Tie: channel `json` — real (json v) bytes vs model, Go's encoding/json as a second judge of
well-formedness vs the Rfc8259 parser vs the denotation, (unjson (json v)) and
(unmsgpack (msgpack v)) vs the value, printer and strconv.Quote/QuoteRune vs their models;
`hist` ops: HISTORIES of encode/decode steps on long-lived interpreters (all encoded results kept and
decoded later in another order; decoded results mutated; the holder overwriting its bytes) vs the
history law of Spec/JsonHistory.lean (an encoded result is a value)."""
import vcommon as V

META = dict(
    text="Lean 4 theorems (Props/C11.lean) prove for every nested value of the property's domain, at any depth and for all string contents (any sequence of Unicode scalar values), that the model of SexpToJson produces a text which the RFC 8259 parser of Spec/Rfc8259.lean accepts and which denotes exactly that value (type name, members in field order, zKeyOrder), that decoding it again (sorted map walk, MakeHash, SetHashKeyOrder) gives the value back with the same record type names and the same key order at every level, numbers compared by value, and the same for msgpack under a stated codec round-trip law; quote_is_json_string characterises exactly for which byte strings Go's strconv.Quote output is a JSON string literal (over all 0x110000 code points through the IsPrint table regenerated from the standard library), which is why the pre-fix encoder was wrong. The round trip is stated for HISTORIES, not only for the one-expression form: Spec/JsonHistory.lean states for any implementation seen as a transition system that an encoded result is a value (EncodeResultsStable: what the holder of an encode result reads does not change, whatever is encoded or decoded afterwards; HistoryRoundTrip: decoding a kept result gives the value at every later step); the model (an append-only store of immutable encode results) is proved to satisfy both for all histories (encode_results_stable, history_roundtrip_partial, history_roundtrip_string), to answer every history of the op language exactly as the reference machine does (history_model_eq_spec, no bound on values or steps), and mutations of one decoded result leave every other one alone (decode_results_independent); a one-shared-buffer machine is proved to violate the law (encode_results_stable_sharedbuf_counterexample). Unit tests only encode three records of plain ASCII words and decode each at once.",
    note="Trusted: Lean kernel; axioms propext/Classical.choice/Quot.sound; the ugorji codec is modelled by the RFC 8259 parser plus its observable number/map choices, strconv.FormatFloat/ParseFloat enter as a per-value parameter with a shape law and a parse-back law (sampled, not proved); msgpack is a corollary under the codec law decode(encode g) = g (sampled through the channel). The models are hand-written and tied to zygo/jsonmsgp.go, expressions.go, hashutils.go by the `json` correspondence (exhaustive single-byte strings, every IsPrint transition point, boundary numbers, key-kind x value-kind grid, key-order permutations, random nested values; histories of 2-6 encode/decode steps with all results kept: script builtins, the exported Go functions, two interleaved interpreters, successive encodings shorter/equal/longer, decoded results mutated with aset/hset, input bytes overwritten after decoding), which is differential testing. The store model's premise (no package-level variable is written by the encode/decode path) is C20's regenerated fact globals_writes_allowed, not re-proved here. GoToJson's text is not modelled: only that it is JSON and that its bytes stay what they were. Holds for the tree with fixes C11-01 (JSON string quoting) and C11-02 (nil is null) applied.",
    technique="Lean 4 proof over an executable model of the encoder/decoder and an RFC 8259 parser spec + model/implementation correspondence with encoding/json as second judge",
    design_ref="DESIGN.md §7 C11",
)


def run(rep):
    prep = V.prepare(["ZygoVerif.Props.C11"])
    ok = V.lean_phase(rep, prep, "ZygoVerif.Props.C11")
    rep.assumptions += [
        "the ugorji JSON decoder is modelled by the RFC 8259 parser of Spec/Rfc8259.lean plus: integer literal within int64 -> int64, any other number -> float64, object -> map walked in sorted key order, last duplicate wins",
        "strconv.FormatFloat / ParseFloat are parameters: each float of an op carries the text the standard library printed; shape law (finite floats print as [-]digits[.digits][e+-digits]) and parse-back law are hypotheses of the theorems, sampled by this run",
        "msgpack: codec law decode(encode g) = g for Go values built from string/int64/float64/bool/nil/[]interface{}/map[string]interface{} is a hypothesis (msgpack_roundtrip), sampled by the `mp` ops",
        "domain: strings/symbols/type names are valid UTF-8, floats finite, keys symbols or strings; uint64, chars, NaN/Inf, lists are outside the property's domain (modelled and compared, not judged); round trip additionally needs pairwise distinct symbol keys other than Atype/zKeyOrder",
        "histories: the model keeps every encode result as an immutable cell of an append-only store because no package-level variable is written on the encode/decode path (C20: Generated/Globals.lean, globals_writes_allowed); history_model_eq_spec has the one-step JSON round trip of the values and the msgpack codec law as hypotheses; values of a history are built afresh for every encode step (a cache keyed by the identity of the ORIGINAL value is not exercised); GoToJson's text is judged only for being JSON and for staying what it was",
        "Model/Json.lean, Model/Print.lean, Model/Quote.lean are hand-written; tied to the Go code by the `json` correspondence only; Generated/IsPrint.lean is computed by the Go standard library inside zyx",
    ]
    if not (prep["ok_drv"] and prep["ok_harness"]):
        rep.violation("machinery-failure", {"what": "driver or harness did not build against the current tree",
                      "theorem_or_correspondence": "build of zydrv/zyh", "log": (prep["drv_out"] + prep["harness_out"])[-3000:]}, no_input=True)
        return
    rows, stats = V.run_channel("json", rep.seed, rep.tier)

    def nontrivial(op, impl):
        return impl not in ("err", "bad-op", "panic", "malformed", "out-of-domain")
    single = [r for r in rows if not r[0].startswith("json hist ")]
    hist = [r for r in rows if r[0].startswith("json hist ")]
    hstats = {k: v for k, v in stats.items() if k.startswith("hist ")}
    sstats = {k: v for k, v in stats.items() if not k.startswith("hist ")}
    bad_spec, bad_model = V.correspondence(rep, "json", single, sstats, nontrivial=nontrivial)
    bad_hist = history_phase(rep, hist, hstats)
    kinds = {}
    for op, impl, model, spec in rows:
        k = op.split(" ", 2)[1]
        d = kinds.setdefault(k, {"ops": 0, "judged_by_spec": 0})
        d["ops"] += 1
        if spec != "-":
            d["judged_by_spec"] += 1
    rep.coverage["ops_by_kind"] = kinds
    rep.coverage["exhaustive"] = False
    rep.coverage["rule"] = ("structured generators of harness/ch_json_gen.go: every single-byte string (as value, key, type name), every IsPrint transition "
                            "point, boundary ints/floats in both float formats, the key-kind x value-kind grid, all key-order permutations of a nested "
                            "3-key record, random nested values to depth 5 / 40 nodes; harness/ch_json_hist_gen.go: histories of 2-6 encode/decode steps on "
                            "long-lived interpreters (every ordered pair of a size-graded value pool x format pairs x {script builtins, exported Go functions, "
                            "two interleaved interpreters}, aliasing grids, random batch / interleaved / aliasing histories); an op is non-trivial when the "
                            "implementation answered with data (not err/panic/malformed); distinct = distinct op lines")
    V.proof_break_resolution(rep, bool(bad_spec) or bool(bad_hist))


def history_phase(rep, rows, stats, max_report=3):
    """`hist` ops: one line is a whole history on interpreters (and package-level state) that live as
    long as the harness process. impl != spec is a failing input; because state left by EARLIER lines
    of the run can matter (a grown buffer, a warm cache), each candidate is re-run alone in a fresh
    process and the ones that reproduce alone are preferred for the replay; when none does, the replay
    carries the shortest prefix of history lines of this run that reproduces it."""
    bad_spec = [r for r in rows if r[3] != "-" and r[1] != r[3]]
    bad_model = [r for r in rows if not (r[3] != "-" and r[1] != r[3]) and r[1] != r[2]]
    distinct = set(r[0] for r in rows if "|" in r[1])
    steps = sum(r[1].count("|") + 1 for r in rows if "|" in r[1])
    rep.coverage["channels"]["json.hist"] = {
        "ops": len(rows), "distinct_nontrivial": len(distinct), "steps": steps,
        "impl_vs_spec_mismatch": len(bad_spec), "impl_vs_model_mismatch": len(bad_model),
        "spec_answers": sum(1 for r in rows if r[3] != "-"), "distribution": stats}
    rep.coverage["evaluations"] = rep.coverage.get("evaluations", 0) + len(rows)
    rep.coverage["distinct_nontrivial"] = rep.coverage.get("distinct_nontrivial", 0) + len(distinct)
    for r in rows[::max(1, len(rows) // 3)][:3]:
        rep.coverage["samples"].append({"op": r[0], "impl": r[1], "model": r[2], "spec": r[3]})
    bad_spec.sort(key=lambda r: len(r[0]))
    bad_model.sort(key=lambda r: len(r[0]))
    reported = 0
    alone, dependent = [], []
    for r in bad_spec[:40]:
        if len(alone) >= max_report:
            break
        again = V.exec_impl(r[0] + "\n", 300)
        if again and again[0] != r[3]:
            alone.append((r[0], again[0], r[2], r[3]))
        else:
            dependent.append(r)
    for op, impl, model, spec in alone:
        if rep.match_known(op):
            rep.violation("failing-input", {}, key=op)
            continue
        reported += 1
        rep.violation("failing-input", {"channel": "json", "ops": [op], "spec_requires": spec, "impl_did": impl, "model_did": model,
                                        "reproduces_in_a_fresh_process": True, "others_like_it": len(bad_spec),
                                        "law": "Spec/JsonHistory.lean: an encoded result is a value (EncodeResultsStable, HistoryRoundTrip); "
                                               "a decoded result changes only when it is itself mutated"}, key=op)
    if bad_spec and not reported:
        # state-dependent: needs what earlier history lines of this run left behind
        op, impl, model, spec = bad_spec[0]
        ops_all = [r[0] for r in rows]
        prefix = ops_all[:ops_all.index(op) + 1]
        for k in (1, 2, 4, 8, 16, 64, 256, len(prefix)):
            cand = prefix[-min(k + 1, len(prefix)):]
            out = V.exec_impl("\n".join(cand) + "\n", 600)
            if out and out[-1] != spec:
                prefix = cand
                break
        reported += 1
        rep.violation("failing-input", {"channel": "json", "ops": prefix, "spec_requires": spec, "impl_did": impl, "model_did": model,
                                        "reproduces_in_a_fresh_process": False, "others_like_it": len(bad_spec),
                                        "note": "the last op fails only after the ops before it ran in the same process"}, key=op)
    if bad_model and not reported:
        op, impl, model, spec = bad_model[0]
        rep.violation("correspondence-break", {"channel": "json", "ops": [r[0] for r in bad_model[:10]], "impl_did": impl, "model_did": model,
                                               "spec": spec, "theorem_or_correspondence": "correspondence channel `json`, hist ops (impl vs Lean model)",
                                               "mismatches": len(bad_model)}, key=op, no_input=True)
    return bad_spec
