"""C17 — declared struct types are enforced on every write.
Theorems: lean/ZygoVerif/Props/C17.lean over the hand-written model Model/Rec.lean (the code
after fixes/C17-0{1,2,3}); spec Spec/WellTyped.lean.
Tie: channel `rec` — histories of declarations (with redeclaration), constructions and
writes through every route x all value kinds, executed on the real interpreter; after every
step the dump of all live instances. impl vs model = correspondence; the Lean *spec* then
judges the dump observed on the real code (well typed after every step, rejected write left
everything unchanged, successful construction/decoding kept every field) = impl vs spec."""
import subprocess
import vcommon as V

META = dict(
    text="Lean 4 theorems (Props/C17.lean) prove for the executable model of struct declaration, the type registry and every write route (constructor, hset, hset through a dereferenced pointer, selector assignment, infix/`set` dot paths incl. nested paths, derefSet through pointers, JSON/msgpack decoding) that after ANY history of operations, including redeclarations and failed declarations, every live instance has only declared fields holding nil, the empty slice (in slice fields) or a value whose type is exactly the declared one, relative to the definition the instance was created under (welltyped_preserved / welltyped_all_histories), and that a rejected operation leaves every instance unchanged (rejected_write_unchanged). The three holes of the pinned tree are Lean counterexamples over the pre-fix model and are repaired by fixes/C17-01..03. A unit test can only try some routes and some values; the invariant covers all histories.",
    note="Trusted: Lean kernel; axioms propext/Classical.choice/Quot.sound. The model Model/Rec.lean is hand-written; it is tied to zygo/hashutils.go, builders.go, gotypereg.go, functions.go, jsonmsgp.go by the `rec` correspondence (exhaustive grid field type x route x value kind, scripted redeclaration scenarios, random histories), which is differential testing. Type = the language's own Type() (array typed by its first element, slice and pointer types identified by name), for record values the definition they carry. Outside the model: hashes created under a struct name before that name is declared (msgmap/decoding of an unknown Atype, later 'adopted' by TypeCheckField), mutation of an array after it was stored, shadow Go structs, hdel.",
    technique="Lean 4 proof of a state invariant over all operation histories of an executable model + model/implementation correspondence with the Lean spec judging the implementation's own dumps",
    design_ref="DESIGN.md §7 C17",
)


def judge(rows):
    """Second pass: the Lean specification judges every dump observed on the real code."""
    lines, idx = [], []
    for n, (op, impl, model, spec) in enumerate(rows):
        if impl.startswith("HOST") or impl.startswith("bad-"):
            continue
        toks = op.split(" ", 1)
        lines.append("rec judge %s ## %s" % (toks[1] if len(toks) > 1 else "", impl))
        idx.append(n)
    verdicts = {}
    if lines:
        p = subprocess.run([V.ZYDRV], input="\n".join(lines) + "\n", stdout=subprocess.PIPE, stderr=subprocess.STDOUT, text=True, timeout=3000)
        out = p.stdout.split("\n")
        if p.returncode != 0 or len(out) < len(lines):
            raise RuntimeError("zydrv judge pass failed: %s" % p.stdout[-2000:])
        for n, l in zip(idx, out):
            verdicts[n] = l.split("\t")[0]
    res = []
    for n, (op, impl, model, spec) in enumerate(rows):
        v = verdicts.get(n)
        if v is None:
            s = "a dump of every instance (the host must not panic)"
        elif v == "good":
            s = impl        # the property holds on this observation
        else:
            s = "WellTyped/unchanged/complete violated: " + v
        res.append((op, impl, model, s))
    return res, verdicts


def run(rep):
    prep = V.prepare(["ZygoVerif.Props.C17"])
    V.lean_phase(rep, prep, "ZygoVerif.Props.C17")
    rep.assumptions += [
        "Model/Rec.lean is hand-written; tied to the Go code by the `rec` correspondence only (differential testing)",
        "type of a value = the language's own Type(): an array is typed by its first element, slice/pointer types are identified by name; a record value is typed by the definition it carries",
        "hashes created under a name before that name is declared as a struct (and later adopted by TypeCheckField) are outside the model and the generators",
        "arrays are immutable in the model: (aset a 0 \"x\") on an array already stored in a []int64 field is not a write to the instance and is not covered (welltyped_strong_counterexample shows element-wise typing does not hold anyway)",
        "the Lean spec judges dumps produced by harness/ch_rec.go (instance fields, Type() names, carried definition); that dumper is trusted",
    ]
    if not (prep["ok_drv"] and prep["ok_harness"]):
        rep.violation("machinery-failure", {"what": "driver or harness did not build against the current tree",
                      "theorem_or_correspondence": "build of zydrv/zyh", "log": (prep["drv_out"] + prep["harness_out"])[-3000:]}, no_input=True)
        return
    rows, stats = V.run_channel("rec", rep.seed, rep.tier)
    rows2, verdicts = judge(rows)

    def nontrivial(op, impl):
        # a history in which at least one write/construction succeeded and at least one was rejected
        return " ; ok I" in impl and " ; err" in impl
    bad_spec, bad_model = V.correspondence(rep, "rec", rows2, stats, nontrivial=nontrivial)
    steps = sum(op.count(" ; ") + 1 for op, _, _, _ in rows)
    rejected = sum(impl.count("err") for _, impl, _, _ in rows)
    rep.coverage["channels"]["rec"].update({"steps": steps, "rejected_steps": rejected,
                                           "dumps_judged_by_spec": len(verdicts),
                                           "dumps_judged_good": sum(1 for v in verdicts.values() if v == "good")})
    rep.coverage["exhaustive"] = False
    rep.coverage["rule"] = ("one case = one history (declarations incl. redeclaration, constructions, writes through hset / hset via pointer deref / "
                            "selector assignment / infix dot / set dot / nested path / derefSet / json+msgpack decode). Exhaustive grid: 13 declared field "
                            "types x 35 value kinds x 4 single-field routes (+ctor, derefSet, decode), 7 key kinds x routes, 6 redeclaration scenarios x 31 "
                            "follow-up writes; plus random histories. Non-trivial = at least one step succeeded on an instance and at least one was rejected.")
    V.proof_break_resolution(rep, bool(bad_spec))
