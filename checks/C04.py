"""C04 — an evaluation that succeeds leaves nothing behind in the interpreter.

Lean: Spec/Balanced.lean (stack/scope typing of bytecode: abstract interpreter `astep`,
local verifier `verify`, inference `infer`, `check`), Spec/AtRest.lean (the property on
observed depths/values), Props/C04.lean (checker_sound over a stack-effect machine,
gen_balanced for the modelled generator, run_at_rest / eval_empty_nil / one_at_a_time on the VM
model), Generated/InstrSet.lean (the Go types implementing Instruction, regenerated).

Tie: two channels fed the same histories.
  `bal`  — translation validation: the overlay lists every function the REAL generator
           compiled (top-level code, closure bodies, the callExprEval / lazy-argument helpers,
           macro bodies, builder-made functions) and the Lean driver runs the verified
           `check` on each listing.
  `rest` — the property on the real interpreter: four stack depths after every EvalString,
           EvalString("") after each, forms together vs one at a time, histories served N
           times, and a pre/post-hook monitor of the calling contract; judged by
           Spec/AtRest.lean.
A listing the checker refuses is a broken proof obligation; the failing-input search then
runs the depth oracle on contexts derived from the refused function.

Re-entrancy (compiled code is shared by all activations): Generated/CodeWrites.lean (extract/
ex_codewrites.go) lists every field of a compiled-code object (instruction structs, Loop,
SexpFunction) written outside its construction and every package-level side table of such
objects; Props/C04.lean proves the lists equal to committed, justified ones
(code_writes_exact, code_globals_exact) and proves, for verified code, that the static scope
count of break/continue is right for every activation (break_lands_at_activation_depth,
same_pc_same_depth, nested_activation_depths, call_contract_of_verified_callee,
exec_break_continue_static). Stream `reent` of both channels (harness/gen_reent.go) runs
recursion through loop bodies / nested scopes / macros / lazy thunks / tail calls under the
depth oracle: that is where the failing input comes from when one of the tables breaks."""
import json, os, re, subprocess
import vcommon as V

META = dict(
    text="Lean 4. Spec/Balanced.lean defines a stack/scope typing of zygomys bytecode over the REAL instruction set (one constructor per Go type implementing Instruction; coverage of the regenerated type list is proved by decide): per pc, scopes opened since entry, operands in the function's own area and a stack of open marker / stack-mark regions with exact / at-least / junk counts; a transfer function, an approximation order, a work-list inference and a LOCAL verifier of annotations (check = verify . infer). Props/C04.lean proves checker_sound: for any annotation the verifier accepts, every execution of the function in a stack-effect machine (each instruction pops/pushes what its Execute method does; calls obey 'pop the arguments, push one result, leave scopes alone') never touches the caller's part of the data stack, never pops a caller's scope, and at ret has exactly one value on top of the caller's stack, the caller's scope and address depth (induction over execution steps; unbounded code size, path length, loop iterations); tail_call_reenters_at_entry_depth (back at pc 0 = entry depths). gen_balanced (+ gen_fragment, gen_balanced_loops, gen_balanced_functions, generated_function_balanced): by ONE mutual induction over the eight compile functions of Model/Gen.lean, for every program of ALL core forms - literals, symbols, arrays, calls, begin, def, set, cond, and/or, let, letseq, newScope, selector assignment, for (labelled or not), break/continue (labelled or not) in every position the generator accepts and out of any number of nested scopes, fn/defn at any nesting depth - the top-level code is accepted by the verifier AND every function template allocated on the way (prologue, formals fixed or variadic, body compiled with the tail flag on, epilogue, self tail calls = TailGuard, operands inline, PrepareCall, RemoveScope x (scopes+1), Goto 0, ordinary call behind the jump) is a verified function; the invariant GInv relates Ctx.scopes / the compile-time loop stack / the loop table to the abstract state (scopes k, frames, base). Side conditions: non-empty let/fn/defn bodies (the real builders refuse an empty function body), no call headed by the empty name or a generated name __anon<n>, loop-stack ids exist; without them the full statement GenBalanced is refuted for the model (genBalanced_needs_nonempty_bodies). Proved is the existence of an annotation the verifier accepts (the hypothesis of checker_sound), not that the work-list inference finds it. gen_balanced_partial / gen_balanced_operand (loop-free core, every loop table; helper function Generate(e)+ret) are kept. tail_site_depths (Proofs/TailSite.lean): in any verified function a state at a tail sequence has k+1 scopes above the caller's and, behind PrepareCall, exactly the formals' worth of operands (used by C09: bodyBalanced_of_matched). exec_refines_partial (Proofs/VMRefine.lean): the VM model refines the stack-effect machine instruction by instruction (every instruction but callArr/callExpr/ret; envToStack, tailGuard, prepareCall, brk, cont with a side condition each), tying the effect table to the VM model; the full statement ExecRefines (calls by contract: induction over nested runs) is stated. calling_contract (Proofs/RunCall2.lean, RunPrim.lean): the refinement across nested runs, by induction on the fuel over all 13 functions of the VM's mutual block, for normal returns: from a state with the table invariant WF (every function object verified, every stored value free of stack-marks with valid function ids; kept because compiling at run time only adds verified functions) every instruction keeps the stack of activations described by the checker's invariant (call = push, ret = pop at the caller's depths with one value), runLoop ends with one value on the base stacks, nested evaluations (evalCallExpr, builtins incl. apply/map/force, applyFn, forceLazy) leave data/scope/address/set-aside stacks exactly as they were, callUser pops its operands and pushes one value. run_at_rest_of_invariant / run_at_rest_reachable (Proofs/RunMain.lean): the top-level text is the bottom activation of the outermost loop (no return address, ends by running off its end); its annotation is the generator's balanced fragment PLACED behind the old code of mainfunc (the fragment calculus is position-generic, nothing is shifted; the only fact needed about old code is that loop ids are unique); hence for every state with the table invariant WF, the mainfunc facts MainOK and at rest - in particular every state reachable from the fresh interpreter by any number of texts of the grammar that returned values (ServedState) - a text of the grammar that returns a value leaves the interpreter at rest (no operand, only the global scope, no return address, no loop record, pc at the end) with the invariant restored, for every fuel. RunAtRest over EVERY state at rest (whatever its function table holds) is not provable without the table invariant and stays a def; states after erroneous texts are not covered (error outcomes of the calling contract are not proved). eval_empty_nil is proved for every state at rest. Error path (Props/C04Err.lean, Proofs/RunErr.lean), stage 1: one non-call instruction (24 of the 26 kinds) fetched by a Running loop leaves, whatever its outcome, the scope stack / return addresses / data the current run was started on underneath and the set-aside stacks untouched (the room is read off the verifier's annotation), and when it fails the tables as found; an erroring text of the grammar from a served state has a fault state that satisfies the run-time invariant, and if the failing instruction is not a call instruction the interpreter is served again, at rest, the three stacks exactly those of entry (erroring_text_nonCall_partial); stage 2 (Proofs/RunErr2.lean): the error-path contract of all 13 functions of the mutual block for the outcome err (err_contract: tables well-formed and only grown, scope stack and set-aside stacks exactly those of entry; every evaluator's restore after a failed nested Run is exact on them); no host panic (Proofs/RunSafe.lean, no_panic_contract): from a state without nil cells and with a scope to bind in, no function of the mutual block ends in a host panic and a normal return leaves no nil cell (nil cells only come from restoreControlState growing a stack; on normal returns every restore is exact, after an error nothing runs any more); stage 3 (Proofs/RunErr3.lean), no hypothesis: err_leaves_served (a text of the grammar that ends in an error leaves the interpreter served, at rest, the three stacks and the set-aside stacks exactly those of entry), no_host_panic (no text of the grammar ends in a host panic), the served states closed under value-returning and erroring texts (ServedStateE, run_at_rest_after_errors). OneAtATime (equal values together vs one at a time) is stated, not proved: the two runs allocate function ids in different orders, it needs a simulation up to renaming; one_at_a_time_partial covers the generator's half. The property on the real code is decided per run: the verified checker is run on the structured listing of every function the real generator compiles for generated programs of the full surface language and for the repo's tests/*.zy (translation validation, ~65 000 functions quick / ~2.5 million thorough), and a depth oracle watches the four stacks, EvalString(\"\"), together-vs-one-at-a-time, N-fold histories and the calling contract of every call on the real interpreter. Re-entrancy: compiled code (instruction structs, Loop records, SexpFunction templates) is shared by all activations of a function; Generated/CodeWrites.lean lists, from the source, every field of such an object that is written outside the function constructing it and every package-level variable holding or keyed by such objects, and code_writes_exact / code_globals_exact prove the lists equal to committed ones in which each entry says why its value does not depend on the activation (the cached FindLoop position, the lexical parent used by symbol lookup, setters used at construction, the append-only main code). For any function the verifier accepts: same_pc_same_depth (inside one activation the scope depth is entry depth + a compile-time constant of the pc), break_lands_at_activation_depth (break/continue pop exactly the static count, which is the difference of the constants, and land at THIS activation's depth; the difference to any visit of a LoopStartInstr is a constant), call_contract_of_verified_callee (the one-step call of the machine is what a run of a verified callee does at any depth - so also for the function calling itself from its own loop body), nested_activation_depths (two activations open at once differ, at the same pc, by the depth of the call site: one depth recorded per loop cannot serve both), exec_break_continue_static (VM model: exec of break/continue drops the static number of scopes and writes no compiled object; LoopStart only advances the pc). stream `reent` adds re-entrancy of every scoped construct: functions whose loop bodies (plain, labelled, nested, infix, range, macro-made) call the function again (directly, mutually, through closures, map, apply, macros, lazy thunks, eval) before / after / inside the scopes of a break or continue (labelled or not, out of 0-3 let/letseq/newScope/package scopes, six syntactic positions), recursion depth 0-4, tree walks, tail calls after non-tail self calls, macros expanding to loops (incl. expansion-time recursion), lazy thunks forced inside loops, packages re-entered, grammar-directed self-recursive functions, N-fold.",
    note="Trusted: Lean kernel; axioms propext/Classical.choice/Quot.sound. The stack-effect table `eff` (what each Execute pops/pushes) is hand-written from zygo/vm.go and tied by the `bal`+`rest` runs and by the pre/post-hook contract monitor, not extracted. The overlay lister (harness/overlay/listing.go) re-derives the helper functions of EvalCallExpression/Force with the same generator calls the VM makes; code compiled by (eval x) from run-time data is not listed (EvalFunction truncates the data stack itself). PrepareCall is modelled for the current function (a parameter that shadows the function's own name is C02's known finding). Growth of mainfunc.fun (LoadExpressions appends code for every text) is by design and not counted as growth.",
    technique="Lean 4 proof (abstract interpretation soundness + induction over the expression grammar) + per-instance translation validation of real listings by the verified checker + depth-oracle correspondence on the real interpreter",
    design_ref="DESIGN.md §7 C04, §9, §13",
)

HERE = os.path.dirname(os.path.dirname(os.path.abspath(__file__)))


def gen_ops(channel, seed, tier):
    statf = os.path.join(V.BUILD, "%s.%d.stats" % (channel, os.getpid()))
    rc, out = V.sh([V.ZYH, "gen", channel, "-seed", str(seed), "-tier", tier, "-stats", statf], env=V.goenv(), timeout=600)
    if rc != 0:
        raise RuntimeError("zyh gen %s failed: %s" % (channel, out[-2000:]))
    stats = {}
    try:
        with open(statf) as f:
            for l in f:
                k, _, v = l.rstrip("\n").rpartition(" ")
                stats[k] = int(v)
        os.remove(statf)
    except FileNotFoundError:
        pass
    return [l for l in out.split("\n") if l], stats


def drv(lines):
    if not lines:
        return []
    rc, out = V.sh([V.ZYDRV], stdin="\n".join(lines) + "\n", timeout=3000)
    if rc != 0:
        raise RuntimeError("zydrv failed: %s" % out[-2000:])
    res = out.split("\n")[:len(lines)]
    if len(res) != len(lines):
        raise RuntimeError("zydrv answered %d lines for %d ops" % (len(res), len(lines)))
    return res


def two_stage(channel, ops):
    """ops -> real code (observation / listing) -> Lean (judge / checker).
    Returns rows (op, impl, model, spec) in the shape vcommon.correspondence expects."""
    if not ops:
        return []
    impl = V.exec_impl("\n".join(ops) + "\n", timeout=3000)
    ans = drv(["%s %s" % (channel, i) for i in impl])
    rows = []
    for op, i, a in zip(ops, impl, ans):
        m, _, s = a.partition("\t")
        if channel == "rest":
            # spec column = the demands the observation does not meet; `holds` -> the observation itself
            if i.startswith("HOST"):
                rows.append((op, i, i, "a Go panic escaped the harness"))
            elif s in ("holds", "hang"):
                rows.append((op, i, i, i))
            else:
                rows.append((op, i, i, "REQUIRED: " + s))
        else:
            # impl column = what the real generator claims (n functions, each balanced)
            n = 0 if i in ("none",) else len(i.split(" "))
            if i in ("hang", "unreadable"):
                rows.append((op, i, i, "-"))        # nothing listed: nothing to validate
            elif i.startswith("HOST") or i == "bad-op":
                rows.append((op, i, "a listing", "-"))
            else:
                rows.append((op, "ok %d" % n, m, "-"))
    return rows


_NAME = re.compile(r"bad (\S+?)@")

def derived_rest_ops(op, verdict):
    """Failing-input search for a listing the checker refused: the same history under the depth
    oracle, and each form of it (and each refused named function) in operand position."""
    t = op.split(" ")
    mode, toks = t[1], t[2:]
    if mode == "script":
        return []
    mode = mode.replace("+base", "")
    hist = " ".join(toks)
    out = ["rest %s %s" % (mode, hist)]
    forms = [x for x in toks if x != ";;"]
    for f in forms[-6:]:
        out.append("rest %s %s ;; (list\\s7\\s%s\\s8)" % (mode, hist, f))
        out.append("rest %s %s ;; (defn\\szzf\\s[]\\s%s) ;; (list\\s7\\s(zzf)\\s8)" % (mode, hist, f))
    for name in set(re.findall(r"(\S+?)@", verdict)):
        if re.match(r"^[A-Za-z][A-Za-z0-9_]*$", name) and not name.startswith("text"):
            for nargs in range(0, 4):
                out.append("rest %s %s ;; (list\\s7\\s(%s%s)\\s8)" % (mode, hist, name, "\\s0" * nargs))
    return out


def replay(body):
    """bin/replay hook: ops are `rest …` / `bal …` lines."""
    os.environ["ZYH_REPO"] = V.REPO
    V.prepare([])
    rc = 0
    for op in body.get("ops") or []:
        ch = op.split(" ")[0]
        for o, i, m, s in two_stage(ch, [op]):
            print("op   :", o); print("impl :", i); print("model:", m); print("spec :", s)
            if s != "-" and i != s:
                print("=> property fails on this input"); rc = 1
            elif i != m:
                print("=> the checker refuses a listing of this history"); rc = 1
    return rc


ERR_MOD = "ZygoVerif.Props.C04Err"

def audit_err(rep, prep, ok):
    """Props/C04Err.lean (C04 on the error path; lemmas in Proofs/RunErr.lean) is a second home of C04 theorems:
    counted and axiom-audited like Props/C04.lean (lean_phase handles one module) - as checks/C02.py does for Props/C02Alias.lean."""
    path = os.path.join(V.LEAN, *ERR_MOD.split(".")) + ".lean"
    thms, examples = V.lean_decls(path)
    rep.obligations += len(thms) + examples
    rep.coverage["theorems"] = list(rep.coverage.get("theorems", [])) + thms
    rep.coverage["examples"] = rep.coverage.get("examples", 0) + examples
    if not prep["ok_lean"]:
        return
    with V.Lock():
        ax, raw = V.print_axioms(ERR_MOD, thms)
    bad = {t: a for t, a in ax.items() if set(a) - V.ALLOWED_AXIOMS}
    missing = [t for t in thms if t not in ax]
    rep.coverage["axioms"] = sorted(set(rep.coverage.get("axioms", [])) | {a for v in ax.values() for a in v})
    if bad or missing:
        rep.violation("proof-break", {"what": "axiom audit failed", "bad": bad, "unreported": missing,
                                      "theorem_or_correspondence": "#print axioms (%s)" % ERR_MOD, "raw": raw[-2000:]}, no_input=True)
    elif ok:
        rep.discharged = rep.obligations

def run(rep):
    os.environ["ZYH_REPO"] = V.REPO
    try:
        with open(os.path.join(HERE, "notes", "C04.known.json")) as f:
            for k in json.load(f).get("findings", []):
                if k.get("property") == "C04" and not rep.match_known(k.get("key")):
                    rep.known.append(k)
    except FileNotFoundError:
        pass
    prep = V.prepare(["ZygoVerif.Props.C04", ERR_MOD])
    ok = V.lean_phase(rep, prep, "ZygoVerif.Props.C04")
    audit_err(rep, prep, ok)
    rep.assumptions += [
        "the effect table `Bal.eff` (operands popped / pushed, scope and pc effect of each Execute method; calls pop their arguments and push one result) is hand-written from zygo/vm.go + environment.go; it is exercised by the `bal`/`rest` runs and the calling contract is monitored by pre/post hooks on every call of every run",
        "the lister re-derives callExprEval / lazyArgForce helpers by calling NewGenerator(env).Generate(expr) + ReturnInstr as EvalCallExpression / Force do; helpers whose generation fails are run-time errors, not listed; code compiled by (eval x) from run-time data is not listed",
        "PrepareCall is taken to resolve to the function being compiled (C02 known finding: a parameter shadowing the function's name)",
        "at rest = the four stack depths of the fresh interpreter; growth of mainfunc.fun is by design (LoadExpressions appends) and not judged",
        "compiled code carries no activation state: tied to the source by the regenerated tables codeWrites / codeGlobals (syntactic: field assignments, address-taking and calls of writer methods whose receiver chain ends in a compiled-code type; objects under construction in the same function excepted). State reached through reflection, unsafe, or objects stored in non-code types (a Scope, the Zlisp struct) is not in the table; the `reent` stream of the depth oracle is the net under it",
    ]
    try:
        with open(os.path.join(V.BUILD, "facts.json")) as f:
            facts = json.load(f)
        rep.coverage["code_object_writes"] = facts.get("code_object_writes_list")
        rep.coverage["code_object_globals"] = facts.get("code_object_globals_list")
    except (OSError, ValueError):
        pass
    if not (prep["ok_drv"] and prep["ok_harness"]):
        rep.violation("machinery-failure", {"what": "driver or harness did not build against the current tree",
                      "theorem_or_correspondence": "build of zydrv/zyh", "log": (prep["drv_out"] + prep["harness_out"])[-3000:]}, no_input=True)
        return
    # ---- (ii) the property on the real interpreter
    ops, stats = gen_ops("rest", rep.seed, rep.tier)
    rows = two_stage("rest", ops)
    hangs = sum(1 for r in rows if r[1] == "hang")
    def nontrivial(op, impl):
        return ":ok:" in impl
    bad_spec, _ = V.correspondence(rep, "rest", rows, stats, nontrivial=nontrivial)
    rep.coverage["channels"]["rest"]["hangs"] = hangs
    # ---- (i) translation validation of the real listings
    bops, bstats = gen_ops("bal", rep.seed, rep.tier)
    brows = two_stage("bal", bops)
    nfun = sum(int(r[1].split(" ")[1]) for r in brows if r[1].startswith("ok "))
    refused = [r for r in brows if r[1] != r[2]]
    found = bool(bad_spec)
    # failing-input search for refused listings (shortest first, a bounded number)
    refused.sort(key=lambda r: len(r[0]))
    searched = 0
    keep = []
    for op, impl, model, spec in refused:
        if rep.match_known(op):
            keep.append((op, impl, model, spec))
            continue
        if searched < 12:
            searched += 1
            drows = two_stage("rest", derived_rest_ops(op, model))
            dbad = [r for r in drows if r[1] != r[3]]
            if dbad:
                dbad.sort(key=lambda r: len(r[0]))
                o, i, m, s = dbad[0]
                if not rep.match_known(o):
                    found = True
                rep.violation("failing-input", {"channel": "rest", "ops": [o], "spec_requires": s, "impl_did": i,
                                                "found_by": "failing-input search for the refused listing of `%s`" % op,
                                                "checker_said": model}, key=o)
                continue
        keep.append((op, impl, model, spec))
    V.correspondence(rep, "bal", brows if not refused else [r for r in brows if r[1] == r[2]] + keep, bstats,
                     nontrivial=lambda op, impl: impl.startswith("ok ") and impl != "ok 0")
    rep.coverage["channels"]["bal"]["functions_checked"] = nfun
    rep.coverage["channels"]["bal"]["listings_refused"] = len(refused)
    rep.coverage["exhaustive"] = False
    rep.coverage["rule"] = ("histories of 1-4 texts of 1-5 forms: hand-written shapes (every defect family of DESIGN §7 C04 in top-level, "
                            "function-body, operand, array-element, let-binding, cond-arm, and/or-arm and loop-body position), grammar-directed programs of "
                            "the full surface language (core forms, struct/func/method/interface/var/package, builders, macros with syntax-quote templates, "
                            "range, infix blocks, labelled break/continue), a malformed stream, N-fold histories; stream reent: a full cross product {10 ways of recursing} x {7 loop shapes} "
                            "x {break, continue} x {4 orders of recursive call and exit} plus random points of {exit target} x {0-3 scopes of 4 kinds} x {6 exit positions} x {depth 0-4}, "
                            "tree walks, tail calls after non-tail self calls, macro / lazy-thunk / package re-entrancy, grammar-directed self-recursive functions; the repo's tests/*.zy compile-only through `bal`; "
                            "non-trivial = at least one evaluation returned a value / at least one function listed")
    V.proof_break_resolution(rep, found)
