package main

// Channel lazy (C16): histories of program texts about lazy (`#`) parameters, run by the
// same Exec as channel eval (one interpreter per op, host function `trace`), answered by
// Driver/Lazy.lean (VM model and reference evaluator, through Driver/Eval.lean).
//
//	lazy [+std] <text1> <text2> ...
//
// A scenario = one function under test `f` (every mix of lazy / strict / variadic
// parameters) x a call route x argument expressions with effects, errors and free variables
// x a force pattern per lazy parameter x follow-up texts that force kept thunks after the
// caller has returned. Streams: `fixed` (hand-written), `small` (exhaustive small scope),
// `rnd` (random scenarios), `mal` (a random scenario with one tree mutation), `std` (typed
// `func` declarations; flag +std: the interpreter gets StandardSetup).
//
// Names: f = function under test; #x #y #z lazy, p q s strict parameters, r / #r rest;
// a = the free variable of argument expressions (bound by the caller, shadowed in f);
// n = recursion counter; k = global holding a closure that forces a kept thunk; cnt = global
// counter; helpers sid (strict identity), lid (lazy, forces), lign (lazy, ignores), via.

import (
	"fmt"
	"strings"
)

type lzFn struct {
	lazy []bool // per fixed parameter
	rest int    // 0 none, 1 `& r`, 2 `& #r`
}

func (f lzFn) pname(i int) string {
	if f.lazy[i] {
		return []string{"#x", "#y", "#z"}[i%3]
	}
	return []string{"p", "q", "s"}[i%3]
}
func (f lzFn) restName() string {
	if f.rest == 2 {
		return "#r"
	}
	return "r"
}
func (f lzFn) formals(typed bool) *nd {
	var k []*nd
	for i := range f.lazy {
		n := f.pname(i)
		if typed {
			n += ":int64"
		}
		k = append(k, A(n))
	}
	if f.rest > 0 {
		k = append(k, A("&"), A(f.restName()))
	}
	return SQ(k...)
}

// use kinds of a lazy parameter inside the body
const (
	uNone = iota
	uForce1
	uForce2
	uForce3
	uNested
	uKeep
	uKeepForce
	uSubst
	uSubstForce
	uViaStrict
	uThunkOfThunk
	uPassLazyUnforced
	uShadow
	uIgnore
	uApplyOn
	uForceForce
	uSelf
	uMutForce
	uForceMutForce
	uCount
)

var lzUseNames = []string{"none", "force1", "force2", "force3", "nested-closure", "keep", "keep+force", "substitute", "substitute+force",
	"via-strict-fn", "thunk-of-thunk", "pass-to-lazy-unforced", "shadowed-let", "pass-to-ignoring", "apply-on-lazy-obj", "force-force", "self",
	"state-changed-then-force", "force,state-changed,force"}

// lzUse returns the statements using lazy parameter P and how often P itself is forced
// inside this activation (-1: kept for later).
func lzUse(P string, kind int) ([]*nd, int) {
	fr := func() *nd { return L(A("force"), A(P)) }
	tr := func(x *nd) *nd { return L(A("trace"), x) }
	switch kind {
	case uForce1:
		return []*nd{tr(fr())}, 1
	case uForce2:
		return []*nd{tr(L(A("list"), fr(), fr()))}, 2
	case uForce3:
		return []*nd{tr(fr()), tr(fr()), tr(fr())}, 3
	case uNested:
		return []*nd{tr(L(L(A("fn"), SQ(), fr())))}, 1
	case uKeep:
		return []*nd{L(A("set"), A("k"), L(A("fn"), SQ(), fr()))}, -1
	case uKeepForce:
		return []*nd{L(A("set"), A("k"), L(A("fn"), SQ(), fr())), tr(fr())}, 1
	case uSubst:
		return []*nd{tr(L(A("substitute"), A(P)))}, 0
	case uSubstForce:
		return []*nd{tr(L(A("substitute"), A(P))), tr(fr()), tr(L(A("substitute"), A(P)))}, 1
	case uViaStrict:
		return []*nd{tr(L(A("force"), L(A("sid"), A(P))))}, 1
	case uThunkOfThunk:
		return []*nd{tr(L(A("force"), L(A("lid"), A(P))))}, 1
	case uPassLazyUnforced:
		return []*nd{tr(L(A("lid"), A(P)))}, 0
	case uShadow:
		return []*nd{tr(L(A("let"), SQ(A("a"), I(100)), fr()))}, 1
	case uIgnore:
		return []*nd{tr(L(A("lign"), A(P)))}, 0
	case uApplyOn:
		return []*nd{tr(L(A("apply"), A("lid"), SQ(A(P))))}, 0
	case uForceForce:
		return []*nd{tr(L(A("force"), fr()))}, 1
	case uSelf:
		return []*nd{tr(A(P))}, 0
	case uMutForce:
		// the callee changes the state the argument reads before it forces: the force sees the change
		return append(lzMutate(), tr(fr())), 1
	case uForceMutForce:
		// … and between two forces: the memo keeps the first value
		return append(append([]*nd{tr(fr())}, lzMutate()...), tr(fr())), 2
	}
	return nil, 0
}

// lzMutate: the state the state-reading argument kinds depend on changes — the global `m`
// (through bump) and the variable `a` of the call site (through the closure in `mu`, which the
// wrappers re-make over their local `a`; at top level it is the global `a`).
func lzMutate() []*nd { return []*nd{L(A("bump")), L(A("mu"))} }

// argument expression kinds
const (
	aTrace = iota
	aErrUnbound
	aErrType
	aFree
	aLit
	aNestedLazy
	aCount
	aStr
	aListVal
	aVarM
	aVarA
	aVarExpr
	aClosureRead
	aKinds
)

var lzArgNames = []string{"trace", "effect-then-unbound-symbol", "effect-then-type-error", "free-variable", "literal", "nested-lazy-call", "global-counter", "string", "list-value",
	"bare-variable(global m)", "bare-variable(call-site a)", "compound-reading-variables", "closure-calls-reading-variables"}

func lzArg(kind int, id int64) *nd {
	switch kind {
	case aErrUnbound:
		return L(A("begin"), L(A("trace"), I(id)), L(A("nosuch")))
	case aErrType:
		return L(A("+"), L(A("trace"), I(id)), A("\"s\""))
	case aFree:
		return L(A("trace"), L(A("+"), A("a"), I(id)))
	case aLit:
		return I(id)
	case aNestedLazy:
		return L(A("lid"), L(A("trace"), I(id)))
	case aCount:
		return L(A("begin"), L(A("set"), A("cnt"), L(A("+"), A("cnt"), I(1))), L(A("trace"), L(A("+"), A("cnt"), I(id))))
	case aStr:
		return L(A("trace"), A("\"x\""))
	case aVarM:
		return A("m")
	case aVarA:
		return A("a")
	case aVarExpr:
		return L(A("+"), A("a"), L(A("*"), A("m"), I(2)))
	case aClosureRead:
		return L(A("+"), L(A("ra")), L(A("rd")))
	case aListVal:
		// a value that is not self-evaluating (apply/map must hand over the value, not re-evaluate it)
		return L(A("list"), L(A("trace"), I(id)), I(2))
	}
	return L(A("trace"), I(id))
}

func lzIsErr(kind int) bool { return kind == aErrUnbound || kind == aErrType }

// call routes
const (
	rDirect = iota
	rAlias
	rParam
	rComputedCond
	rComputedFn
	rComputedAget
	rApplyArr
	rApplyList
	rMapArr
	rMapList
	rWrapper
	rRec
	rTail
	rTailShadowName
	rLazyWrapper
	rClosureCaller
	rRoutes
)

var lzRouteNames = []string{"direct", "alias", "parameter", "computed-cond", "computed-fn", "computed-aget", "apply-array", "apply-list",
	"map-array", "map-list", "wrapper-with-locals", "recursion", "self-tail-call", "self-tail-call+nested-same-name-defn", "wrapper-with-lazy-param", "caller-is-a-closure-over-a"}

type lzScen struct {
	fn       lzFn
	uses     []int // per fixed parameter (lazy ones: use kind; strict ones: 0 unused, 1 used, 2 force of a value, 3 substitute of a value)
	args     []int // arg kinds, len = nfixed + extra
	route    int
	typed    bool
	later    int   // number of follow-up texts calling (k)
	mut      int   // 0: no extra mutation; 1: the callee changes the state before any use; 2: after the uses of each parameter; 3: both
	laterMut bool  // follow-up texts change the state before / between forcing the kept thunk
	named    []int // typed func only: the outer call names its arguments, written in this order of formals
	ndelta   int   // arity error: args added (+) or removed (-) (malformed stream only)
}

var lzHelpers = []*nd{
	L(A("def"), A("k"), A("nil")),
	L(A("def"), A("cnt"), I(0)),
	L(A("def"), A("a"), I(1)),
	L(A("defn"), A("sid"), SQ(A("v")), A("v")),
	L(A("defn"), A("lid"), SQ(A("#v")), L(A("force"), A("#v"))),
	L(A("defn"), A("lign"), SQ(A("#v")), I(0)),
	L(A("def"), A("m"), I(1)),
	L(A("defn"), A("bump"), SQ(), L(A("set"), A("m"), L(A("+"), A("m"), I(10))), A("m")),
	L(A("defn"), A("rd"), SQ(), A("m")),
	L(A("def"), A("mu"), L(A("fn"), SQ(), L(A("set"), A("a"), L(A("+"), A("a"), I(10))), I(0))),
	L(A("def"), A("ra"), L(A("fn"), SQ(), A("a"))),
}

// rebind: inside a wrapper with a local `a`, `mu` and `ra` are re-made over that local
func lzRebind() []*nd {
	return []*nd{
		L(A("set"), A("mu"), L(A("fn"), SQ(), L(A("set"), A("a"), L(A("+"), A("a"), I(10))), I(0))),
		L(A("set"), A("ra"), L(A("fn"), SQ(), A("a"))),
	}
}

// body of f: entry marker, the uses, exit marker value
func (sc *lzScen) body() []*nd {
	f := sc.fn
	out := []*nd{L(A("trace"), I(100))}
	if sc.mut&1 != 0 {
		out = append(out, lzMutate()...)
	}
	for i := range f.lazy {
		P := f.pname(i)
		if i > 0 && sc.mut&2 != 0 {
			out = append(out, lzMutate()...)
		}
		if f.lazy[i] {
			st, _ := lzUse(P, sc.uses[i])
			out = append(out, st...)
		} else {
			switch sc.uses[i] {
			case 1:
				out = append(out, L(A("trace"), A(P)))
			case 2:
				out = append(out, L(A("trace"), L(A("force"), A(P))))
			case 3:
				out = append(out, L(A("trace"), L(A("substitute"), A(P))))
			}
		}
	}
	if f.rest > 0 {
		out = append(out, L(A("trace"), A(f.restName())))
	}
	return out
}

func (sc *lzScen) callArgs(base int64) []*nd {
	var k []*nd
	for i, a := range sc.args {
		k = append(k, lzArg(a, base+int64(i)+1))
	}
	return k
}

func call(head *nd, args []*nd) *nd { return L(append([]*nd{head}, args...)...) }

// texts builds the history.
func (sc *lzScen) texts() [][]*nd {
	f := sc.fn
	var t1 []*nd
	t1 = append(t1, lzHelpers...)
	body := sc.body()
	formals := f.formals(sc.typed)
	nfix := len(f.lazy)
	recursive := sc.route == rRec || sc.route == rTail || sc.route == rTailShadowName
	if recursive {
		// the counter is an extra strict parameter in front
		nm := "n"
		if sc.typed {
			nm = "n:int64"
		}
		formals = SQ(append([]*nd{A(nm)}, formals.kids...)...)
		rargs := append([]*nd{L(A("-"), A("n"), I(1))}, sc.callArgs(20)...)
		rc := call(A("f"), rargs)
		if sc.route == rRec {
			rc = L(A("+"), I(1), rc)
		}
		if sc.route == rTailShadowName {
			// a nested definition of the same name with the opposite laziness, never called
			var fl []*nd
			fl = append(fl, A("m"))
			for i := range f.lazy {
				if f.lazy[i] {
					fl = append(fl, A([]string{"p", "q", "s"}[i%3]))
				} else {
					fl = append(fl, A([]string{"#x", "#y", "#z"}[i%3]))
				}
			}
			if f.rest > 0 {
				fl = append(fl, A("&"), A("r"))
			}
			body = append(body, L(A("fn"), SQ(), L(A("defn"), A("f"), SQ(fl...), I(0))))
		}
		body = append(body, L(A("cond"), L(A("<="), A("n"), I(0)), I(0), rc))
	} else {
		body = append(body, I(101))
	}
	var def *nd
	if sc.typed {
		def = L(append([]*nd{A("func"), A("f"), formals, SQ(A("res:int64"))}, body...)...)
	} else {
		def = L(append([]*nd{A("defn"), A("f"), formals}, body...)...)
	}
	t1 = append(t1, def)
	args := sc.callArgs(0)
	_ = nfix
	// arity errors (malformed stream) concern the outer call only: a self tail call with the
	// wrong number of arguments is a known finding of C02 (no arity check on the goto path)
	if sc.ndelta < 0 && len(args) > 0 {
		args = args[:len(args)-1]
	} else if sc.ndelta > 0 {
		args = append(args, lzArg(aTrace, 9))
	}
	if sc.named != nil && len(args) == len(f.lazy) {
		// (f name: value …): values in the chosen written order
		var na []*nd
		for _, i := range sc.named {
			na = append(na, A(f.pname(i)+":"), args[i])
		}
		args = na
	}
	var c *nd
	switch sc.route {
	case rDirect:
		c = call(A("f"), args)
	case rAlias:
		t1 = append(t1, L(A("def"), A("g"), A("f")))
		c = call(A("g"), args)
	case rParam:
		t1 = append(t1, L(append(append([]*nd{A("defn"), A("via"), SQ(A("h"), A("a"))}, lzRebind()...), call(A("h"), args))...))
		c = L(A("via"), A("f"), I(7))
	case rComputedCond:
		c = call(L(A("cond"), L(A("trace"), I(99)), A("f"), A("sid")), args)
	case rComputedFn:
		c = call(L(L(A("fn"), SQ(), A("f"))), args)
	case rComputedAget:
		c = call(L(A("aget"), SQ(A("f")), I(0)), args)
	case rApplyArr:
		c = L(A("apply"), A("f"), SQ(args...))
	case rApplyList:
		c = L(A("apply"), A("f"), call(A("list"), args))
	case rMapArr:
		c = L(A("map"), A("f"), SQ(args...))
	case rMapList:
		c = L(A("map"), A("f"), call(A("list"), args))
	case rWrapper:
		t1 = append(t1, L(A("defn"), A("caller"), SQ(A("a")), L(append(append([]*nd{A("let"), SQ(A("b"), I(2)), L(A("trace"), I(98))}, lzRebind()...), call(A("f"), args))...)))
		c = L(A("caller"), I(7))
	case rLazyWrapper:
		// the wrapper's own lazy parameter is handed on to f's first parameter
		if len(args) == 0 {
			args = []*nd{lzArg(aTrace, 1)}
		}
		a2 := append([]*nd{A("#w")}, args[1:]...)
		t1 = append(t1, L(append(append([]*nd{A("defn"), A("cw"), SQ(A("#w"), A("a"))}, lzRebind()...), call(A("f"), a2))...))
		c = L(A("cw"), args[0], I(7))
	case rClosureCaller:
		// the call site sits in a closure whose free variable lives in the scope of its maker,
		// which has returned when the closure runs
		t1 = append(t1, L(A("defn"), A("mkc"), SQ(A("a")), L(append(append([]*nd{A("fn"), SQ(A("b"))}, lzRebind()...), call(A("f"), args))...)))
		c = L(L(A("mkc"), I(7)), I(3))
	case rRec, rTail, rTailShadowName:
		c = call(A("f"), append([]*nd{I(int64(1 + len(sc.args)%2))}, args...))
	}
	t1 = append(t1, L(A("trace"), c))
	t1 = append(t1, A("cnt"))
	out := [][]*nd{t1}
	for i := 0; i < sc.later; i++ {
		v := i % 3
		if sc.laterMut {
			v = []int{3, 4, 0, 1}[i%4]
		}
		switch v {
		case 3:
			// the state changes after the caller has returned, before the kept thunk is forced
			out = append(out, []*nd{L(A("mu")), L(A("bump")), L(A("k")), L(A("list"), A("a"), A("m"))})
		case 4:
			// … and between two forces of it
			out = append(out, []*nd{L(A("list"), L(A("k")), L(A("begin"), L(A("mu")), L(A("bump")), L(A("k"))))})
		case 0:
			out = append(out, []*nd{L(A("k"))})
		case 1:
			out = append(out, []*nd{L(A("def"), A("a"), I(50)), L(A("list"), L(A("k")), L(A("k")))})
		default:
			out = append(out, []*nd{L(A("let"), SQ(A("a"), I(60)), L(A("k"))), A("cnt")})
		}
	}
	return out
}

func (sc *lzScen) count(g *Gen, stream string) {
	g.Count("stream " + stream)
	g.Count("route " + lzRouteNames[sc.route])
	nl, ns := 0, 0
	for i, lz := range sc.fn.lazy {
		if lz {
			nl++
			g.Count("lazy-param use " + lzUseNames[sc.uses[i]])
			_, forces := lzUse("#x", sc.uses[i])
			switch {
			case forces < 0:
				g.Count("forces of a lazy param: 0 now, kept for a later text")
			case forces == 0:
				g.Count("forces of a lazy param: 0")
			case forces == 1:
				g.Count("forces of a lazy param: 1")
			default:
				g.Count("forces of a lazy param: many")
			}
			if i < len(sc.args) && lzIsErr(sc.args[i]) {
				if forces == 0 {
					g.Count("error argument in a lazy position, never forced")
				} else {
					g.Count("error argument in a lazy position, forced")
				}
			}
		} else {
			ns++
			if i < len(sc.args) && lzIsErr(sc.args[i]) {
				g.Count("error argument in a strict position")
			}
		}
	}
	g.Count(fmt.Sprintf("params lazy=%d strict=%d rest=%d", nl, ns, sc.fn.rest))
	for _, a := range sc.args {
		g.Count("arg " + lzArgNames[a])
	}
	if len(sc.args) > len(sc.fn.lazy) {
		g.Count("variadic tail non-empty")
	}
	if sc.typed {
		g.Count("typed func declaration")
	}
	stateArg := false
	for i, a := range sc.args {
		if a == aVarM || a == aVarA || a == aVarExpr || a == aClosureRead || a == aFree {
			if i < len(sc.fn.lazy) && sc.fn.lazy[i] {
				stateArg = true
			}
		}
	}
	if stateArg {
		g.Count("state-reading argument in a lazy position")
		if sc.mut&1 != 0 {
			g.Count("state-reading lazy argument x callee changes the state before any use")
		}
		if sc.mut&2 != 0 && len(sc.fn.lazy) > 1 {
			g.Count("state-reading lazy argument x state changes between the uses of the parameters")
		}
		for i, lz := range sc.fn.lazy {
			if lz && (sc.uses[i] == uMutForce || sc.uses[i] == uForceMutForce) {
				g.Count("state-reading lazy argument x " + lzUseNames[sc.uses[i]])
			}
		}
		if sc.laterMut && sc.later > 0 {
			g.Count("state-reading lazy argument x state changes in a later text before/between forces of the kept thunk")
		}
	}
	if sc.named != nil {
		g.Count("typed func called with named arguments")
		inOrder := true
		for k, i := range sc.named {
			inOrder = inOrder && k == i
		}
		if !inOrder {
			g.Count("named arguments written out of formal order")
		}
	}
	g.Count(fmt.Sprintf("history length %d", 1+sc.later))
}

// strayAmp: does `&` occur anywhere but in a parameter vector? (`&` as a value is the Go
// builtin address-of function, outside the modelled core language.)
func strayAmp(n *nd, isParams bool) bool {
	if n.kids == nil {
		return n.atom == "&" && !isParams
	}
	for i, k := range n.kids {
		params := false
		if !n.sq && len(n.kids) > 0 && n.kids[0].leaf() {
			h := n.kids[0].atom
			params = k.sq && ((h == "fn" && i == 1) || (h == "defn" && i == 2))
		}
		if k.kids == nil {
			if k.atom == "&" && !(isParams && n.sq) {
				return true
			}
			continue
		}
		if strayAmp(k, params) {
			return true
		}
	}
	return false
}

func emptyBlock(n *nd) bool {
	if n.kids == nil {
		return false
	}
	if !n.sq && len(n.kids) == 1 && (n.kids[0].atom == "begin" || n.kids[0].atom == "newScope") {
		return true
	}
	for _, k := range n.kids {
		if emptyBlock(k) {
			return true
		}
	}
	return false
}

func symbolInHead(n *nd) bool {
	if n.kids == nil {
		return false
	}
	if !n.sq && len(n.kids) > 0 && n.kids[0].kids != nil && !n.kids[0].sq && len(n.kids[0].kids) > 0 && n.kids[0].kids[0].atom == "substitute" {
		return true
	}
	for _, k := range n.kids {
		if symbolInHead(k) {
			return true
		}
	}
	return false
}

func (sc *lzScen) emit(g *Gen, stream string, mutate bool) {
	ts := sc.texts()
	if mutate {
		e := &evg{g: g}
		// mutate the definition/call part of the first text (not the helpers) or a later text
		which := 0
		if len(ts) > 1 && g.Rng.Intn(4) == 0 {
			which = 1 + g.Rng.Intn(len(ts)-1)
		}
		kind := "none"
		for tries := 0; tries < 20 && kind == "none"; tries++ {
			if which == 0 {
				kind = e.mutate(ts[0][len(lzHelpers):])
			} else {
				kind = e.mutate(ts[which])
			}
		}
		for _, t := range ts {
			for _, f := range t {
				if strayAmp(f, false) {
					g.Count("mal dropped (stray &)")
					return
				}
				if emptyBlock(f) {
					// (begin) / (newScope) without statements used as a value: C02's known findings
					g.Count("mal dropped (empty begin/newScope)")
					return
				}
				if symbolInHead(f) {
					// ((substitute #x)): a symbol *value* in head position is resolved once more as a
					// function name by ResolveCallable; symbols as values exist only as recovered source,
					// calling one is outside the property and outside the modelled core
					g.Count("mal dropped (recovered source in head position)")
					return
				}
				if f.leaf() && (f.atom == "+" || f.atom == "-") {
					// a lone sign at the end of a text makes the reader ask for more input: C13's known finding
					g.Count("mal dropped (lone sign at top level)")
					return
				}
			}
		}
		g.Count("mal " + kind)
	}
	var texts []string
	for _, t := range ts {
		texts = append(texts, renderProg(t, nil))
	}
	sc.count(g, stream)
	if sc.typed {
		g.Emit("+std %s", strings.Join(texts, " "))
	} else {
		g.Emit("%s", strings.Join(texts, " "))
	}
}

// routeOK: does the route make sense for this function shape?
func routeOK(route int, f lzFn, nargs int) bool {
	switch route {
	case rMapArr, rMapList:
		return len(f.lazy) == 1 || (len(f.lazy) == 0 && f.rest > 0) || (len(f.lazy) == 1 && f.rest > 0)
	case rLazyWrapper:
		return nargs >= 1
	}
	return true
}

func lzRandom(g *Gen, typed bool) *lzScen {
	r := g.Rng
	n := r.Intn(4) // 0..3 fixed params
	if typed {
		n = 1 + r.Intn(3)
	}
	f := lzFn{lazy: make([]bool, n)}
	for i := range f.lazy {
		f.lazy[i] = r.Intn(3) > 0
	}
	if !typed && r.Intn(3) == 0 {
		f.rest = 1 + r.Intn(2)
	}
	sc := &lzScen{fn: f, typed: typed}
	for i := range f.lazy {
		if f.lazy[i] {
			sc.uses = append(sc.uses, r.Intn(uCount))
		} else {
			sc.uses = append(sc.uses, r.Intn(4))
		}
	}
	nargs := n
	if f.rest > 0 {
		nargs += r.Intn(3)
	}
	for i := 0; i < nargs; i++ {
		k := r.Intn(aKinds)
		if typed && (k == aStr || k == aNestedLazy || k == aListVal) {
			k = aTrace
		}
		if r.Intn(3) == 0 {
			k = aTrace
		}
		if r.Intn(5) == 0 {
			k = []int{aVarM, aVarA, aVarExpr, aClosureRead, aFree}[r.Intn(5)]
		}
		sc.args = append(sc.args, k)
	}
	for tries := 0; ; tries++ {
		sc.route = r.Intn(rRoutes)
		if typed {
			sc.route = []int{rDirect, rTail, rRec, rAlias, rWrapper, rTailShadowName, rDirect, rWrapper, rApplyArr, rMapArr, rParam, rComputedFn}[r.Intn(12)]
		}
		if routeOK(sc.route, f, nargs) {
			break
		}
	}
	if typed && (sc.route == rDirect || sc.route == rWrapper) && n >= 1 && r.Intn(2) == 0 {
		// named arguments: a random written order that keeps the strict ones in formal order
		// (so that the order of their effects is the same as in the positional call)
		perm := r.Perm(n)
		var strictIdx []int
		for i := 0; i < n; i++ {
			if !f.lazy[i] {
				strictIdx = append(strictIdx, i)
			}
		}
		k := 0
		for j, i := range perm {
			if !f.lazy[i] {
				perm[j] = strictIdx[k]
				k++
			}
		}
		sc.named = perm
	}
	if sc.route == rMapArr || sc.route == rMapList {
		// map calls f once per element: the "arguments" are the elements
		for len(sc.args) < 2 {
			sc.args = append(sc.args, aTrace)
		}
	}
	kept := false
	for i := range f.lazy {
		if f.lazy[i] && (sc.uses[i] == uKeep || sc.uses[i] == uKeepForce) {
			kept = true
		}
	}
	sc.mut = []int{0, 0, 1, 2, 3}[r.Intn(5)]
	sc.laterMut = r.Intn(2) == 0
	if kept {
		sc.later = 1 + r.Intn(4)
	} else if r.Intn(6) == 0 {
		sc.later = 1
	}
	return sc
}

func lazyGen(g *Gen) {
	for _, t := range lazyFixed {
		g.Emit("%s", strings.ReplaceAll(t, " ", "~"))
		g.Count("stream fixed")
	}
	for _, t := range lazyFixedStd {
		g.Emit("+std %s", strings.ReplaceAll(t, " ", "~"))
		g.Count("stream fixed")
		g.Count("typed func declaration")
	}
	for _, t := range lazyFixedHist {
		g.Emit("%s", t)
		g.Count("stream fixed")
	}
	lazySmallScope(g)
	lazyHistories(g)
	nR, nM, nS := 1500, 500, 300
	if g.Thorough() {
		nR, nM, nS = 50000, 12000, 6000
	}
	for i := 0; i < nR; i++ {
		lzRandom(g, false).emit(g, "rnd", false)
	}
	for i := 0; i < nM; i++ {
		sc := lzRandom(g, false)
		if g.Rng.Intn(3) == 0 && len(sc.args) > 0 {
			// arity errors: too few / too many arguments
			if g.Rng.Intn(2) == 0 {
				sc.ndelta = -1
				g.Count("mal too-few-args")
			} else {
				sc.ndelta = 1
				g.Count("mal too-many-args")
			}
			sc.emit(g, "mal", false)
			continue
		}
		if sc.route == rTail || sc.route == rTailShadowName || sc.route == rRec {
			// a mutated self call can become a tail call with the wrong arity, or a tail call
			// inside an array literal / let initialiser (gen.Tail leaks there): findings that
			// belong to C02/C09, not to this property
			sc.route = rDirect
		}
		sc.emit(g, "mal", true)
	}
	for i := 0; i < nS; i++ {
		lzRandom(g, true).emit(g, "std", false)
	}
}

// Exhaustive small scope: parameter lists of length 1..2 over {lazy, strict} x rest {none, r,
// #r} x every route x five force patterns x three argument kinds. Quick: one third (rotating
// with the seed), thorough: all.
func lazySmallScope(g *Gen) {
	shapes := [][]bool{{true}, {false}, {true, true}, {true, false}, {false, true}, {false, false}}
	uses := []int{uNone, uForce1, uForce2, uKeep, uSubstForce, uForceMutForce}
	kinds := []int{aTrace, aErrUnbound, aFree, aVarA}
	idx := 0
	for _, sh := range shapes {
		for rest := 0; rest < 3; rest++ {
			for route := 0; route < rRoutes; route++ {
				for _, u := range uses {
					for _, ak := range kinds {
						f := lzFn{lazy: sh, rest: rest}
						nargs := len(sh)
						if rest > 0 {
							nargs++
						}
						if !routeOK(route, f, nargs) {
							continue
						}
						idx++
						if !g.Thorough() && (int64(idx)+g.Seed)%3 != 0 {
							continue
						}
						sc := &lzScen{fn: f, route: route}
						for _, lz := range sh {
							if lz {
								sc.uses = append(sc.uses, u)
							} else {
								sc.uses = append(sc.uses, 1)
							}
						}
						// the argument kind goes to the lazy positions (to position 0 when there is none)
						anyLazy := false
						for _, lz := range sh {
							anyLazy = anyLazy || lz
						}
						for i := 0; i < nargs; i++ {
							if (i < len(sh) && sh[i]) || (!anyLazy && i == 0) || ak == aFree || ak == aVarA {
								sc.args = append(sc.args, ak)
							} else {
								sc.args = append(sc.args, aTrace)
							}
						}
						if route == rMapArr || route == rMapList {
							for len(sc.args) < 2 {
								sc.args = append(sc.args, ak)
							}
						}
						if u == uKeep {
							sc.later = 2
							sc.laterMut = idx%2 == 0
						}
						if ak == aFree || ak == aVarA {
							sc.mut = idx % 3 // none / callee changes the state first / between parameters
						}
						sc.emit(g, "small", false)
					}
				}
			}
		}
	}
}

// Hand-written histories (one text each; blanks become ~).
var lazyFixed = []string{
	"(defn lz [#x p] (cond p (+ (force #x) (force #x)) 0)) (lz (trace 5) true) (lz (trace 6) false)",
	"(defn keep [#x] 7) (keep (nosuch 1))",
	"(defn mixed [a #b c] (+ a c)) (mixed (trace 1) (nosuch) (trace 2))",
	"(defn receiver [#x] (let [a 100] (force #x))) (defn caller [] (let [a 7] (receiver (+ a 1)))) (caller)",
	"(def n 0) (defn bump [] (set n (+ n 1)) n) (defn twice [#x] (+ (force #x) (force #x))) (twice (bump)) n",
	"((fn [#x] (force #x)) (+ 10 5))",
	"(defn src [#x] (substitute #x)) (src (trace (+ 1 2))) (src a) (src 5) (src \"s\") (src [1 (trace 2)]) (src (let [a 1] a)) (src ())",
	"(defn src [#x] (substitute #x)) (src (cond true 1 2)) (src (fn [a & b] a)) (src (and 1 (or 2 3))) (src (begin (def a 1) (set a 2)))",
	"(defn src [#x] (list (substitute #x) (force #x) (substitute #x))) (src (trace 4))",
	"(defn g [#y] (force #y)) (defn f [#x] (g #x)) (f (trace 3))",
	"(defn g [#y] (force (force #y))) (defn f [#x] (g #x)) (f (trace 3))",
	"(defn va [#x & r] r) (va (trace 1) (trace 2) (trace 3))",
	"(defn va [a & #r] #r) (va (trace 1) (trace 2) (trace 3))",
	"(defn va [#x & #r] (list (force #x) #r)) (va (trace 1) (trace 2) (trace 3))",
	"(defn f [#x] (force #x)) (apply f [(trace 1)])",
	"(defn f [#x] (substitute #x)) (apply f [(trace 1)]) (map f [4 5]) (map f (list 6))",
	"(defn f [#x] (force #x)) (map f [1 2])",
	"(defn f [a n] (fn [] (defn f [#b m] 0)) (cond (== n 0) a (f (trace 7) (- n 1)))) (f 1 1)",
	"(defn f [#a n] (fn [] (defn f [b m] 0)) (cond (== n 0) 5 (f (trace 7) (- n 1)))) (f 1 1)",
	"(defn f [#x n] (trace 100) (cond (== n 0) (force #x) (f (trace n) (- n 1)))) (f (trace 9) 2)",
	"(defn f [#x n] (cond (== n 0) 0 (+ 1 (f (trace n) (- n 1))))) (f (trace 9) 2)",
	"(defn strict [x] x) (def g strict) (g (trace 3))",
	"(def n 1) (defn late [#x] (set n 2) (force #x)) (late n) (late (+ n 0))",
	"(def n 1) (defn f [#x] (list (force #x) (begin (set n 42) (force #x)))) (f n) (def n 1) (f (* n 1))",
	"(def k nil) (defn f [#x] (set k (fn [] (force #x))) 0) (defn c [a] (def g (fn [] (set a (+ a 1)))) (f a) g) (def h (c 5)) (h) (k) (h) (k)",
	"(defn f [g #x] (g) (force #x)) (defn c [a] (f (fn [] (set a (+ a 1))) a)) (c 10)",
	"(def v [1 2]) (defn f [#x] (aset v 0 9) (force #x)) (f (aget v 0)) (f v)",
	"(defn f [#x] (force #x)) (defn mkc [a] (fn [b] (f (trace (+ a b))))) (def a 100) (def b 200) ((mkc 7) 3)",
	"(def k nil) (defn f [#x] (set k (fn [] (force #x))) 0) (defn mkc [a] (fn [b] (f (trace (+ a b))))) (def a 100) (def b 200) ((mkc 7) 3) (k) (let [a 1 b 2] (k))",
	"(defn f [#x] (let [a 50 b 60] ((fn [] (force #x))))) (defn mkc [a] (fn [b] (let [c 1] (f (trace (+ a (+ b c))))))) ((mkc 7) 3)",
	"(def order \"\") (defn choose [] (set order (concat order \"c\")) (fn [x] order)) ((choose) (set order (concat order \"a\")))",
	"(force 1) (force) (substitute 2) (substitute)",
	"(force 1 2)",
	"(defn f [#x] x) (f 1)",
	"#nosuch",
	"(defn f [#x] (force #x)) (f) ",
	"(defn f [#x] (force #x)) (f 1 2)",
	"(defn f [#x] (def #x 5) #x) (f (trace 1))",
	"(defn f [#x] (fn [] (force #x))) (def h (f (trace 1))) (h) (h)",
	"(defn f [#x] (force #x)) (f (f (f (trace 1))))",
	"(defn f [#x] (force #x) (force #x)) (defn g [#y] (f (force #y)) (f (force #y))) (g (trace 1))",
	"(def k nil) (def n 0) (defn f [#x] (set k (fn [] (force #x))) (force #x)) (f (cond (== n 0) (begin (set n 1) (trace 1) (+ 1 (k))) (trace 5))) (k)",
}

var lazyFixedStd = []string{
	"(func ft [#x:int64] [n:int64] (force #x)) (ft (trace 42))",
	"(func ft [#x:int64 n:int64] [r:int64] (cond (== n 0) 0 (ft (trace n) (- n 1)))) (ft (trace 9) 2)",
	"(func ft [#x:int64 n:int64] [r:int64] (cond (== n 0) (force #x) (ft (trace n) (- n 1)))) (ft (trace 9) 2)",
	"(func ft [#x:int64 n:int64] [r:int64] (cond (== n 0) 0 (+ 1 (ft (trace n) (- n 1))))) (ft (trace 9) 2)",
	"(func ft [x:int64 #y:int64] [r:int64] x) (ft (trace 1) (trace \"s\"))",
	"(func ft [a:int64 b:int64] [r:int64] (- a b)) (ft b: 1 a: 10)",
	"(func ft [#x:int64 n:int64] [r:int64] (trace 100) n) (ft n: 2 #x: (trace 1))",
	"(func ft [#x:int64 n:int64] [r:int64] (trace 100) (+ n (force #x))) (ft n: 2 #x: (trace 1))",
	"(func ft [n:int64 #x:int64] [r:int64] (trace 100) n) (ft n: (trace 2) #x: (trace 1))",
	"(func ft [n:int64 #x:int64 m:int64] [r:int64] (trace 100) (+ n (+ m (force #x)))) (ft #x: (trace 1) n: (trace 2) m: (trace 3))",
	"(func ft [#x:int64 #y:int64] [r:int64] (trace 100) (force #y)) (ft #y: (trace 1) #x: (trace 2))",
}

// histories of several texts (already in wire form)
var lazyFixedHist = []string{
	"(def~k~nil)~(defn~f~[#x]~(set~k~(fn~[]~(force~#x)))~0)~(f~(begin~(trace~1)~(nosuch))) (k) (k)",
	"(def~k~nil)~(defn~f~[#x]~(set~k~(fn~[]~(force~#x)))~0)~(defn~c~[a]~(f~(trace~a)))~(c~5) (k) (k) (def~a~9)~(k)",
	"(def~k~nil)~(defn~f~[#x]~(set~k~(fn~[]~(substitute~#x)))~0)~(defn~c~[a]~(f~(trace~a)))~(c~5) (k) (force~(k))",
	"(def~k~nil)~(defn~f~[#x]~(set~k~#x)~0)~(defn~c~[a]~(f~(trace~a)))~(c~5) (force~k) (force~k)~(substitute~k)",
}

func init() { channels["lazy"] = &Channel{Gen: lazyGen, Exec: evalExec} }
