package main

// Channel walk (C20): the real map walks against Model/MapWalk.lean.
//   walk sorted <k1> <k2> …   build a Go map with these (distinct) keys, call
//                             makeSortedSlicesFromMap 8 times (8 iteration orders); all
//                             results must agree; answer = sorted keys, `,`-joined codes,
//                             or ORDER-DEPENDENT
//   walk intern <k1> … [| <z1> …]  a map[string]interface{} with these member names (numbers
//                             as values, "Atype" holds "hash") and, after `|`, a member
//                             "zKeyOrder" listing those strings, decoded by the real
//                             zygo.GoToSexp in a fresh interpreter, 8 times (8 iteration
//                             orders of the Go map); answer = the names the decode interned
//                             in symbol-NUMBER order (what symnum exposes), `,`-joined
//                             codes, or ORDER-DEPENDENT when two decodes number them differently
//   walk api <entry> <program>   the exported conversion entry points that walk a hash's buckets
//                             or a Go map, called DIRECTLY (an embedder's view; several are not
//                             reachable from any builtin): the program (dot-coded) is evaluated
//                             in a fresh interpreter to get a value, the entry point converts it,
//                             and the observation is the rendered result + error text + the names
//                             interned at run time in symbol-number order; 8 fresh interpreters
//                             (8 iteration orders); answer `stable` or ORDER-DEPENDENT <a> <b>.
//                             entries: togo (SexpToGo), roundtrip (GoToSexp after SexpToGo),
//                             mapss / mapsf / mapif / mapsi (SexpToGoStructs into *map[string]string,
//                             *map[string]float64, *map[int64]float64, *map[string]interface{}),
//                             json (SexpToJson + JsonToSexp), msgpack (SexpToMsgpack + MsgpackToSexp)

import (
	"fmt"
	"strings"

	"github.com/glycerine/zygomys/v9/zygo"
)

func walkExec(toks []string) string {
	if len(toks) < 1 {
		return "bad-op"
	}
	switch toks[0] {
	case "sorted":
		m := map[string]interface{}{}
		for i, c := range toks[1:] {
			b, ok := codesToBytes(c)
			if !ok {
				return "bad-op"
			}
			m[string(b)] = i
		}
		first := ""
		for r := 0; r < 8; r++ {
			ks, vs := zygo.VerifSortedSlices(m)
			var parts []string
			for i, k := range ks {
				if m[k] != vs[i] {
					return "VALUE-MISMATCH"
				}
				parts = append(parts, bytesToCodes([]byte(k)))
			}
			s := strings.Join(parts, ",")
			if r == 0 {
				first = s
			} else if s != first {
				return "ORDER-DEPENDENT"
			}
		}
		return first
	case "api":
		if len(toks) != 3 {
			return "bad-op"
		}
		pb, ok := codesToBytes(toks[2])
		if !ok {
			return "bad-op"
		}
		first := ""
		for r := 0; r < 8; r++ {
			o := walkAPIOnce(toks[1], string(pb))
			if r == 0 {
				first = o
			} else if o != first {
				a, b := diffWindow(first, o)
				return "ORDER-DEPENDENT " + bytesToCodes([]byte(a)) + " " + bytesToCodes([]byte(b))
			}
		}
		if strings.HasPrefix(first, "bad-op") {
			return "bad-op"
		}
		return "stable"
	case "intern":
		m := map[string]interface{}{}
		sawBar := false
		var znames []interface{}
		for i, c := range toks[1:] {
			if c == "|" {
				sawBar = true
				continue
			}
			b, ok := codesToBytes(c)
			if !ok {
				return "bad-op"
			}
			if sawBar {
				znames = append(znames, string(b))
			} else if string(b) == "Atype" {
				m["Atype"] = "hash"
			} else {
				m[string(b)] = i
			}
		}
		if sawBar {
			m["zKeyOrder"] = znames
		}
		first := ""
		for r := 0; r < 8; r++ {
			env := zygo.NewZlisp()
			base := zygo.VerifSymCounter(env)
			pre, _ := zygo.VerifSymMaps(env)
			for k := range m {
				if _, ok := pre[k]; ok && k != "Atype" && k != "zKeyOrder" {
					env.Close()
					return "PREINTERNED " + k
				}
			}
			func() {
				defer func() { recover() }() // SetHashKeyOrder may reject the list: the numbering stands
				zygo.GoToSexp(m, env)
			}()
			var parts []string
			for _, e := range zygo.VerifSymTable(env) {
				if e.Num >= base {
					parts = append(parts, bytesToCodes([]byte(e.Name)))
				}
			}
			env.Close()
			s := strings.Join(parts, ",")
			if s == "" {
				s = "-"
			}
			if r == 0 {
				first = s
			} else if s != first {
				return "ORDER-DEPENDENT"
			}
		}
		return first
	}
	return "bad-op"
}

// walkAPIOnce: one fresh interpreter, one conversion, the canonical observation.
func walkAPIOnce(entry, prog string) (obs string) {
	detProcessSetup()
	env := detFreshEnv()
	defer env.Close()
	val, err := env.EvalString(prog + "\n")
	if err != nil {
		return "PROGRAM-ERROR " + err.Error()
	}
	base := zygo.VerifSymCounter(env)
	res := ""
	func() {
		defer func() {
			if r := recover(); r != nil {
				res = "PANIC " + strings.SplitN(fmt.Sprint(r), "\n", 2)[0]
			}
		}()
		switch entry {
		case "togo":
			// fmt prints Go maps with sorted keys
			res = fmt.Sprintf("%v", zygo.SexpToGo(val, env, nil))
		case "roundtrip":
			back, err := zygo.GoToSexp(zygo.SexpToGo(val, env, nil), env)
			if err != nil {
				res = "ERR " + err.Error()
			} else {
				res = back.SexpString(nil)
			}
		case "mapss":
			t := map[string]string{}
			_, err := zygo.SexpToGoStructs(val, &t, env, nil, 0, &t)
			res = fmt.Sprintf("%v %v", t, err)
		case "mapsf":
			t := map[string]float64{}
			_, err := zygo.SexpToGoStructs(val, &t, env, nil, 0, &t)
			res = fmt.Sprintf("%v %v", t, err)
		case "mapif":
			t := map[int64]float64{}
			_, err := zygo.SexpToGoStructs(val, &t, env, nil, 0, &t)
			res = fmt.Sprintf("%v %v", t, err)
		case "mapsi":
			t := map[string]interface{}{}
			_, err := zygo.SexpToGoStructs(val, &t, env, nil, 0, &t)
			res = fmt.Sprintf("%v %v", t, err)
		case "json":
			js := zygo.SexpToJson(val)
			back, err := zygo.JsonToSexp([]byte(js), env)
			if err != nil {
				res = js + " ERR " + err.Error()
			} else {
				res = js + " " + back.SexpString(nil)
			}
		case "msgpack":
			by, _ := zygo.SexpToMsgpack(val)
			back, err := zygo.MsgpackToSexp(by, env)
			if err != nil {
				res = fmt.Sprintf("%x ERR %s", by, err.Error())
			} else {
				res = fmt.Sprintf("%x %s", by, back.SexpString(nil))
			}
		default:
			res = "bad-op"
		}
	}()
	var sb strings.Builder
	for _, e := range zygo.VerifSymTable(env) {
		if e.Num >= base {
			sb.WriteString(" " + e.Name)
		}
	}
	res = ptrRe.ReplaceAllString(res, "0xPTR")
	return res + "\nS:" + sb.String()
}

var walkAPIEntries = []string{"togo", "roundtrip", "mapss", "mapsf", "mapif", "mapsi", "json", "msgpack"}

// walkAPIValue: a program whose value is a hash the entry point can take (string keys that
// no program text mentions as symbols, symbol keys, nested hashes, values of the right type).
func walkAPIValue(g *Gen, entry string) string {
	names := []string{"zqa", "zqb", "zqc", "zqd", "zqe", "zqf", "Zq", "yq"}
	g.Rng.Shuffle(len(names), func(i, j int) { names[i], names[j] = names[j], names[i] })
	n := 2 + g.Rng.Intn(5)
	var sb strings.Builder
	sb.WriteString("(hash")
	for i, k := range names[:n] {
		key := `"` + k + `"`
		if entry == "mapif" {
			key = fmt.Sprint(i*7 + 1)
		} else if g.Rng.Intn(4) == 0 {
			key = k + ":" // a symbol key (interned by the parser)
		}
		var v string
		switch entry {
		case "mapss":
			v = `"v` + fmt.Sprint(i) + `"`
			if g.Rng.Intn(8) == 0 {
				v = "7" // a value of the wrong type: the error text must not depend on the walk
			}
		case "mapsf", "mapif":
			v = fmt.Sprintf("%d.5", i)
			if g.Rng.Intn(8) == 0 {
				v = `"notanumber"`
			}
		case "mapsi":
			// SexpToGoStructs cannot fill an interface{} element from a number, a string or an
			// array (each fails with its own text): members of ONE kind, so that the text does not
			// depend on which member the walk meets first (the mixed case is a fixed op, below)
			v = fmt.Sprint(i + 1)
		default:
			v = fmt.Sprint(i + 1)
			switch g.Rng.Intn(5) {
			case 0:
				v = `(hash "` + k + `in" 1 "` + k + `ib" "s")`
			case 1:
				v = `["` + k + `el" 2]`
			}
		}
		sb.WriteString(" " + key + " " + v)
	}
	sb.WriteString(")")
	return sb.String()
}

func walkGen(g *Gen) {
	n := 300
	if g.Thorough() {
		n = 5000
	}
	alphabet := []string{"a", "b", "A", "B", "z", "Z", "0", "9", "_", "zKeyOrder", "Atype", "aa", "ab", "b a", "é", "~"}
	// exhaustive small scope: every non-empty subset of 4 keys in one insertion order
	base := []string{"b", "a", "Atype", "zKeyOrder"}
	for mask := 1; mask < 16; mask++ {
		var ks []string
		for i, k := range base {
			if mask&(1<<i) != 0 {
				ks = append(ks, bytesToCodes([]byte(k)))
			}
		}
		g.Count("sorted exhaustive-subsets-of-4")
		g.Emit("sorted %s", strings.Join(ks, " "))
	}
	for i := 0; i < n; i++ {
		k := 1 + g.Rng.Intn(12)
		seen := map[string]bool{}
		var ks []string
		for len(ks) < k {
			s := alphabet[g.Rng.Intn(len(alphabet))]
			if g.Rng.Intn(3) == 0 {
				s += alphabet[g.Rng.Intn(len(alphabet))]
			}
			if !seen[s] {
				seen[s] = true
				ks = append(ks, bytesToCodes([]byte(s)))
			}
		}
		g.Count("sorted random size " + map[bool]string{true: "1-4", false: "5-12"}[k <= 4])
		g.Emit("sorted %s", strings.Join(ks, " "))
	}
	// the exported conversion entry points, called directly
	napi := 6
	if g.Thorough() {
		napi = 60
	}
	for _, e := range walkAPIEntries {
		for i := 0; i < napi; i++ {
			g.Count("api " + e)
			g.Emit("api %s %s", e, bytesToCodes([]byte(walkAPIValue(g, e))))
		}
	}
	// two members that fail differently, into *map[string]interface{} (SexpToGoStructs#3)
	g.Count("api mapsi mixed unconvertible members")
	g.Emit("api mapsi %s", bytesToCodes([]byte(`(hash "zqa" 1 "zqb" ["el" 2] "zqc" "s")`)))
	// decoder interning: member names no fresh interpreter knows
	names := []string{"zqa", "zqb", "zqB", "zq_", "zq0", "zqaa", "zqab", "Zq", "zzq", "zzzq", "yq", "q~", "zKeyOrdeq", "zKeyOrderq", "Atypf", "Atyp", "zq é"}
	enc := func(ss []string) string {
		var cs []string
		for _, s := range ss {
			cs = append(cs, bytesToCodes([]byte(s)))
		}
		return strings.Join(cs, " ")
	}
	pick := func(k int) []string {
		p := g.Rng.Perm(len(names))
		var r []string
		for _, i := range p[:k] {
			r = append(r, names[i])
		}
		return r
	}
	for i := 0; i < n/2; i++ {
		ks := pick(1 + g.Rng.Intn(9))
		if g.Rng.Intn(3) == 0 {
			ks = append(ks, "Atype")
			g.Rng.Shuffle(len(ks), func(i, j int) { ks[i], ks[j] = ks[j], ks[i] })
		}
		switch g.Rng.Intn(4) {
		case 0:
			g.Count("intern foreign object (no zKeyOrder)")
			g.Emit("intern %s", enc(ks))
		case 1:
			// zKeyOrder = a permutation of the member names (what (json h) writes)
			var zs []string
			for _, k := range ks {
				if k != "Atype" {
					zs = append(zs, k)
				}
			}
			g.Rng.Shuffle(len(zs), func(i, j int) { zs[i], zs[j] = zs[j], zs[i] })
			g.Count("intern own object (zKeyOrder = permutation of the members)")
			g.Emit("intern %s | %s", enc(ks), enc(zs))
		case 2:
			// zKeyOrder names things that are not members, and misses some
			zs := pick(1 + g.Rng.Intn(5))
			g.Count("intern zKeyOrder with other names")
			g.Emit("intern %s | %s", enc(ks), enc(zs))
		case 3:
			g.Count("intern empty zKeyOrder")
			g.Emit("intern %s |", enc(ks))
		}
	}
}

func init() {
	channels["walk"] = &Channel{Gen: walkGen, Exec: walkExec}
}
