package main

// Channel walk (C20): the real map walks against Model/MapWalk.lean.
//   walk sorted <k1> <k2> …   build a Go map with these (distinct) keys, call
//                             makeSortedSlicesFromMap 8 times (8 iteration orders); all
//                             results must agree; answer = sorted keys, `,`-joined codes,
//                             or ORDER-DEPENDENT
//   walk intern <k1> … [| <z1> …]  a map[string]interface{} with these member names (numbers
//                             as values, "Atype" holds "hash") and, after `|`, a member
//                             "zKeyOrder" listing those strings, decoded by the real
//                             zygo.GoToSexp in a fresh interpreter, 8 times (8 iteration
//                             orders of the Go map); answer = the names the decode interned
//                             in symbol-NUMBER order (what symnum exposes), `,`-joined
//                             codes, or ORDER-DEPENDENT when two decodes number them differently

import (
	"strings"

	"github.com/glycerine/zygomys/v9/zygo"
)

func walkExec(toks []string) string {
	if len(toks) < 1 {
		return "bad-op"
	}
	switch toks[0] {
	case "sorted":
		m := map[string]interface{}{}
		for i, c := range toks[1:] {
			b, ok := codesToBytes(c)
			if !ok {
				return "bad-op"
			}
			m[string(b)] = i
		}
		first := ""
		for r := 0; r < 8; r++ {
			ks, vs := zygo.VerifSortedSlices(m)
			var parts []string
			for i, k := range ks {
				if m[k] != vs[i] {
					return "VALUE-MISMATCH"
				}
				parts = append(parts, bytesToCodes([]byte(k)))
			}
			s := strings.Join(parts, ",")
			if r == 0 {
				first = s
			} else if s != first {
				return "ORDER-DEPENDENT"
			}
		}
		return first
	case "intern":
		m := map[string]interface{}{}
		sawBar := false
		var znames []interface{}
		for i, c := range toks[1:] {
			if c == "|" {
				sawBar = true
				continue
			}
			b, ok := codesToBytes(c)
			if !ok {
				return "bad-op"
			}
			if sawBar {
				znames = append(znames, string(b))
			} else if string(b) == "Atype" {
				m["Atype"] = "hash"
			} else {
				m[string(b)] = i
			}
		}
		if sawBar {
			m["zKeyOrder"] = znames
		}
		first := ""
		for r := 0; r < 8; r++ {
			env := zygo.NewZlisp()
			base := zygo.VerifSymCounter(env)
			pre, _ := zygo.VerifSymMaps(env)
			for k := range m {
				if _, ok := pre[k]; ok && k != "Atype" && k != "zKeyOrder" {
					env.Close()
					return "PREINTERNED " + k
				}
			}
			func() {
				defer func() { recover() }() // SetHashKeyOrder may reject the list: the numbering stands
				zygo.GoToSexp(m, env)
			}()
			var parts []string
			for _, e := range zygo.VerifSymTable(env) {
				if e.Num >= base {
					parts = append(parts, bytesToCodes([]byte(e.Name)))
				}
			}
			env.Close()
			s := strings.Join(parts, ",")
			if s == "" {
				s = "-"
			}
			if r == 0 {
				first = s
			} else if s != first {
				return "ORDER-DEPENDENT"
			}
		}
		return first
	}
	return "bad-op"
}

func walkGen(g *Gen) {
	n := 300
	if g.Thorough() {
		n = 5000
	}
	alphabet := []string{"a", "b", "A", "B", "z", "Z", "0", "9", "_", "zKeyOrder", "Atype", "aa", "ab", "b a", "é", "~"}
	// exhaustive small scope: every non-empty subset of 4 keys in one insertion order
	base := []string{"b", "a", "Atype", "zKeyOrder"}
	for mask := 1; mask < 16; mask++ {
		var ks []string
		for i, k := range base {
			if mask&(1<<i) != 0 {
				ks = append(ks, bytesToCodes([]byte(k)))
			}
		}
		g.Count("sorted exhaustive-subsets-of-4")
		g.Emit("sorted %s", strings.Join(ks, " "))
	}
	for i := 0; i < n; i++ {
		k := 1 + g.Rng.Intn(12)
		seen := map[string]bool{}
		var ks []string
		for len(ks) < k {
			s := alphabet[g.Rng.Intn(len(alphabet))]
			if g.Rng.Intn(3) == 0 {
				s += alphabet[g.Rng.Intn(len(alphabet))]
			}
			if !seen[s] {
				seen[s] = true
				ks = append(ks, bytesToCodes([]byte(s)))
			}
		}
		g.Count("sorted random size " + map[bool]string{true: "1-4", false: "5-12"}[k <= 4])
		g.Emit("sorted %s", strings.Join(ks, " "))
	}
	// decoder interning: member names no fresh interpreter knows
	names := []string{"zqa", "zqb", "zqB", "zq_", "zq0", "zqaa", "zqab", "Zq", "zzq", "zzzq", "yq", "q~", "zKeyOrdeq", "zKeyOrderq", "Atypf", "Atyp", "zq é"}
	enc := func(ss []string) string {
		var cs []string
		for _, s := range ss {
			cs = append(cs, bytesToCodes([]byte(s)))
		}
		return strings.Join(cs, " ")
	}
	pick := func(k int) []string {
		p := g.Rng.Perm(len(names))
		var r []string
		for _, i := range p[:k] {
			r = append(r, names[i])
		}
		return r
	}
	for i := 0; i < n/2; i++ {
		ks := pick(1 + g.Rng.Intn(9))
		if g.Rng.Intn(3) == 0 {
			ks = append(ks, "Atype")
			g.Rng.Shuffle(len(ks), func(i, j int) { ks[i], ks[j] = ks[j], ks[i] })
		}
		switch g.Rng.Intn(4) {
		case 0:
			g.Count("intern foreign object (no zKeyOrder)")
			g.Emit("intern %s", enc(ks))
		case 1:
			// zKeyOrder = a permutation of the member names (what (json h) writes)
			var zs []string
			for _, k := range ks {
				if k != "Atype" {
					zs = append(zs, k)
				}
			}
			g.Rng.Shuffle(len(zs), func(i, j int) { zs[i], zs[j] = zs[j], zs[i] })
			g.Count("intern own object (zKeyOrder = permutation of the members)")
			g.Emit("intern %s | %s", enc(ks), enc(zs))
		case 2:
			// zKeyOrder names things that are not members, and misses some
			zs := pick(1 + g.Rng.Intn(5))
			g.Count("intern zKeyOrder with other names")
			g.Emit("intern %s | %s", enc(ks), enc(zs))
		case 3:
			g.Count("intern empty zKeyOrder")
			g.Emit("intern %s |", enc(ks))
		}
	}
}

func init() {
	channels["walk"] = &Channel{Gen: walkGen, Exec: walkExec}
}
