package main

// Channel walk (C20): the real map walks against Model/MapWalk.lean.
//   walk sorted <k1> <k2> …   build a Go map with these (distinct) keys, call
//                             makeSortedSlicesFromMap 8 times (8 iteration orders); all
//                             results must agree; answer = sorted keys, `,`-joined codes,
//                             or ORDER-DEPENDENT

import (
	"strings"

	"github.com/glycerine/zygomys/v9/zygo"
)

func walkExec(toks []string) string {
	if len(toks) < 1 {
		return "bad-op"
	}
	switch toks[0] {
	case "sorted":
		m := map[string]interface{}{}
		for i, c := range toks[1:] {
			b, ok := codesToBytes(c)
			if !ok {
				return "bad-op"
			}
			m[string(b)] = i
		}
		first := ""
		for r := 0; r < 8; r++ {
			ks, vs := zygo.VerifSortedSlices(m)
			var parts []string
			for i, k := range ks {
				if m[k] != vs[i] {
					return "VALUE-MISMATCH"
				}
				parts = append(parts, bytesToCodes([]byte(k)))
			}
			s := strings.Join(parts, ",")
			if r == 0 {
				first = s
			} else if s != first {
				return "ORDER-DEPENDENT"
			}
		}
		return first
	}
	return "bad-op"
}

func walkGen(g *Gen) {
	n := 300
	if g.Thorough() {
		n = 5000
	}
	alphabet := []string{"a", "b", "A", "B", "z", "Z", "0", "9", "_", "zKeyOrder", "Atype", "aa", "ab", "b a", "é", "~"}
	// exhaustive small scope: every non-empty subset of 4 keys in one insertion order
	base := []string{"b", "a", "Atype", "zKeyOrder"}
	for mask := 1; mask < 16; mask++ {
		var ks []string
		for i, k := range base {
			if mask&(1<<i) != 0 {
				ks = append(ks, bytesToCodes([]byte(k)))
			}
		}
		g.Count("sorted exhaustive-subsets-of-4")
		g.Emit("sorted %s", strings.Join(ks, " "))
	}
	for i := 0; i < n; i++ {
		k := 1 + g.Rng.Intn(12)
		seen := map[string]bool{}
		var ks []string
		for len(ks) < k {
			s := alphabet[g.Rng.Intn(len(alphabet))]
			if g.Rng.Intn(3) == 0 {
				s += alphabet[g.Rng.Intn(len(alphabet))]
			}
			if !seen[s] {
				seen[s] = true
				ks = append(ks, bytesToCodes([]byte(s)))
			}
		}
		g.Count("sorted random size " + map[bool]string{true: "1-4", false: "5-12"}[k <= 4])
		g.Emit("sorted %s", strings.Join(ks, " "))
	}
}

func init() {
	channels["walk"] = &Channel{Gen: walkGen, Exec: walkExec}
}
