package main

// Channel sandbox (C08): a sandboxed interpreter cannot reach the outside world.
//
//   sandbox names  <cfg>                      every name bound in a REAL interpreter of the
//                                             configuration (global scope, builtins, macros)
//                                             with the Go function behind it
//   sandbox probe  <cfg> <name>               the whole battery of call shapes for one name
//   sandbox script <cfg> <mode> <script>      one script      (name, script: dot-separated bytes)
//   sandbox tuples <cfg> <name> <lo>-<hi>     every argument tuple of length lo…hi over a value pool
//                                             (canaries, hash, record, array, raw, int, symbol, nil),
//                                             direct / alias / apply; bare and std only
//   sandbox history <cfg> <gate> <name>       two-text histories: text 1 binds <gate> (a name the Go code
//                                             looks up by string) to a value / function / macro, the probes of
//                                             <name> run as later evaluations on the same interpreter (and,
//                                             under StandardSetup, in one text through eval)
//
// cfg  = bare (NewZlispSandbox) | std (+ StandardSetup) | cli (the command line tool -sandbox)
// mode = eval (bare, std: EvalString) | repl | cmd | file (cli: lines on stdin / -c / script file)
//
// Every script runs in a CHILD process whose working directory is a fresh canary directory:
//   secret.txt, zqreq, zqpkg.zy   files whose content is a token that no script contains
//                       (a string literal; a package declaration for `import`)
//   created.txt         must not come into existence;  modify.txt  must keep its content
//   cmd-ran.txt         created by the canary shell command, whose output (expr 77310000 + 1)
//                       is a number that no script contains
//   ZQ_CANARY_ENV       environment variable holding a secret; ZQ_CANARY_NEW must stay unset
// Effects observed: file-read (token visible in value / error / output), file-write,
// process, env-read, env-write, exit (the process ended before the end marker / the battery
// was cut short with no Go panic on stderr). A Go panic or fatal error that kills the child
// is reported as `crash` (property C01's subject), a script that does not finish as `timeout`.
// Answer: `clean n=<scripts run>` or `EFFECT <kind>[,<kind>] <script as bytes>`; for names:
// `names <name-bytes>;<where>;<kind>;<gofunc> …`.
//
// cli runs the real cmd/zygo binary when $ZYH_ZYGO_BIN names one (checks/C08.py builds it from
// the tree under test); otherwise the child calls zygo.ReplMain itself with the flags parsed
// exactly as cmd/zygo/main.go does.

import (
	"bytes"
	"fmt"
	"io"
	"os"
	"os/exec"
	"path/filepath"
	"sort"
	"strconv"
	"strings"
	"time"

	"github.com/glycerine/zygomys/v9/zygo"
)

const (
	sbFileSecret = "ZQFILESECRET7731"
	sbEnvName    = "ZQ_CANARY_ENV"
	sbEnvNew     = "ZQ_CANARY_NEW"
	sbEnvSecret  = "zqenvsecret4409"
	sbCmdOut     = "77310001"
	sbEndOut     = "77310002"
	sbModify     = "zq-original-content\n"
	sbSep        = "\n\x00\n"
	// inside one script: what follows is a LATER evaluation on the same interpreter
	sbLater = "\n// ---- later evaluation ----\n"
	// a package file: what `import` wants to find
	sbPkgFile = "(package \"zqpkg\"\n  (def Secret \"" + sbFileSecret + "\"))\n"
)

func sbMkEnv(cfg string) *zygo.Zlisp {
	env := zygo.NewZlispSandbox()
	if cfg != "bare" {
		env.StandardSetup()
	}
	return env
}

// ---------------------------------------------------------------- canary directory

type sbDir struct{ root, c, h string }

func sbNewDir() (*sbDir, error) {
	root, err := os.MkdirTemp("", "zq-sb-")
	if err != nil {
		return nil, err
	}
	d := &sbDir{root: root, c: filepath.Join(root, "c"), h: filepath.Join(root, "h")}
	os.Mkdir(d.c, 0o755)
	os.Mkdir(d.h, 0o755)
	d.reset()
	return d, nil
}

func (d *sbDir) reset() {
	ents, _ := os.ReadDir(d.c)
	for _, e := range ents {
		os.RemoveAll(filepath.Join(d.c, e.Name()))
	}
	os.WriteFile(filepath.Join(d.c, "secret.txt"), []byte("\""+sbFileSecret+"\"\n"), 0o644)
	os.WriteFile(filepath.Join(d.c, "zqreq"), []byte("\""+sbFileSecret+"\"\n"), 0o644)
	os.WriteFile(filepath.Join(d.c, "modify.txt"), []byte(sbModify), 0o644)
	os.WriteFile(filepath.Join(d.c, "zqpkg.zy"), []byte(sbPkgFile), 0o644)
}

// fsEffects: what happened to the canary directory.
func (d *sbDir) fsEffects() []string {
	var eff []string
	ents, _ := os.ReadDir(d.c)
	wrote, ran := false, false
	for _, e := range ents {
		switch e.Name() {
		case "secret.txt", "zqreq":
			b, _ := os.ReadFile(filepath.Join(d.c, e.Name()))
			if string(b) != "\""+sbFileSecret+"\"\n" {
				wrote = true
			}
		case "modify.txt":
			b, _ := os.ReadFile(filepath.Join(d.c, e.Name()))
			if string(b) != sbModify {
				wrote = true
			}
		case "zqpkg.zy":
			b, _ := os.ReadFile(filepath.Join(d.c, e.Name()))
			if string(b) != sbPkgFile {
				wrote = true
			}
		case "cmd-ran.txt":
			ran = true
		default:
			wrote = true
		}
	}
	if len(ents) < 4 {
		wrote = true // a canary file was removed
	}
	if wrote {
		eff = append(eff, "file-write")
	}
	if ran {
		eff = append(eff, "process")
	}
	return eff
}

func sbTextEffects(text string) []string {
	var eff []string
	if strings.Contains(text, sbFileSecret) {
		eff = append(eff, "file-read")
	}
	if strings.Contains(text, sbCmdOut) {
		eff = append(eff, "process")
	}
	if strings.Contains(text, sbEnvSecret) {
		eff = append(eff, "env-read")
	}
	return eff
}

func sbUniq(xs []string) []string {
	sort.Strings(xs)
	var out []string
	for i, x := range xs {
		if i == 0 || x != xs[i-1] {
			out = append(out, x)
		}
	}
	return out
}

// ---------------------------------------------------------------- scripts

func (d *sbDir) P() string { return filepath.Join(d.c, "secret.txt") }
func (d *sbDir) W() string { return filepath.Join(d.c, "created.txt") }
func (d *sbDir) C() string {
	return "expr 77310000 + 1; touch " + filepath.Join(d.c, "cmd-ran.txt")
}

func q(s string) string { return strconv.Quote(s) }

// sbShapes: direct calls of `n` with the canary arguments in every position that the
// outside-world functions of zygomys use.
func sbShapes(d *sbDir, n string) []string {
	P, W, C := q(d.P()), q(d.W()), q(d.C())
	E, En := q(sbEnvName), q(sbEnvNew)
	return []string{
		"(" + n + " " + P + ")",
		"(" + n + " secret.txt)", // unevaluated / symbol form, relative to the working directory
		"(" + n + " zqreq)",
		"(" + n + " \"zqreq\")",
		"(" + n + " [" + P + "])",
		"(" + n + " " + q(filepath.Join(d.c, "zqpkg.zy")) + ")",
		"(" + n + " zqk " + q(filepath.Join(d.c, "zqpkg.zy")) + ") (concat zqk.Secret \"\")",
		"(" + n + " " + W + " \"zq-data\")",
		"(" + n + " \"zq-data\" " + W + ")",
		"(" + n + " " + W + ")",
		"(" + n + " " + C + ")",
		"(" + n + " " + E + ")",
		"(" + n + " " + E + " \"zq-changed\")",
		"(" + n + " " + En + " \"zq-new\")",
		"(" + n + ")",
		"(" + n + " 0)",
		"(" + n + " 3)",
	}
}

// sbIndirect: the same name reached through an alias, eval, apply, a macro, a function
// parameter, map, and a hash of functions.
func sbIndirect(d *sbDir, n string) []string {
	var out []string
	for _, a := range []string{q(d.P()), q(d.C()), q(sbEnvName), "0"} {
		out = append(out,
			"(def zqalias "+n+") (zqalias "+a+")",
			"(eval (quote ("+n+" "+a+")))",
			"(apply "+n+" ["+a+"])",
			"(defmac zqm [a] ^("+n+" ~a)) (zqm "+a+")",
			"(defn zqf [g x] (g x)) (zqf "+n+" "+a+")",
			"(map "+n+" ["+a+"])",
			"(def zqh (hash k: "+n+")) ((hget zqh k:) "+a+")",
			"(let [zql "+n+"] (zql "+a+"))",
			// evaluated while the macro is being expanded (in the interpreter's duplicate)
			"(defmac zqe [a] (eval (list (quote "+n+") a))) (zqe "+a+")",
		)
	}
	return out
}

func sbBattery(d *sbDir, cfg, n string) []string {
	b := sbShapes(d, n)
	if cfg != "cli" {
		b = append(b, sbIndirect(d, n)...)
	} else {
		b = append(b, sbIndirect(d, n)[:9]...)
	}
	return b
}

// ---------------------------------------------------------------- children

func sbSelf() string {
	self, err := os.Executable()
	if err != nil {
		return os.Args[0]
	}
	return self
}

func sbChildEnv() []string {
	var env []string
	for _, e := range os.Environ() {
		if strings.HasPrefix(e, sbEnvName+"=") || strings.HasPrefix(e, sbEnvNew+"=") {
			continue
		}
		env = append(env, e)
	}
	return append(env, sbEnvName+"="+sbEnvSecret)
}

type sbResult struct {
	tmpl    string // the script with $D for the canary directory (stable across runs), if any
	script  string
	effects []string
	note    string // "" | crash | timeout
}

// sbRunEval runs scripts[from:] in ONE child (`zyh sbchild <cfg>`), which evaluates each in
// a fresh interpreter and records effects itself; when the child dies the script it died on
// gets `exit` or `crash` and the rest is run in a new child.
func sbRunEval(d *sbDir, cfg string, scripts []string) []sbResult {
	res := make([]sbResult, len(scripts))
	for i := range res {
		res[i].script = scripts[i]
	}
	from := 0
	for from < len(scripts) {
		d.reset()
		os.WriteFile(filepath.Join(d.h, "battery"), []byte(strings.Join(scripts[from:], sbSep)), 0o644)
		os.Remove(filepath.Join(d.h, "results"))
		cmd := exec.Command(sbSelf(), "sbchild", cfg, d.root)
		cmd.Dir = d.c
		cmd.Env = sbChildEnv()
		var errb bytes.Buffer
		cmd.Stdout = io.Discard
		cmd.Stderr = &errb
		tm := time.AfterFunc(300*time.Second, func() { cmd.Process.Kill() })
		runErr := cmd.Run()
		tm.Stop()
		raw, _ := os.ReadFile(filepath.Join(d.h, "results"))
		begun, done := -1, -1
		for _, l := range strings.Split(string(raw), "\n") {
			f := strings.SplitN(l, " ", 3)
			if len(f) < 2 {
				continue
			}
			k, _ := strconv.Atoi(f[1])
			switch f[0] {
			case "B":
				begun = k
			case "E":
				done = k
				if len(f) == 3 && f[2] != "-" {
					res[from+k].effects = strings.Split(f[2], ",")
				}
			case "T":
				done = k
				res[from+k].note = "timeout"
			}
		}
		if runErr == nil && done == len(scripts)-from-1 {
			break
		}
		// died (or stopped after a timeout) while running script `begun`
		if begun < 0 {
			// never started: a harness problem, not an observation
			for i := from; i < len(scripts); i++ {
				res[i].note = "harness-child-failed " + strings.ReplaceAll(errb.String(), "\n", " ")
			}
			break
		}
		if begun > done {
			i := from + begun
			es := errb.String()
			res[i].effects = append(res[i].effects, d.fsEffects()...)
			if strings.Contains(es, "panic:") || strings.Contains(es, "fatal error:") || strings.Contains(es, "goroutine ") {
				res[i].note = "crash"
			} else {
				res[i].effects = append(res[i].effects, "exit")
			}
			res[i].effects = sbUniq(res[i].effects)
		}
		from = from + begun + 1
	}
	return res
}

// sbEvalTexts evaluates a script on env: the pieces between sbLater markers are separate
// evaluations (texts) of one history; value and error texts are concatenated.
func sbEvalTexts(env *zygo.Zlisp, script string) string {
	var text string
	for _, piece := range strings.Split(script, sbLater) {
		v, err := env.EvalString(piece + "\n")
		if v != nil {
			text += v.SexpString(nil) + "\n"
		}
		if err != nil {
			text += err.Error() + "\n"
			env.Clear()
		}
	}
	return text
}

// sbEvalHere evaluates the scripts one after another INSIDE this process (fast path): one
// interpreter per battery (a new one after a host panic or a timeout), canaries reset and
// checked around every script. A script that ends the process takes `zyh exec` with it; the
// caller of `zyh exec` (lib/vcommon.exec_impl) then re-runs the op alone and reports
// HOSTDEATH for it — checks/C08.py re-runs such an op in isolated mode (`probei`, `evali`)
// to name the script.
func sbEvalHere(d *sbDir, cfg string, scripts []string, prelude string, fresh ...bool) []sbResult {
	everyFresh := len(fresh) > 0 && fresh[0]
	res := make([]sbResult, len(scripts))
	oldwd, _ := os.Getwd()
	os.Chdir(d.c)
	defer os.Chdir(oldwd)
	defer os.Unsetenv(sbEnvName)
	defer os.Unsetenv(sbEnvNew)
	realOut := os.Stdout
	var env *zygo.Zlisp
	d.reset()
	outf, _ := os.Create(filepath.Join(d.h, "out"))
	defer outf.Close()
	for i, script := range scripts {
		res[i].script = script
		os.Setenv(sbEnvName, sbEnvSecret)
		os.Unsetenv(sbEnvNew)
		if env == nil {
			env = sbMkEnv(cfg)
			if prelude != "" {
				func() {
					defer func() { recover() }()
					env.EvalString(prelude + "\n")
					env.Clear()
				}()
			}
		}
		outf.Truncate(0)
		outf.Seek(0, 0)
		os.Stdout = outf
		savedOur := zygo.OurStdout
		zygo.OurStdout = outf // the package's own handle on stdout, taken at start-up
		var text string
		panicked := false
		done := make(chan struct{})
		go func(env *zygo.Zlisp) {
			defer close(done)
			defer func() {
				if r := recover(); r != nil {
					text += "\nHOSTPANIC " + fmt.Sprint(r)
					panicked = true
				}
			}()
			text += sbEvalTexts(env, script)
		}(env)
		timedOut := false
		select {
		case <-done:
		case <-time.After(20 * time.Second):
			timedOut = true
		}
		os.Stdout = realOut
		zygo.OurStdout = savedOur
		if timedOut {
			res[i].note = "timeout"
			env = nil // the stuck evaluation keeps the old one
			d.reset()
			continue
		}
		ob, _ := os.ReadFile(filepath.Join(d.h, "out"))
		fse := d.fsEffects()
		if len(fse) > 0 {
			d.reset() // only a touched canary directory needs rebuilding
		}
		eff := append(sbTextEffects(text+"\n"+string(ob)), fse...)
		if os.Getenv(sbEnvName) != sbEnvSecret || os.Getenv(sbEnvNew) != "" {
			eff = append(eff, "env-write")
		}
		res[i].effects = sbUniq(eff)
		if panicked {
			res[i].note = "hostpanic"
			env.Close()
			env = nil
		} else if everyFresh {
			env.Close()
			env = nil
		} else {
			env.Clear()
		}
	}
	if env != nil {
		env.Close()
	}
	return res
}

// sbRunCli runs ONE input through the command line tool with -sandbox.
func sbRunCli(d *sbDir, mode, script string) sbResult {
	d.reset()
	r := sbResult{script: script}
	script = strings.ReplaceAll(script, sbLater, "\n") // REPL lines are separate evaluations anyway
	args := []string{"-sandbox", "-quiet", "-no-liner"}
	// mode may carry further command line flags: repl:-demo:-i
	if parts := strings.Split(mode, ":"); len(parts) > 1 {
		mode = parts[0]
		args = append(args, parts[1:]...)
	}
	var stdin io.Reader = strings.NewReader("")
	end := "(println (+ 77310000 2))"
	switch mode {
	case "repl":
		stdin = strings.NewReader(script + "\n" + end + "\n")
	case "cmd":
		args = append(args, "-c", script+" "+end)
	case "file":
		f := filepath.Join(d.h, "script.zy")
		os.WriteFile(f, []byte(script+"\n"+end+"\n"), 0o644)
		args = append(args, f)
	default:
		r.note = "bad-mode"
		return r
	}
	var cmd *exec.Cmd
	if bin := os.Getenv("ZYH_ZYGO_BIN"); bin != "" {
		cmd = exec.Command(bin, args...)
	} else {
		cmd = exec.Command(sbSelf(), append([]string{"sbcli"}, args...)...)
	}
	cmd.Dir = d.c
	cmd.Env = sbChildEnv()
	cmd.Stdin = stdin
	var ob, eb bytes.Buffer
	cmd.Stdout = &ob
	cmd.Stderr = &eb
	timedOut := false
	tm := time.AfterFunc(60*time.Second, func() { timedOut = true; cmd.Process.Kill() })
	runErr := cmd.Run()
	tm.Stop()
	text := ob.String() + "\n" + eb.String()
	r.effects = append(sbTextEffects(text), d.fsEffects()...)
	es := eb.String()
	crashed := strings.Contains(es, "panic:") || strings.Contains(es, "fatal error:")
	if timedOut {
		r.note = "timeout"
	} else if crashed {
		r.note = "crash"
	} else if !strings.Contains(ob.String(), sbEndOut) {
		switch mode {
		case "repl":
			// the REPL survives script errors; only ending the process loses the marker
			r.effects = append(r.effects, "exit")
		case "cmd":
			// ReplMain itself exits 1 with the error on stderr when the command fails
			rc := 0
			if ee, ok := runErr.(*exec.ExitError); ok {
				rc = ee.ExitCode()
			}
			if !(rc == 1 && strings.TrimSpace(es) != "") {
				r.effects = append(r.effects, "exit")
			}
		}
	}
	r.effects = sbUniq(r.effects)
	return r
}

func sbLog(format string, a ...interface{}) {
	if p := os.Getenv("ZYH_SB_LOG"); p != "" {
		if f, err := os.OpenFile(p, os.O_APPEND|os.O_CREATE|os.O_WRONLY, 0o644); err == nil {
			fmt.Fprintf(f, format+"\n", a...)
			f.Close()
		}
	}
}

// sbAnswer: `clean`, or the first script with an effect. Script counts and crash / timeout /
// hostpanic notes go to $ZYH_SB_LOG (statistics for the evidence), not into the answer.
func sbAnswer(rs []sbResult) string {
	for _, r := range rs {
		if len(r.effects) > 0 {
			sc := r.script
			if r.tmpl != "" {
				sc = r.tmpl
			}
			return "EFFECT " + strings.Join(r.effects, ",") + " " + bytesToCodes([]byte(sc))
		}
		if strings.HasPrefix(r.note, "harness-child-failed") {
			return "HARNESS " + r.note
		}
	}
	sbLog("scripts\t%d", len(rs))
	for _, r := range rs {
		if r.note != "" {
			sbLog("note\t%s\t%s", r.note, bytesToCodes([]byte(r.script)))
		}
	}
	return "clean"
}

// ---------------------------------------------------------------- argument tuples

// sbPoolExprs: the value pool of the tuple enumeration ($D = canary directory). The first four
// are the canaries (existing file, file that must not appear, shell command, environment
// variable name); the others are plain values of every kind a builtin switches on. zqH / zqR
// are bound by sbTuplePrelude.
var sbPoolExprs = []string{
	`"$D/secret.txt"`, `"$D/created.txt"`, `"expr 77310000 + 1; touch $D/cmd-ran.txt"`, `"` + sbEnvName + `"`,
	`zqH`, `zqR`, `[1 2]`, `(raw "zq")`, `0`, `(quote zqreq)`, `nil`,
}

const sbPoolCanaries = 4

func sbTuplePrelude(cfg string) string {
	if cfg == "bare" {
		return `(def zqH (hash a: 1 b: "x")) (def zqR (hash Name: "zq" inner: (hash k: 2)))`
	}
	return `(def zqH (hash a: 1 b: "x")) (defmap zqrec) (def zqR (zqrec a: 1 b: "x"))`
}

// sbTupleScripts: every argument tuple of length lo…hi over the pool — all of them up to
// length 2, from length 3 on those with a canary in at least one position (so a canary
// stands in EVERY position next to every combination of other values) — as a direct call,
// and up to length 3 also through an alias and through apply.
func sbTupleScripts(name string, lo, hi int) []string {
	var out []string
	var rec func(k int, idx []int)
	emit := func(idx []int) {
		hasCanary := false
		var args []string
		for _, i := range idx {
			if i < sbPoolCanaries {
				hasCanary = true
			}
			args = append(args, sbPoolExprs[i])
		}
		if len(idx) >= 3 && !hasCanary {
			return
		}
		a := strings.Join(args, " ")
		if len(idx) == 0 {
			out = append(out, "("+name+")")
			return
		}
		out = append(out, "("+name+" "+a+")")
		if len(idx) <= 3 {
			out = append(out, "(def zqal "+name+") (zqal "+a+")", "(apply "+name+" ["+a+"])")
		}
	}
	rec = func(k int, idx []int) {
		if k == 0 {
			emit(idx)
			return
		}
		for i := range sbPoolExprs {
			rec(k-1, append(idx, i))
		}
	}
	for n := lo; n <= hi; n++ {
		rec(n, nil)
	}
	return out
}

func sbTuplesOp(cfg, name string, lo, hi int) string {
	if cfg == "cli" || lo < 0 || hi > 4 || lo > hi {
		return "bad-op"
	}
	d, err := sbNewDir()
	if err != nil {
		return "HARNESS " + err.Error()
	}
	defer os.RemoveAll(d.root)
	tmpls := sbTupleScripts(name, lo, hi)
	scripts := make([]string, len(tmpls))
	for i, t := range tmpls {
		scripts[i] = strings.ReplaceAll(t, "$D", d.c)
	}
	pre := sbTuplePrelude(cfg)
	rs := sbEvalHere(d, cfg, scripts, strings.ReplaceAll(pre, "$D", d.c))
	for i := range rs {
		rs[i].tmpl = pre + " " + tmpls[i]
	}
	return sbAnswer(rs)
}

// ---------------------------------------------------------------- two-text histories

// sbBinders: text 1 of a history — the script binds the name g (a name that the Go code looks
// up by string) to a value, a function, a macro.
func sbBinders(g string) []string {
	return []string{
		"(def " + g + " 0)",
		"(defn " + g + " [& a] a)",
		"(def " + g + " (fn [& a] a))",
		"(defmac " + g + " [& a] nil)",
		"(set " + g + " 0)",
	}
}

// sbHistoryOp: for every binder of `gate` as text 1, the canary probes of `suspect` (the
// battery of call shapes and the argument tuples of length 0…1) as LATER evaluations on the
// same interpreter; under StandardSetup also binder and probe in ONE text with the probe
// compiled late through eval. bare and std, in-process.
func sbHistoryOp(cfg, gate, suspect string) string {
	if cfg == "cli" {
		return "bad-op"
	}
	d, err := sbNewDir()
	if err != nil {
		return "HARNESS " + err.Error()
	}
	defer os.RemoveAll(d.root)
	tmplDir := &sbDir{root: "$R", c: "$D", h: "$H"}
	probes := append(sbBattery(tmplDir, cfg, suspect), sbTupleScripts(suspect, 0, 1)...)
	sub := func(t string) string { return strings.ReplaceAll(t, "$D", d.c) }
	for _, b := range sbBinders(gate) {
		scripts := make([]string, len(probes))
		for i, t := range probes {
			scripts[i] = sub(t)
		}
		pre := sbTuplePrelude(cfg) + " " + b
		rs := sbEvalHere(d, cfg, scripts, sub(pre))
		for i := range rs {
			rs[i].tmpl = pre + sbLater + probes[i]
		}
		if a := sbAnswer(rs); a != "clean" {
			return a
		}
		if cfg == "bare" {
			continue // no eval there
		}
		var one, oneT []string
		for _, k := range []int{0, 7, 10, 11, 14} {
			if k < len(probes) {
				t := sbTuplePrelude(cfg) + " " + b + " (eval (quote " + probes[k] + "))"
				oneT = append(oneT, t)
				one = append(one, sub(t))
			}
		}
		rs = sbEvalHere(d, cfg, one, "", true)
		for i := range rs {
			rs[i].tmpl = oneT[i]
		}
		if a := sbAnswer(rs); a != "clean" {
			return a
		}
	}
	return "clean"
}

// ---------------------------------------------------------------- exec

func sbExec(toks []string) string {
	if len(toks) < 2 {
		return "bad-op"
	}
	cfg := toks[1]
	if cfg != "bare" && cfg != "std" && cfg != "cli" {
		return "bad-op"
	}
	switch toks[0] {
	case "names":
		env := sbMkEnv(cfg)
		defer env.Close()
		var parts []string
		for _, b := range zygo.VerifBindings(env) {
			g := b.GoFunc
			if g == "" {
				g = "-"
			}
			parts = append(parts, bytesToCodes([]byte(b.Name))+";"+b.Where+";"+b.Kind+";"+g)
		}
		return "names " + strings.Join(parts, " ")
	case "probe", "probei":
		if len(toks) != 3 {
			return "bad-op"
		}
		nb, ok := codesToBytes(toks[2])
		if !ok {
			return "bad-op"
		}
		d, err := sbNewDir()
		if err != nil {
			return "HARNESS " + err.Error()
		}
		defer os.RemoveAll(d.root)
		batt := sbBattery(d, cfg, string(nb))
		if cfg != "cli" {
			if toks[0] == "probe" {
				return sbAnswer(sbEvalHere(d, cfg, batt, ""))
			}
			return sbAnswer(sbRunEval(d, cfg, batt))
		}
		if toks[0] == "probei" {
			// every script in its own REPL session, then in its own -c run
			var rs []sbResult
			for _, m := range []string{"repl", "cmd"} {
				for _, s := range batt {
					rs = append(rs, sbRunCli(d, m, s))
					if len(rs[len(rs)-1].effects) > 0 {
						return sbAnswer(rs)
					}
				}
			}
			return sbAnswer(rs)
		}
		// one REPL session with the whole battery (the REPL survives script errors), then
		// four call shapes (file, command, environment, exit code) one by one through -c
		n := len(batt)
		all := sbRunCli(d, "repl", strings.Join(batt, "\n"))
		if len(all.effects) > 0 {
			return sbAnswer([]sbResult{all})
		}
		rs := []sbResult{all}
		for _, k := range []int{0, 10, 11, 15} {
			rs = append(rs, sbRunCli(d, "cmd", batt[k]))
			n++
			if len(rs[len(rs)-1].effects) > 0 {
				return sbAnswer(rs)
			}
		}
		_ = n
		return sbAnswer(rs)
	case "history":
		// history <cfg> <gate name> <suspect name>
		if len(toks) != 4 {
			return "bad-op"
		}
		gb, ok1 := codesToBytes(toks[2])
		nb, ok2 := codesToBytes(toks[3])
		if !ok1 || !ok2 {
			return "bad-op"
		}
		return sbHistoryOp(cfg, string(gb), string(nb))
	case "tuples":
		// tuples <cfg> <name> <lo>-<hi>
		if len(toks) != 4 {
			return "bad-op"
		}
		nb, ok := codesToBytes(toks[2])
		lh := strings.Split(toks[3], "-")
		if !ok || len(lh) != 2 {
			return "bad-op"
		}
		lo, e1 := strconv.Atoi(lh[0])
		hi, e2 := strconv.Atoi(lh[1])
		if e1 != nil || e2 != nil {
			return "bad-op"
		}
		return sbTuplesOp(cfg, string(nb), lo, hi)
	case "sweep":
		// sweep cli <name>,<name>,…: the batteries of many names in ONE REPL session
		if len(toks) != 3 || cfg != "cli" {
			return "bad-op"
		}
		d, err := sbNewDir()
		if err != nil {
			return "HARNESS " + err.Error()
		}
		defer os.RemoveAll(d.root)
		var lines []string
		var per [][]string
		for _, nc := range strings.Split(toks[2], ",") {
			nb, ok := codesToBytes(nc)
			if !ok {
				return "bad-op"
			}
			per = append(per, sbBattery(d, cfg, string(nb)))
			lines = append(lines, per[len(per)-1]...)
		}
		r := sbRunCli(d, "repl", strings.Join(lines, "\n"))
		if len(r.effects) > 0 {
			return "EFFECT " + strings.Join(r.effects, ",") + " in-session"
		}
		if r.note != "" {
			// the session was cut short (crash / timeout): one session per name instead
			for _, b := range per {
				r1 := sbRunCli(d, "repl", strings.Join(b, "\n"))
				if len(r1.effects) > 0 {
					return "EFFECT " + strings.Join(r1.effects, ",") + " in-session"
				}
				if r1.note != "" {
					sbLog("note\t%s\t%s", r1.note, bytesToCodes([]byte(b[0])))
				}
			}
			sbLog("scripts\t%d", len(lines))
			return "clean"
		}
		sbLog("scripts\t%d", len(lines))
		if r.note != "" {
			sbLog("note\t%s\tsweep", r.note)
		}
		return "clean"
	case "script":
		if len(toks) != 4 {
			return "bad-op"
		}
		sb, ok := codesToBytes(toks[3])
		if !ok {
			return "bad-op"
		}
		d, err := sbNewDir()
		if err != nil {
			return "HARNESS " + err.Error()
		}
		defer os.RemoveAll(d.root)
		script := strings.ReplaceAll(string(sb), "$D", d.c)
		if cfg != "cli" {
			switch toks[2] {
			case "eval":
				return sbAnswer(sbEvalHere(d, cfg, []string{script}, ""))
			case "evali":
				return sbAnswer(sbRunEval(d, cfg, []string{script}))
			}
			return "bad-op"
		}
		return sbAnswer([]sbResult{sbRunCli(d, toks[2], script)})
	}
	return "bad-op"
}

// ---------------------------------------------------------------- child mains

// `zyh sbchild <cfg> <root>`: evaluates every script of <root>/h/battery in a fresh
// interpreter, working directory <root>/c, and appends to <root>/h/results:
//
//	B <i>            before script i
//	E <i> <effects>  after it (comma separated, `-` for none)
//	T <i>            script i did not finish (the child then exits 97)
func sbChildMain(args []string) {
	if len(args) != 2 {
		os.Exit(2)
	}
	cfg := args[0]
	d := &sbDir{root: args[1], c: filepath.Join(args[1], "c"), h: filepath.Join(args[1], "h")}
	raw, err := os.ReadFile(filepath.Join(d.h, "battery"))
	if err != nil {
		fmt.Fprintln(os.Stderr, "sbchild:", err)
		os.Exit(2)
	}
	scripts := strings.Split(string(raw), sbSep)
	resf, err := os.OpenFile(filepath.Join(d.h, "results"), os.O_APPEND|os.O_CREATE|os.O_WRONLY, 0o644)
	if err != nil {
		fmt.Fprintln(os.Stderr, "sbchild:", err)
		os.Exit(2)
	}
	realOut := os.Stdout
	for i, script := range scripts {
		d.reset()
		os.Setenv(sbEnvName, sbEnvSecret)
		os.Unsetenv(sbEnvNew)
		fmt.Fprintf(resf, "B %d\n", i)
		outf, _ := os.Create(filepath.Join(d.h, "out"))
		os.Stdout = outf
		var text string
		done := make(chan struct{})
		go func() {
			defer close(done)
			defer func() {
				if r := recover(); r != nil {
					text += "\nHOSTPANIC " + fmt.Sprint(r)
				}
			}()
			env := sbMkEnv(cfg)
			defer env.Close()
			text += sbEvalTexts(env, script)
		}()
		select {
		case <-done:
		case <-time.After(20 * time.Second):
			os.Stdout = realOut
			fmt.Fprintf(resf, "T %d\n", i)
			resf.Close()
			os.Exit(97)
		}
		os.Stdout = realOut
		outf.Close()
		ob, _ := os.ReadFile(filepath.Join(d.h, "out"))
		eff := append(sbTextEffects(text+"\n"+string(ob)), d.fsEffects()...)
		if os.Getenv(sbEnvName) != sbEnvSecret || os.Getenv(sbEnvNew) != "" {
			eff = append(eff, "env-write")
		}
		eff = sbUniq(eff)
		if len(eff) == 0 {
			fmt.Fprintf(resf, "E %d -\n", i)
		} else {
			fmt.Fprintf(resf, "E %d %s\n", i, strings.Join(eff, ","))
		}
	}
	resf.Close()
}

// `zyh sbcli <flags…>`: what cmd/zygo/main.go does, inside the harness binary.
func sbCliMain(args []string) {
	cfg := zygo.NewZlispConfig("zygo")
	cfg.DefineFlags()
	if err := cfg.Flags.Parse(args); err != nil {
		panic(err)
	}
	if err := cfg.ValidateConfig(); err != nil {
		fmt.Fprintf(os.Stderr, "zygo command line error: '%v'\n", err)
		os.Exit(1)
	}
	zygo.ReplMain(cfg)
}

func init() {
	if len(os.Args) > 1 && os.Args[1] == "sbchild" {
		sbChildMain(os.Args[2:])
		os.Exit(0)
	}
	if len(os.Args) > 1 && os.Args[1] == "sbcli" {
		sbCliMain(os.Args[2:])
		os.Exit(0)
	}
	channels["sandbox"] = &Channel{Gen: sbGen, Exec: sbExec}
}

// ---------------------------------------------------------------- generator

// combined programs: canary arguments flow through string building, data structures, closures
// and control flow before they reach the function under test. `$D` is replaced by the
// canary directory at run time, so the op line is stable.
func sbRandomProgram(g *Gen, names []string) string {
	n := names[g.Rng.Intn(len(names))]
	args := []string{`"$D/secret.txt"`, `(concat "$D/" "secret.txt")`, `(str "$D/secret.txt")`,
		`"expr 77310000 + 1; touch $D/cmd-ran.txt"`, `"` + sbEnvName + `"`, `"$D/created.txt"`, `0`,
		`(first ["$D/secret.txt"])`, `(hget (hash a: "$D/secret.txt") a:)`, `(sprintf "%s/secret.txt" "$D")`}
	a := args[g.Rng.Intn(len(args))]
	b := args[g.Rng.Intn(len(args))]
	forms := []string{
		"(%N %A)", "(%N %A %B)", "(let [f %N x %A] (f x))", "((fn [g] (g %A)) %N)",
		"(cond true (%N %A) 0)", "(for [(def i 0) (< i 1) (def i (+ i 1))] (%N %A))",
		"(begin (def v %A) (%N v))", "(and true (%N %A))", "(or false (%N %A))",
		"(defn zqw [& r] (apply %N r)) (zqw %A)", "(defn zqw [& r] (apply %N r)) (zqw %A %B)",
		"(map (fn [x] (%N x)) [%A %B])", "(def zql (list %N)) ((first zql) %A)",
		"(defmac zqm [f a] ^(~f ~a)) (zqm %N %A)", "(eval (list (quote %N) %A))",
		"(eval (read \"(%N 0)\"))", "(newScope (%N %A))", "(def zqh {}) (hset zqh 1 %N) ((hget zqh 1) %A)",
		"{zqv = (%N %A)}", "(-> (hash a: (hash b: %N)) a: b:)",
	}
	f := forms[g.Rng.Intn(len(forms))]
	g.Count("program form " + f)
	f = strings.ReplaceAll(f, "%N", n)
	f = strings.ReplaceAll(f, "%A", a)
	return strings.ReplaceAll(f, "%B", b)
}

// names under which zygomys offers the outside world (bound in a sandbox or not)
var sbDangerNames = []string{"source", "req", "import", "include", "sys", "system", "slurpf", "writef", "owritef",
	"save", "bload", "bsave", "greenpack", "exit", "getenv", "setenv", "_method", "togo", "dump", "methodls"}

func sbGen(g *Gen) {
	cfgs := []string{"bare", "std", "cli"}
	for _, c := range cfgs {
		g.Emit("names %s", c)
	}
	// special forms handed over by the extractor (checks/C08.py), plus the reserved words
	extra := map[string]bool{}
	for _, s := range strings.Split(os.Getenv("ZYH_SB_SPECIALS"), ",") {
		if s != "" {
			extra[s] = true
		}
	}
	for _, s := range zygo.ReservedWords {
		extra[s] = true
	}
	for _, s := range sbDangerNames {
		extra[s] = true // the names of the outside-world functions, bound or not
	}
	first := strings.Split(os.Getenv("ZYH_SB_FIRST"), ",") // candidates from a violating path
	for ci, c := range cfgs {
		env := sbMkEnv(c)
		seen := map[string]bool{}
		var names []string
		add := func(n string) {
			if n == "" || seen[n] || strings.ContainsAny(n, " \t\n\"()[]{};`") {
				return
			}
			seen[n] = true
			names = append(names, n)
		}
		for _, n := range first {
			add(n)
		}
		var bound []string
		for _, b := range zygo.VerifBindings(env) {
			add(b.Name)
			bound = append(bound, b.Name)
			g.Count("bound " + c + " " + b.Where + " " + b.Kind)
		}
		env.Close()
		var ex []string
		for s := range extra {
			ex = append(ex, s)
		}
		sort.Strings(ex)
		for _, s := range ex {
			add(s)
		}
		danger := map[string]bool{}
		for _, s := range sbDangerNames {
			danger[s] = true
		}
		for _, n := range first {
			danger[n] = true
		}
		if c == "cli" {
			// the command line tool costs a process per session: all names go through REPL
			// sessions of 40 names each; names of outside-world functions and path candidates
			// (quick) or all names (thorough) are also probed one by one, REPL and -c
			for i := 0; i < len(names); i += 40 {
				j := i + 40
				if j > len(names) {
					j = len(names)
				}
				var cs []string
				for _, n := range names[i:j] {
					cs = append(cs, bytesToCodes([]byte(n)))
				}
				g.Emit("sweep cli %s", strings.Join(cs, ","))
				g.Count("sweep cli (40 names per REPL session)")
			}
		}
		for _, n := range names {
			if c == "cli" && !g.Thorough() && !danger[n] {
				continue
			}
			g.Emit("probe %s %s", c, bytesToCodes([]byte(n)))
			g.Count("probe " + c)
		}
		// dot commands and other REPL-level input
		if c == "cli" {
			for _, s := range []string{".quit", ".cd $D", ".dump", ".ls", ".gls", ".verb", ".debug", ".undebug",
				".cd /", "& 1", "* 1", ".quit\n(+ 1 2)", ".exit", ".sys expr 77310000 + 1", ".source $D/secret.txt"} {
				g.Emit("script cli repl %s", bytesToCodes([]byte(s)))
				g.Count("repl-level input")
			}
			for _, m := range []string{"cmd", "file"} {
				for _, s := range []string{`(include "$D/secret.txt")`, `(sys "expr 77310000 + 1")`, `(import "$D/secret.txt")`,
					`(source "$D/secret.txt")`, `(req zqreq)`, `(exit 0)`, `(getenv "` + sbEnvName + `")`, `(slurpf "$D/secret.txt")`,
					`(writef "zq" "$D/created.txt")`, `(system "touch $D/cmd-ran.txt")`} {
					g.Emit("script cli %s %s", m, bytesToCodes([]byte(s)))
					g.Count("cli " + m + " script")
				}
			}
		}
		// other command line flags next to -sandbox must not open anything
		if c == "cli" {
			for _, fl := range []string{"-demo", "-i", "-countcalls", "-exitonfail", "-trace"} {
				for _, sc := range []string{`(system "touch $D/cmd-ran.txt")`, `(sys "touch $D/cmd-ran.txt")`, `(include "$D/secret.txt")`,
					`(slurpf "$D/secret.txt")`, `(getenv "` + sbEnvName + `")`, `(exit 0)`} {
					if fl == "-trace" && !g.Thorough() {
						continue
					}
					g.Emit("script cli repl:%s %s", fl, bytesToCodes([]byte(sc)))
					g.Count("cli with " + fl)
				}
			}
		}
		// combined programs
		nprog := 120
		if g.Thorough() {
			nprog = 4000
		}
		if c == "cli" {
			nprog /= 8
		}
		pool := append([]string{}, bound...)
		for s := range extra {
			pool = append(pool, s)
		}
		sort.Strings(pool)
		for i := 0; i < nprog; i++ {
			mode := "eval"
			if c == "cli" {
				mode = []string{"repl", "cmd", "file"}[g.Rng.Intn(3)]
			}
			g.Emit("script %s %s %s", c, mode, bytesToCodes([]byte(sbRandomProgram(g, pool))))
			g.Count("program " + c)
		}
		_ = ci
	}
}
