package main

// Channel togohist (C10): a multi-step HISTORY on shared records in one self-contained op line.
//
//	togohist <root> W <world…> E <term…> Q <step…> X -
//
// <world>, <term> as in channel togo; every record H<id>:… can be addressed by its id.
// <step>:
//
//	T<id>               (togo r)                      answer: canonical dump of r's shadow struct
//	S<id> <key> <term>  (hset r key val)              answer: ok | err   (the value may hold new
//	                                                  records and R<id> references to existing ones)
//	E<id>               (_method o Echo<T>: r)        r is an ARGUMENT; answer: the record that comes back
//	U<id>               (_method o Touch<T>: r)       the Go method mutates the struct it was handed
//	G<id>               the record as the script sees it now
//	V<id>               (_method r Self:)             r is the RECEIVER; answer: the record of the attached object
//
// The answer is the list of step answers joined by ';'. The history ends at the first failing
// conversion (a failed conversion may have written part of the record, in map order). Every
// history is executed togoRepeat times on freshly built records; differing answers -> nondet(a|b).

import (
	"fmt"
	"reflect"
	"sort"
	"strconv"
	"strings"

	"github.com/glycerine/zygomys/v9/zygo"
)

func rootOfTypeName(tn string) *togoRoot {
	if r := togoByName[tn]; r != nil {
		return r
	}
	for i := range togoRoots {
		if reflect.TypeOf(togoRoots[i].mk()).Elem().String() == tn {
			return &togoRoots[i]
		}
	}
	return nil
}

func histSplit(toks []string) (root string, world, term, steps []string, ok bool) {
	if len(toks) < 8 || toks[1] != "W" || toks[len(toks)-2] != "X" {
		return
	}
	e, q := -1, -1
	for i := 2; i < len(toks)-2; i++ {
		if e < 0 && toks[i] == "E" {
			e = i
		} else if e >= 0 && toks[i] == "Q" {
			q = i
			break
		}
	}
	if e < 0 || q < 0 {
		return
	}
	return toks[0], toks[2:e], toks[e+1 : q], toks[q+1 : len(toks)-2], true
}

func histExec(toks []string) string {
	togoSetup()
	root, world, term, steps, ok := histSplit(toks)
	if !ok {
		return "bad-op"
	}
	r := togoByName[root]
	if r == nil {
		return "bad-op"
	}
	if strings.Join(worldTokens(reflect.TypeOf(r.mk()).Elem()), " ") != strings.Join(world, " ") {
		return "bad-world"
	}
	ans := ""
	for rep := 0; rep < togoRepeat; rep++ {
		a := histOnce(term, steps)
		if rep == 0 {
			ans = a
		} else if a != ans {
			return "nondet(" + ans + "|" + a + ")"
		}
		if strings.HasPrefix(a, "bad-") {
			break
		}
	}
	return ans
}

// records are built like a script builds them: members first; a record type whose field table
// cannot be built (MakeHash panics) is an error the script sees
func buildTerm(p *termParser) (rec zygo.Sexp, failed bool) {
	defer func() {
		if x := recover(); x != nil {
			failed = true
		}
	}()
	quiet(func() { rec = p.term() })
	return rec, false
}

func histOnce(term, steps []string) (ans string) {
	p := &termParser{toks: term, recs: map[int]*zygo.SexpHash{}}
	_, failed := buildTerm(p)
	if failed {
		return "err"
	}
	if p.err != "" || p.pos != len(term) {
		return "bad-term"
	}
	var out []string
	defer func() {
		if x := recover(); x != nil {
			ans = "HOSTPANIC " + strings.ReplaceAll(fmt.Sprint(x), "\n", " ")
		}
	}()
	sp := &termParser{toks: steps, recs: p.recs}
	for sp.pos < len(steps) {
		tok := sp.next()
		if len(tok) < 2 {
			return "bad-term"
		}
		id, err := strconv.Atoi(tok[1:])
		h := sp.recs[id]
		if err != nil || h == nil {
			return "bad-term"
		}
		a := ""
		switch tok[0] {
		case 'T':
			a = histTogo(h)
		case 'S':
			kt := sp.next()
			if kt == "" {
				return "bad-term"
			}
			key, ok := histKey(sp, kt)
			if !ok {
				return "bad-term"
			}
			val, failed := buildTerm(sp)
			if failed {
				a = "err"
				break
			}
			if sp.err != "" {
				return "bad-term"
			}
			var e error
			quiet(func() {
				togoEnv.AddGlobal("zzr", h)
				togoEnv.AddGlobal("zzk", key)
				togoEnv.AddGlobal("zzv", val)
				_, e = togoEnv.EvalString("(hset zzr zzk zzv) ")
				if e != nil {
					togoEnv.Clear()
				}
			})
			if e != nil {
				a = "err"
			} else {
				a = "ok"
			}
		case 'E', 'U', 'V':
			rt := rootOfTypeName(h.TypeName)
			if rt == nil {
				return "bad-term"
			}
			a = histCall(tok[0], rt, h)
		case 'G':
			a = canonSexp(h, 0)
		default:
			return "bad-term"
		}
		if strings.HasPrefix(a, "bad-") {
			return a
		}
		out = append(out, a)
		if a == "err" && tok[0] != 'S' {
			break
		}
	}
	return strings.Join(out, ";")
}

func histKey(p *termParser, kt string) (zygo.Sexp, bool) {
	switch {
	case strings.HasPrefix(kt, "ki"):
		n, err := strconv.ParseInt(kt[2:], 10, 64)
		return &zygo.SexpInt{Val: n}, err == nil
	case kt[0] == 'k':
		b, ok := parseCodes(kt[1:])
		return togoEnv.MakeSymbol(string(b)), ok
	case kt[0] == 'K':
		b, ok := parseCodes(kt[1:])
		return &zygo.SexpStr{S: string(b)}, ok
	}
	return nil, false
}

func histTogo(h *zygo.SexpHash) string {
	var err error
	quiet(func() {
		togoEnv.AddGlobal("zzr", h)
		_, err = togoEnv.EvalString("(togo zzr) ")
		if err != nil {
			togoEnv.Clear()
		}
	})
	if err != nil {
		return "err"
	}
	if !h.ShadowSet || h.GoShadowStruct == nil {
		return "no-shadow"
	}
	if _, known := togoRegOfStruct[reflect.TypeOf(h.GoShadowStruct).Elem()]; !known {
		return "foreign-shadow"
	}
	return canonGo(reflect.ValueOf(h.GoShadowStruct))
}

func histCall(kind byte, rt *togoRoot, h *zygo.SexpHash) string {
	var err error
	var res zygo.Sexp
	quiet(func() {
		togoEnv.AddGlobal("zzr", h)
		src := ""
		switch kind {
		case 'V':
			if !rt.self {
				err = fmt.Errorf("no Self")
				return
			}
			src = "(_method zzr Self:) "
		default:
			obj, e := zygo.MakeHash(nil, "vnode", togoEnv)
			if e != nil {
				err = e
				return
			}
			togoEnv.AddGlobal("zzobj", obj)
			m := rt.echo
			if kind == 'U' {
				m = "Touch" + rt.echo[4:]
			}
			src = "(_method zzobj " + m + ": zzr) "
		}
		res, err = togoEnv.EvalString(src)
		if err != nil {
			togoEnv.Clear()
		}
	})
	if err != nil {
		return "err"
	}
	arr, isArr := res.(*zygo.SexpArray)
	if !isArr || len(arr.Val) != 1 {
		return "bad-result"
	}
	return canonSexp(arr.Val[0], 0)
}

// ---------------------------------------------------------------- generator

// does v reach (through pointers, interfaces, slices, maps, struct fields) one of the objects in set?
func reachesAny(v reflect.Value, set map[uintptr]bool, seen map[uintptr]bool) bool {
	switch v.Kind() {
	case reflect.Ptr:
		if v.IsNil() {
			return false
		}
		if set[v.Pointer()] {
			return true
		}
		if seen[v.Pointer()] {
			return false
		}
		seen[v.Pointer()] = true
		return reachesAny(v.Elem(), set, seen)
	case reflect.Interface:
		if v.IsNil() {
			return false
		}
		return reachesAny(v.Elem(), set, seen)
	case reflect.Struct:
		if v.Type() == timeType {
			return false
		}
		for i := 0; i < v.NumField(); i++ {
			if reachesAny(v.Field(i), set, seen) {
				return true
			}
		}
	case reflect.Slice:
		for i := 0; i < v.Len(); i++ {
			if reachesAny(v.Index(i), set, seen) {
				return true
			}
		}
	case reflect.Map:
		for _, k := range v.MapKeys() {
			if reachesAny(v.MapIndex(k), set, seen) {
				return true
			}
		}
	}
	return false
}

type histGenSt struct {
	t      *tgen
	g      *Gen
	byID   map[int]*tnode // every record node ever rendered
	top    *tnode
	backOK bool
}

func (hg *histGenSt) index(n *tnode) {
	if n.tok == "H" {
		hg.byID[n.id] = n
	}
	for _, k := range n.kids {
		hg.index(k)
	}
}

// is record id `target` reachable from n (R<id> atoms resolved)?
func (hg *histGenSt) contains(n *tnode, target int, seen map[int]bool) bool {
	if n.tok == "H" {
		if n.id == target {
			return true
		}
		if seen[n.id] {
			return false
		}
		seen[n.id] = true
	}
	if strings.HasPrefix(n.tok, "R") {
		id, _ := strconv.Atoi(n.tok[1:])
		if m := hg.byID[id]; m != nil {
			return hg.contains(m, target, seen)
		}
		return false
	}
	for _, k := range n.kids {
		if hg.contains(k, target, seen) {
			return true
		}
	}
	return false
}

// records (registered types) reachable from the top record now
func (hg *histGenSt) reachable() []*tnode {
	var out []*tnode
	seen := map[int]bool{}
	var walk func(n *tnode)
	walk = func(n *tnode) {
		if n.tok == "H" {
			if seen[n.id] {
				return
			}
			seen[n.id] = true
			if n.tn != "hash" && rootOfTypeName(n.tn) != nil {
				out = append(out, n)
			}
		}
		if strings.HasPrefix(n.tok, "R") {
			id, _ := strconv.Atoi(n.tok[1:])
			if m := hg.byID[id]; m != nil {
				walk(m)
			}
			return
		}
		for _, k := range n.kids {
			walk(k)
		}
	}
	walk(hg.top)
	return out
}

func keyName(tok string) (string, bool) {
	if strings.HasPrefix(tok, "ki") || len(tok) < 1 {
		return "", false
	}
	b, ok := parseCodes(tok[1:])
	return string(b), ok
}

// neither path is a prefix of the other
func pathsApart(a, b []int) bool {
	n := len(a)
	if len(b) < n {
		n = len(b)
	}
	for i := 0; i < n; i++ {
		if a[i] != b[i] {
			return true
		}
	}
	return false
}

// one well-typed (hset n key val): overwrite a pair of the record (same spelling of the key), or
// name a field whose path is apart from every path the record names already. A by-value struct
// field gets a value that names ALL its fields (see notes/C10.md: a shorter nested record would
// leave the struct's earlier content in place on a second togo — the keyed known finding).
func (hg *histGenSt) genHset(n *tnode) (string, *tnode, bool) {
	t := hg.t
	rt := rootOfTypeName(n.tn)
	if rt == nil {
		return "", nil, false
	}
	st := reflect.TypeOf(rt.mk()).Elem()
	paths := map[string][]int{}
	jsonPaths(st, nil, paths)
	type named struct {
		tok  string
		path []int
	}
	var have []named
	for _, kt := range n.keys {
		name, ok := keyName(kt)
		if !ok {
			return "", nil, false
		}
		p, ok := resolveKey(paths, name)
		if !ok {
			return "", nil, false
		}
		have = append(have, named{kt, p})
	}
	keys := make([]string, 0, len(paths))
	for k := range paths {
		keys = append(keys, k)
	}
	sort.Strings(keys)
	type cand struct {
		tok  string
		path []int
	}
	var cands []cand
	for _, k := range keys {
		p := paths[k]
		if rp, ok := resolveKey(paths, k); !ok || !samePath(rp, p) {
			continue
		}
		if ft := st.FieldByIndex(p).Type; ft.Kind() == reflect.Struct && ft != timeType && togoRegOfStruct[ft] == "" {
			continue // an unregistered embedded struct has no record type: its fields are named one by one
		}
		tok := ""
		apart := true
		for _, h := range have {
			if samePath(h.path, p) {
				tok = h.tok
			} else if !pathsApart(h.path, p) {
				apart = false
			}
		}
		if tok != "" {
			cands = append(cands, cand{tok, p}, cand{tok, p}) // overwriting is the interesting case
		} else if apart {
			cands = append(cands, cand{t.keyTok(k), p})
		}
	}
	if len(cands) == 0 {
		return "", nil, false
	}
	c := cands[t.rint(len(cands))]
	ft := st.FieldByIndex(c.path).Type
	// no cycles: keep every object that reaches n (or is n) out of the sharing pool
	anc := map[uintptr]bool{}
	for ptr, id := range t.ids {
		if m := hg.byID[id]; m != nil && hg.contains(m, n.id, map[int]bool{}) {
			anc[ptr] = true
		}
	}
	saved := t.pool
	filtered := map[reflect.Type][]reflect.Value{}
	for ty, vs := range saved {
		for _, v := range vs {
			if !anc[v.Pointer()] && !reachesAny(v, anc, map[uintptr]bool{}) {
				filtered[ty] = append(filtered[ty], v)
			}
		}
	}
	base := map[reflect.Type]int{}
	for ty, vs := range filtered {
		base[ty] = len(vs)
	}
	t.pool = filtered
	v := reflect.New(ft).Elem()
	v.Set(t.genValue(ft, 1))
	for ty, vs := range t.pool {
		saved[ty] = append(saved[ty], vs[base[ty]:]...)
	}
	t.pool = saved
	if ft.Kind() == reflect.Struct && ft != timeType {
		t.explicit = true
		hg.g.Count("hist hset by-value struct (all fields named)")
	}
	val := t.termOf(v)
	t.explicit = false
	hg.index(val)
	found := false
	for j, kt := range n.keys {
		if kt == c.tok {
			n.kids[j] = val
			found = true
			hg.g.Count("hist hset overwrites a pair")
		}
	}
	if !found {
		n.keys = append(n.keys, c.tok)
		n.kids = append(n.kids, val)
		hg.g.Count("hist hset names a new field")
	}
	return c.tok, val, true
}

func histLine(r *togoRoot, termToks []string, steps []string) string {
	w := worldTokens(reflect.TypeOf(r.mk()).Elem())
	return r.name + " W " + strings.Join(w, " ") + " E " + strings.Join(termToks, " ") + " Q " + strings.Join(steps, " ") + " X -"
}

var histTemplates = [][]string{
	{"T0", "S0", "E0"},             // converted, updated by the script, passed to Go
	{"T0", "U0", "U0", "G0"},       // the method mutates what it is handed; every call sees the record
	{"E0", "S1", "E0"},             // a nested record changes between two trips
	{"T1", "S1", "T0", "V0"},       // nested record converted on its own first
	{"T0", "S1", "T0"},             // explicit conversion twice
	{"T0", "S0", "S1", "T0", "E0"}, //
	{"V0", "E0", "S0", "U0", "E0"},
	{"T0", "E1", "S1", "U1", "T0", "G0"},
	{"E0", "T0", "S0", "V0", "T0", "V0"},
	{"T0", "T1", "S1", "E0", "V1"},
}

func histGen(g *Gen) {
	togoSetup()
	n := 1400
	if g.Thorough() {
		n = 9000
	}
	for i := 0; i < n; i++ {
		r := pickRoot(g)
		t := newTgen(g, 1+g.Rng.Intn(3))
		root := reflect.New(reflect.TypeOf(r.mk()).Elem())
		t.genStructInto(root.Elem(), 0)
		backOK := !hasNonZeroTime(root.Elem())
		t.noTime = backOK // values set later stay free of times, so the way back can be judged
		top := t.recordOf(root.Elem())
		var termToks []string
		top.emit(&termToks)
		hg := &histGenSt{t: t, g: g, byID: map[int]*tnode{}, top: top, backOK: backOK}
		hg.index(top)
		// the plan: kinds with symbolic targets (0 = the top record, 1 = some other record)
		var plan []string
		if g.Rng.Intn(2) == 0 {
			plan = histTemplates[g.Rng.Intn(len(histTemplates))]
			g.Count("hist template")
		} else {
			k := 2 + g.Rng.Intn(6)
			for j := 0; j < k; j++ {
				kind := "TTTSSSSEEUGV"[g.Rng.Intn(12)]
				tgt := "0"
				if g.Rng.Intn(5) < 2 {
					tgt = "1"
				}
				plan = append(plan, string(kind)+tgt)
			}
			g.Count("hist random plan")
		}
		bad := g.Rng.Intn(100) < 12
		var steps []string
		nsets, nconv := 0, 0
		for _, ps := range plan {
			recs := hg.reachable()
			tgt := hg.top
			if ps[1] == '1' && len(recs) > 1 {
				tgt = recs[1+g.Rng.Intn(len(recs)-1)]
			}
			kind := ps[0]
			if (kind == 'E' || kind == 'U' || kind == 'V') && !backOK {
				kind = 'T'
			}
			if kind == 'V' {
				if rt := rootOfTypeName(tgt.tn); rt == nil || !rt.self {
					kind = 'E'
				}
			}
			id := strconv.Itoa(tgt.id)
			switch kind {
			case 'S':
				kt, val, ok := hg.genHset(tgt)
				if !ok {
					g.Count("hist hset not possible on this record")
					continue
				}
				var vt []string
				val.emit(&vt)
				steps = append(steps, "S"+id, kt)
				steps = append(steps, vt...)
				nsets++
			default:
				steps = append(steps, string(kind)+id)
				if kind != 'G' {
					nconv++
				}
			}
			g.Count("hist step " + string(kind))
		}
		if bad {
			// an ill-formed update as the last but one step: a key the struct does not have, a key
			// that is not a symbol, or a value of the wrong kind; the conversion after it must fail
			recs := hg.reachable()
			tgt := recs[g.Rng.Intn(len(recs))]
			id := strconv.Itoa(tgt.id)
			switch g.Rng.Intn(3) {
			case 0:
				steps = append(steps, "S"+id, "k"+togoCodes([]byte([]string{"zz", "nosuch", "Cry2"}[g.Rng.Intn(3)])), "i1")
				g.Count("hist bad unknown-field")
			case 1:
				steps = append(steps, "S"+id, "ki7", "i1")
				g.Count("hist bad int-key")
			default:
				if len(tgt.keys) == 0 {
					steps = append(steps, "S"+id, "ki7", "i1")
					g.Count("hist bad int-key")
				} else {
					s := gridSamples[g.Rng.Intn(len(gridSamples))]
					if strings.HasPrefix(s, "H") && !strings.Contains(s, ":hash") {
						s = "p" // a record could land in a string field (printed text, outside the model)
					}
					steps = append(steps, "S"+id, tgt.keys[g.Rng.Intn(len(tgt.keys))])
					steps = append(steps, strings.Fields(s)...)
					g.Count("hist bad replaced-value")
				}
			}
			conv := "T"
			if backOK {
				conv = []string{"T", "E", "U"}[g.Rng.Intn(3)]
			}
			steps = append(steps, conv+strconv.Itoa(hg.top.id))
			if tgt != hg.top && g.Rng.Intn(2) == 0 {
				steps[len(steps)-1] = conv + id
			}
		}
		if len(steps) == 0 {
			continue
		}
		// dry run of the term building (dangling references would be generator bugs)
		vp := &termParser{toks: termToks, recs: map[int]*zygo.SexpHash{}}
		quiet(func() { vp.term() })
		if vp.err != "" {
			g.Count("hist skipped (term does not build)")
			continue
		}
		g.Emit("%s", histLine(r, termToks, steps))
		g.Count("hist " + r.name)
		if nsets > 0 && nconv > 1 {
			g.Count("hist with update between conversions")
		}
	}
	// fixed histories on the demo types (the shapes of the upstream tests, continued)
	we := togoByName["weather"]
	wterm := strings.Fields("H1:3:weather k116.121.112.101 s115.117.110.110.121 k115.105.122.101 i1 k100.101.116.97.105.108.115 r97.98.99")
	for _, st := range []string{
		"T1 S1 k115.105.122.101 i2 S1 k116.121.112.101 s114.97.105.110.121 S1 k100.101.116.97.105.108.115 r120.121.122 E1 G1",
		"T1 U1 U1 G1 E1",
		"E1 S1 k115.105.122.101 i2 E1 T1 S1 k115.105.122.101 i3 T1 E1",
	} {
		g.Emit("%s", histLine(we, wterm, strings.Fields(st)))
		g.Count("hist fixed weather")
	}
	// the keyed known finding: a by-value struct field whose record is replaced by a shorter one
	vn := togoByName["vnode"]
	g.Emit("%s", histLine(vn, strings.Fields("H1:1:vnode k118.97.108 H2:1:vleaf k105 i5"), strings.Fields("T1 S1 k118.97.108 H3:1:vleaf k110 i3 T1")))
	g.Count("hist fixed known-finding")
}

func init() { channels["togohist"] = &Channel{Gen: histGen, Exec: histExec} }
