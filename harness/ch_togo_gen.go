package main

// Generators of channel togo: type-directed from reflect.Type (so the demo structs and the
// harness structs are treated alike): a Go value is generated first, its canonical dump is the
// expectation, the record term is derived from it (random key spellings, zero fields omitted
// or explicit, embedded structs flattened or nested, shared objects -> the same record id).
// Plus: the exhaustive (field type x value kind) grid, and an ill-formed stream.

import (
	"math"
	"reflect"
	"strconv"
	"strings"
	"time"

	"github.com/glycerine/zygomys/v9/zygo"
)

type tnode struct {
	tok  string   // atom token, or "A", "H"
	kids []*tnode // array elements / hash values
	keys []string // hash key tokens
	id   int
	tn   string
}

func (n *tnode) emit(out *[]string) {
	switch n.tok {
	case "A":
		*out = append(*out, "A"+strconv.Itoa(len(n.kids)))
		for _, k := range n.kids {
			k.emit(out)
		}
	case "H":
		*out = append(*out, "H"+strconv.Itoa(n.id)+":"+strconv.Itoa(len(n.kids))+":"+n.tn)
		for i, k := range n.kids {
			*out = append(*out, n.keys[i])
			k.emit(out)
		}
	default:
		*out = append(*out, n.tok)
	}
}

func (n *tnode) records(acc *[]*tnode) {
	if n.tok == "H" && n.tn != "hash" {
		*acc = append(*acc, n)
	}
	for _, k := range n.kids {
		k.records(acc)
	}
}

func atom(tok string) *tnode { return &tnode{tok: tok} }

type tgen struct {
	g      *Gen
	pool   map[reflect.Type][]reflect.Value
	ids    map[uintptr]int
	nextID int
	maxD   int
	// explicit: name every field of the value being rendered, zero ones too (history ops: the new
	// value of a by-value struct field). noTime: generate zero times only (the way back loses times).
	explicit bool
	noTime   bool
}

func newTgen(g *Gen, maxD int) *tgen {
	return &tgen{g: g, pool: map[reflect.Type][]reflect.Value{}, ids: map[uintptr]int{}, nextID: 1, maxD: maxD}
}

var genInts = []int64{0, 1, -1, 5, 42, -7, 127, -128, 128, 300, 1 << 31, -(1 << 31), 1<<31 - 1, 1 << 53, 1<<53 + 1, math.MaxInt64, math.MinInt64}
var genFloats = []float64{0, 1, -1, 1.5, -2.25, 3, 1e300, math.Inf(1), 4.2, 9007199254740992}
var genStrs = []string{"", "a", "Bob", "two words", "h\xc3\xa9", "\xff\x00z", "yowza"}
var genKeys = []string{"a", "b", "k1", "Zed"}

func (t *tgen) rint(n int) int { return t.g.Rng.Intn(n) }

func (t *tgen) genInt(ty reflect.Type) int64 {
	for {
		v := genInts[t.rint(len(genInts))]
		if !reflect.New(ty).Elem().OverflowInt(v) {
			return v
		}
	}
}

func (t *tgen) genStructInto(v reflect.Value, depth int) {
	ty := v.Type()
	for i := 0; i < ty.NumField(); i++ {
		if t.rint(100) < 45 {
			continue // stays zero
		}
		v.Field(i).Set(t.genValue(ty.Field(i).Type, depth))
	}
}

func (t *tgen) genPtr(pt reflect.Type, depth int) reflect.Value {
	if depth >= t.maxD || t.rint(100) < 25 {
		return reflect.Zero(pt)
	}
	if p := t.pool[pt]; len(p) > 0 && t.rint(100) < 35 {
		t.g.Count("gen shared-object")
		return p[t.rint(len(p))]
	}
	nv := reflect.New(pt.Elem())
	t.genStructInto(nv.Elem(), depth+1)
	t.pool[pt] = append(t.pool[pt], nv) // only complete objects are shared: no cycles
	return nv
}

func (t *tgen) genValue(ty reflect.Type, depth int) reflect.Value {
	if ty == timeType {
		if t.noTime || t.rint(2) == 0 {
			return reflect.ValueOf(time.Time{})
		}
		return reflect.ValueOf(time.Unix(int64(t.rint(2000000000)), 0).UTC())
	}
	v := reflect.New(ty).Elem()
	switch ty.Kind() {
	case reflect.Int, reflect.Int8, reflect.Int16, reflect.Int32, reflect.Int64:
		v.SetInt(t.genInt(ty))
	case reflect.Uint64:
		v.SetUint([]uint64{0, 1, 7, math.MaxUint64, 1 << 63}[t.rint(5)])
	case reflect.Float64:
		v.SetFloat(genFloats[t.rint(len(genFloats))])
	case reflect.String:
		v.SetString(genStrs[t.rint(len(genStrs))])
	case reflect.Bool:
		v.SetBool(t.rint(2) == 0)
	case reflect.Slice:
		r := t.rint(100)
		if r < 25 {
			return v // nil
		}
		n := 0
		if r >= 40 {
			n = 1 + t.rint(3)
		}
		if ty.Elem().Kind() == reflect.Uint8 {
			b := make([]byte, n)
			for i := range b {
				b[i] = byte(t.rint(256))
			}
			return reflect.ValueOf(b)
		}
		s := reflect.MakeSlice(ty, 0, n)
		for i := 0; i < n; i++ {
			s = reflect.Append(s, t.genValue(ty.Elem(), depth))
		}
		return s
	case reflect.Ptr:
		if ty.Elem().Kind() == reflect.Struct {
			return t.genPtr(ty, depth)
		}
	case reflect.Struct:
		t.genStructInto(v, depth+1)
	case reflect.Interface:
		if depth >= t.maxD || t.rint(100) < 25 {
			return v
		}
		if ty.NumMethod() == 0 {
			k := t.rint(5)
			if k == 1 && t.noTime {
				k = 0
			}
			switch k {
			case 0:
				v.Set(reflect.ValueOf(t.rint(2) == 0))
			case 1:
				v.Set(reflect.ValueOf(time.Unix(int64(t.rint(2000000000)), 0).UTC()))
			case 2:
				v.Set(reflect.ValueOf([]byte{byte(t.rint(256))}))
			case 3:
				v.Set(reflect.ValueOf(int32(t.rint(1000))))
			default:
				v.Set(t.genPtrNonNil(reflect.TypeOf(&VLeaf{}), depth))
			}
			return v
		}
		var impl []reflect.Type
		for i := range togoRoots {
			pt := reflect.TypeOf(togoRoots[i].mk())
			if pt.Implements(ty) && !togoRoots[i].fixedOnly {
				impl = append(impl, pt)
			}
		}
		if len(impl) > 0 {
			v.Set(t.genPtrNonNil(impl[t.rint(len(impl))], depth))
		}
	case reflect.Map:
		if t.rint(100) < 35 {
			return v
		}
		m := reflect.MakeMap(ty)
		n := t.rint(3)
		for i := 0; i < n; i++ {
			var k reflect.Value
			if ty.Key().Kind() == reflect.String {
				k = reflect.ValueOf(genKeys[t.rint(len(genKeys))])
			} else {
				k = reflect.ValueOf(int64(t.rint(5) - 1))
			}
			ev := t.genValue(ty.Elem(), depth)
			if ty.Elem().Kind() == reflect.Interface && ev.IsNil() {
				continue
			}
			m.SetMapIndex(k, ev)
		}
		return m
	}
	return v
}

func (t *tgen) genPtrNonNil(pt reflect.Type, depth int) reflect.Value {
	for i := 0; i < 5; i++ {
		if p := t.genPtr(pt, depth); !p.IsNil() {
			return p
		}
	}
	nv := reflect.New(pt.Elem())
	t.pool[pt] = append(t.pool[pt], nv)
	return nv
}

// ---- the field table, as fillJsonMap builds it (only used to choose key spellings)

func jsonPaths(st reflect.Type, prefix []int, m map[string][]int) {
	for i := 0; i < st.NumField(); i++ {
		f := st.Field(i)
		key := f.Tag.Get("json")
		if key == "" {
			key = f.Name
		}
		path := append(append([]int{}, prefix...), i)
		m[key] = path
		if f.Anonymous && f.Type.Kind() == reflect.Struct {
			jsonPaths(f.Type, path, m)
		}
	}
}

func samePath(a, b []int) bool {
	if len(a) != len(b) {
		return false
	}
	for i := range a {
		if a[i] != b[i] {
			return false
		}
	}
	return true
}

func resolveKey(m map[string][]int, key string) ([]int, bool) {
	if p, ok := m[key]; ok {
		return p, true
	}
	if key == "" {
		return nil, false
	}
	p, ok := m[strings.ToUpper(key[:1])+key[1:]]
	return p, ok
}

// ---- Go value -> record term

func (t *tgen) keyTok(name string) string {
	if t.rint(100) < 15 {
		return "K" + togoCodes([]byte(name))
	}
	return "k" + togoCodes([]byte(name))
}

func (t *tgen) termOf(v reflect.Value) *tnode {
	ty := v.Type()
	if ty == timeType {
		tm := v.Interface().(time.Time)
		if tm.IsZero() && t.rint(2) == 0 {
			return atom("n")
		}
		return atom("t" + strconv.FormatInt(tm.Unix(), 10))
	}
	switch ty.Kind() {
	case reflect.Int, reflect.Int8, reflect.Int16, reflect.Int32, reflect.Int64:
		return atom("i" + strconv.FormatInt(v.Int(), 10))
	case reflect.Uint64:
		return atom("u" + strconv.FormatUint(v.Uint(), 10))
	case reflect.Float64:
		f := v.Float()
		if f == math.Trunc(f) && math.Abs(f) < 1e15 && !(f == 0 && math.Signbit(f)) && t.rint(100) < 20 {
			t.g.Count("gen int-literal-for-float-field")
			return atom("i" + strconv.FormatInt(int64(f), 10))
		}
		return atom("f" + strconv.FormatUint(math.Float64bits(f), 16))
	case reflect.String:
		return atom("s" + togoCodes([]byte(v.String())))
	case reflect.Bool:
		if v.Bool() {
			return atom("b1")
		}
		return atom("b0")
	case reflect.Slice:
		if v.IsNil() {
			return atom("n")
		}
		if ty.Elem().Kind() == reflect.Uint8 {
			return atom("r" + togoCodes(v.Bytes()))
		}
		n := &tnode{tok: "A"}
		for i := 0; i < v.Len(); i++ {
			n.kids = append(n.kids, t.termOf(v.Index(i)))
		}
		return n
	case reflect.Ptr:
		if v.IsNil() {
			return atom("n")
		}
		if id, ok := t.ids[v.Pointer()]; ok {
			t.g.Count("gen shared-record-ref")
			return atom("R" + strconv.Itoa(id))
		}
		n := t.recordOf(v.Elem())
		t.ids[v.Pointer()] = n.id
		return n
	case reflect.Struct:
		return t.recordOf(v)
	case reflect.Interface:
		if v.IsNil() {
			return atom("n")
		}
		e := v.Elem()
		if e.Kind() == reflect.Int32 {
			return atom("c" + strconv.FormatInt(e.Int(), 10))
		}
		return t.termOf(e)
	case reflect.Map:
		if v.IsNil() {
			return atom("n")
		}
		n := &tnode{tok: "H", tn: "hash", id: t.nextID}
		t.nextID++
		type ent struct {
			key string
			v   reflect.Value
		}
		var ents []ent
		for _, k := range v.MapKeys() {
			if k.Kind() == reflect.String {
				ents = append(ents, ent{t.keyTok(k.String()), v.MapIndex(k)})
			} else {
				ents = append(ents, ent{"ki" + strconv.FormatInt(k.Int(), 10), v.MapIndex(k)})
			}
		}
		// MapKeys order is random: sort for reproducible op lines, then render in that order
		for i := 1; i < len(ents); i++ {
			for j := i; j > 0 && ents[j].key[1:] < ents[j-1].key[1:]; j-- {
				ents[j], ents[j-1] = ents[j-1], ents[j]
			}
		}
		for _, e := range ents {
			n.keys = append(n.keys, e.key)
			n.kids = append(n.kids, t.termOf(e.v))
		}
		return n
	}
	return atom("n")
}

type pendField struct {
	key    string
	v      reflect.Value
	nested bool
}

func (t *tgen) recordOf(sv reflect.Value) *tnode {
	st := sv.Type()
	name := togoRegOfStruct[st]
	if t.rint(100) < 10 {
		name = st.String() // the registry also knows the reflect name
		t.g.Count("gen record-by-reflect-name")
	}
	n := &tnode{tok: "H", tn: name, id: t.nextID}
	t.nextID++
	paths := map[string][]int{}
	jsonPaths(st, nil, paths)
	var pend []pendField
	t.fieldsOf(sv, st, nil, paths, &pend)
	if len(pend) > 1 && t.rint(2) == 0 {
		t.g.Rng.Shuffle(len(pend), func(i, j int) { pend[i], pend[j] = pend[j], pend[i] })
	}
	// terms are rendered in their final order, so R<id> always follows its definition
	for _, p := range pend {
		n.keys = append(n.keys, t.keyTok(p.key))
		if p.nested {
			n.kids = append(n.kids, t.recordOf(p.v))
		} else {
			n.kids = append(n.kids, t.termOf(p.v))
		}
	}
	return n
}

// can every non-zero field below (v, prefix) be addressed by a promoted key?
func (t *tgen) flattenable(v reflect.Value, st reflect.Type, prefix []int, paths map[string][]int) bool {
	for i := 0; i < st.NumField(); i++ {
		f := st.Field(i)
		path := append(append([]int{}, prefix...), i)
		if f.Anonymous && f.Type.Kind() == reflect.Struct {
			if !t.flattenable(v.Field(i), f.Type, path, paths) {
				return false
			}
			continue
		}
		if v.Field(i).IsZero() {
			continue
		}
		key := f.Tag.Get("json")
		if key == "" {
			key = f.Name
		}
		if p, ok := resolveKey(paths, key); !ok || !samePath(p, path) {
			return false
		}
	}
	return true
}

func (t *tgen) fieldsOf(v reflect.Value, st reflect.Type, prefix []int, paths map[string][]int, pend *[]pendField) {
	for i := 0; i < st.NumField(); i++ {
		f := st.Field(i)
		fv := v.Field(i)
		path := append(append([]int{}, prefix...), i)
		key := f.Tag.Get("json")
		if key == "" {
			key = f.Name
		}
		if f.Anonymous && f.Type.Kind() == reflect.Struct {
			flat := t.flattenable(fv, f.Type, path, paths)
			_, registered := togoRegOfStruct[f.Type]
			if p, ok := resolveKey(paths, key); !ok || !samePath(p, path) {
				registered = false
			}
			if registered && (!flat || t.rint(100) < 30) {
				t.g.Count("gen embedded-as-nested-record")
				*pend = append(*pend, pendField{key, fv, true})
			} else {
				if flat {
					t.g.Count("gen embedded-flattened")
				} else {
					// an unregistered embedded struct with a field no promoted key reaches
					// (shadowed by a later declaration): that field cannot be written from this
					// record, so the generating value must not hold anything there
					t.g.Count("gen embedded-flattened (unreachable fields zeroed)")
				}
				t.fieldsOf(fv, f.Type, path, paths, pend)
			}
			continue
		}
		if fv.IsZero() && !t.explicit && t.rint(100) < 70 {
			continue
		}
		if p, ok := resolveKey(paths, key); !ok || !samePath(p, path) {
			// shadowed and unreachable from here
			if !fv.IsZero() {
				if fv.CanSet() {
					fv.Set(reflect.Zero(fv.Type()))
				} else {
					t.g.Count("gen BUG unreachable non-zero field not settable")
				}
			}
			continue
		}
		spell := key
		if f.Tag.Get("json") == "" && t.rint(100) < 40 {
			low := strings.ToLower(key[:1]) + key[1:]
			if p, ok := resolveKey(paths, low); ok && samePath(p, path) {
				spell = low
				t.g.Count("gen key-lowercased-field-name")
			}
		}
		*pend = append(*pend, pendField{spell, fv, false})
	}
}

// ---------------------------------------------------------------- op emission

func togoLine(mode string, r *togoRoot, term *tnode, exp string) string {
	var toks []string
	term.emit(&toks)
	w := worldTokens(reflect.TypeOf(r.mk()).Elem())
	return mode + " " + r.name + " W " + strings.Join(w, " ") + " E " + strings.Join(toks, " ") + " X " + exp
}

var gridSamples = []string{
	"i0", "i5", "i-1", "i300", "i9007199254740993", "i9223372036854775807", "i-9223372036854775808",
	"u7", "u18446744073709551615",
	"f3ff8000000000000", "f4000000000000000", "f7ff8000000000001", "f8000000000000000", "f7e37e43c8800759c", "f43e0000000000000",
	"s-", "s97", "y97", "c97", "b1", "b0", "n", "r-", "r1.2.255", "t0", "t1600000000", "p",
	"A0", "A2 i1 i2", "A1 s97", "A1 n", "A1 f3ff8000000000000",
	"H900:0:hash", "H900:1:hash k97 s98", "H900:1:hash k97 f3ff8000000000000", "H900:1:hash k97 i2", "H900:1:hash k97 i9007199254740993", "H900:1:hash ki1 f4004000000000000", "H900:1:hash k97 H901:0:vleaf",
	"H900:0:vleaf", "H900:1:vleaf k105 i4", "H900:0:vnode", "H900:0:vemb", "H900:0:hornet", "H900:0:hellcat", "H900:0:snoopy", "H900:0:weather", "H900:0:plane", "H900:0:persondemo", "H900:0:nosuch",
}

func rawTerm(s string) *tnode { return atom(s) } // pre-rendered token sequence

func togoGen(g *Gen) {
	togoSetup()
	// 1. exhaustive grid: every field of every root type x every value kind sample
	for ri := range togoRoots {
		r := &togoRoots[ri]
		if r.fixedOnly {
			continue
		}
		st := reflect.TypeOf(r.mk()).Elem()
		paths := map[string][]int{}
		jsonPaths(st, nil, paths)
		keys := make([]string, 0, len(paths))
		for k := range paths {
			keys = append(keys, k)
		}
		for i := 1; i < len(keys); i++ {
			for j := i; j > 0 && keys[j] < keys[j-1]; j-- {
				keys[j], keys[j-1] = keys[j-1], keys[j]
			}
		}
		for _, k := range keys {
			ft := st.FieldByIndex(paths[k]).Type
			for _, s := range gridSamples {
				if ft.Kind() == reflect.String && strings.HasPrefix(s, "H") && !strings.Contains(s, ":hash") {
					// a record into a string field stores the record's printed text (documented
					// feature); the printed form is outside the model
					g.Count("grid skipped record-into-string-field")
					continue
				}
				if ft.Kind() == reflect.Interface && ft.NumMethod() == 0 && strings.HasSuffix(s, ":nosuch") {
					// a record type without a Go struct is stored as a *SexpHash: outside the property
					g.Count("grid skipped script-only-record-into-interface{}")
					continue
				}
				n := &tnode{tok: "H", tn: r.name, id: 1, keys: []string{"k" + togoCodes([]byte(k))}, kids: []*tnode{rawTerm(s)}}
				g.Emit("%s", togoLine("conv", r, n, "-"))
				g.Count("grid " + tyExpr(ft) + " <- " + s[:1])
			}
		}
		// unknown field, non-symbol key, empty record, unregistered type
		g.Emit("%s", togoLine("conv", r, &tnode{tok: "H", tn: r.name, id: 1, keys: []string{"k122.122"}, kids: []*tnode{atom("i1")}}, "-"))
		g.Emit("%s", togoLine("conv", r, &tnode{tok: "H", tn: r.name, id: 1, keys: []string{"ki3"}, kids: []*tnode{atom("i1")}}, "-"))
		g.Emit("%s", togoLine("conv", r, &tnode{tok: "H", tn: r.name, id: 1}, "-"))
		g.Emit("%s", togoLine("echo", r, &tnode{tok: "H", tn: r.name, id: 1}, "-"))
		g.Count("grid fixed-ill-formed")
		// a record of ANOTHER registered type handed to the method (C10-05): empty, and with one
		// string field set (the field tables of two structs can fit each other by accident)
		for oi := range togoRoots {
			o := &togoRoots[oi]
			if o == r || o.fixedOnly {
				continue
			}
			g.Emit("%s", togoLine("echo", r, &tnode{tok: "H", tn: o.name, id: 1}, "-"))
			ost := reflect.TypeOf(o.mk()).Elem()
			for fi := 0; fi < ost.NumField(); fi++ {
				if f := ost.Field(fi); f.Type.Kind() == reflect.String {
					key := f.Tag.Get("json")
					if key == "" {
						key = f.Name
					}
					g.Emit("%s", togoLine("echo", r, &tnode{tok: "H", tn: o.name, id: 1, keys: []string{"k" + togoCodes([]byte(key))}, kids: []*tnode{atom("s97")}}, "-"))
					break
				}
			}
			g.Count("grid echo record-of-another-type")
		}
	}
	// 2. generated values
	nConv, nEcho, nBad := 1500, 600, 900
	if g.Thorough() {
		nConv, nEcho, nBad = 12000, 4000, 6000
	}
	for i := 0; i < nConv+nEcho+nBad; i++ {
		r := pickRoot(g)
		t := newTgen(g, 1+g.Rng.Intn(3))
		root := reflect.New(reflect.TypeOf(r.mk()).Elem())
		t.genStructInto(root.Elem(), 0)
		term := t.recordOf(root.Elem()) // may zero fields that no key of the record can reach
		exp := canonGo(root)
		var toks []string
		term.emit(&toks)
		switch {
		case i < nConv:
			// self-check of the dump: the real conversion must DeepEqual the generating value
			// exactly when the dumps agree
			p := &termParser{toks: toks, recs: map[int]*zygo.SexpHash{}}
			var got interface{}
			quiet(func() {
				rec := p.term()
				if h, ok := rec.(*zygo.SexpHash); ok && p.err == "" {
					togoEnv.AddGlobal("zzr", rec)
					if _, err := togoEnv.EvalString("(togo zzr) "); err == nil {
						got = h.GoShadowStruct
					} else {
						togoEnv.Clear()
					}
				}
			})
			if got != nil {
				de := reflect.DeepEqual(got, root.Interface())
				ce := canonGo(reflect.ValueOf(got)) == exp
				if de && ce {
					g.Count("gen-time DeepEqual and dump agree: equal")
				} else if !de && !ce {
					g.Count("gen-time DeepEqual and dump agree: different")
				} else if ce {
					g.Count("gen-time dump equal but DeepEqual false (NaN or -0)")
				} else {
					g.Count("gen-time DeepEqual true but dump differs (sharing)")
				}
			} else {
				g.Count("gen-time conversion error")
			}
			g.Emit("%s", togoLine("conv", r, term, exp))
			g.Count("conv " + r.name)
		case i < nConv+nEcho:
			if strings.Contains(exp, "time:") && hasNonZeroTime(root.Elem()) {
				// the way back loses times (known finding, keyed op below): keep them out
				i--
				continue
			}
			g.Emit("%s", togoLine("echo", r, term, "-"))
			g.Count("echo " + r.name)
		default:
			var recs []*tnode
			term.records(&recs)
			victim := recs[g.Rng.Intn(len(recs))]
			mode := "conv"
			if g.Rng.Intn(4) == 0 && !hasNonZeroTime(root.Elem()) {
				mode = "echo"
			}
			kind := g.Rng.Intn(4)
			if kind == 2 && victim == recs[0] && mode == "conv" {
				// (togo r) takes the top object from the record's own type: retyping the top
				// record just converts another type
				kind = 0
			}
			switch kind {
			case 0:
				victim.keys = append(victim.keys, "k"+togoCodes([]byte([]string{"zz", "nosuch", "ID", "Cry2", "x"}[g.Rng.Intn(5)])))
				victim.kids = append(victim.kids, atom("i1"))
				g.Count("bad unknown-field")
			case 1:
				if len(victim.kids) == 0 {
					victim.keys = append(victim.keys, "ki7")
					victim.kids = append(victim.kids, atom("i1"))
					g.Count("bad int-key")
				} else {
					j := g.Rng.Intn(len(victim.kids))
					victim.kids[j] = rawTerm(gridSamples[g.Rng.Intn(len(gridSamples))])
					g.Count("bad replaced-value")
				}
			case 2:
				names := []string{"hash"}
				if victim == recs[0] {
					names = append(names, "nosuch")
				}
				structs, _ := worldOf(reflect.TypeOf(r.mk()).Elem())
				for _, s := range structs {
					if n := togoRegOfStruct[s]; n != "" && n != victim.tn && !togoByName[n].fixedOnly {
						names = append(names, n)
					}
				}
				victim.tn = names[g.Rng.Intn(len(names))]
				g.Count("bad retyped-record")
			default:
				victim.keys = append(victim.keys, "ki7")
				victim.kids = append(victim.kids, atom("i1"))
				g.Count("bad int-key")
			}
			var chk []string
			term.emit(&chk)
			if strings.Contains(strings.Join(chk, " "), " H") && recordIntoStringPossible(chk) {
				g.Count("bad skipped (record may land in a string field)")
				continue
			}
			vp := &termParser{toks: chk, recs: map[int]*zygo.SexpHash{}}
			quiet(func() { vp.term() })
			if vp.err != "" {
				g.Count("bad skipped (dangling record reference)")
				continue
			}
			g.Emit("%s", togoLine(mode, r, term, "-"))
		}
	}
	// 3. fixed ops: one record shared between a pointer field and interface-typed fields (C10-02),
	// in both declaration orders
	vn := togoByName["vnode"]
	leaf := func() *tnode {
		return &tnode{tok: "H", tn: "vleaf", id: 2, keys: []string{"k105"}, kids: []*tnode{atom("i5")}}
	}
	for _, ks := range [][]string{{"k108.101.97.102", "k97.110.121"}, {"k97.110.121", "k108.101.97.102"}, {"k101", "k108.101.97.102.50"}, {"k108.101.97.102", "k101"}} {
		g.Emit("%s", togoLine("conv", vn, &tnode{tok: "H", tn: "vnode", id: 1, keys: ks, kids: []*tnode{leaf(), atom("R2")}}, "-"))
		g.Count("fixed shared-record pointer+interface")
	}
	// 3b. a struct type with an embedded POINTER (could not be made into a record before fix C10-06)
	vpe := togoByName["vpe"]
	g.Emit("%s", togoLine("conv", vpe, &tnode{tok: "H", tn: "vpe", id: 1, keys: []string{"k122"}, kids: []*tnode{atom("i4")}}, "-"))
	g.Count("fixed embedded-pointer type")
	// 4. the keyed known finding: a time does not come back
	w := togoByName["weather"]
	g.Emit("%s", togoLine("echo", w, &tnode{tok: "H", tn: "weather", id: 1, keys: []string{"k116.105.109.101", "k115.105.122.101"}, kids: []*tnode{atom("t1600000000"), atom("i12")}}, "-"))
}

// a root for the random streams: the types with every kind / the deepest embedding more often
func pickRoot(g *Gen) *togoRoot {
	switch g.Rng.Intn(6) {
	case 0:
		return togoByName["vnode"]
	case 1:
		return togoByName[[]string{"vd0", "vwide", "vd0", "vd2"}[g.Rng.Intn(4)]]
	}
	for {
		r := &togoRoots[g.Rng.Intn(len(togoRoots))]
		if !r.fixedOnly {
			return r
		}
	}
}

func hasNonZeroTime(v reflect.Value) bool {
	if v.Type() == timeType {
		return !v.Interface().(time.Time).IsZero()
	}
	switch v.Kind() {
	case reflect.Ptr, reflect.Interface:
		if v.IsNil() {
			return false
		}
		return hasNonZeroTime(v.Elem())
	case reflect.Struct:
		for i := 0; i < v.NumField(); i++ {
			if hasNonZeroTime(v.Field(i)) {
				return true
			}
		}
	case reflect.Slice:
		for i := 0; i < v.Len(); i++ {
			if hasNonZeroTime(v.Index(i)) {
				return true
			}
		}
	case reflect.Map:
		for _, k := range v.MapKeys() {
			if hasNonZeroTime(v.MapIndex(k)) {
				return true
			}
		}
	}
	return false
}

// conservative: a replaced value that is a registered record could be converted into a
// string-typed field (printed text, outside the model)
func recordIntoStringPossible(toks []string) bool {
	for i, t := range toks {
		if i > 0 && strings.HasPrefix(t, "H900:") && !strings.HasSuffix(t, ":hash") {
			return true
		}
	}
	return false
}
