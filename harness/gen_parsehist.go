package main

// Generator of the HISTORY dimension of channel parse (ops `h` and `ei`, see ch_parsehist.go).
//
// A history is a sequence of 1–3 earlier texts on the same parser, each of them complete, wrong
// (hard lexical / syntax error) or UNFINISHED, each brought to the parser by one of the reset
// routes of the public API; then the text under test follows by a reset route, whole and cut.
// The space of earlier texts is enumerated, not hand-picked:
//   * every sequence of up to 3 (thorough: 4; quick: a rotating sample of the length-4 ones)
//     tokens over  ( [ { ) ] } " a 1 /* % ~ - :  — every prefix of such a sequence is itself
//     in the enumeration, so each is "cut at every token position"; rendered with and without a
//     trailing blank (a pending atom in the buffer / flushed) and with and without the end of
//     the input signalled;
//   * every sequence of up to 2 (thorough: 3) tokens over a larger alphabet (adds */ ' ` ^ ~@ \ + / k: "s" `r`
//     'c' , ; and two lexical errors);
//   * every stack of open brackets of depth 1–4 over ( [ { x what stands in the innermost
//     bracket (nothing, elements, a closed nested form) x how the text stops (after the opener /
//     element, inside a string, an escape, a raw string, a char literal, a block comment, after
//     a prefix operator, a sign, a colon label, a first slash, a backslash);
//   * random multi-entry histories over all of the above.

import (
	"strings"
)

var histSmallAlpha = []string{"(", "[", "{", ")", "]", "}", "\"", "a", "1", "/*", "%", "~", "-", ":"}

var histBigAlpha = []string{"(", "[", "{", ")", "]", "}", "\"", "a", "1", "/*", "%", "~", "-", ":",
	"*/", "'", "`", "^", "~@", "\\", "+", "/", "k:", "\"s\"", "`r`", "'c'", ",", ";", "a\"", "'ab'", "\"\\", "//"}

// texts under test: benign, sensitive to look-back memory, starting with closers (a surviving
// continuation would accept them), many token kinds, unfinished itself
var histTexts = []string{
	"(b c) [1 2] d",
	"-1 \"s\" x:=2",
	"a) b] c} \"d\" */ e",
	"{k: 1} %x ~y 'c' /* z */ - Inf",
	"1 2",
	"(def x (+ 3 4)) (* x 6)",
	"] 7",
	"(x \"y",
	"*/ `r` }",
	"-.5 +1 a:b",
}

var histRoutes = []string{"r", "n", "s", "t"}

type hgen struct {
	p *pgen
	n int // running index: rotates texts, cut positions, the route of the earlier text deterministically
	k int // rotates the route of the text under test where not all four are used
}

func (h *hgen) entry(route, mode string, again int, txt string, queued string) string {
	e := route + ":" + mode + ":" + string(rune('0'+again)) + ":" + codes(txt)
	if queued != "" {
		e += ":" + codes(queued)
	}
	return e
}

func (h *hgen) emit(hist string, route string, t string, cuts []int) {
	rs := []rune(t)
	var parts []string
	prev := 0
	for _, c := range append(append([]int{}, cuts...), len(rs)) {
		parts = append(parts, codes(string(rs[prev:c])))
		prev = c
	}
	h.p.g.Emit("h H=%s R=%s C=%s", hist, route, strings.Join(parts, "/"))
	h.p.g.Count("h route " + route)
	h.p.g.Count("h pieces " + itoa(len(parts)))
}

// one earlier text x (mode, trailing blank) x the given routes x `ntexts` texts under test
// (rotating), whole and with one rotating cut
func (h *hgen) single(txt string, routes []string, ntexts int, what string) {
	type variant struct{ mode, txt string }
	vs := []variant{{"w", txt}, {"a", txt}, {"a", txt + " "}}
	for _, v := range vs {
		for _, r := range routes {
			for k := 0; k < ntexts; k++ {
				h.n++
				t := histTexts[h.n%len(histTexts)]
				// the route by which the earlier text itself arrives rotates as well
				hr := histRoutes[(h.n/7)%len(histRoutes)]
				again := 0
				queued := ""
				switch h.n % 11 {
				case 3:
					again = 1
				case 7:
					again = 2
				case 9:
					queued = []string{"x", ") y", "\"", "]"}[(h.n/11)%4]
				}
				hist := h.entry(hr, v.mode, again, v.txt, queued)
				h.emit(hist, r, t, nil)
				if h.n%2 == 0 {
					c := 1 + (h.n/2)%(len([]rune(t))-1)
					h.emit(hist, r, t, []int{c})
				}
				h.p.g.Count("h " + what)
				h.p.g.Count("h earlier text mode " + v.mode)
			}
		}
	}
}

func enumerateToks(alpha []string, n int, f func([]string)) {
	idx := make([]int, n)
	seq := make([]string, n)
	for {
		for i, j := range idx {
			seq[i] = alpha[j]
		}
		f(seq)
		k := n - 1
		for k >= 0 {
			idx[k]++
			if idx[k] < len(alpha) {
				break
			}
			idx[k] = 0
			k--
		}
		if k < 0 {
			return
		}
	}
}

// what stands in the innermost open bracket before the text stops
var nestFill = []string{"", "a ", "a b ", "(x) ", "[1] ", "{y} ", "a (x y) ", "k: "}

// how the text stops
var nestStop = []string{"", "a", "\"s", "\"s\\", "`r", "'", "'c", "'\\", "/* c", "/* c *", "%", "^", "~", "~@", "-", "+", "k:", "/", "\\", "a \\ b", "1e", ":"}

func (h *hgen) nested(thorough bool) []string {
	var out []string
	open := []string{"(", "[", "{"}
	for depth := 1; depth <= 4; depth++ {
		enumerateToks(open, depth, func(st []string) {
			for fi, fill := range nestFill {
				for si, stop := range nestStop {
					// outer levels get an element in front of the next opener on every other text
					var b strings.Builder
					for lvl, o := range st {
						b.WriteString(o)
						if lvl < len(st)-1 && (fi+si+lvl)%2 == 0 {
							b.WriteString("e" + string(rune('0'+lvl)) + " ")
						}
					}
					b.WriteString(fill)
					b.WriteString(stop)
					out = append(out, b.String())
				}
			}
		})
	}
	return out
}

func genParseHist(g *Gen, p *pgen) {
	h := &hgen{p: p}
	// the history that the seeded defects need, spelt out once (the enumeration below contains them too)
	for _, t := range []string{"(foo (", "(defn f [", "(a b) (c [1 2] (", "%(", "(a /* x"} {
		h.single(t, histRoutes, 2, "probe")
	}
	// 1. exhaustive small scope over the small token alphabet
	maxn := 3
	if g.Thorough() {
		maxn = 4
	}
	for n := 1; n <= maxn; n++ {
		enumerateToks(histSmallAlpha, n, func(seq []string) {
			nt := 1
			if n <= 2 {
				nt = 3
			}
			rs := histRoutes
			if n == 4 {
				h.k++
				rs = []string{histRoutes[h.k%4]}
			}
			h.single(strings.Join(seq, " "), rs, nt, "exhaustive small-alphabet history")
			if n <= 2 {
				h.single(strings.Join(seq, ""), rs, 1, "exhaustive small-alphabet history (no blanks)")
			}
		})
	}
	if !g.Thorough() {
		// a sample of the length-4 sequences, spread over the whole space
		all := 1
		for i := 0; i < 4; i++ {
			all *= len(histSmallAlpha)
		}
		step := all/1500 + 1
		i := int(g.Seed % int64(step))
		if i < 0 {
			i = 0
		}
		k := 0
		enumerateToks(histSmallAlpha, 4, func(seq []string) {
			if k%step == i {
				h.k++
				h.single(strings.Join(seq, " "), []string{histRoutes[h.k%4]}, 1, "sampled length-4 small-alphabet history")
			}
			k++
		})
	}
	// 2. the larger alphabet, length <= 2 (thorough: 3)
	maxb := 2
	if g.Thorough() {
		maxb = 3
	}
	for n := 1; n <= maxb; n++ {
		enumerateToks(histBigAlpha, n, func(seq []string) {
			h.k++
			rs := histRoutes
			if n == 2 {
				rs = []string{histRoutes[h.k%4], histRoutes[(h.k+1)%4]}
			}
			if n == 3 {
				rs = []string{histRoutes[h.k%4]}
			}
			h.single(strings.Join(seq, " "), rs, 1, "exhaustive big-alphabet history")
		})
	}
	// 3. nesting depth 1..4 x fill x stop
	nest := h.nested(g.Thorough())
	for i, t := range nest {
		if g.Thorough() || (i+int(g.Seed))%5 == 0 {
			h.k++
			h.single(t, []string{histRoutes[h.k%4]}, 1, "nested-bracket history")
		}
	}
	// 4. histories of 2 and 3 earlier texts
	N := 1500
	if g.Thorough() {
		N = 120000
	}
	pickText := func() string {
		switch g.Rng.Intn(5) {
		case 0:
			return nest[g.Rng.Intn(len(nest))]
		case 1:
			n := 1 + g.Rng.Intn(4)
			var s []string
			for i := 0; i < n; i++ {
				s = append(s, histBigAlpha[g.Rng.Intn(len(histBigAlpha))])
			}
			return strings.Join(s, " ")
		case 2:
			return p.text() // a complete text
		case 3:
			return p.malformed()
		default:
			// a grammar text cut somewhere: an unfinished prefix of a realistic text
			t := []rune(p.text())
			return string(t[:g.Rng.Intn(len(t)+1)])
		}
	}
	for i := 0; i < N; i++ {
		k := 2 + g.Rng.Intn(2)
		var es []string
		for j := 0; j < k; j++ {
			mode := "w"
			if g.Rng.Intn(2) == 0 {
				mode = "a"
			}
			again := 0
			if g.Rng.Intn(5) == 0 {
				again = 1 + g.Rng.Intn(2)
			}
			q := ""
			if g.Rng.Intn(8) == 0 {
				q = pickText()
			}
			es = append(es, h.entry(histRoutes[g.Rng.Intn(4)], mode, again, pickText(), q))
		}
		t := histTexts[g.Rng.Intn(len(histTexts))]
		if g.Rng.Intn(3) == 0 {
			t = p.text()
		}
		r := histRoutes[g.Rng.Intn(4)]
		hist := strings.Join(es, "/")
		h.emit(hist, r, t, nil)
		if len([]rune(t)) > 1 {
			h.emit(hist, r, t, []int{1 + g.Rng.Intn(len([]rune(t))-1)})
		}
		g.Count("h multi-entry history")
	}
	// 5. Stop() without a reset: what the stopped coroutine read while unwinding (model only)
	M := 600
	if g.Thorough() {
		M = 30000
	}
	for i := 0; i < M; i++ {
		mode := "a"
		if g.Rng.Intn(3) == 0 {
			mode = "w"
		}
		q := ""
		if g.Rng.Intn(2) == 0 {
			q = []string{"x", ") y", "b) (c", "] 1 2", "\" z", "*/ w", "} {", "1 2) 3) 4", "p [q", "Inf"}[g.Rng.Intn(10)]
		}
		var txt string
		if g.Rng.Intn(2) == 0 {
			txt = nest[g.Rng.Intn(len(nest))]
		} else {
			txt = pickText()
		}
		hist := h.entry(histRoutes[g.Rng.Intn(4)], mode, g.Rng.Intn(2), txt, q)
		h.emit(hist, "S", histTexts[g.Rng.Intn(len(histTexts))], nil)
		g.Count("h stop-without-reset (model only)")
	}
	// 6. interpreter level: failed loads of unfinished texts, then EvalString; twin comparison
	lit := []string{"42", "1 2 \"s\"", "-7", "'c' 1.5", "true"}
	evalTexts := []string{"(def x (+ 3 4)) (* x 6)", "(+ 1 2)", "[1 2 3]", "(def f (fn [a] (* a 2))) (f 21)"}
	apis := []string{"E", "L", "R", "P"}
	var uh []string
	for n := 1; n <= 2; n++ {
		enumerateToks(histSmallAlpha, n, func(seq []string) { uh = append(uh, strings.Join(seq, " ")) })
	}
	for i, t := range nest {
		if (i+int(g.Seed))%23 == 0 || g.Thorough() && i%3 == 0 {
			uh = append(uh, t)
		}
	}
	uh = append(uh, "(foo (", "(defn f [", "(a b) (c [1 2] (", "(def h {")
	for i, u := range uh {
		api := apis[i%4]
		hist := api + ":" + codes(u)
		switch i % 5 {
		case 1:
			hist += "/C:-"
		case 2:
			hist = "E:" + codes("(def hq 5)") + "/" + hist
		case 3:
			hist += "/" + apis[(i/5)%4] + ":" + codes(uh[(i*7+3)%len(uh)])
		}
		g.Emit("ei H=%s X=0 T=%s", hist, codes(lit[i%len(lit)]))
		g.Emit("ei H=%s X=1 T=%s", hist, codes(evalTexts[i%len(evalTexts)]))
		g.Count("ei interpreter-level history (api " + api + ")")
	}
}
