package main

// Channel pkg (C18): dot-path access into packages and hashes, from outside and inside.
//
//	pkg seq <item>*          item := def DECL | STEP
//	DECL  := v NAME INT | g NAME TARGET | s NAME TARGET
//	       | p NAME PKGNAME N DECL^N | h NAME N ENTRY^N
//	ENTRY := v KEY INT | h KEY N ENTRY^N | r KEY NAME        (r: the value of plain symbol NAME)
//	STEP  := opnd PATH | call0 PATH | call1 PATH INT | arg PATH | rhs NAME PATH | rhsi NAME PATH
//	       | seti PATH INT | setp PATH INT | set PATH INT | setrhs PATH PATH
//
// One fresh interpreter per line; the items are evaluated in order at top level (outside
// every package). Answer: one result per STEP joined by `;`:  ok <value> | err <class>.
//   v      (def NAME INT)                 g  (defn NAME [] TARGET)      s  (defn NAME [zzv] (set TARGET zzv))
//   p      (def NAME (package "PKGNAME" DECL…))                       h  (def NAME (hash KEY:… …))
//   opnd   (+ PATH 0)      call0 (PATH)      call1 (PATH INT)     arg (zzid PATH)
//   rhs    (def NAME PATH) then (zzid NAME)  rhsi  {NAME = PATH} then (zzid NAME)
//   seti   {PATH = INT}    setp  (= PATH INT)    set (set PATH INT)    setrhs {PATH = PATH2}
//	pkg upper <codepoint>    -> t | f      unicode.IsUpper (cross-check of the generated table)
//	pkg raw <program text>   -> printed value or error (exploration / replays; no model answer)

import (
	"fmt"
	"strconv"
	"strings"
	"unicode"

	"github.com/glycerine/zygomys/v9/zygo"
)

func pkgClassify(err error) string {
	m := err.Error()
	switch {
	case strings.Contains(m, "Cannot access private member"):
		return "err private"
	case strings.Contains(m, "could not find symbol") || strings.Contains(m, "not found") || strings.Contains(m, "has no field"):
		return "err notfound"
	case strings.Contains(m, "not a record"):
		return "err notrecord"
	}
	return "err other"
}

func pkgRaw(toks []string) string {
	env := zygo.NewZlisp()
	env.StandardSetup()
	res, err := env.EvalString(strings.Join(toks, " "))
	if err != nil {
		return pkgClassify(err) + " :: " + strings.ReplaceAll(err.Error(), "\n", " ")
	}
	return "ok " + strings.ReplaceAll(res.SexpString(nil), "\n", " ")
}

func pkgShow(s zygo.Sexp) string {
	switch x := s.(type) {
	case *zygo.SexpInt:
		return "i" + strconv.FormatInt(x.Val, 10)
	case *zygo.SexpFunction:
		return "fn:" + zygo.VerifFuncName(x)
	case *zygo.Stack:
		return "pkg:" + x.PackageName
	case *zygo.SexpHash:
		var ks []string
		for _, k := range x.KeyOrder {
			ks = append(ks, k.SexpString(nil))
		}
		return "hash:" + strings.Join(ks, ",")
	}
	return fmt.Sprintf("other:%T", s)
}

type pkgParser struct {
	toks []string
	pos  int
	bad  bool
}

func (p *pkgParser) next() string {
	if p.pos >= len(p.toks) {
		p.bad = true
		return ""
	}
	t := p.toks[p.pos]
	p.pos++
	return t
}

func (p *pkgParser) num() int {
	n, err := strconv.Atoi(p.next())
	if err != nil || n < 0 {
		p.bad = true
		return 0
	}
	return n
}

func (p *pkgParser) int() string {
	t := p.next()
	if _, err := strconv.ParseInt(t, 10, 64); err != nil {
		p.bad = true
	}
	return t
}

func (p *pkgParser) entries(n int) string {
	var b strings.Builder
	b.WriteString("(hash")
	for i := 0; i < n && !p.bad; i++ {
		switch p.next() {
		case "v":
			k := p.next()
			b.WriteString(" " + k + ":" + p.int())
		case "r":
			k := p.next()
			b.WriteString(" " + k + ":" + p.next())
		case "h":
			k := p.next()
			b.WriteString(" " + k + ":" + p.entries(p.num()))
		default:
			p.bad = true
		}
	}
	b.WriteString(")")
	return b.String()
}

func (p *pkgParser) decl() string {
	switch p.next() {
	case "v":
		n := p.next()
		return "(def " + n + " " + p.int() + ")"
	case "g":
		n := p.next()
		return "(defn " + n + " [] " + p.next() + ")"
	case "s":
		n := p.next()
		return "(defn " + n + " [zzv] (set " + p.next() + " zzv))"
	case "p":
		n, pn, c := p.next(), p.next(), p.num()
		var b strings.Builder
		b.WriteString("(def " + n + " (package \"" + pn + "\"")
		for i := 0; i < c && !p.bad; i++ {
			b.WriteString(" " + p.decl())
		}
		b.WriteString("))")
		return b.String()
	case "h":
		n := p.next()
		return "(def " + n + " " + p.entries(p.num()) + ")"
	}
	p.bad = true
	return ""
}

func pkgSeq(toks []string) string {
	env := zygo.NewZlisp()
	env.StandardSetup()
	if _, err := env.EvalString("(defn zzid [zza] zza)"); err != nil {
		return "setup-failed"
	}
	ev := func(src string) (string, bool) {
		res, err := env.EvalString(src)
		if err != nil {
			env.Clear()
			return pkgClassify(err), false
		}
		return "ok " + pkgShow(res), true
	}
	p := &pkgParser{toks: toks}
	var out []string
	for p.pos < len(p.toks) {
		kw := p.next()
		switch kw {
		case "def":
			src := p.decl()
			if p.bad {
				return "bad-op"
			}
			if _, ok := ev(src); !ok {
				return "decl-failed " + src
			}
		case "opnd":
			r, _ := ev("(+ " + p.next() + " 0)")
			out = append(out, r)
		case "call0":
			r, _ := ev("(" + p.next() + ")")
			out = append(out, r)
		case "call1":
			pa := p.next()
			r, _ := ev("(" + pa + " " + p.int() + ")")
			out = append(out, r)
		case "arg":
			r, _ := ev("(zzid " + p.next() + ")")
			out = append(out, r)
		case "rhs", "rhsi":
			nm, pa := p.next(), p.next()
			src := "(def " + nm + " " + pa + ")"
			if kw == "rhsi" {
				src = "{" + nm + " = " + pa + "}"
			}
			r, ok := ev(src)
			if ok {
				r, _ = ev("(zzid " + nm + ")")
			}
			out = append(out, r)
		case "seti":
			pa := p.next()
			r, _ := ev("{" + pa + " = " + p.int() + "}")
			out = append(out, r)
		case "setp":
			pa := p.next()
			r, _ := ev("(= " + pa + " " + p.int() + ")")
			out = append(out, r)
		case "set":
			pa := p.next()
			r, _ := ev("(set " + pa + " " + p.int() + ")")
			out = append(out, r)
		case "setrhs":
			pa := p.next()
			r, ok := ev("{" + pa + " = " + p.next() + "}")
			if ok {
				r = "ok set" // the value of the expression is the unresolved right-hand symbol
			}
			out = append(out, r)
		default:
			return "bad-op"
		}
		if p.bad {
			return "bad-op"
		}
	}
	return strings.Join(out, ";")
}

func pkgExec(toks []string) string {
	if len(toks) == 0 {
		return "bad-op"
	}
	switch toks[0] {
	case "raw":
		return pkgRaw(toks[1:])
	case "seq":
		return pkgSeq(toks[1:])
	case "upper":
		if len(toks) != 2 {
			return "bad-op"
		}
		n, err := strconv.Atoi(toks[1])
		if err != nil {
			return "bad-op"
		}
		if unicode.IsUpper(rune(n)) {
			return "t"
		}
		return "f"
	}
	return "bad-op"
}

func init() { channels["pkg"] = &Channel{Gen: pkgGen, Exec: pkgExec} }
