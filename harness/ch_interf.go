package main

// Channel interf (C20): "… independent of how many interpreters were created earlier in the
// process" — interference histories.
//
//   interf <P> <S1> <S2> …        (all dot-coded byte strings)
//
// Exec runs, each in a FRESH process:
//   base   : a fresh interpreter evaluates program P                     (the specification:
//            what P means when nothing happened before)
//   after  : for every snippet Si a fresh interpreter A_i evaluates Si (errors, panics and
//            output of the A_i are ignored; every other A_i is closed, the rest are left
//            open), THEN a fresh interpreter B evaluates P
// and compares the two outcomes of P (value, stdout, error text, run-time symbol numbers —
// the same outcome string as channel det). Answer:
//   same
//   interferes <k> <culprit snippets…> <outcome-base-window> <outcome-after-window>
// On a difference the snippet list is minimised by bisection (fresh process per probe).
//
// Gen: the snippets are drawn from EVERY name a script can call — the keys of
// zygo.AllBuiltinFunctions() and every symbol interned by StandardSetup (macros, special
// forms, imported packages) — each applied to a battery of argument shapes (nothing, true,
// false, numbers, a string, a symbol, a hash): whatever per-interpreter setting a builtin
// toggles is toggled. Further histories run whole programs (struct / package / macro /
// infix declarations, the det generators) in the earlier interpreters. P is drawn from a
// battery of observation programs that print every kind of value, encode/decode, read symbol
// numbers, list types, provoke error texts.

import (
	"bytes"
	"fmt"
	"io"
	"os"
	"os/exec"
	"regexp"
	"sort"
	"strconv"
	"strings"
	"sync"
	"time"

	"github.com/glycerine/zygomys/v9/zygo"
)

const interfMark = "\x00<<interf-result>>\x00"

// names that must not be called by a snippet: they end the process, block on input, start
// goroutines / processes, or touch the file system and the OS environment (explicit outside
// state, not interpreter state)
var interfExcludeRe = regexp.MustCompile(`^(exit|system|sleep|readline|input|stop|setenv|writef|owritef|save|bsave|bload|greenpack|slurpf|source|req|go|chan|send|<!|!>|makeChan|_closdump|dump|togob|gob|bg|sys|include|import|randomSeed|seed)$`)

// interfCallable lists every name a script could call: builtins + everything StandardSetup interns.
func interfCallable() []string {
	detProcessSetup()
	seen := map[string]bool{}
	var names []string
	add := func(n string) {
		if n == "" || seen[n] || interfExcludeRe.MatchString(n) || strings.ContainsAny(n, " \t\n\"()[]{};'`~") {
			return
		}
		seen[n] = true
		names = append(names, n)
	}
	for k := range zygo.AllBuiltinFunctions() {
		add(k)
	}
	env := detFreshEnv()
	for _, e := range zygo.VerifSymTable(env) {
		add(e.Name)
	}
	env.Close()
	sort.Strings(names)
	return names
}

var interfArgShapes = []string{"", " true", " false", " 1", " 0", ` "s"`, " (quote a)", " true true", " (hash a:1)", " [1 2]", " 2 true"}

// interfSettingCalls: every callable name applied to every argument shape (flat list).
// interfSweep: one snippet per callable name; its lines (one call each) are evaluated one
// after the other in the same earlier interpreter (cleared after an error, as the REPL does).
var interfCallsOnce sync.Once
var interfCalls, interfSweepSnips []string

func interfSettingCalls() []string {
	interfCallsOnce.Do(func() {
		for _, n := range interfCallable() {
			var lines []string
			for _, a := range interfArgShapes {
				interfCalls = append(interfCalls, "("+n+a+")")
				lines = append(lines, "("+n+a+")")
			}
			interfSweepSnips = append(interfSweepSnips, strings.Join(lines, "\n"))
		}
	})
	return interfCalls
}

func interfSweep() []string {
	interfSettingCalls()
	return interfSweepSnips
}

// interfSweepRotated: the same sweep with the argument shapes of every name rotated by r and,
// for odd r, reversed: all the calls of one name run in ONE earlier interpreter, so for a
// setting the LAST successful call wins — every shape gets to be last in some variant.
func interfSweepRotated(r int) []string {
	n := len(interfArgShapes)
	var out []string
	for _, name := range interfCallable() {
		var lines []string
		for i := 0; i < n; i++ {
			k := (i + r) % n
			if r%2 == 1 {
				k = (n - 1 - i + r) % n
			}
			lines = append(lines, "("+name+interfArgShapes[k]+")")
		}
		out = append(out, strings.Join(lines, "\n"))
	}
	return out
}

// interfBattery: observation programs (deterministic, no random/time/pointers).
func interfBattery() []string {
	return append(interfGeneralBattery(), interfRegistryBattery()...)
}

// interfRegistryBattery: programs that look at the process-wide type registry itself.
func interfRegistryBattery() []string {
	return []string{
		`(str (typelist))`,
		`(str (unjson (raw "{\"Atype\":\"Car\", \"Wheels\":\"x\"}")))`,
	}
}

// interfFinalMark separates the declarations of a battery program from its final form (two
// spaces + the form): the merged quick-tier program prints each final form instead.
const interfFinalMark = "  (list "

// the battery programs whose last form fails on purpose (error texts)
var interfEndsInError = map[string]bool{}

func interfGeneralBattery() []string {
	b := interfGeneralBattery0()
	for _, p := range b[len(b)-4:] {
		interfEndsInError[p] = true
	}
	return b
}

func interfGeneralBattery0() []string {
	return []string{
		// printers: every kind of value, nested, through str / printf / println
		`(def h (hash a:1 b:[1 2 3] c:(hash d:"x" e:2.5) f:nil g:true)) (def arr [10 20 [30 40] "s" 1.5 'c' (quote sym)]) (println h) (println arr) (printf "%v|%v\n" (str h) (str arr))  (list (str h) (str arr) (str (list 1 2 (quote (3 4)))) (str 1.0) (str 1e21) (str "q") (str (quote a.b)))`,
		// encoders and decoders
		`(def h (hash a:1 b:[1 2 3] c:(hash d:"x")))  (list (raw2str (json h)) (str (unjson (json h))) (str (unmsgpack (msgpack h))) (str (unjson (raw "{\"zqa\":1, \"zqb\":{\"zqc\":[1,2]}}"))))`,
		// symbols: numbers of names first seen now, order comparisons, gensym
		`(def zzq 1)  (list (symnum (quote zzq)) (symnum (quote car)) (symnum (str2sym "zqlate")) (< (quote car) (quote cdr)) (gensym) (gensym "p") (str (gensym)))`,
		// records, the type registry, methods
		`(def s (snoopy cry:"yo" pack:[1 2] chld:(hellcat speed:5))) (def o (vouter tag:"t" in:(vinner x:7 s:"q"))) (togo o)  (list (str s) (raw2str (json s)) (str (_method o Self:)) (defined? (quote snoopy)) (defined? (quote Car)) (defined? (quote zqtype)))`,
		// declarations in THIS interpreter
		`(struct Car [(field Wheels: int64) (field Name: string)]) (def c (Car Wheels:4 Name:"b")) (def pk (package "pk" { A := 1; b := 2 })) (defmac twice [x] ^(begin ~x ~x)) (defn f [a b] (+ a b))  (list (str c) (str pk) (str f) (macexpand (twice (f 1 2))))`,
		// error texts and infix
		`(def r (list {1 + 2 * 3} {a := 4} {a ** 2})) (println r) (hget (hash a:1) (quote nosuch))`,
		`(println (str [1 2 (hash k:"v")])) (aget [1 2] 7)`,
		`(printf "%v %v %v\n" 1 "a" (str (hash q:[1 (hash w:2)]))) (+ 1 "a")`,
		`(togo (snoopy nosuchfield:1))`,
	}
}

// interfPrograms: whole programs for the earlier interpreters.
func interfPrograms(g *Gen) []string {
	ps := []string{
		`(struct Car [(field Wheels: int64) (field Name: string)]) (def c (Car Wheels:4 Name:"b")) (str c)`,
		`(struct zqtype [(field X: int64)]) (def c (zqtype X:1)) (json c)`,
		`(def pk (package "pk" { A := 1; b := 2 })) (def pk2 (package "pk2" { B := pk.A }))`,
		`(defmac twice [x] ^(begin ~x ~x)) (defn f [a b] (+ a b)) (defn car [x] 99) (def cdr 1)`,
		`(infix "+" 99) (infix "zqop" 30) (def snoopy 1) (def hash 2) (def str 3)`,
		`(def h (zqrecord a:1 b:2)) (str h) (togo (snoopy cry:"x")) (def hellcat 5)`,
		`(def o (vouter tag:"t" in:(vinner x:7 s:"q"))) (togo o) (_method o Self:) (hset o tag: "changed")`,
		`(def x (arrayOf int64 3)) (def y (sliceOf string)) (def p (& x)) (def z (unjson (raw "{\"zqa\":1, \"car\":2, \"Atype\":\"zqdecoded\"}")))`,
		`(gensym) (gensym) (gensym "p") (str2sym "zqlate") (str2sym "zzq") (for [(def i 0) (< i 50) (def i (+ i 1))] (gensym))`,
	}
	for _, kp := range detGenerated(g, 12) {
		ps = append(ps, kp[1])
	}
	for _, kp := range detDecodePrograms(g, 6) {
		ps = append(ps, kp[1])
	}
	return ps
}

// ---- child: `zyh interfchild <file>`; the file holds dot-coded lines: P, then the snippets.

func interfRunSnippet(i int, snip string) {
	done := make(chan struct{})
	go func() {
		defer close(done)
		defer func() { recover() }()
		env := detFreshEnv()
		// a snippet of several lines = several evaluations in the same interpreter
		for _, line := range strings.Split(snip, "\n") {
			func() {
				defer func() {
					if r := recover(); r != nil {
						env.Clear()
					}
				}()
				if _, err := env.EvalString(line + "\n"); err != nil {
					env.Clear()
				}
			}()
		}
		// every other earlier interpreter is closed, the rest stay open (closed on the goroutine
		// that created it: the parser is a coroutine tied to its creator)
		if i%2 == 0 {
			func() {
				defer func() { recover() }()
				env.Close()
			}()
		}
	}()
	select {
	case <-done:
	case <-time.After(5 * time.Second):
		// abandoned: the goroutine keeps its interpreter
	}
}

func interfChildMain(args []string) {
	if len(args) < 1 {
		os.Exit(2)
	}
	data, err := os.ReadFile(args[0])
	if err != nil {
		os.Exit(2)
	}
	lines := strings.Split(strings.TrimRight(string(data), "\n"), "\n")
	real := os.Stdout
	detProcessSetup()
	prog, _ := codesToBytes(lines[0])
	if len(lines) > 1 {
		devnull, _ := os.OpenFile(os.DevNull, os.O_WRONLY, 0)
		os.Stdout = devnull
		for i, l := range lines[1:] {
			b, ok := codesToBytes(l)
			if !ok {
				continue
			}
			interfRunSnippet(i, string(b))
		}
		os.Stdout = real
	}
	out, _ := detRunOnce(string(prog))
	real.WriteString(interfMark + out)
}

func init() {
	if len(os.Args) > 1 && os.Args[1] == "interfchild" {
		interfChildMain(os.Args[2:])
		os.Exit(0)
	}
}

func interfSpawn(prog string, snippets []string) string {
	self, err := os.Executable()
	if err != nil {
		return "HARNESS no executable path"
	}
	f, err := os.CreateTemp("", "zyh-interf-*")
	if err != nil {
		return "HARNESS " + err.Error()
	}
	defer os.Remove(f.Name())
	var sb strings.Builder
	sb.WriteString(bytesToCodes([]byte(prog)) + "\n")
	for _, s := range snippets {
		sb.WriteString(bytesToCodes([]byte(s)) + "\n")
	}
	f.WriteString(sb.String())
	f.Close()
	var ob bytes.Buffer
	for attempt := 0; attempt < 2; attempt++ {
		ob.Reset()
		cmd := exec.Command(self, "interfchild", f.Name())
		cmd.Stdin = nil
		cmd.Stdout = &ob
		cmd.Stderr = io.Discard
		tm := time.AfterFunc(600*time.Second, func() { cmd.Process.Kill() })
		err = cmd.Run()
		tm.Stop()
		if err == nil {
			break
		}
	}
	s := ob.String()
	k := strings.LastIndex(s, interfMark)
	if err != nil || k < 0 {
		return "CHILD-FAILED " + fmt.Sprint(err) + " " + s
	}
	return s[k+len(interfMark):]
}

// interfMinimise: smallest snippet sublist (found by bisection) after which P still differs from base.
func interfMinimise(prog string, snippets []string, base string) []string {
	cur := snippets
	for len(cur) > 1 {
		mid := len(cur) / 2
		a, b := cur[:mid], cur[mid:]
		if interfSpawn(prog, a) != base {
			cur = a
		} else if interfSpawn(prog, b) != base {
			cur = b
		} else {
			break // needs snippets from both halves
		}
	}
	// a snippet of several lines: which lines are needed?
	if len(cur) == 1 && strings.Contains(cur[0], "\n") {
		lines := strings.Split(cur[0], "\n")
		for len(lines) > 1 {
			mid := len(lines) / 2
			a, b := lines[:mid], lines[mid:]
			if interfSpawn(prog, []string{strings.Join(a, "\n")}) != base {
				lines = a
			} else if interfSpawn(prog, []string{strings.Join(b, "\n")}) != base {
				lines = b
			} else {
				break
			}
		}
		cur = []string{strings.Join(lines, "\n")}
	}
	return cur
}

func interfExec(toks []string) string {
	if len(toks) < 1 {
		return "bad-op"
	}
	pb, ok := codesToBytes(toks[0])
	if !ok {
		return "bad-op"
	}
	var snippets []string
	for _, t := range toks[1:] {
		b, ok := codesToBytes(t)
		if !ok {
			return "bad-op"
		}
		snippets = append(snippets, string(b))
	}
	prog := string(pb)
	base := interfSpawn(prog, nil)
	after := interfSpawn(prog, snippets)
	if lf := os.Getenv("ZYH_DET_LOG"); lf != "" {
		if f, err := os.OpenFile(lf, os.O_APPEND|os.O_CREATE|os.O_WRONLY, 0o644); err == nil {
			fmt.Fprintf(f, "interf %d\n", 2+len(snippets))
			f.Close()
		}
	}
	if base == after {
		return "same"
	}
	cul := interfMinimise(prog, snippets, base)
	after = interfSpawn(prog, cul)
	if after == base { // not reproducible with the minimised list alone
		cul = snippets
		after = interfSpawn(prog, cul)
		if after == base {
			return "interferes-unstable 0 - -"
		}
	}
	var cs []string
	for _, c := range cul {
		cs = append(cs, bytesToCodes([]byte(c)))
	}
	a, b := diffWindow(base, after)
	return fmt.Sprintf("interferes %d %s %s %s", len(cul), strings.Join(cs, " "), bytesToCodes([]byte(a)), bytesToCodes([]byte(b)))
}

func interfGen(g *Gen) {
	calls := interfSettingCalls()
	sweep := interfSweep()
	battery := interfBattery()
	emit := func(kind, p string, snippets []string) {
		var cs []string
		for _, s := range snippets {
			if strings.ContainsAny(s, "\x00") {
				continue
			}
			cs = append(cs, bytesToCodes([]byte(s)))
		}
		g.Count("history " + kind)
		g.Stats["snippets run in earlier interpreters"] += len(cs)
		g.Emit("%s %s", bytesToCodes([]byte(p)), strings.Join(cs, " "))
	}
	g.Stats["callable names x argument shapes"] = len(calls)
	// every callable name x every argument shape, before every battery program
	// quick: one history holds the whole sweep; thorough: also in quarters and with every
	// call in an interpreter of its own
	nchunk := 1
	if g.Thorough() {
		nchunk = 4
		for _, p := range battery {
			emit("all-builtins-x-argument-shapes-one-interpreter-per-call", p, calls)
		}
	}
	// quick: the battery programs that end without an error are evaluated as ONE program after
	// the sweep (a later part still sees what the history did to the process)
	sweepPs := battery
	if !g.Thorough() {
		var merged []string
		sweepPs = nil
		for _, p := range interfGeneralBattery() {
			if interfEndsInError[p] {
				sweepPs = append(sweepPs, p)
			} else {
				// all forms stay at top level (package / struct declarations need that); the
				// value of each part is printed
				k := strings.Index(p, interfFinalMark)
				merged = append(merged, p[:k]+" (println (list "+p[k+len(interfFinalMark):]+")")
			}
		}
		sweepPs = append([]string{strings.Join(merged, " ")}, sweepPs...)
		sweepPs = append(sweepPs, interfRegistryBattery()...)
	}
	for i, p := range sweepPs {
		sw := sweep
		if !g.Thorough() {
			sw = interfSweepRotated(i)
		}
		for c := 0; c < nchunk; c++ {
			lo, hi := c*len(sw)/nchunk, (c+1)*len(sw)/nchunk
			emit("all-builtins-x-argument-shapes", p, sw[lo:hi])
		}
	}
	if !g.Thorough() {
		// the widest observer once more after the sweep in the opposite order (what was set last
		// is now set first) and in two further rotations
		for _, r := range []int{1, 4, 7} {
			emit("all-builtins-x-argument-shapes", sweepPs[0], interfSweepRotated(r))
		}
	}
	// whole programs in the earlier interpreters
	progs := interfPrograms(g)
	for _, p := range battery {
		emit("declaration-programs", p, progs)
	}
	// the battery programs themselves as history of each other, and random mixes
	nmix := 4
	if g.Thorough() {
		nmix = 40
	}
	for i := 0; i < nmix; i++ {
		var hist []string
		for j := 0; j < 20; j++ {
			switch g.Rng.Intn(3) {
			case 0:
				hist = append(hist, calls[g.Rng.Intn(len(calls))])
			case 1:
				hist = append(hist, progs[g.Rng.Intn(len(progs))])
			case 2:
				hist = append(hist, battery[g.Rng.Intn(len(battery))])
				g.Count("random-mix history element: battery program")
			}
		}
		general := interfGeneralBattery()
		p := general[g.Rng.Intn(len(general))]
		if g.Rng.Intn(2) == 0 {
			// programs that list the process-wide type registry are used with the structured
			// histories only (interfRegistryBattery: there the first culprit is the same on every
			// run, which the known findings are keyed by)
			if q := progs[g.Rng.Intn(len(progs))]; !strings.Contains(q, "typelist") {
				p = q
			}
		}
		emit("random-mix", p, hist)
	}
	_ = strconv.Itoa
}

func init() {
	channels["interf"] = &Channel{Gen: interfGen, Exec: interfExec}
}
