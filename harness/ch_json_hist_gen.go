package main

// Generator of the `hist` ops of channel json (C11): histories of 2–6 encode/decode steps
// (plus the observation steps st / mu / md / ad / sh / zb between and after them).
// What is varied on purpose: the ORDER of the steps (all results are kept and decoded
// later, in another order), the relative SIZE of successive encodings (a later one shorter,
// equal or longer than an earlier one), the format of successive encodings (json after
// msgpack, …), the level (script builtins vs. the exported Go functions), the interpreter
// (one, or two interleaved), and which decoded results are mutated before the others are
// looked at again.

import (
	"fmt"
	"strconv"
	"strings"
	"unicode/utf8"
)

// skips one value; false when the value is outside the round-trip domain of the property
// (JsonData.inRtDom: strings and type names valid UTF-8, ints within int64, finite floats,
// hashes under pairwise distinct symbol keys other than Atype / zKeyOrder, no bare symbol, char,
// uint64 or list) or the tokens are not a value
func histTokValid(toks []string) ([]string, bool) {
	if len(toks) == 0 {
		return nil, false
	}
	t, r := toks[0], toks[1:]
	utf8ok := func(s string) bool {
		b, ok := decBytes(s)
		return ok && utf8.Valid(b)
	}
	switch t {
	case "n", "t", "f":
		return r, true
	case "i", "u", "c":
		if len(r) < 1 {
			return nil, false
		}
		_, err := strconv.ParseInt(r[0], 10, 64)
		return r[1:], t == "i" && err == nil
	case "d", "e":
		if len(r) < 3 {
			return nil, false
		}
		bits, err := strconv.ParseUint(r[0], 16, 64)
		return r[3:], err == nil && bits>>52&0x7ff != 0x7ff // finite
	case "s", "b", "y":
		if len(r) < 1 || !utf8ok(r[0]) {
			return nil, false
		}
		return r[1:], t != "y"
	case "a", "l", "h":
		n := 0
		if t == "h" {
			if len(r) < 2 || !utf8ok(r[0]) {
				return nil, false
			}
			r = r[1:]
		}
		if len(r) < 1 {
			return nil, false
		}
		if _, err := fmt.Sscanf(r[0], "%d", &n); err != nil {
			return nil, false
		}
		r = r[1:]
		if t == "h" {
			seen := map[string]bool{encBytes([]byte("Atype")): true, encBytes([]byte("zKeyOrder")): true}
			for i := 0; i < n; i++ {
				// key: a symbol, not a reserved name, not repeated
				if len(r) < 2 || r[0] != "y" || !utf8ok(r[1]) || seen[r[1]] {
					return nil, false
				}
				seen[r[1]] = true
				var ok bool
				if r, ok = histTokValid(r[2:]); !ok {
					return nil, false
				}
			}
			return r, true
		}
		for i := 0; i < n; i++ {
			var ok bool
			if r, ok = histTokValid(r); !ok {
				return nil, false
			}
		}
		return r, t == "a"
	}
	return nil, false
}

func (j jgen) histValue(budget int) string {
	for try := 0; try < 50; try++ {
		b := budget
		depth := 1 + j.g.Rng.Intn(4)
		if budget <= 3 {
			depth = j.g.Rng.Intn(2)
		}
		v := j.value(depth, &b, true, true)
		if rest, ok := histTokValid(strings.Fields(v)); ok && len(rest) == 0 {
			return v
		}
	}
	return "i 0"
}

func histStr(s string) string { return "s " + encBytes([]byte(s)) }
func histSym(s string) string { return "y " + encBytes([]byte(s)) }

// values of clearly different encoded sizes; ranchA / ranchB encode to the same length
func histPool() []string {
	ranch := func(a, b string, cows int, open string, ratio float64) string {
		return fmt.Sprintf("h %s 5 %s %s %s %s %s i %d %s %s %s %s", encBytes([]byte("ranch")),
			histSym("cowboy"), histStr(a), histSym("cowgirl"), histStr(b), histSym("cows"), cows, histSym("open"), open, histSym("ratio"), jsonFloatTok(ratio, false))
	}
	long := strings.Repeat("café \"q\" \\ \t\U0001F600 ", 4)
	var arr []string
	for i := 0; i < 12; i++ {
		arr = append(arr, fmt.Sprintf("i %d", 1000*i), histStr(fmt.Sprintf("item-%d", i)))
	}
	return []string{
		"i 7",
		histStr("ab"),
		histStr(long),
		"a 3 i 1 " + jsonFloatTok(2.5, false) + " " + histStr("x"),
		fmt.Sprintf("a %d %s", len(arr), strings.Join(arr, " ")),
		ranch("Jim", "Jane", 3, "t", 2.5),
		ranch("Bob", "Beth", 7, "f", 0.5),
		fmt.Sprintf("h %s 2 %s h %s 2 %s a 2 i 1 i 2 %s n %s %s", encBytes([]byte("hash")), histSym("b"), encBytes([]byte("Foo")), histSym("z"), histSym("a"), histSym("a"), histStr("é")),
		"n",
		fmt.Sprintf("h %s 0", encBytes([]byte("hash"))),
	}
}

func (j jgen) emitHist(vals []string, steps []string, class string) {
	j.g.Emit("hist %d %s %s", len(vals), strings.Join(vals, " "), strings.Join(steps, " "))
	j.g.Count("hist " + class)
}

func jsonHistGen(g *Gen) {
	j := jgen{g}
	pool := histPool()
	enc := func(level byte, f byte, ip, i int) string {
		if level == 'g' {
			return fmt.Sprintf("g%c %d", f, i)
		}
		return fmt.Sprintf("e%c %d %d", f, ip, i)
	}
	// --- grid 1: every ordered pair of pool values x formats, one interpreter, script level:
	//     encode a, encode b, then decode a, decode b
	for a := range pool {
		for b := range pool {
			for _, ff := range []string{"jj", "mm", "jm", "mj"} {
				j.emitHist([]string{pool[a], pool[b]}, []string{enc('e', ff[0], 0, 0), enc('e', ff[1], 0, 1), "st 0", "d 0 0", "d 0 1", "st 0", "st 1"}, "grid pair, one interpreter, script level")
			}
		}
	}
	// --- grid 2: the exported Go functions (the returned slice is what the caller holds)
	for a := 0; a < len(pool); a += 1 {
		for b := 0; b < len(pool); b += 2 {
			for _, ff := range []string{"jj", "mm", "jm", "mj"} {
				j.emitHist([]string{pool[a], pool[b]}, []string{enc('g', ff[0], 0, 0), enc('g', ff[1], 0, 1), "st 0", "d 0 0", "d 0 1", "st 0", "st 1"}, "grid pair, Go API level")
			}
			j.emitHist([]string{pool[a], pool[b]}, []string{"gm 0", "em 0 1", "ej 0 1", "st 0", "d 0 0", "d 0 2", "d 0 1"}, "grid pair, Go API then script level")
		}
	}
	// --- grid 3: two interpreters of one process, interleaved
	for a := range pool {
		for b := range pool {
			for _, f := range "jm" {
				j.emitHist([]string{pool[a], pool[b]}, []string{enc('e', byte(f), 0, 0), enc('e', byte(f), 1, 1), "st 0", "d 1 0", "d 0 1", "d 0 0", "st 0", "st 1"}, "grid pair, two interpreters")
			}
		}
	}
	// --- grid 4: decode-after-decode aliasing
	for a := 3; a < len(pool); a++ {
		for _, f := range "jm" {
			e0 := enc('e', byte(f), 0, 0)
			// one slot decoded twice; one result mutated, the other looked at again
			j.emitHist([]string{pool[a]}, []string{e0, "d 0 0", "d 0 0", "mu 0", "sh 1", "ad 1", "md 1", "sh 0", "sh 1", "st 0", "d 0 0"}, "grid aliasing, one slot decoded twice")
			// the holder scribbles over its bytes after decoding
			j.emitHist([]string{pool[a]}, []string{e0, "d 0 0", "zb 0", "sh 0", "d 0 0"}, "grid aliasing, input overwritten after decode")
			j.emitHist([]string{pool[a]}, []string{enc('g', byte(f), 0, 0), "d 0 0", "d 1 0", "zb 0", "sh 0", "sh 1"}, "grid aliasing, input overwritten after decode")
			for b := 3; b < len(pool); b++ {
				// two slots (same or different record type), both decoded, keys added to both
				j.emitHist([]string{pool[a], pool[b]}, []string{e0, enc('e', byte(f), 0, 1), "d 0 0", "d 0 1", "ad 0", "ad 1", "mu 0", "md 1", "sh 0", "sh 1", "d 0 0", "sh 0"}, "grid aliasing, two decoded results")
			}
		}
	}
	// --- grid 5: the original is mutated between two encodes of it (a result cached under the
	//     identity of the value would be stale); the result kept from before must not follow
	for a := 3; a < len(pool); a++ {
		for _, f := range "jm" {
			for _, lv := range "eg" {
				e0 := enc(byte(lv), byte(f), 0, 0)
				j.emitHist([]string{pool[a]}, []string{e0, "mv 0 0", e0, "st 0", "d 0 1", "d 0 0", "mv 0 0", e0, "d 0 2"}, "grid original mutated between encodes")
			}
			j.emitHist([]string{pool[a]}, []string{enc('e', byte(f), 0, 0), enc('e', byte(f), 1, 0), "mv 1 0", enc('e', byte(f), 1, 0), enc('e', byte(f), 0, 0), "d 0 2", "d 1 3", "d 0 0", "d 1 1"}, "grid original mutated between encodes, two interpreters")
		}
	}
	// --- random histories
	n := 1500
	if g.Thorough() {
		n = 30000
	}
	for it := 0; it < n; it++ {
		nv := 2 + g.Rng.Intn(3)
		var vals []string
		for i := 0; i < nv; i++ {
			switch g.Rng.Intn(6) {
			case 0:
				vals = append(vals, pool[g.Rng.Intn(len(pool))])
			case 1, 2:
				vals = append(vals, j.histValue(3))
			case 3:
				vals = append(vals, j.histValue(10))
			default:
				vals = append(vals, j.histValue(40))
			}
		}
		twoInterp := g.Rng.Intn(3) == 0
		ip := func() int {
			if twoInterp {
				return g.Rng.Intn(2)
			}
			return 0
		}
		level := func() byte {
			if g.Rng.Intn(4) == 0 {
				return 'g'
			}
			return 'e'
		}
		fm := func() byte { return "jm"[g.Rng.Intn(2)] }
		var steps []string
		class := ""
		switch g.Rng.Intn(3) {
		case 0: // batch: encode everything, then decode everything in another order
			class = "random batch"
			f0 := fm()
			for i := 0; i < nv; i++ {
				f := f0
				if g.Rng.Intn(4) == 0 {
					f = fm()
				}
				steps = append(steps, enc(level(), f, ip(), i))
			}
			if g.Rng.Intn(2) == 0 {
				steps = append(steps, fmt.Sprintf("st %d", g.Rng.Intn(nv)))
			}
			nslots := nv
			if g.Rng.Intn(4) == 0 {
				// an original is mutated and encoded once more
				i, p := g.Rng.Intn(nv), ip()
				steps = append(steps, fmt.Sprintf("mv %d %d", p, i), enc(level(), f0, p, i))
				nslots++
				class = "random batch with a mutated original"
			}
			for _, s := range g.Rng.Perm(nslots) {
				steps = append(steps, fmt.Sprintf("d %d %d", ip(), s))
			}
			steps = append(steps, fmt.Sprintf("st %d", g.Rng.Intn(nv)))
		case 1: // interleaved walk
			class = "random interleaved"
			slots, total := 0, 2+g.Rng.Intn(5)
			for k := 0; k < total; k++ {
				if slots == 0 || (slots < 4 && g.Rng.Intn(2) == 0) {
					steps = append(steps, enc(level(), fm(), ip(), g.Rng.Intn(nv)))
					slots++
				} else {
					steps = append(steps, fmt.Sprintf("d %d %d", ip(), g.Rng.Intn(slots)))
				}
				if g.Rng.Intn(5) == 0 {
					steps = append(steps, fmt.Sprintf("st %d", g.Rng.Intn(slots)))
				}
				if g.Rng.Intn(6) == 0 {
					steps = append(steps, fmt.Sprintf("mv %d %d", ip(), g.Rng.Intn(nv)))
				}
			}
			// every result is read at least once at the end, oldest last
			for s := slots - 1; s >= 0; s-- {
				steps = append(steps, fmt.Sprintf("d %d %d", ip(), s))
			}
		default: // aliasing between decoded results and with the input
			class = "random aliasing"
			slots := 1 + g.Rng.Intn(2)
			f := fm()
			for s := 0; s < slots; s++ {
				steps = append(steps, enc(level(), f, ip(), g.Rng.Intn(nv)))
			}
			res := 2 + g.Rng.Intn(2)
			for r := 0; r < res; r++ {
				steps = append(steps, fmt.Sprintf("d %d %d", ip(), g.Rng.Intn(slots)))
			}
			for k := 1 + g.Rng.Intn(4); k > 0; k-- {
				switch g.Rng.Intn(5) {
				case 0:
					steps = append(steps, fmt.Sprintf("zb %d", g.Rng.Intn(slots)))
				default:
					steps = append(steps, fmt.Sprintf("%s %d", []string{"mu", "md", "ad"}[g.Rng.Intn(3)], g.Rng.Intn(res)))
				}
			}
			for r := 0; r < res; r++ {
				steps = append(steps, fmt.Sprintf("sh %d", r))
			}
			if g.Rng.Intn(2) == 0 {
				steps = append(steps, fmt.Sprintf("d %d %d", ip(), g.Rng.Intn(slots)))
			}
		}
		if twoInterp {
			class += ", two interpreters"
		}
		j.emitHist(vals, steps, class)
	}
}
