package zygo

// Accessors for channel `json` (C11), injected by `go build -overlay`.

// VerifBacktickStr builds the value the parser makes for a raw string literal `s`.
func VerifBacktickStr(s string) *SexpStr { return &SexpStr{S: s, backtick: true} }

// VerifSymName reads a symbol's name.
func VerifSymName(s *SexpSymbol) string { return s.name }
