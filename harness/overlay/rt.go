//go:build verif

package zygo

// Accessors for channel `rt` (C12), injected by `go build -overlay`. Read-only.

// VerifIsBacktick: the string was (or prints as) a raw back-tick literal.
func VerifIsBacktick(s *SexpStr) bool { return s.backtick }
