package zygo

// VerifSortedSlices exposes makeSortedSlicesFromMap (read-only observation, C20).
func VerifSortedSlices(m map[string]interface{}) ([]string, []interface{}) {
	return makeSortedSlicesFromMap(m)
}
