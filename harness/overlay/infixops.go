package zygo

import "fmt"

// VerifInfixOps lists the live operator table (read-only): "name:bp:hasNud:hasLed:isAssign".
// The array operator, which is not in the map, is listed as "[]".
func VerifInfixOps(env *Zlisp) []string {
	b := func(v bool) int {
		if v {
			return 1
		}
		return 0
	}
	var out []string
	for name, op := range env.infixOps {
		out = append(out, fmt.Sprintf("%s:%d:%d:%d", name, op.Bp, b(op.MunchRight != nil), b(op.MunchLeft != nil)))
	}
	if arrayOp != nil {
		out = append(out, fmt.Sprintf("[]:%d:%d:%d", arrayOp.Bp, b(arrayOp.MunchRight != nil), b(arrayOp.MunchLeft != nil)))
	}
	return out
}
