package zygo

// Read-only accessor injected by `go build -overlay` (never part of /repo): a structured
// listing of the code loaded into the main function, for the instructions syntax-quote
// templates compile to (C15). Anything else is reported by its InstrString.

type VerifInstr struct {
	Kind string // push | marker | get | explode | squash | vectorize | hashize | other
	Expr Sexp   // push: the operand
	Name string // get: the symbol; hashize: the type name; other: InstrString()
}

func (env *Zlisp) VerifMainListing() []VerifInstr {
	var out []VerifInstr
	for _, in := range env.mainfunc.fun {
		switch t := in.(type) {
		case PushInstr:
			if t.expr == SexpMarker {
				out = append(out, VerifInstr{Kind: "marker"})
			} else {
				out = append(out, VerifInstr{Kind: "push", Expr: t.expr})
			}
		case EnvToStackInstr:
			out = append(out, VerifInstr{Kind: "get", Name: t.sym.name})
		case ExplodeInstr:
			out = append(out, VerifInstr{Kind: "explode"})
		case SquashInstr:
			out = append(out, VerifInstr{Kind: "squash"})
		case VectorizeInstr:
			out = append(out, VerifInstr{Kind: "vectorize"})
		case HashizeInstr:
			out = append(out, VerifInstr{Kind: "hashize", Name: t.TypeName})
		default:
			out = append(out, VerifInstr{Kind: "other", Name: in.InstrString()})
		}
	}
	return out
}
