//go:build verif

package zygo

// In-package observation for channel `crash` (C01), injected by `go build -overlay`
// (never part of /repo). Read-only accessors plus VerifReplLines, which drives the REAL
// line reader of the REPL (Prompter.getExpressionWithLiner) over a text and then does what
// the body of Repl's loop does with every line that was read.

import (
	"bufio"
	"fmt"
	"io"
	"sort"
	"strconv"
	"strings"
)

// VerifBoundNames: names bound in the global scope, names of macros, and which of the
// globals are builders (receive unevaluated arguments).
func (env *Zlisp) VerifBoundNames() (globals, macros, builders []string) {
	if env.linearstack.Size() > 0 {
		if sc, ok := env.linearstack.elements[0].(*Scope); ok && sc != nil {
			for num, v := range sc.Map {
				name := env.revsymtable[num]
				globals = append(globals, name)
				if f, isF := v.(*SexpFunction); isF && f != nil && f.isBuilder {
					builders = append(builders, name)
				}
			}
		}
	}
	for num := range env.macros {
		macros = append(macros, env.revsymtable[num])
	}
	sort.Strings(globals)
	sort.Strings(macros)
	sort.Strings(builders)
	return
}

// VerifReplLines feeds `text` (lines separated by \n) to the REPL's line reader and
// evaluates every complete input the way the loop of Repl does (non-command lines;
// sandboxed = true skips the dot-commands exactly as Repl does, and this function never
// runs them at all). Returns the number of inputs evaluated, the number that ended in an
// error, and the last printed value. Panics are NOT recovered here: the caller observes them.
func (env *Zlisp) VerifReplLines(text string) (inputs, errors int, last string) {
	reader := bufio.NewReader(strings.NewReader(text))
	pr := &Prompter{prompt: ""}
	infixSym := env.MakeSymbol("infix")
	for {
		line, exprsInput, err := pr.getExpressionWithLiner(env, reader, true)
		if err != nil {
			if err == io.EOF {
				return
			}
			errors++
			env.Clear()
			continue
		}
		inputs++
		var expr Sexp
		n := len(exprsInput)
		if n > 0 {
			infixWrappedSexp := MakeList([]Sexp{infixSym, &SexpArray{Val: exprsInput, Env: env}})
			expr, err = env.EvalExpressions([]Sexp{infixWrappedSexp})
		} else {
			if line == "" || strings.TrimSpace(line) == "" {
				env.Clear()
				continue
			}
			line = env.ReplLineInfixWrap(line)
			expr, err = env.EvalString(line + " ")
		}
		switch err {
		case nil:
		case NoExpressionsFound:
			env.Clear()
			continue
		default:
			_ = env.GetStackTrace(err)
			errors++
			env.Clear()
			continue
		}
		if expr != SexpNull {
			switch e := expr.(type) {
			case *SexpStr:
				if e.backtick {
					last = fmt.Sprintf("`%s`", e.S)
				} else {
					last = strconv.Quote(e.S)
				}
			default:
				switch sym := expr.(type) {
				case Selector:
					rhs, err := sym.RHS(env)
					if err != nil {
						_ = env.GetStackTrace(err)
						errors++
						env.Clear()
						continue
					}
					last = rhs.SexpString(nil)
					continue
				case *SexpSymbol:
					if sym.isDot {
						resolved, err := dotGetSetHelper(env, sym.name, nil)
						if err != nil {
							_ = env.GetStackTrace(err)
							errors++
							env.Clear()
							continue
						}
						last = resolved.SexpString(nil)
						continue
					}
				}
				last = expr.SexpString(nil)
			}
		}
	}
}
