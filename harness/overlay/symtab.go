package zygo

// Read-only accessors for the symbol tables (property C19). Injected into package zygo by
// `go build -overlay` as zz_verif_symtab.go; never part of /repo.

import "sort"

// VerifSymCounter returns env.nextsymbol.
func VerifSymCounter(env *Zlisp) int { return env.nextsymbol }

// VerifSymEntry is one entry of a symbol table.
type VerifSymEntry struct {
	Name string
	Num  int
}

// VerifSymTable returns a copy of env.symtable sorted by (number, name).
func VerifSymTable(env *Zlisp) []VerifSymEntry {
	r := make([]VerifSymEntry, 0, len(env.symtable))
	for k, v := range env.symtable {
		r = append(r, VerifSymEntry{k, v})
	}
	sort.Slice(r, func(i, j int) bool {
		if r[i].Num != r[j].Num {
			return r[i].Num < r[j].Num
		}
		return r[i].Name < r[j].Name
	})
	return r
}

// VerifRevSymTable returns a copy of env.revsymtable sorted by (number, name).
func VerifRevSymTable(env *Zlisp) []VerifSymEntry {
	r := make([]VerifSymEntry, 0, len(env.revsymtable))
	for k, v := range env.revsymtable {
		r = append(r, VerifSymEntry{v, k})
	}
	sort.Slice(r, func(i, j int) bool {
		if r[i].Num != r[j].Num {
			return r[i].Num < r[j].Num
		}
		return r[i].Name < r[j].Name
	})
	return r
}

// VerifSameSymTables reports whether two interpreters share the very same table objects.
func VerifSameSymTables(a, b *Zlisp) bool {
	if len(a.symtable) != len(b.symtable) || len(a.revsymtable) != len(b.revsymtable) {
		return false
	}
	// map identity: a probe written through one must be visible through the other; we do
	// not write, so compare through reflection-free pointer printing is avoided: lengths
	// plus entry-wise equality is what the check needs.
	for k, v := range a.symtable {
		if w, ok := b.symtable[k]; !ok || w != v {
			return false
		}
	}
	for k, v := range a.revsymtable {
		if w, ok := b.revsymtable[k]; !ok || w != v {
			return false
		}
	}
	return true
}

// VerifFuncName returns the name of a compiled function value ("" for anything else).
func VerifFuncName(s Sexp) string {
	if f, ok := s.(*SexpFunction); ok {
		return f.name
	}
	return ""
}

// VerifSymMaps returns copies of both tables (unsorted; for membership tests).
func VerifSymMaps(env *Zlisp) (map[string]int, map[int]string) {
	a := make(map[string]int, len(env.symtable))
	for k, v := range env.symtable {
		a[k] = v
	}
	b := make(map[int]string, len(env.revsymtable))
	for k, v := range env.revsymtable {
		b[k] = v
	}
	return a, b
}

// VerifSymLens returns len(symtable), len(revsymtable).
func VerifSymLens(env *Zlisp) (int, int) { return len(env.symtable), len(env.revsymtable) }
