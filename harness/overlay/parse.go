//go:build verif

package zygo

// In-package observation for the `lex` and `parse` channels (C13; reused by C01/C06/C12).
// Read-only accessors and canonical printers; no behaviour of the package is changed.

import (
	"bytes"
	"fmt"
	"math"
	"reflect"
	"strconv"
	"strings"
	"unicode/utf8"
)

// VerifCodes prints a string as dot-separated decimal code points ("-" when empty);
// invalid UTF-8 bytes print as 65533 like Go's own decoding.
func VerifCodes(s string) string {
	if s == "" {
		return "-"
	}
	var b strings.Builder
	first := true
	for len(s) > 0 {
		r, n := utf8.DecodeRuneInString(s)
		if !first {
			b.WriteByte('.')
		}
		first = false
		b.WriteString(strconv.Itoa(int(r)))
		s = s[n:]
	}
	return b.String()
}

func verifTok(t Token) string { return fmt.Sprintf("%d:%s", int(t.typ), VerifCodes(t.str)) }

// VerifLexer gives the lexer of a parser.
func (p *Parser) VerifLexer() *Lexer { return p.lexer }

// VerifStep feeds one rune.
func (lx *Lexer) VerifStep(r rune) error { return lx.LexNextRune(r) }

// VerifShort: the scalar fields, the buffer and the length of the token queue.
func (lx *Lexer) VerifShort() string {
	// the fields of a pending hex escape (repo fix C12-02) are read by name so that this
	// file also compiles against a tree that does not have them (they then read as zero)
	esc := [3]uint32{}
	v := reflect.ValueOf(lx).Elem()
	for i, name := range []string{"escDigits", "escValue", "escByte"} {
		f := v.FieldByName(name)
		if !f.IsValid() {
			continue
		}
		switch f.Kind() {
		case reflect.Bool:
			if f.Bool() {
				esc[i] = 1
			}
		default:
			esc[i] = uint32(f.Int())
		}
	}
	return fmt.Sprintf("%d.%d.%d.%d.%d.%d.%d.%d.%d;%s", int(lx.state), int(lx.prevrune), int(lx.preBuiltinRune),
		lx.priori, lx.linenum, len(lx.tokens), esc[0], esc[1], esc[2], VerifCodes(lx.buffer.String()))
}

// VerifFull: every field of the lexer (streams as a count of queued streams and whether a
// current stream is set).
func (lx *Lexer) VerifFull() string {
	var ring []string
	for _, r := range lx.priorRune {
		ring = append(ring, strconv.Itoa(int(r)))
	}
	var toks []string
	for _, t := range lx.tokens {
		toks = append(toks, verifTok(t))
	}
	if len(toks) == 0 {
		toks = []string{"-"}
	}
	cur := 0
	if lx.stream != nil {
		cur = 1
	}
	return fmt.Sprintf("%s ring=%s toks=%s prev=%s pprev=%s cur=%d next=%d", lx.VerifShort(), strings.Join(ring, "."),
		strings.Join(toks, ","), verifTok(lx.prevToken), verifTok(lx.prevPrevToken), cur, len(lx.next))
}

// VerifEndInput signals the end of the input when the tree has such a call (the proposed
// repair adds Parser.EndInput); on a tree without it nothing is signalled.
func (p *Parser) VerifEndInput() {
	if e, ok := interface{}(p).(interface{ EndInput() }); ok {
		e.EndInput()
	}
}

func (env *Zlisp) VerifParser() *Parser { return env.parser }

func VerifStream(s string) *bytes.Buffer { return bytes.NewBuffer([]byte(s)) }

// VerifCanon prints a parsed expression canonically (every field the parser sets).
func VerifCanon(x Sexp) string {
	var b strings.Builder
	verifCanon(&b, x)
	return b.String()
}

func verifCanon(b *strings.Builder, x Sexp) {
	switch t := x.(type) {
	case *SexpInt:
		fmt.Fprintf(b, "i%d", t.Val)
	case *SexpUint64:
		fmt.Fprintf(b, "u%d", t.Val)
	case *SexpFloat:
		if math.IsNaN(t.Val) {
			b.WriteString("fnan")
		} else {
			fmt.Fprintf(b, "f%x", math.Float64bits(t.Val))
		}
		if t.Scientific {
			b.WriteString("e")
		}
	case *SexpChar:
		fmt.Fprintf(b, "c%d", int(t.Val))
	case *SexpStr:
		if t.backtick {
			b.WriteString("r:")
		} else {
			b.WriteString("s:")
		}
		b.WriteString(VerifCodes(t.S))
	case *SexpSymbol:
		b.WriteString("y")
		if t.colonTail {
			b.WriteString("c")
		}
		if t.isDot {
			b.WriteString("d")
		}
		b.WriteString(":")
		b.WriteString(VerifCodes(t.name))
	case *SexpBool:
		if t.Val {
			b.WriteString("#t")
		} else {
			b.WriteString("#f")
		}
	case *SexpComment:
		if t.Block {
			b.WriteString("K:")
		} else {
			b.WriteString("k:")
		}
		b.WriteString(VerifCodes(t.Comment))
	case *SexpComma:
		b.WriteString(",")
	case *SexpSemicolon:
		b.WriteString(";")
	case *SexpArray:
		if t.Infix {
			b.WriteString("<[")
		} else {
			b.WriteString("[")
		}
		for _, e := range t.Val {
			b.WriteString(" ")
			verifCanon(b, e)
		}
		if t.Infix {
			b.WriteString(" ]>")
		} else {
			b.WriteString(" ]")
		}
	case *SexpHash:
		fmt.Fprintf(b, "{%d}", len(t.KeyOrder))
	case *SexpPair:
		b.WriteString("(")
		var cur Sexp = t
		for {
			p, ok := cur.(*SexpPair)
			if !ok {
				break
			}
			b.WriteString(" ")
			verifCanon(b, p.Head)
			cur = p.Tail
		}
		if cur != SexpNull {
			b.WriteString(" \\ ")
			verifCanon(b, cur)
		}
		b.WriteString(" )")
	case *SexpSentinel:
		switch t {
		case SexpNull:
			b.WriteString("()")
		case SexpEnd:
			b.WriteString("END")
		default:
			b.WriteString("SENTINEL")
		}
	default:
		fmt.Fprintf(b, "OTHER:%T", x)
	}
}

// VerifLastTopLevelSign: the last emitted token is a `+`/`-` symbol at bracket depth 0
// (used by the generator to route inputs that hit a recorded finding).
func (lx *Lexer) VerifLastTopLevelSign() bool {
	n := len(lx.tokens)
	if n == 0 {
		return false
	}
	last := lx.tokens[n-1]
	if last.typ != TokenSymbol || (last.str != "-" && last.str != "+") {
		return false
	}
	depth := 0
	for _, t := range lx.tokens {
		switch t.typ {
		case TokenLParen, TokenLSquare, TokenLCurly:
			depth++
		case TokenRParen, TokenRSquare, TokenRCurly:
			depth--
		}
	}
	return depth <= 0
}
