package zygo

// C04 (translation validation): structured listings of compiled code, injected by
// `go build -overlay` (never part of /repo). Read-only with respect to what it lists; the
// helper functions that the VM compiles at run time (`callExprEval`, `lazyArgForce`) are
// re-derived exactly as environment.go / expressions.go derive them: NewGenerator(env),
// Generate(expr), append ReturnInstr{nil}.
//
// One token per function:   kind/nformals/varargs/nfixed/name/instr;instr;…
//   kind     top   = code that LoadExpressions appended to mainfunc for one text
//            fn    = body built by buildSexpFun / FuncBuilder (closures, macros, methods)
//            thunk = helper function of EvalCallExpression / SexpLazyArg.Force / EvalFunction
// One record per instruction: opcode, then every field the stack discipline depends on,
// `:`-separated. Stack-mark and loop names are numbered by first appearance.

import (
	"bytes"
	"fmt"
	"sort"
	"strings"
)

type VerifLister struct {
	env      *Zlisp
	syms     map[string]int
	seen     map[string]bool // compiled code already listed, keyed by the address of its first instruction
	Out      []string
	Skipped  map[string]int // thunks whose generation failed (a run-time error in the VM, not an imbalance)
	budget   int
	baseline bool
}

// Baseline marks everything compiled so far (the macros of StandardSetup) as listed.
func (l *VerifLister) Baseline() {
	l.baseline = true
	l.AddReachable()
	l.baseline = false
}

func (env *Zlisp) VerifNewLister() *VerifLister {
	return &VerifLister{env: env, syms: map[string]int{}, seen: map[string]bool{}, Skipped: map[string]int{}, budget: 4000}
}

func (l *VerifLister) sym(s *SexpSymbol) int {
	if s == nil {
		return 0
	}
	n, ok := l.syms[s.name]
	if !ok {
		n = len(l.syms) + 1
		l.syms[s.name] = n
	}
	return n
}

func verifB(b bool) int {
	if b {
		return 1
	}
	return 0
}

func verifName(s string) string {
	var sb strings.Builder
	for _, r := range s {
		switch {
		case r >= 'a' && r <= 'z', r >= 'A' && r <= 'Z', r >= '0' && r <= '9', r == '_', r == '-', r == '.', r == '+', r == '*', r == '<', r == '>', r == '=', r == '!', r == '?', r == '#', r == '@':
			sb.WriteRune(r)
		default:
			sb.WriteByte('_')
		}
	}
	if sb.Len() == 0 {
		return "_"
	}
	return sb.String()
}

// record of one instruction
func (l *VerifLister) instr(in Instruction) string {
	switch x := in.(type) {
	case JumpInstr:
		return fmt.Sprintf("jump:%d", x.addpc)
	case GotoInstr:
		return fmt.Sprintf("goto:%d", x.location)
	case BranchInstr:
		return fmt.Sprintf("branch:%d:%d", verifB(x.direction), x.location)
	case PushInstr:
		if x.expr == SexpMarker {
			return "pushmarker"
		}
		if _, isMark := x.expr.(*SexpStackmark); isMark {
			return "unknown:PushInstr-of-stackmark"
		}
		return "push"
	case PushLazyArgInstr:
		return "pushlazy"
	case PopInstr:
		return "pop"
	case DupInstr:
		return "dup"
	case EnvToStackInstr:
		return "envtostack"
	case PopStackPutEnvInstr:
		return "popstackputenv"
	case UpdateInstr:
		return "update"
	case CallInstr:
		return fmt.Sprintf("call:%d", x.nargs)
	case CallExprInstr:
		return fmt.Sprintf("callexpr:%d", len(x.args))
	case DispatchInstr:
		return fmt.Sprintf("dispatch:%d", x.nargs)
	case ReturnInstr:
		return fmt.Sprintf("ret:%d", verifB(x.err != nil))
	case AddScopeInstr:
		return "addscope"
	case AddFuncScopeInstr:
		return "addfuncscope"
	case RemoveScopeInstr:
		return "removescope"
	case ExplodeInstr:
		return "explode"
	case SquashInstr:
		return "squash"
	case BindlistInstr:
		return fmt.Sprintf("bindlist:%d", len(x.syms))
	case VectorizeInstr:
		return "vectorize"
	case HashizeInstr:
		return fmt.Sprintf("hashize:%d", x.HashLen)
	case LabelInstr:
		return "label"
	case *BreakInstr:
		return fmt.Sprintf("break:%d:%d:%d", l.sym(x.loop.stmtname), x.loop.breakOffset, x.scopesToPop)
	case *ContinueInstr:
		return fmt.Sprintf("continue:%d:%d:%d", l.sym(x.loop.stmtname), x.loop.continueOffset, x.scopesToPop)
	case LoopStartInstr:
		return fmt.Sprintf("loopstart:%d", l.sym(x.loop.stmtname))
	case PushStackmarkInstr:
		return fmt.Sprintf("pushstackmark:%d", l.sym(x.sym))
	case PopUntilStackmarkInstr:
		return fmt.Sprintf("popuntilstackmark:%d", l.sym(x.sym))
	case ClearStackmarkInstr:
		return fmt.Sprintf("clearstackmark:%d", l.sym(x.sym))
	case DebugInstr:
		return "debug"
	case CreateClosureInstr:
		return "createclosure"
	case AssignInstr:
		return "assign"
	case PopScopeTransferToDataStackInstr:
		return "popscopetransfer"
	case PrepareCallInstr:
		return fmt.Sprintf("preparecall:%d", x.nargs)
	case TailGuardInstr:
		return fmt.Sprintf("tailguard:%d", x.skip)
	}
	return "unknown:" + verifName(fmt.Sprintf("%T", in))
}

// AddFunction lists one function and, recursively, everything reachable from it.
func (l *VerifLister) AddCode(kind, name string, nformals int, varargs bool, nfixed int, code []Instruction) {
	if l.budget <= 0 {
		l.Skipped["budget"]++
		return
	}
	l.budget--
	recs := make([]string, len(code))
	for i, in := range code {
		recs[i] = l.instr(in)
	}
	l.Out = append(l.Out, fmt.Sprintf("%s/%d/%d/%d/%s/%s", kind, nformals, verifB(varargs), nfixed, verifName(name), strings.Join(recs, ";")))
	for i, in := range code {
		switch x := in.(type) {
		case CreateClosureInstr:
			l.AddFn(x.sfun)
		case CallExprInstr:
			if x.callee != nil {
				if _, isSym := x.callee.(*SexpSymbol); !isSym {
					l.thunk(fmt.Sprintf("%s.%d.callee", name, i), x.callee)
				}
			}
			for j, a := range x.args {
				if _, isSym := a.(*SexpSymbol); !isSym {
					l.thunk(fmt.Sprintf("%s.%d.arg%d", name, i, j), a)
				}
			}
		case PushLazyArgInstr:
			if x.expr != nil {
				l.thunk(fmt.Sprintf("%s.%d.lazy", name, i), x.expr)
			}
		}
	}
}

func (l *VerifLister) AddFn(f *SexpFunction) {
	if f == nil || f.user || len(f.fun) == 0 {
		return
	}
	key := fmt.Sprintf("%p", f.fun) // a closure is a copy of its template: same code
	if l.seen[key] {
		return
	}
	l.seen[key] = true
	if l.baseline {
		return
	}
	kind := "fn"
	if len(f.fun) > 0 {
		if _, ok := f.fun[0].(AddFuncScopeInstr); !ok {
			kind = "thunk"
		}
	}
	l.AddCode(kind, f.name, len(f.argSyms), f.varargs, f.nargs, f.fun)
}

// thunk re-derives the helper function that EvalCallExpression / Force compile for expr.
func (l *VerifLister) thunk(name string, expr Sexp) {
	if l.budget <= 0 {
		l.Skipped["budget"]++
		return
	}
	var code []Instruction
	func() {
		defer func() {
			if r := recover(); r != nil {
				l.Skipped["thunk-generate-panic"]++
				code = nil
			}
		}()
		gen := NewGenerator(l.env)
		if err := gen.Generate(expr); err != nil {
			l.Skipped["thunk-generate-error"]++
			return
		}
		if len(gen.instructions) == 0 {
			// EvalCallExpression: "no code" evaluates to nil without running anything
			l.Skipped["thunk-empty"]++
			return
		}
		gen.AddInstruction(ReturnInstr{nil})
		code = gen.instructions
	}()
	if code != nil {
		l.AddCode("thunk", name, 0, false, 0, code)
	}
}

// AddReachable lists the user-defined macros and every compiled function bound in a live
// scope (closures, `func`/`method` builder results).
func (l *VerifLister) AddReachable() {
	env := l.env
	keys := make([]int, 0, len(env.macros))
	for k := range env.macros {
		keys = append(keys, k)
	}
	sort.Ints(keys)
	for _, k := range keys {
		l.AddFn(env.macros[k])
	}
	for i := 0; i < env.linearstack.Size(); i++ {
		el, err := env.linearstack.Get(i)
		if err != nil {
			continue
		}
		sc, ok := el.(*Scope)
		if !ok || sc == nil {
			continue
		}
		ks := make([]int, 0, len(sc.Map))
		for k := range sc.Map {
			ks = append(ks, k)
		}
		sort.Ints(ks)
		for _, k := range ks {
			if f, isF := sc.Map[k].(*SexpFunction); isF {
				l.AddFn(f)
			}
		}
	}
}

// VerifMainLen is the number of instructions LoadExpressions has appended so far.
func (env *Zlisp) VerifMainLen() int { return len(env.mainfunc.fun) }

// VerifMainSlice copies mainfunc.fun[from:].
func (env *Zlisp) VerifMainSlice(from int) []Instruction {
	if from > len(env.mainfunc.fun) {
		from = len(env.mainfunc.fun)
	}
	return append([]Instruction(nil), env.mainfunc.fun[from:]...)
}

// VerifParse parses a whole text the way LoadStream + LoadExpressions do (comments and end
// tokens filtered).
func (env *Zlisp) VerifParse(src string) (xs []Sexp, err error) {
	defer func() {
		if r := recover(); r != nil {
			err = fmt.Errorf("panic: %v", r)
		}
	}()
	env.parser.ResetAddNewInput(bytes.NewBuffer([]byte(src)))
	env.parser.EndInput()
	xs, err = env.parser.ParseTokens()
	if err != nil {
		return nil, err
	}
	xs = env.FilterArray(xs, RemoveCommentsFilter)
	xs = env.FilterArray(xs, RemoveEndsFilter)
	return xs, nil
}

// VerifGenerate compiles one top-level form with a fresh generator (what GenerateBegin does
// for each statement).
func (env *Zlisp) VerifGenerate(x Sexp) (code []Instruction, err error) {
	defer func() {
		if r := recover(); r != nil {
			err = fmt.Errorf("panic: %v", r)
		}
	}()
	gen := NewGenerator(env)
	if err := gen.Generate(x); err != nil {
		return nil, err
	}
	return gen.instructions, nil
}
