package zygo

import (
	"fmt"
	"sort"
	"strings"
)

// VerifSymbolIds (C06 interference histories): every symbol below s must carry the NUMBER this
// interpreter itself gives to its name (symbols resolve by number, not by name). Returns "" when
// all do, else the sorted offenders `name=<number carried>/<number of env>` (`/absent` when env
// does not know the name at all). Read-only: looks the name up in env.symtable, interns nothing.
func VerifSymbolIds(env *Zlisp, s Sexp) string {
	bad := map[string]bool{}
	var walk func(x Sexp, depth int)
	walk = func(x Sexp, depth int) {
		if depth > 500 {
			return
		}
		switch t := x.(type) {
		case *SexpSymbol:
			own, ok := env.symtable[t.name]
			if !ok {
				bad[fmt.Sprintf("%s=%d/absent", t.name, t.number)] = true
			} else if own != t.number {
				bad[fmt.Sprintf("%s=%d/%d", t.name, t.number, own)] = true
			}
		case *SexpPair:
			walk(t.Head, depth+1)
			walk(t.Tail, depth+1)
		case *SexpArray:
			for _, e := range t.Val {
				walk(e, depth+1)
			}
		}
	}
	walk(s, 0)
	if len(bad) == 0 {
		return ""
	}
	var out []string
	for k := range bad {
		out = append(out, strings.ReplaceAll(k, " ", "_"))
	}
	sort.Strings(out)
	return strings.Join(out, ",")
}

// VerifSymNumber: the number env gives to name (0 when unknown); interns nothing.
func VerifSymNumber(env *Zlisp, name string) int { return env.symtable[name] }
