package zygo

// Read-only enumeration of everything a script can name in an interpreter (property C08).
// Injected into package zygo by `go build -overlay` as zz_verif_sandbox.go; never part of
// /repo.

import (
	"reflect"
	"runtime"
	"sort"
)

// VerifBinding is one name a script can use.
type VerifBinding struct {
	Name   string
	Where  string // global | builtin | macro
	Kind   string // gofunc | builder | compiled | type | value
	GoFunc string // runtime name of the Go function behind a gofunc/builder ("" otherwise)
}

func verifGoFuncName(f ZlispUserFunction) string {
	if f == nil {
		return ""
	}
	fn := runtime.FuncForPC(reflect.ValueOf(f).Pointer())
	if fn == nil {
		return "?"
	}
	return fn.Name()
}

func verifDescribe(name, where string, v Sexp) VerifBinding {
	b := VerifBinding{Name: name, Where: where, Kind: "value"}
	switch x := v.(type) {
	case *SexpFunction:
		switch {
		case x.userfun != nil && x.isBuilder:
			b.Kind, b.GoFunc = "builder", verifGoFuncName(x.userfun)
		case x.userfun != nil:
			b.Kind, b.GoFunc = "gofunc", verifGoFuncName(x.userfun)
		default:
			b.Kind = "compiled"
		}
	case *RegisteredType:
		b.Kind = "type"
	}
	return b
}

// VerifBindings lists the global scope, the builtin table and the macro table of env.
func VerifBindings(env *Zlisp) []VerifBinding {
	var out []VerifBinding
	if env.linearstack != nil && len(env.linearstack.elements) > 0 {
		if glob, ok := env.linearstack.elements[0].(*Scope); ok && glob != nil {
			for num, v := range glob.Map {
				out = append(out, verifDescribe(env.revsymtable[num], "global", v))
			}
		}
	}
	for num, f := range env.builtins {
		out = append(out, verifDescribe(env.revsymtable[num], "builtin", f))
	}
	for num, f := range env.macros {
		out = append(out, verifDescribe(env.revsymtable[num], "macro", f))
	}
	sort.Slice(out, func(i, j int) bool {
		if out[i].Name != out[j].Name {
			return out[i].Name < out[j].Name
		}
		return out[i].Where < out[j].Where
	})
	return out
}
