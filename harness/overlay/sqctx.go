package zygo

import (
	"fmt"
	"strings"
)

// Read-only accessor injected by `go build -overlay` (never part of /repo): the code loaded
// into the main function, closures included, in two renderings (C15, call-site contexts):
//
//	ctx   the context-sensitive instructions only — what depends on the generator fields
//	      scopes / Tail / funcname and on env.loopstack:
//	        A  add scope          R  remove scope        L<k>  loop start (k-th loop seen)
//	        B<k>.<n> / C<k>.<n>   break / continue of loop k popping n scopes
//	        P<n>  prepare (tail) call with n arguments       G  goto 0 (the tail-call jump)
//	        X:<callee>/<n>        call by expression (arguments compiled when it runs)
//	        F[ … ]                the body of a closure created here
//	full  every instruction by its InstrString, closures recursively; digits of generated
//	      names (__loop…, __anon…) are blanked by the caller.
func (env *Zlisp) VerifCtxListing() (ctx []string, full []string) {
	loops := map[*Loop]int{}
	ord := func(l *Loop) int {
		if k, ok := loops[l]; ok {
			return k
		}
		loops[l] = len(loops)
		return loops[l]
	}
	var walk func(fun []Instruction, depth int)
	walk = func(fun []Instruction, depth int) {
		if depth > 40 {
			ctx = append(ctx, "TOO-DEEP")
			return
		}
		for _, in := range fun {
			switch t := in.(type) {
			case AddScopeInstr:
				ctx = append(ctx, "A")
			case RemoveScopeInstr:
				ctx = append(ctx, "R")
			case LoopStartInstr:
				ctx = append(ctx, fmt.Sprintf("L%d", ord(t.loop)))
			case *BreakInstr:
				ctx = append(ctx, fmt.Sprintf("B%d.%d", ord(t.loop), t.scopesToPop))
			case *ContinueInstr:
				ctx = append(ctx, fmt.Sprintf("C%d.%d", ord(t.loop), t.scopesToPop))
			case PrepareCallInstr:
				ctx = append(ctx, fmt.Sprintf("P%d", t.nargs))
			case GotoInstr:
				if t.location == 0 {
					ctx = append(ctx, "G")
				} else {
					ctx = append(ctx, fmt.Sprintf("goto%d", t.location))
				}
			case CallExprInstr:
				name := "?"
				if s, ok := t.callee.(*SexpSymbol); ok {
					name = s.name
				}
				ctx = append(ctx, fmt.Sprintf("X:%s/%d", name, len(t.args)))
			case CreateClosureInstr:
				ctx = append(ctx, "F[")
				full = append(full, "closure[")
				walk(t.sfun.fun, depth+1)
				ctx = append(ctx, "]")
				full = append(full, "]")
				continue
			}
			full = append(full, strings.ReplaceAll(in.InstrString(), " ", "_"))
		}
	}
	walk(env.mainfunc.fun, 0)
	return
}
