package zygo

// C05: what stands at the BOTTOM of the scope stack (read-only observation).
// "global" — the global scope; "nil" — a nil element, as Stack.TruncateToSize leaves when it
// has to grow the stack (restoreControlState after execution went below the captured depth);
// "other" — some other scope; "empty" — no element.
func (env *Zlisp) VerifScopeBottom() string {
	st := env.linearstack
	if st == nil || st.tos < 0 || len(st.elements) == 0 {
		return "empty"
	}
	e := st.elements[0]
	if e == nil {
		return "nil"
	}
	if sc, ok := e.(*Scope); ok {
		if sc == nil {
			return "nil"
		}
		if sc.IsGlobal {
			return "global"
		}
	}
	return "other"
}
