package zygo

// Read-only accessors for channel pkg (C18), injected by `go build -overlay`.
// (VerifFuncName lives in symtab.go)
