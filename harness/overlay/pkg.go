package zygo

// Read-only accessors for channel pkg (C18), injected by `go build -overlay`.

// VerifFuncName returns the name of a script function value ("" when s is not one).
func VerifFuncName(s Sexp) string {
	if f, ok := s.(*SexpFunction); ok {
		return f.name
	}
	return ""
}
