package zygo

// Read-only accessors injected by `go build -overlay` (never part of /repo).

// VerifDepths returns the sizes of the data, scope (linear), address and loop stacks.
func (env *Zlisp) VerifDepths() (data, scope, addr, loop int) {
	return env.datastack.Size(), env.linearstack.Size(), env.addrstack.Size(), env.loopstack.Size()
}

// VerifAtEnd reports whether pc sits at the end of mainfunc with mainfunc current.
func (env *Zlisp) VerifAtEnd() bool {
	return env.curfunc == env.mainfunc && env.pc >= len(env.mainfunc.fun)
}
