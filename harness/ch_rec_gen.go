package main

// Generators of channel rec (C17). Three streams:
//  1. exhaustive grid: every declared field type x every single-field write route x every
//     value kind (one declaration, one instance, one write), also as constructor argument,
//     derefSet payload and decoded document;
//  2. scripted redeclaration scenarios (old instance into new field and the other way round,
//     derefSet across a redeclaration, failed redeclaration, self reference) x value kinds;
//  3. random histories: declarations (with redeclaration and references to other structs),
//     constructions, writes through every route, decodes.

import (
	"fmt"
	"strings"
)

var recFieldTypes = []string{"i", "t", "f", "b", "si", "st", "ssi", "pi", "S0", "pS0", "sS0", "spS0", "psi"}

// value kinds that make sense without any slot / with slots 0 (an S0) and 1 (an S1) and 2 (a hash)
var recScalarVals = []string{"n", "i7", "u", "d", "b", "c", "t1", "y", "l", "[]", "&i",
	"[i1|0", "[i1|1", "[i1|2", "[t1|0", "[t1|1", "[n|1", "[l|0", "[[]|0", "[[i1|0|0", "[d|0", "[&i|0"}
var recSlotVals = []string{"v0", "v1", "v2", "&0", "&1", "&2", "[v0|0", "[v1|0", "[&0|0", "[v0|2", "g1.8", "v9", "&9"}
var recJVals = []string{"n", "i7", "d", "b", "t1", "[]", "[i1|0", "[i1|1", "[i1|2", "[t1|0", "[n|1", "[[]|0", "[d|0"}
var recKeys = []string{":0", ":1", ":5", `"0`, `"5`, "#0", "#7"}

func recGen(g *Gen) {
	// ---- 1. exhaustive grid
	// S0 has one int field; S1 has field f0 of the type under test (+ f8: S0 for paths); v0 : S0, v1 : S1, v2 : hash
	pre := func(ft string) string {
		return fmt.Sprintf("D 0 1 0 i ; D 1 2 0 %s 8 S0 ; M 0 0 1 :0 i1 ; M 1 1 1 :8 v0 ; H 2 1 :0 i1", ft)
	}
	vals := append(append([]string{}, recScalarVals...), recSlotVals...)
	for _, ft := range recFieldTypes {
		for _, v := range vals {
			for _, route := range []string{"h", "d", ".", "s", "q", "a"} {
				g.Emit("%s ; W %s 1 :0 %s", pre(ft), route, v)
				g.Count("grid write route=" + route)
			}
			g.Emit("%s ; M 3 1 1 :0 %s", pre(ft), v)
			g.Emit("%s ; M 3 1 2 :0 i1 :0 %s", pre(ft), v)
			g.Emit("%s ; R 1 1 1 :0 %s", pre(ft), v)
			g.Count("grid ctor/derefSet")
		}
		for _, v := range recJVals {
			for _, f := range []string{"j", "m"} {
				g.Emit("%s ; J %s 3 1 - 1 0 %s", pre(ft), f, v)
				g.Emit("%s ; J %s 3 1 0 1 0 %s", pre(ft), f, v)
				g.Emit("%s ; J %s 3 1 80 2 8 n 0 %s", pre(ft), f, v)
				g.Count("grid decode fmt=" + f)
			}
		}
	}
	// undeclared field / non-symbol key through every route, on a struct instance and on a hash
	for _, k := range recKeys {
		for _, v := range []string{"i7", "t1", "n", "v0"} {
			for _, slot := range []int{0, 1, 2} {
				for _, route := range []string{"h", "d", "x", ".", "s", "q", "a"} {
					if route != "a" && route != "q" && (route == "x") == (k[0] == ':') {
						continue
					}
					if (route == "." || route == "s" || route == "q") && k[0] != ':' {
						continue
					}
					g.Emit("%s ; W %s %d %s %s", pre("i"), route, slot, k, v)
					g.Count("grid key route=" + route)
				}
			}
			g.Emit("%s ; M 3 1 1 %s %s", pre("i"), k, v)
			g.Emit("%s ; H 3 1 %s %s", pre("i"), k, v)
			g.Emit("%s ; R 1 1 1 %s %s", pre("i"), k, v)
			g.Emit("%s ; R 2 1 1 %s %s", pre("i"), k, v)
		}
	}
	// nested paths
	for _, v := range vals {
		for _, route := range []string{".", "s"} {
			g.Emit("%s ; P %s 1 2 8 0 %s", pre("i"), route, v)
			g.Emit("%s ; P %s 1 2 8 3 %s", pre("i"), route, v)
			g.Emit("%s ; P %s 1 2 0 0 %s", pre("i"), route, v)
			g.Emit("%s ; P %s 1 3 8 0 0 %s", pre("i"), route, v)
			g.Count("grid path")
		}
	}

	// ---- 2. redeclaration scenarios
	base := "D 0 1 0 i ; D 1 2 0 S0 1 pS0 ; M 0 0 1 :0 i1 ; M 1 1 1 :0 v0"
	redecl := []string{"D 0 1 0 t", "D 0 1 0 i", "D 0 0", "D 0 1 0 ?", "D 0 2 0 i 1 S0", "D 0 1 1 pS0"}
	for _, rd := range redecl {
		hist := base + " ; " + rd + " ; M 2 0 0 ; D 1 2 0 S0 1 pS0 ; M 3 1 0"
		for _, w := range []string{
			"W h 3 :0 v0", "W h 3 :0 v2", "W h 1 :0 v0", "W h 1 :0 v2", "W . 3 :0 v0", "W s 1 :0 v2", "W d 3 :0 v0",
			"M 4 1 1 :0 v0", "M 4 1 1 :0 v2", "R 0 0 0", "R 0 0 1 :0 i5", "R 0 0 1 :0 t1", "R 2 0 0", "R 2 0 1 :0 t1",
			"W h 0 :0 i2", "W h 0 :0 t1", "W h 2 :0 i2", "W h 2 :0 t1", "P . 1 2 0 0 t1", "P . 1 2 0 0 i3",
			"W h 3 :1 &0", "W h 3 :1 &2", "W h 1 :1 &2", "J j 4 0 0 1 0 i1", "J j 4 0 0 1 0 t1", "J m 4 0 - 1 0 t1",
			"W h 3 :0 g1.0", "M 4 0 1 :0 i1", "M 4 0 1 :0 t1", "M 4 0 1 :1 v0", "M 4 0 1 :1 &0",
		} {
			g.Emit("%s ; %s", hist, w)
			g.Emit("%s ; %s ; W h 1 :0 v0 ; R 0 0 1 :0 t2", hist, w)
			g.Count("scenario redeclaration")
		}
	}

	// ---- 3. random histories
	n := 2500
	if g.Thorough() {
		n = 60000
	}
	for i := 0; i < n; i++ {
		g.Emit("%s", recRandomHistory(g))
	}
}

func recRandTExpr(g *Gen, nStruct int) string {
	p := ""
	for g.Rng.Intn(4) == 0 && len(p) < 2 {
		p += []string{"s", "p"}[g.Rng.Intn(2)]
	}
	switch g.Rng.Intn(10) {
	case 0, 1, 2:
		return p + "i"
	case 3:
		return p + "t"
	case 4:
		return p + []string{"f", "b"}[g.Rng.Intn(2)]
	case 5:
		if g.Rng.Intn(6) == 0 {
			return p + "?"
		}
		return p + "i"
	default:
		return p + fmt.Sprintf("S%d", g.Rng.Intn(nStruct))
	}
}

func recRandVal(g *Gen, nSlot int, depth int) string {
	k := 14
	if nSlot == 0 {
		k = 8 // no references to slots (values stored into an untyped hash: never build a cyclic hash,
		// the printer of the code under test does not terminate on one)
	}
	switch g.Rng.Intn(k) {
	case 0:
		return "n"
	case 1, 2:
		return fmt.Sprintf("i%d", g.Rng.Intn(9))
	case 3:
		return fmt.Sprintf("t%d", g.Rng.Intn(3))
	case 4:
		return []string{"u", "d", "b", "c", "y", "l", "&i"}[g.Rng.Intn(7)]
	case 5:
		return "[]"
	case 6, 7:
		if depth < 2 {
			return fmt.Sprintf("[%s|%d", recRandVal(g, nSlot, depth+1), g.Rng.Intn(len(recRest)))
		}
		return "[i1|0"
	case 8:
		return fmt.Sprintf("&%d", g.Rng.Intn(nSlot))
	case 9:
		return fmt.Sprintf("g%d.%d", g.Rng.Intn(nSlot), g.Rng.Intn(4))
	default:
		return fmt.Sprintf("v%d", g.Rng.Intn(nSlot))
	}
}

func recRandKey(g *Gen) string {
	switch g.Rng.Intn(12) {
	case 0:
		return fmt.Sprintf(`"%d`, g.Rng.Intn(4))
	case 1:
		return fmt.Sprintf("#%d", g.Rng.Intn(4))
	default:
		return fmt.Sprintf(":%d", g.Rng.Intn(4))
	}
}

// slot 4 is the only slot that holds untyped hashes; slots 0..3 hold struct instances
func recRefs(slot, nSlot int) int {
	if slot == 4 {
		return 0
	}
	return nSlot
}

func recRandPairs(g *Gen, nSlot int) string {
	np := g.Rng.Intn(4)
	s := fmt.Sprintf("%d", np)
	for i := 0; i < np; i++ {
		s += " " + recRandKey(g) + " " + recRandVal(g, nSlot, 0)
	}
	return s
}

func recRandomHistory(g *Gen) string {
	const nStruct, nSlot = 3, 5
	var steps []string
	var declared []int // names that some declaration step has registered (decoding an Atype that was
	// never declared creates an instance outside the model: see notes/C17.md)
	decl := func() string {
		nf := g.Rng.Intn(4)
		used := map[int]bool{}
		s := ""
		cnt := 0
		for i := 0; i < nf; i++ {
			f := g.Rng.Intn(4)
			if used[f] {
				continue
			}
			used[f] = true
			cnt++
			s += fmt.Sprintf(" %d %s", f, recRandTExpr(g, nStruct))
		}
		name := g.Rng.Intn(nStruct)
		declared = append(declared, name)
		return fmt.Sprintf("D %d %d%s", name, cnt, s)
	}
	// start with a couple of declarations so that most later steps are meaningful
	for i := 0; i < 2+g.Rng.Intn(2); i++ {
		steps = append(steps, decl())
	}
	nsteps := 4 + g.Rng.Intn(8)
	for i := 0; i < nsteps; i++ {
		var s string
		switch k := g.Rng.Intn(20); {
		case k < 3:
			s = decl()
			g.Count("random step redeclare")
		case k < 7:
			s = fmt.Sprintf("M %d %d %s", g.Rng.Intn(nSlot-1), g.Rng.Intn(nStruct), recRandPairs(g, nSlot))
			g.Count("random step construct")
		case k < 8:
			s = fmt.Sprintf("H 4 %s", recRandPairs(g, 0))
			g.Count("random step hash")
		case k < 14:
			key := recRandKey(g)
			var routes []string
			if key[0] == ':' {
				routes = []string{"h", "d", ".", "s", "q", "a"}
			} else {
				routes = []string{"h", "d", "x", "a"}
			}
			route := routes[g.Rng.Intn(len(routes))]
			slot := g.Rng.Intn(nSlot)
			s = fmt.Sprintf("W %s %d %s %s", route, slot, key, recRandVal(g, recRefs(slot, nSlot), 0))
			g.Count("random step write route=" + route)
		case k < 16:
			np := 2 + g.Rng.Intn(2)
			var fs []string
			for j := 0; j < np; j++ {
				fs = append(fs, fmt.Sprint(g.Rng.Intn(4)))
			}
			s = fmt.Sprintf("P %s %d %d %s %s", []string{".", "s"}[g.Rng.Intn(2)], g.Rng.Intn(nSlot-1), np, strings.Join(fs, " "), recRandVal(g, nSlot, 0))
			g.Count("random step path")
		case k < 18:
			slot := g.Rng.Intn(nSlot)
			s = fmt.Sprintf("R %d %d %s", slot, g.Rng.Intn(nStruct), recRandPairs(g, recRefs(slot, nSlot)))
			g.Count("random step derefSet")
		default:
			np := g.Rng.Intn(4)
			used := map[int]bool{}
			var fs []string
			ps := ""
			for j := 0; j < np; j++ {
				f := g.Rng.Intn(4)
				if used[f] {
					continue
				}
				used[f] = true
				fs = append(fs, fmt.Sprint(f))
				ps += fmt.Sprintf(" %d %s", f, recJVals[g.Rng.Intn(len(recJVals))])
			}
			ko := "-"
			if g.Rng.Intn(3) > 0 && len(fs) > 0 {
				g.Rng.Shuffle(len(fs), func(a, b int) { fs[a], fs[b] = fs[b], fs[a] })
				ko = strings.Join(fs, "")
			}
			s = fmt.Sprintf("J %s %d %d %s %d%s", []string{"j", "m"}[g.Rng.Intn(2)], g.Rng.Intn(nSlot-1), declared[g.Rng.Intn(len(declared))], ko, len(fs), ps)
			g.Count("random step decode")
		}
		steps = append(steps, s)
	}
	return strings.Join(steps, " ; ")
}
