package main

// Channel alias (C02 — "constructor freshness / aliasing"). Same op format, same Exec (the
// real interpreter) and the same Lean driver logic as channel eval (Driver/Alias.lean
// delegates to Driver/Eval.lean): a history of program texts against ONE interpreter,
// answer per text `<class> <value> T[trace] D[depths]`.
//
// What the family is about: an expression that CONSTRUCTS a mutable value (an array
// literal, `(array …)`, a list holding arrays, the result of append / concat / map / rest)
// yields a NEW cell every time it is evaluated. The reference evaluator and the VM model
// allocate a fresh heap cell per evaluation; an implementation that hands out the same
// object twice (the parse-tree array of a literal, a cached operand, a folded constant, a
// result that shares the storage of its argument) is indistinguishable on a single
// evaluation and differs as soon as (1) the same expression occurrence runs again and
// (2) an earlier result was mutated in place in between. A scenario is the product of
//
//	constructor  what builds the value (alCons*): constant / variable / computed / nested
//	             literals, (array …), lists and conses holding arrays, append, concat, map,
//	             rest, a literal returned by a helper function, a literal in a cond arm
//	position     where the constructor stands (alPos*, nested 1-3 deep): operand of a user
//	             function (first / second / variadic), of a closure, of an anonymous function,
//	             of a host function, of builtins, of apply / map, a lazy operand that is
//	             forced; right-hand side of def / set; let / letseq initialiser and body;
//	             begin, newScope, cond arm and default, last arm of and / or, aget default
//	route        how the occurrence is executed again (alRoute*): the enclosing function
//	             called k times in one text, called again by LATER TEXTS of the history, a
//	             for body, a for body inside a function called twice, recursion, a self
//	             tail call, a closure called after its creator returned (one closure twice,
//	             two closures of one template), map over a collection, and - as a control -
//	             the expression written twice
//	mutation     what happens to the earlier result in between (alMut*): aset at an index,
//	             through an alias, through a callee's parameter, increment in place, inside
//	             the callee the value was passed to (the constructor is the operand of the
//	             mutating function), none
//	observation  the earlier result, the later result, both, equality of an element of the
//	             two, identity (write to the later one, read the earlier one), the trace
//
// Streams: `fixed` (hand-written), `cover` (every constructor x every position, routes and
// mutations cycled so that every pair constructor x route and position x route occurs),
// `rnd` (random scenarios, positions nested up to 3), `derived` (results that must not share
// storage with an ARGUMENT: append / concat / map / rest of a variable, mutated both ways),
// `mal` (a scenario with one tree mutation). Oracle: Spec/RefEval (impl vs spec = failing
// input) and Model/VM (tie).

import (
	"fmt"
	"os"
	"strings"
)

// `(rest <array>)` returns a slice of its argument's storage on the pinned tree (RestFunction:
// expr.Val[1:]): fix proposal C02-05, known findings C02-K6/K7 (two fixed ops below). The
// whole derived cross product for rest runs when VERIF_ALIAS_REST=1 (to be made the default
// when the fix has landed).
var alRestFull = os.Getenv("VERIF_ALIAS_REST") != "0" // fix e2faebb (C02-05) landed: the rest cross product runs by default

// ---- constructors

const (
	alConsConst = iota // [0 1]
	alConsConst1       // [5]
	alConsVarEl        // [gx 1]
	alConsCallEl       // [(+ 1 0) 1]
	alConsNestInner    // [[0 1] [0]]     target: the inner array
	alConsNestOuter    // [[0 1] [0]]     target: the outer array
	alConsNestVar      // [[gx 1] 0]      target: the inner array
	alConsArrayFn      // (array 0 1)
	alConsArrayFnVar   // (array gx 1)
	alConsList         // (list [0 1] 0)  target: (first r)
	alConsCons         // (cons [0 1] nil)
	alConsListNest     // (list (list [0 1]))
	alConsAppendLit    // (append [0] 1)
	alConsAppendVar    // (append gv 1)
	alConsConcatLit    // (concat [0] [1])
	alConsConcatVar    // (concat gv [1])
	alConsConcat1      // (concat gw)
	alConsMapLit       // (map idf [0 1])
	alConsRestLit      // (rest [9 0 1])
	alConsFnRet        // (mkarr)  with (defn mkarr [] [0 1])
	alConsCondLit      // (cond gp [0 1] [9 9])
	alConsLetLit       // (let [z [0 1]] z)
	alNCons
)

var alConsNames = []string{"const-literal", "const-literal-1", "literal-var-element", "literal-call-element",
	"nested-literal(inner)", "nested-literal(outer)", "nested-literal-var(inner)", "(array c..)", "(array x..)",
	"(list [..] c)", "(cons [..] nil)", "(list (list [..]))", "(append [..] c)", "(append v c)", "(concat [..] [..])",
	"(concat v [..])", "(concat v)", "(map idf [..])", "(rest [..])", "literal returned by helper fn", "literal in cond arm",
	"literal as let initialiser"}

type alVal struct {
	expr  *nd
	path  func(*nd) *nd // from the value of expr to the mutable array under test
	n     int           // its length
	str   bool          // element type string (else int)
	isLit bool          // a constant-only array literal stands directly where expr stands
}

func alElem(str bool, v int) *nd {
	if str {
		return A("\"" + string(rune('a'+v%20)) + "\"")
	}
	return I(int64(v))
}

func alElems(str bool, n, from int) []*nd {
	k := make([]*nd, n)
	for i := range k {
		k[i] = alElem(str, from+i)
	}
	return k
}

func alIdent(x *nd) *nd { return x }

func alConstruct(kind int, str bool, n int) alVal {
	if n < 1 {
		n = 1
	}
	gx := A("gx")
	if str {
		gx = A("gs")
	}
	el := alElems(str, n, 0)
	v := alVal{n: n, str: str, path: alIdent}
	switch kind {
	case alConsConst:
		v.expr, v.isLit = SQ(el...), true
	case alConsConst1:
		v.n = 1
		v.expr, v.isLit = SQ(alElem(str, 5)), true
	case alConsVarEl:
		el[0] = gx
		v.expr = SQ(el...)
	case alConsCallEl:
		if str {
			el[0] = L(A("concat"), alElem(true, 0), alElem(true, 1))
		} else {
			el[0] = L(A("+"), I(1), I(0))
		}
		v.expr = SQ(el...)
	case alConsNestInner:
		v.expr, v.isLit = SQ(SQ(el...), SQ(alElem(str, 0))), true
		v.path = func(r *nd) *nd { return L(A("aget"), r, I(0)) }
	case alConsNestOuter:
		v.expr, v.isLit = SQ(SQ(el...), SQ(alElem(str, 0))), true
		v.n = 2
	case alConsNestVar:
		el[0] = gx
		v.expr = SQ(SQ(el...), alElem(str, 0))
		v.path = func(r *nd) *nd { return L(A("aget"), r, I(0)) }
	case alConsArrayFn:
		v.expr = L(append([]*nd{A("array")}, el...)...)
	case alConsArrayFnVar:
		el[0] = gx
		v.expr = L(append([]*nd{A("array")}, el...)...)
	case alConsList:
		v.expr = L(A("list"), SQ(el...), alElem(str, 0))
		v.path = func(r *nd) *nd { return L(A("first"), r) }
	case alConsCons:
		v.expr = L(A("cons"), SQ(el...), A("nil"))
		v.path = func(r *nd) *nd { return L(A("first"), r) }
	case alConsListNest:
		v.expr = L(A("list"), L(A("list"), SQ(el...)))
		v.path = func(r *nd) *nd { return L(A("first"), L(A("first"), r)) }
	case alConsAppendLit:
		v.expr = L(A("append"), SQ(el[:n-1]...), el[n-1])
	case alConsAppendVar:
		v.n = 2
		v.expr = L(A("append"), A(alGv(str)), alElem(str, 1))
	case alConsConcatLit:
		v.expr = L(A("concat"), SQ(el[:1]...), SQ(el[1:]...))
	case alConsConcatVar:
		v.n = 2
		v.expr = L(A("concat"), A(alGv(str)), SQ(alElem(str, 1)))
	case alConsConcat1:
		v.n = 2
		v.expr = L(A("concat"), A(alGw(str)))
	case alConsMapLit:
		v.expr = L(A("map"), A("idf"), SQ(el...))
	case alConsRestLit:
		v.expr = L(A("rest"), SQ(append([]*nd{alElem(str, 9)}, el...)...))
	case alConsFnRet:
		v.n = 2
		v.expr = L(A(map[bool]string{false: "mkarr", true: "mkstr"}[str]))
	case alConsCondLit:
		v.expr = L(A("cond"), A("gp"), SQ(el...), SQ(alElem(str, 9), alElem(str, 9)))
	case alConsLetLit:
		v.expr = L(A("let"), SQ(A("z"), SQ(el...)), A("z"))
	}
	return v
}

func alGv(str bool) string {
	if str {
		return "gvs"
	}
	return "gv"
}
func alGw(str bool) string {
	if str {
		return "gws"
	}
	return "gw"
}

// ---- positions

const (
	alPosBare = iota
	alPosUser
	alPosUser2
	alPosVar
	alPosVar2
	alPosClo
	alPosAnon
	alPosTrace
	alPosFirstList
	alPosAgetLit
	alPosAgetDefault
	alPosApplyArr
	alPosApplyList
	alPosMap
	alPosLazy
	alPosBegin
	alPosCondArm
	alPosCondArmConstTest
	alPosCondDefault
	alPosAnd
	alPosOr
	alPosLetInit
	alPosLetseqInit
	alPosLetBody
	alPosNewScope
	alPosDef
	alPosSet
	alPosBuiltin2 // second operand of a builtin that returns it: (second (list 1 X))
	alNPos
)

var alPosNames = []string{"bare", "operand of user fn", "2nd operand of user fn", "variadic operand", "variadic operand after fixed",
	"operand of closure", "operand of anonymous fn", "operand of host fn", "operand of builtin list", "element of literal + aget",
	"aget default", "apply (array)", "apply (list)", "map element", "lazy operand forced", "begin last", "cond arm", "cond arm (literal test)",
	"cond default", "and last", "or last", "let initialiser", "letseq initialiser", "let body", "newScope", "def rhs", "set rhs",
	"2nd operand of builtin list"}

// operand positions: the expression is compiled at run time by EvalCallExpression on every
// execution of the call; all others are compiled once when the text is loaded
var alPosIsOperand = map[int]bool{alPosUser: true, alPosUser2: true, alPosVar: true, alPosVar2: true, alPosClo: true,
	alPosAnon: true, alPosTrace: true, alPosFirstList: true, alPosAgetDefault: true, alPosLazy: true, alPosBuiltin2: true}

func alWrap(pos int, x *nd) *nd {
	switch pos {
	case alPosUser:
		return L(A("idf"), x)
	case alPosUser2:
		return L(A("snd"), I(1), x)
	case alPosVar:
		return L(A("va"), x)
	case alPosVar2:
		return L(A("va2"), I(0), x)
	case alPosClo:
		return L(A("hid"), x)
	case alPosAnon:
		return L(L(A("fn"), SQ(A("a")), A("a")), x)
	case alPosTrace:
		return L(A("trace"), x)
	case alPosFirstList:
		return L(A("first"), L(A("list"), x, I(1)))
	case alPosBuiltin2:
		return L(A("second"), L(A("list"), I(1), x))
	case alPosAgetLit:
		return L(A("aget"), SQ(x), I(0))
	case alPosAgetDefault:
		return L(A("aget"), A("gempty"), I(0), x)
	case alPosApplyArr:
		return L(A("apply"), A("idf"), SQ(x))
	case alPosApplyList:
		return L(A("apply"), A("idf"), L(A("list"), x))
	case alPosMap:
		return L(A("first"), L(A("map"), A("idf"), L(A("list"), x)))
	case alPosLazy:
		return L(A("lzf"), x)
	case alPosBegin:
		return L(A("begin"), I(1), x)
	case alPosCondArm:
		return L(A("cond"), A("gp"), x, A("nil"))
	case alPosCondArmConstTest:
		return L(A("cond"), A("true"), x, A("nil"))
	case alPosCondDefault:
		return L(A("cond"), A("gq"), A("nil"), x)
	case alPosAnd:
		return L(A("and"), I(1), x)
	case alPosOr:
		return L(A("or"), A("false"), x)
	case alPosLetInit:
		return L(A("let"), SQ(A("z"), x), A("z"))
	case alPosLetseqInit:
		return L(A("letseq"), SQ(A("y"), I(1), A("z"), x), A("z"))
	case alPosLetBody:
		return L(A("let"), SQ(A("y"), I(1)), x)
	case alPosNewScope:
		return L(A("newScope"), x)
	case alPosDef:
		return L(A("def"), A("dz"), x)
	case alPosSet:
		return L(A("set"), A("sz"), x)
	}
	return x
}

// ---- routes, mutations, observations

const (
	alRouteCalls = iota // (defn site [] S); called twice in one text
	alRouteTexts        // site defined in the first text, called by later texts
	alRouteLoop         // top-level for body
	alRouteLoopFn       // for body inside a function that is called twice
	alRouteRec          // non-tail recursion
	alRouteTail         // self tail call with an accumulator
	alRouteClosure1     // (defn mk [] (fn [] S)); one closure called twice after mk returned
	alRouteClosure2     // two closures of the same template
	alRouteMap          // (map (fn [e] S) [1 2 3])
	alRouteTwice        // control: S written twice
	alNRoute
)

var alRouteNames = []string{"fn called twice", "fn called by later texts", "for body", "for body in fn called twice", "recursion",
	"self tail call", "closure called twice after creator returned", "two closures of one template", "map", "written twice (control)"}

const (
	alMutAset = iota
	alMutAlias
	alMutCallee
	alMutIncr
	alMutInSite // the site is (bump S): the callee mutates what it was handed and returns it
	alMutNone
	alNMut
)

var alMutNames = []string{"aset", "aset through alias", "aset through callee parameter", "increment in place", "inside the callee it was passed to", "none"}

const (
	alObsBoth = iota
	alObsFirst
	alObsSecond
	alObsEqual
	alObsIdentity
	alObsTrace
	alNObs
)

var alObsNames = []string{"both results", "earlier result", "later result", "equality of an element", "identity (write later, read earlier)", "trace"}

type alScen struct {
	cons  int
	str   bool
	n     int
	pos   []int // outermost first
	route int
	mut   int
	idx   int
	obs   int
	pre   bool // a statement before S in the body of the site function
	split int  // for alRouteTexts and the follow-up: how the forms are cut into texts
}

// prelude: helpers every scenario may use
func alPrelude() []*nd {
	return []*nd{
		L(A("defn"), A("idf"), SQ(A("a")), A("a")),
		L(A("defn"), A("snd"), SQ(A("p"), A("a")), A("a")),
		L(A("defn"), A("va"), SQ(A("&"), A("l")), L(A("first"), A("l"))),
		L(A("defn"), A("va2"), SQ(A("p"), A("&"), A("l")), L(A("first"), A("l"))),
		L(A("def"), A("hid"), L(A("fn"), SQ(A("a")), A("a"))),
		L(A("defn"), A("lzf"), SQ(A("#x")), L(A("force"), A("#x"))),
		L(A("defn"), A("poke"), SQ(A("a"), A("i"), A("v")), L(A("aset"), A("a"), A("i"), A("v"))),
		L(A("defn"), A("mkarr"), SQ(), SQ(I(0), I(1))),
		L(A("defn"), A("mkstr"), SQ(), SQ(alElem(true, 0), alElem(true, 1))),
		L(A("def"), A("gx"), I(0)), L(A("def"), A("gs"), alElem(true, 0)),
		L(A("def"), A("gv"), SQ(I(0))), L(A("def"), A("gvs"), SQ(alElem(true, 0))),
		L(A("def"), A("gw"), SQ(I(0), I(1))), L(A("def"), A("gws"), SQ(alElem(true, 0), alElem(true, 1))),
		L(A("def"), A("gempty"), SQ()), L(A("def"), A("gp"), A("true")), L(A("def"), A("gq"), A("false")),
	}
}

func (sc *alScen) val() alVal { return alConstruct(sc.cons, sc.str, sc.n) }

// the new element value written by the k-th mutation
func (sc *alScen) newv(k int) *nd {
	if sc.str {
		return A("\"" + string(rune('m'+k%10)) + "\"")
	}
	return I(int64(70 + k))
}

// the same inside a loop / recursion / map body: a value that differs from execution to
// execution (`ctr` = the loop counter, recursion parameter or map element)
func (sc *alScen) newvAt(ctr string) *nd {
	if sc.str {
		return L(A("cond"), L(A("=="), A(ctr), I(1)), A("\"p\""), L(A("=="), A(ctr), I(2)), A("\"q\""), A("\"r\""))
	}
	return L(A("+"), I(50), A(ctr))
}

func (sc *alScen) incr(x *nd) *nd {
	if sc.str {
		return L(A("concat"), x, A("\"+\""))
	}
	return L(A("+"), I(1), x)
}

// site expression: the constructor inside its positions (and inside the mutating callee)
func (sc *alScen) site() *nd {
	x := sc.val().expr
	for i := len(sc.pos) - 1; i >= 0; i-- {
		x = alWrap(sc.pos[i], x)
	}
	if sc.mut == alMutInSite {
		x = L(A("bump"), x)
	}
	return x
}

// helper `bump`: increments element idx of the array under test of its operand, returns the operand
func (sc *alScen) bumpDef() *nd {
	p := sc.val().path(A("a"))
	return L(A("defn"), A("bump"), SQ(A("a")), L(A("aset"), p, I(int64(sc.idx)), sc.incr(L(A("aget"), p, I(int64(sc.idx))))), A("a"))
}

// mutation of the result bound to name r (k-th mutation); `ctr` != "": inside a function or
// loop body (the alias is a let, the value written depends on ctr), else top level (the alias
// is a def)
func (sc *alScen) mutate(r string, k int, ctr string) []*nd {
	p := sc.val().path(A(r))
	i := I(int64(sc.idx))
	local := ctr != ""
	nv := sc.newv(k)
	if local {
		nv = sc.newvAt(ctr)
	}
	switch sc.mut {
	case alMutAset:
		return []*nd{L(A("aset"), p, i, nv)}
	case alMutAlias:
		if local {
			return []*nd{L(A("let"), SQ(A("al"), p), L(A("aset"), A("al"), i, nv))}
		}
		return []*nd{L(A("def"), A("al"), p), L(A("aset"), A("al"), i, nv)}
	case alMutCallee:
		return []*nd{L(A("poke"), p, i, nv)}
	case alMutIncr:
		return []*nd{L(A("aset"), p, i, sc.incr(L(A("aget"), p, i)))}
	}
	return nil
}

func (sc *alScen) observe(r1, r2 string) []*nd {
	v := sc.val()
	i := I(int64(sc.idx))
	switch sc.obs {
	case alObsFirst:
		return []*nd{A(r1)}
	case alObsSecond:
		return []*nd{A(r2)}
	case alObsEqual:
		return []*nd{L(A("=="), L(A("aget"), v.path(A(r1)), i), L(A("aget"), v.path(A(r2)), i))}
	case alObsIdentity:
		return []*nd{L(A("aset"), v.path(A(r2)), i, sc.newv(9)), L(A("aget"), v.path(A(r1)), i)}
	case alObsTrace:
		return []*nd{L(A("trace"), A(r1)), L(A("trace"), A(r2)), A("nil")}
	}
	return []*nd{L(A("list"), A(r1), A(r2))}
}

// texts of the scenario: a list of texts, each a list of top-level forms
func (sc *alScen) texts() [][]*nd {
	S := sc.site()
	var pre []*nd
	pre = append(pre, alPrelude()...)
	if sc.mut == alMutInSite {
		pre = append(pre, sc.bumpDef())
	}
	body := func(last *nd) []*nd {
		if sc.pre {
			return []*nd{L(A("trace"), A("gx")), last}
		}
		return []*nd{last}
	}
	defn := func(name string, params *nd, forms ...*nd) *nd {
		return L(append([]*nd{A("defn"), A(name), params}, forms...)...)
	}
	three := I(3)
	forHead := func() *nd {
		return SQ(L(A("def"), A("i"), I(0)), L(A("<"), A("i"), three), L(A("set"), A("i"), L(A("+"), A("i"), I(1))))
	}
	var main []*nd // forms after the prelude; cut into texts below
	cut := map[int]bool{}
	switch sc.route {
	case alRouteCalls, alRouteTexts:
		main = append(main, defn("site", SQ(), body(S)...))
		main = append(main, L(A("def"), A("r1"), L(A("site"))))
		if sc.route == alRouteTexts {
			cut[len(main)-sc.split%2] = true // before or after the first call
		}
		main = append(main, sc.mutate("r1", 1, "")...)
		if sc.route == alRouteTexts {
			cut[len(main)] = true
		}
		main = append(main, L(A("def"), A("r2"), L(A("site"))))
		main = append(main, L(A("trace"), A("r1")))
		main = append(main, sc.mutate("r2", 2, "")...)
		if sc.route == alRouteTexts && sc.split >= 2 {
			cut[len(main)] = true
			main = append(main, L(A("def"), A("r3"), L(A("site"))), L(A("trace"), A("r3")))
		}
		main = append(main, sc.observe("r1", "r2")...)
	case alRouteTwice:
		main = append(main, L(A("def"), A("r1"), S))
		main = append(main, sc.mutate("r1", 1, "")...)
		main = append(main, L(A("def"), A("r2"), sc.site()))
		main = append(main, sc.mutate("r2", 2, "")...)
		main = append(main, sc.observe("r1", "r2")...)
	case alRouteLoop:
		main = append(main, L(A("def"), A("rs"), SQ()))
		loop := []*nd{A("for"), forHead(), L(A("def"), A("r"), S)}
		loop = append(loop, sc.mutate("r", 1, "i")...)
		loop = append(loop, L(A("trace"), A("r")), L(A("set"), A("rs"), L(A("append"), A("rs"), A("r"))))
		main = append(main, L(loop...))
		main = append(main, L(A("def"), A("r1"), L(A("aget"), A("rs"), I(0))), L(A("def"), A("r2"), L(A("aget"), A("rs"), I(2))))
		main = append(main, sc.mutate("r2", 2, "")...)
		main = append(main, L(A("trace"), A("rs")))
		main = append(main, sc.observe("r1", "r2")...)
	case alRouteLoopFn:
		loop := []*nd{A("for"), forHead(), L(A("def"), A("r"), S)}
		loop = append(loop, sc.mutate("r", 1, "i")...)
		loop = append(loop, L(A("set"), A("rs"), L(A("append"), A("rs"), A("r"))))
		main = append(main, defn("run", SQ(), L(A("def"), A("rs"), SQ()), L(loop...), A("rs")))
		main = append(main, L(A("def"), A("q1"), L(A("run"))))
		if sc.split%2 == 1 {
			cut[len(main)] = true
		}
		main = append(main, L(A("def"), A("q2"), L(A("run"))), L(A("trace"), A("q1")), L(A("trace"), A("q2")))
		main = append(main, L(A("def"), A("r1"), L(A("aget"), A("q1"), I(1))), L(A("def"), A("r2"), L(A("aget"), A("q2"), I(0))))
		main = append(main, sc.mutate("r2", 2, "")...)
		main = append(main, sc.observe("r1", "r2")...)
	case alRouteRec:
		inner := []*nd{A("let"), SQ(A("r"), S)}
		inner = append(inner, sc.mutate("r", 1, "n")...)
		inner = append(inner, L(A("append"), L(A("rec"), L(A("-"), A("n"), I(1))), A("r")))
		main = append(main, defn("rec", SQ(A("n")), body(L(A("cond"), L(A("=="), A("n"), I(0)), SQ(), L(inner...)))...))
		main = append(main, L(A("def"), A("rs"), L(A("rec"), three)), L(A("trace"), A("rs")))
		main = append(main, L(A("def"), A("r1"), L(A("aget"), A("rs"), I(0))), L(A("def"), A("r2"), L(A("aget"), A("rs"), I(2))))
		main = append(main, sc.mutate("r2", 2, "")...)
		main = append(main, sc.observe("r1", "r2")...)
	case alRouteTail:
		inner := []*nd{A("let"), SQ(A("r"), S)}
		inner = append(inner, sc.mutate("r", 1, "n")...)
		inner = append(inner, L(A("trc"), L(A("-"), A("n"), I(1)), L(A("append"), A("acc"), A("r"))))
		main = append(main, defn("trc", SQ(A("n"), A("acc")), body(L(A("cond"), L(A("=="), A("n"), I(0)), A("acc"), L(inner...)))...))
		main = append(main, L(A("def"), A("rs"), L(A("trc"), three, SQ())), L(A("trace"), A("rs")))
		main = append(main, L(A("def"), A("r1"), L(A("aget"), A("rs"), I(0))), L(A("def"), A("r2"), L(A("aget"), A("rs"), I(2))))
		main = append(main, sc.mutate("r2", 2, "")...)
		main = append(main, sc.observe("r1", "r2")...)
	case alRouteClosure1, alRouteClosure2:
		main = append(main, defn("mk", SQ(), L(append([]*nd{A("fn"), SQ()}, body(S)...)...)))
		main = append(main, L(A("def"), A("k1"), L(A("mk"))))
		k2 := "k1"
		if sc.route == alRouteClosure2 {
			main = append(main, L(A("def"), A("k2"), L(A("mk"))))
			k2 = "k2"
		}
		if sc.split%2 == 1 {
			cut[len(main)] = true
		}
		main = append(main, L(A("def"), A("r1"), L(A("k1"))))
		main = append(main, sc.mutate("r1", 1, "")...)
		if sc.split >= 2 {
			cut[len(main)] = true
		}
		main = append(main, L(A("def"), A("r2"), L(A(k2))), L(A("trace"), A("r1")))
		main = append(main, sc.mutate("r2", 2, "")...)
		main = append(main, sc.observe("r1", "r2")...)
	case alRouteMap:
		fn := []*nd{A("fn"), SQ(A("e"))}
		if sc.mut != alMutNone && sc.mut != alMutInSite {
			inner := []*nd{A("let"), SQ(A("r"), S)}
			inner = append(inner, sc.mutate("r", 1, "e")...)
			inner = append(inner, A("r"))
			fn = append(fn, L(inner...))
		} else {
			fn = append(fn, body(S)...)
		}
		coll := SQ(I(1), I(2), I(3))
		if sc.split%2 == 1 {
			coll = L(A("list"), I(1), I(2), I(3))
		}
		main = append(main, L(A("def"), A("rs"), L(A("map"), L(fn...), coll)), L(A("trace"), A("rs")))
		get := func(k int) *nd {
			if sc.split%2 == 1 {
				if k == 0 {
					return L(A("first"), A("rs"))
				}
				return L(A("first"), L(A("rest"), L(A("rest"), A("rs"))))
			}
			return L(A("aget"), A("rs"), I(int64(k)))
		}
		main = append(main, L(A("def"), A("r1"), get(0)), L(A("def"), A("r2"), get(2)))
		main = append(main, sc.mutate("r2", 2, "")...)
		main = append(main, sc.observe("r1", "r2")...)
	}
	// the global arrays the constructors read must not have changed either
	switch sc.cons {
	case alConsAppendVar, alConsConcatVar:
		main[len(main)-1] = L(A("list"), main[len(main)-1], A(alGv(sc.str)))
	case alConsConcat1:
		main[len(main)-1] = L(A("list"), main[len(main)-1], A(alGw(sc.str)))
	}
	texts := [][]*nd{pre}
	cur := []*nd{}
	for i, f := range main {
		if cut[i] && len(cur) > 0 {
			texts = append(texts, cur)
			cur = []*nd{}
		}
		cur = append(cur, f)
	}
	if sc.route == alRouteTexts || len(texts) > 1 || sc.split >= 2 {
		texts = append(texts, cur)
	} else {
		texts[0] = append(texts[0], cur...) // everything in one text
	}
	return texts
}

func (sc *alScen) valid() bool {
	v := sc.val()
	if sc.idx >= v.n {
		return false
	}
	// alConsNestOuter: the elements of the array under test are arrays: no increment
	if sc.cons == alConsNestOuter && (sc.mut == alMutIncr || sc.mut == alMutInSite) {
		return false
	}
	// ... and no `==` on them: comparison of arrays is outside the modelled core (Prim.compareVals
	// answers "cannot compare", the Go code compares element-wise)
	if sc.cons == alConsNestOuter && sc.obs == alObsEqual {
		return false
	}
	return true
}

func (sc *alScen) count(g *Gen, stream string) {
	g.Count("stream " + stream)
	g.Count("cons " + alConsNames[sc.cons])
	for _, p := range sc.pos {
		g.Count("pos " + alPosNames[p])
	}
	g.Count(fmt.Sprintf("pos nesting %d", len(sc.pos)))
	g.Count("route " + alRouteNames[sc.route])
	g.Count("mut " + alMutNames[sc.mut])
	g.Count("obs " + alObsNames[sc.obs])
	g.Count(fmt.Sprintf("idx %d", sc.idx))
	if sc.str {
		g.Count("elements strings")
	} else {
		g.Count("elements ints")
	}
	v := sc.val()
	innermost := alPosBare
	if len(sc.pos) > 0 {
		innermost = sc.pos[len(sc.pos)-1]
	}
	operand := alPosIsOperand[innermost] || (len(sc.pos) == 0 && sc.mut == alMutInSite)
	if operand {
		g.Count("class constructor directly in operand position (compiled per call)")
	} else {
		g.Count("class constructor in a position compiled at load time")
	}
	if v.isLit && operand && sc.route != alRouteTwice && sc.mut != alMutNone {
		g.Count("class constant literal as operand x re-executed x mutated")
	}
	if v.isLit && !operand && sc.route != alRouteTwice && sc.mut != alMutNone {
		g.Count("class constant literal inline x re-executed x mutated")
	}
}

func alRender(texts [][]*nd, g *Gen) string {
	var ts []string
	for _, t := range texts {
		ts = append(ts, renderProg(t, g))
	}
	return strings.Join(ts, " ")
}

func (sc *alScen) emit(g *Gen, stream string) {
	sc.count(g, stream)
	g.Emit("%s", alRender(sc.texts(), g))
}

func alRandom(g *Gen, maxNest int) *alScen {
	for {
		sc := &alScen{cons: g.Rng.Intn(alNCons), str: g.Rng.Intn(4) == 0, n: 1 + g.Rng.Intn(3), route: g.Rng.Intn(alNRoute),
			mut: g.Rng.Intn(alNMut), obs: g.Rng.Intn(alNObs), pre: g.Rng.Intn(3) == 0, split: g.Rng.Intn(4)}
		for k := g.Rng.Intn(maxNest + 1); k > 0; k-- {
			sc.pos = append(sc.pos, g.Rng.Intn(alNPos))
		}
		sc.idx = g.Rng.Intn(sc.val().n)
		if sc.valid() {
			return sc
		}
	}
}

// ---- derived values: the result of a builtin applied to an existing array must not share
// storage with it (both directions), whatever the spare capacity of the argument

func alDerived(g *Gen) {
	mk := []struct {
		name string
		expr func(v string) *nd
		off  int // index in the source of element 0 of the result
	}{
		{"append", func(v string) *nd { return L(A("append"), A(v), I(9)) }, 0},
		{"concat2", func(v string) *nd { return L(A("concat"), A(v), SQ(I(9))) }, 0},
		{"concat-empty", func(v string) *nd { return L(A("concat"), A(v), SQ()) }, 0},
		{"concat1", func(v string) *nd { return L(A("concat"), A(v)) }, 0},
		{"map", func(v string) *nd { return L(A("map"), A("idf"), A(v)) }, 0},
		{"rest", func(v string) *nd { return L(A("rest"), A(v)) }, 1},
		{"rest-rest", func(v string) *nd { return L(A("rest"), L(A("rest"), A(v))) }, 2},
	}
	srcs := []struct {
		name string
		expr *nd
	}{
		{"literal", SQ(I(1), I(2), I(3))},
		{"appended", L(A("append"), L(A("append"), SQ(I(1), I(2)), I(3)), I(4))}, // spare capacity after two appends
		{"array-fn", L(A("array"), I(1), I(2), I(3))},
		{"rest-of", L(A("rest"), SQ(I(0), I(1), I(2), I(3)))},
	}
	for _, m := range mk {
		if strings.HasPrefix(m.name, "rest") && !alRestFull {
			continue
		}
		for _, s := range srcs {
			for dir := 0; dir < 4; dir++ {
				forms := []*nd{L(A("defn"), A("idf"), SQ(A("a")), A("a")), L(A("def"), A("v"), s.expr), L(A("def"), A("w"), m.expr("v"))}
				switch dir {
				case 0: // write the result, read the source
					forms = append(forms, L(A("aset"), A("w"), I(0), I(70)))
				case 1: // write the source, read the result
					forms = append(forms, L(A("aset"), A("v"), I(int64(m.off)), I(71)))
				case 2: // two results of the same source, write one
					forms = append(forms, L(A("def"), A("u"), m.expr("v")), L(A("aset"), A("u"), I(0), I(72)), L(A("trace"), A("u")))
				case 3: // grow both results (spare capacity shared?)
					forms = append(forms, L(A("def"), A("u"), L(A("append"), A("w"), I(5))), L(A("def"), A("t"), L(A("append"), A("w"), I(6))), L(A("trace"), A("u")), L(A("trace"), A("t")))
				}
				forms = append(forms, L(A("list"), A("v"), A("w")))
				g.Count("stream derived")
				g.Count("derived " + m.name + " of " + s.name)
				g.Emit("%s", renderProg(forms, nil))
			}
		}
	}
}

// Hand-written histories, run first on every check.
var alFixed = []string{
	// the shapes of the first report: a constant literal as the operand of a mutating function
	"(defn bump [a] (aset a 0 (+ 1 (aget a 0))) a) (defn fresh [] (bump [0 0])) (fresh) (fresh) (fresh)",
	"(defn bump [a] (aset a 0 (+ 1 (aget a 0))) a) (defn fresh [] (bump [0 0])) (fresh)\x00(fresh)\x00(fresh)",
	"(defn push1 [a x] (aset a 0 (+ x (aget a 0))) a) (def total 0) (for [(def i 1) (<= i 4) (set i (+ i 1))] (def r (push1 [100 7] i)) (trace (aget r 0)) (set total (+ total (aget r 0)))) total",
	"(defn mark [a n] (aset a 1 (+ n (aget a 1))) (aget a 1)) (defn sum [n] (cond (== n 0) 0 (+ (mark [0 0 0] n) (sum (- n 1))))) (sum 4)",
	// the same with the literal compiled inline
	"(defn fresh [] (def a [0 0]) (aset a 0 (+ 1 (aget a 0))) a) (fresh) (fresh)",
	"(defn fresh [] (let [a [0 0]] (aset a 0 (+ 1 (aget a 0))) a)) (fresh) (list (fresh) (fresh))",
	"(defn fresh [] [0 0]) (def x (fresh)) (aset x 0 9) (def y (fresh)) (list x y)",
	"(defn fresh [] [[0] 1]) (def x (fresh)) (aset (aget x 0) 0 9) (def y (fresh)) (list x y)",
	"(defn fresh [] (array 0 0)) (def x (fresh)) (aset x 0 9) (list x (fresh))",
	"(defn fresh [] (list [0] 1)) (def x (fresh)) (aset (first x) 0 9) (list x (fresh))",
	// counters: every closure of one template owns the array its maker built
	"(defn mkc [] (let [c [0]] (fn [] (aset c 0 (+ 1 (aget c 0))) (aget c 0)))) (def k1 (mkc)) (def k2 (mkc)) (k1) (k1) (list (k1) (k2))",
	"(defn mkc [] (let [c [0]] (fn [] (aset c 0 (+ 1 (aget c 0))) (aget c 0)))) (def k1 (mkc)) (k1)\x00(def k2 (mkc)) (k1)\x00(list (k1) (k2))",
	// an array passed by reference IS shared: mutation through the parameter is seen by the caller
	"(defn poke [a] (aset a 0 7)) (def v [0 0]) (poke v) (def w v) (aset w 1 8) v",
	"(def v [1 2 3]) (def w (append v 4)) (aset w 0 9) (aset v 1 8) (list v w)",
}

// Known findings C02-K6/K7 (notes/C02.known.json; fix proposal fixes/C02-05-rest-copies): the
// array `rest` returns shares the storage of its argument.
var alKnown = []string{
	"(def v [1 2 3]) (def w (rest v)) (aset w 0 70) (list v w)",
	"(def v [1 2 3]) (def w (rest v)) (aset v 1 71) (list v w)",
}

func aliasGen(g *Gen) {
	for _, t := range alFixed {
		g.Emit("%s", strings.ReplaceAll(strings.ReplaceAll(t, " ", "~"), "\x00", " "))
		g.Count("stream fixed")
	}
	for _, t := range alKnown {
		g.Emit("%s", strings.ReplaceAll(t, " ", "~"))
		g.Count("stream fixed known-finding")
	}
	alDerived(g)
	// cover: every constructor x every position; route, mutation, observation and index cycle
	// with co-prime strides so that constructor x route, position x route, constructor x
	// mutation all occur
	k := 0
	for c := 0; c < alNCons; c++ {
		for p := 0; p < alNPos; p++ {
			reps := 1
			if g.Thorough() {
				reps = alNRoute
			}
			for rep := 0; rep < reps; rep++ {
				for try := 0; try < 40; try++ {
					sc := &alScen{cons: c, pos: []int{p}, route: (k + c) % alNRoute, mut: (k/3 + p) % alNMut, obs: (k / 7) % alNObs,
						n: 1 + k%3, str: k%5 == 4, pre: k%4 == 3, split: k % 4}
					if p == alPosBare {
						sc.pos = nil
					}
					sc.idx = (k / 2) % sc.val().n
					k++
					if sc.valid() {
						sc.emit(g, "cover")
						break
					}
				}
			}
		}
	}
	// every constructor x route x mutation (position random)
	for c := 0; c < alNCons; c++ {
		for r := 0; r < alNRoute; r++ {
			for m := 0; m < alNMut; m++ {
				if !g.Thorough() && (c+r+m)%3 != int(g.Seed%3+3)%3 {
					continue
				}
				for try := 0; try < 40; try++ {
					sc := alRandom(g, 1)
					sc.cons, sc.route, sc.mut = c, r, m
					sc.idx = g.Rng.Intn(sc.val().n)
					if sc.valid() {
						sc.emit(g, "cons x route x mut")
						break
					}
				}
			}
		}
	}
	nRnd, nMal := 250, 60
	if g.Thorough() {
		nRnd, nMal = 12000, 1500
	}
	for i := 0; i < nRnd; i++ {
		alRandom(g, 3).emit(g, "rnd")
	}
	for i := 0; i < nMal; i++ {
		sc := alRandom(g, 2)
		if sc.obs == alObsEqual {
			// a tree mutation can put arrays where `==` expects scalars; comparison of arrays is
			// outside the modelled core (see valid)
			sc.obs = alObsBoth
		}
		texts := sc.texts()
		e := &evg{g: g}
		t := g.Rng.Intn(len(texts))
		what := "none"
		for try := 0; try < 12 && what == "none"; try++ {
			what = e.mutate(texts[t][len(texts[t])/2:]) // spare the prelude
		}
		for _, f := range texts[t] {
			if f.leaf() && strings.HasSuffix(f.atom, ":") {
				f.atom = "0"
			} else {
				neutraliseStrayLabels(f)
			}
		}
		g.Count("stream mal")
		g.Count("mal " + what)
		g.Emit("%s", alRender(texts, g))
	}
}

func init() { channels["alias"] = &Channel{Gen: aliasGen, Exec: evalExec} }
