package main

// Channel eval (C02, reused by C03/C09/C16): a history of program texts against ONE
// interpreter (zygo.NewZlisp(), plus the host function `trace`).
//
//	eval <text1> <text2> ...
//
// A text is the program with every blank written as `~` (so it is one token of the op
// line); the real code receives it with blanks restored and a trailing newline.
// Answer: one record per text, records joined by " ;; ":
//
//	<class> <value> T[<trace>] D[<data>,<scope>,<addr>,<loop>]
//
// class: ok | err (Run returned an error) | cerr (LoadString returned an error: parse or
// code generation) | panic (a Go panic reached the host) | timeout (call budget exceeded;
// implemented with a pre-hook that panics). value: canonical print of the result (`-`
// unless ok). trace: the printed first argument of every `trace` call made by this text,
// comma separated. D: the four stack depths after the text. After a panic the interpreter
// is not used any more: the remaining texts answer `dead`.

import (
	"fmt"
	"strconv"
	"strings"
	"time"

	"github.com/glycerine/zygomys/v9/zygo"
)

const evalPrintDepth = 6

func evalCanon(s zygo.Sexp, d int) string {
	switch x := s.(type) {
	case *zygo.SexpSentinel:
		if x == zygo.SexpNull {
			return "nil"
		}
		return "?sentinel"
	case *zygo.SexpBool:
		if x.Val {
			return "true"
		}
		return "false"
	case *zygo.SexpInt:
		return strconv.FormatInt(x.Val, 10)
	case *zygo.SexpStr:
		return "\"" + x.S + "\""
	case *zygo.SexpFunction:
		return "fn"
	case *zygo.SexpLazyArg:
		return "lazy"
	case *zygo.SexpSymbol:
		return x.Name() // symbols occur as data only in the source `substitute` returns (C16)
	case *zygo.SexpArray:
		if d == 0 {
			return "..."
		}
		parts := make([]string, len(x.Val))
		for i, e := range x.Val {
			parts[i] = evalCanon(e, d-1)
		}
		return "[" + strings.Join(parts, " ") + "]"
	case *zygo.SexpPair:
		if d == 0 {
			return "..."
		}
		var parts []string
		var cur zygo.Sexp = x
		for {
			p, ok := cur.(*zygo.SexpPair)
			if !ok {
				break
			}
			parts = append(parts, evalCanon(p.Head, d-1))
			cur = p.Tail
		}
		if cur != zygo.SexpNull {
			parts = append(parts, "\\", evalCanon(cur, d-1))
		}
		return "(" + strings.Join(parts, " ") + ")"
	case nil:
		return "?gonil"
	}
	return fmt.Sprintf("?%T", s)
}

type evalTimeout struct{}

const evalCallBudget = 20000

// evalExec runs the history under a wall-clock watchdog: a self tail call compiled to a
// `goto` makes no call, so the call budget cannot see a loop like (defn f [a] (f a)).
// On expiry the answer is `hang` and the goroutine is abandoned (it keeps one CPU busy
// until the process ends; the generators produce such programs very rarely).
func evalExec(toks []string) string {
	done := make(chan string, 1)
	go func() {
		defer func() {
			if r := recover(); r != nil {
				done <- "HOSTPANIC " + strings.ReplaceAll(fmt.Sprint(r), "\n", " ")
			}
		}()
		done <- evalExecInner(toks)
	}()
	select {
	case r := <-done:
		return r
	case <-time.After(5 * time.Second):
		return "hang"
	}
}

func evalExecInner(toks []string) string {
	if len(toks) > 0 && toks[0] == "+argbrk" {
		toks = toks[1:] // a flag for the spec side only (see Driver/Eval.lean)
	}
	env := zygo.NewZlisp()
	defer env.Close()
	if len(toks) > 0 && toks[0] == "+std" {
		toks = toks[1:] // channel `lazy` (C16): typed `func` declarations need the standard builders
		env.StandardSetup()
	}
	var trace []string
	env.AddFunction("trace", func(env *zygo.Zlisp, name string, args []zygo.Sexp) (zygo.Sexp, error) {
		if len(args) == 0 {
			trace = append(trace, "nil")
			return zygo.SexpNull, nil
		}
		trace = append(trace, evalCanon(args[0], evalPrintDepth))
		return args[0], nil
	})
	calls := 0
	timedOut := false
	env.AddPreHook(func(env *zygo.Zlisp, name string, args []zygo.Sexp) {
		calls++
		if calls > evalCallBudget {
			// the recover() of CallUserFunction may swallow this panic when a builtin
			// (map, apply) is on the Go stack: the flag is what counts
			timedOut = true
			panic(evalTimeout{})
		}
	})
	var out []string
	dead := false
	for _, t := range toks {
		if dead {
			out = append(out, "dead")
			continue
		}
		text := strings.ReplaceAll(t, "~", " ") + "\n"
		trace = nil
		calls = 0
		class, val := "ok", "-"
		func() {
			defer func() {
				if r := recover(); r != nil {
					if _, isT := r.(evalTimeout); isT {
						class = "timeout"
					} else {
						class = "panic"
					}
					val = "-"
				}
			}()
			if err := env.LoadString(text); err != nil {
				class = "cerr"
				return
			}
			res, err := env.Run()
			if err != nil {
				class = "err"
				return
			}
			val = evalCanon(res, evalPrintDepth)
		}()
		if timedOut {
			class = "timeout"
		}
		if class == "panic" || class == "timeout" {
			dead = true
			out = append(out, fmt.Sprintf("%s - T[%s] D[-]", class, strings.Join(trace, ",")))
			continue
		}
		d, s, a, l := env.VerifDepths()
		out = append(out, fmt.Sprintf("%s %s T[%s] D[%d,%d,%d,%d]", class, val, strings.Join(trace, ","), d, s, a, l))
	}
	return strings.Join(out, " ;; ")
}

func init() { channels["eval"] = &Channel{Gen: evalGen, Exec: evalExec} }
