package main

// Channel expand (C06): infix blocks through the REAL lexer, parser and Pratt expander.
//
//   expand tree <spacing> <tok>…            -> statements of (infixExpand {…}) in canonical form, " | "-joined; err
//   expand val  <spacing> <tok>… => <codes> -> eq <value> | ne <block value> <prefix value>   (phase 2, built by checks/C06.py:
//                                              <codes> is the prefix form the SPEC computed, as code points)
//   expand ops                              -> the live operator table env.infixOps (needs the overlay accessor)
//
// Token words: s:NAME symbol (s:&& and s:|| are the alternative spellings of and/or), d:NAME
// dot-symbol, l:NAME `NAME:`, n:TEXT literal, o:TEXT other literal, `,` `;` `{}`, `[ … ]`,
// `( … )`, `{ … }`. <spacing>: S = one space in every gap, else `g` followed by one digit per gap
// between rendered pieces (0 none, 1 space, 2 newline, 3 tab, 4 two spaces, 5 CR LF); missing digits mean space.
//
//   expand ltoks <spacing> <tok>…           -> the token queue of a fresh lexer after the rendered text and a newline
//                                              (typ:codes,… | st=<state> buf=<codes>, or … | !<error>)
//   expand ltree <spacing> <tok>…           -> as tree; the driver's model column lexes and parses the text with the
//                                              Lean models of lexer.go and parser.go, its spec column answers only for
//                                              spacings that Spec/Spacing.lean calls legal

import (
	"fmt"
	"sort"
	"strconv"
	"strings"

	"github.com/glycerine/zygomys/v9/zygo"
)

type xtok struct {
	kind byte // s d l n o , ; h [ ( {
	text string
	kids []xtok
}

func xs(name string) xtok { return xtok{kind: 's', text: name} }
func xn(text string) xtok { return xtok{kind: 'n', text: text} }

func (t xtok) words() []string {
	switch t.kind {
	case 's', 'd', 'l', 'n', 'o':
		return []string{string(t.kind) + ":" + t.text}
	case ',':
		return []string{","}
	case ';':
		return []string{";"}
	case 'h':
		return []string{"{}"}
	}
	open, close := "[", "]"
	if t.kind == '(' {
		open, close = "(", ")"
	} else if t.kind == '{' {
		open, close = "{", "}"
	}
	w := []string{open}
	for _, k := range t.kids {
		w = append(w, k.words()...)
	}
	return append(w, close)
}

func xwords(ts []xtok) string {
	var w []string
	for _, t := range ts {
		w = append(w, t.words()...)
	}
	return strings.Join(w, " ")
}

func xparse(ws []string, close string) ([]xtok, []string, bool) {
	var out []xtok
	for len(ws) > 0 {
		w := ws[0]
		ws = ws[1:]
		if w == close {
			return out, ws, true
		}
		switch {
		case w == "[" || w == "(" || w == "{":
			cl := map[string]string{"[": "]", "(": ")", "{": "}"}[w]
			kids, rest, ok := xparse(ws, cl)
			if !ok {
				return nil, nil, false
			}
			out = append(out, xtok{kind: w[0], kids: kids})
			ws = rest
		case w == ",":
			out = append(out, xtok{kind: ','})
		case w == ";":
			out = append(out, xtok{kind: ';'})
		case w == "{}":
			out = append(out, xtok{kind: 'h'})
		case len(w) > 2 && w[1] == ':' && strings.ContainsRune("sdlno", rune(w[0])):
			out = append(out, xtok{kind: w[0], text: w[2:]})
		default:
			return nil, nil, false
		}
	}
	return out, nil, close == ""
}

// pieces: the source text fragments in order.
func xpieces(ts []xtok, out []string) []string {
	for _, t := range ts {
		switch t.kind {
		case 's', 'd', 'n', 'o':
			out = append(out, t.text)
		case 'l':
			out = append(out, t.text+":")
		case ',':
			out = append(out, ",")
		case ';':
			out = append(out, ";")
		case 'h':
			out = append(out, "{}")
		case '[':
			out = append(out, "[")
			out = xpieces(t.kids, out)
			out = append(out, "]")
		case '(':
			out = append(out, "(")
			out = xpieces(t.kids, out)
			out = append(out, ")")
		case '{':
			out = append(out, "{")
			out = xpieces(t.kids, out)
			out = append(out, "}")
		}
	}
	return out
}

func xrender(pieces []string, spacing string) string {
	var b strings.Builder
	for i, p := range pieces {
		if i > 0 {
			c := byte('1')
			if spacing != "S" && i < len(spacing) {
				c = spacing[i] // spacing[0] is the marker 'g'
			}
			switch c {
			case '0':
			case '2':
				b.WriteByte('\n')
			case '3':
				b.WriteByte('\t')
			case '4':
				b.WriteString("  ")
			case '5':
				b.WriteString("\r\n")
			default:
				b.WriteByte(' ')
			}
		}
		b.WriteString(p)
	}
	return b.String()
}

const xopChars = "+-*/<>=!&|:"

func isOpChar(c byte) bool   { return strings.IndexByte(xopChars, c) >= 0 }
func isOpenChar(c byte) bool { return c == '(' || c == '[' || c == '{' || c == ',' || c == ';' }
func isPunct(c byte) bool {
	return c == '(' || c == ')' || c == '[' || c == ']' || c == '{' || c == '}' || c == ',' || c == ';'
}
func isDigit(c byte) bool { return c >= '0' && c <= '9' }

func isNegLit(p string) bool { return len(p) >= 2 && p[0] == '-' && (isDigit(p[1]) || p[1] == '.') }

// mustSpace: may pieces l and r be written without a space between them and still lex as
// the same two tokens? prevTight/prevLast describe the gap and character before l.
// Returns true when a space is required.
func mustSpace(l, r string, prevTight bool, prevLast byte) bool {
	a, b := l[len(l)-1], r[0]
	if isNegLit(r) {
		// a negative literal must follow a character after which a sign may start a number
		return !isOpenChar(a)
	}
	if l == "{}" || r == "{}" {
		return true
	}
	if l == "{" && (b == '"' || b == '`') {
		return true
	}
	if isPunct(a) || isPunct(b) {
		return false
	}
	if isOpChar(a) && isOpChar(b) {
		return true // would merge (++, ==, //, /*, <-, ->, …)
	}
	if !isOpChar(a) && !isOpChar(b) {
		return true // two words / numbers / dot-symbols
	}
	if l == "-" && (isDigit(b) || b == '.') {
		// `x-1` is a subtraction only when the `-` directly follows an operand character
		// (lexer look-back); `x -1` is the known finding and is never generated here
		if !prevTight {
			return true
		}
		if prevLast == 0 || isOpChar(prevLast) || isOpenChar(prevLast) {
			return true
		}
	}
	if b == ':' || a == ':' {
		return true
	}
	return false
}

// spacingFor chooses a legal spacing string. mode: 0 all spaces ("S"), 1 as tight as legal,
// 2 random mix (with newlines between statements never inside; newline only where a space is
// equivalent: we use it after `;` and between juxtaposed statements at top level is left to callers).
func spacingFor(g *Gen, pieces []string, mode int) string {
	if mode == 0 {
		return "S"
	}
	var b strings.Builder
	b.WriteByte('g')
	prevTight := false
	var prevLast byte
	for i := 0; i+1 < len(pieces); i++ {
		l, r := pieces[i], pieces[i+1]
		need := mustSpace(l, r, prevTight, prevLast)
		tight := !need
		if tight && mode == 2 && g.Rng.Intn(2) == 0 {
			tight = false
		}
		// a `-` operator that was given a space before it and is followed by a digit keeps a space after it
		if tight && l == "-" && (isDigit(r[0]) || r[0] == '.') && !prevTight {
			tight = false
		}
		if tight {
			b.WriteByte('0')
		} else if mode == 2 && g.Rng.Intn(6) == 0 && (l == ";" ) {
			b.WriteByte('2')
		} else {
			b.WriteByte('1')
		}
		prevTight = tight
		prevLast = l[len(l)-1]
	}
	return b.String()
}

// ---------------------------------------------------------------- exec

var xenv *zygo.Zlisp

func xsetup() *zygo.Zlisp {
	if xenv == nil {
		xenv = zygo.NewZlisp()
		xenv.StandardSetup()
	}
	return xenv
}

func stripDigits(s string) string {
	if strings.HasPrefix(s, "__range_") {
		return strings.TrimRight(s, "0123456789")
	}
	return s
}

// canonDepth bounds the recursion of canon: a script can build a value that contains itself
// (an index-range selection shares storage with its array: {v[1] = v[i:j]}), and the harness's own
// printer must not die on it (a false alarm of the thorough tier: the death was the harness's).
var canonDepth int

func canon(s zygo.Sexp, b *strings.Builder) {
	canonDepth++
	defer func() { canonDepth-- }()
	if canonDepth > 60 {
		b.WriteString("...")
		return
	}
	switch x := s.(type) {
	case *zygo.SexpSymbol:
		b.WriteString(stripDigits(x.Name()))
	case *zygo.SexpInt:
		b.WriteString(strconv.FormatInt(x.Val, 10))
	case *zygo.SexpBool:
		if x.Val {
			b.WriteString("true")
		} else {
			b.WriteString("false")
		}
	case *zygo.SexpStr:
		b.WriteString(strconv.Quote(x.S))
	case *zygo.SexpArray:
		b.WriteByte('[')
		for i, e := range x.Val {
			if i > 0 {
				b.WriteByte(' ')
			}
			canon(e, b)
		}
		b.WriteByte(']')
	case *zygo.SexpPair:
		b.WriteByte('(')
		first := true
		var cur zygo.Sexp = x
		for {
			p, ok := cur.(*zygo.SexpPair)
			if !ok {
				break
			}
			if !first {
				b.WriteByte(' ')
			}
			first = false
			canon(p.Head, b)
			cur = p.Tail
		}
		if cur != zygo.SexpNull {
			b.WriteString(" . ")
			canon(cur, b)
		}
		b.WriteByte(')')
	case *zygo.SexpComma:
		b.WriteByte(',')
	case *zygo.SexpSemicolon:
		b.WriteByte(';')
	case *zygo.SexpHash:
		b.WriteString("{}")
	default:
		if s == zygo.SexpNull {
			b.WriteString("nil")
			return
		}
		b.WriteString(strings.ReplaceAll(s.SexpString(nil), " ", "_"))
	}
}

func xexpand(src string) string {
	env := xsetup()
	res, err := env.EvalString("(infixExpand {" + src + "\n})\n")
	if err != nil {
		env.Clear()
		return "err"
	}
	p, ok := res.(*zygo.SexpPair)
	if !ok {
		if res == zygo.SexpNull {
			return "-empty-"
		}
		return "other " + strings.ReplaceAll(res.SexpString(nil), " ", "_")
	}
	// (quote x1 … xn)
	var parts []string
	var cur zygo.Sexp = p.Tail
	for {
		q, ok := cur.(*zygo.SexpPair)
		if !ok {
			break
		}
		var b strings.Builder
		canon(q.Head, &b)
		parts = append(parts, b.String())
		cur = q.Tail
	}
	if len(parts) == 0 {
		return "-empty-"
	}
	return strings.Join(parts, " | ")
}

// xlex: the real lexer (fresh) on text; the token queue and what is left pending.
func xlex(text string) string {
	lx := sharedEnv().NewParser().VerifLexer()
	lx.Reset()
	field := func(full, key string) string {
		i := strings.Index(full, " "+key+"=")
		if i < 0 {
			return "?"
		}
		rest := full[i+len(key)+2:]
		if j := strings.IndexByte(rest, ' '); j >= 0 {
			rest = rest[:j]
		}
		return rest
	}
	for _, c := range text {
		if err := lx.VerifStep(c); err != nil {
			return field(lx.VerifFull(), "toks") + " | !" + lexErrKind(err)
		}
	}
	full := lx.VerifFull()
	short := lx.VerifShort()
	st := short
	if i := strings.IndexByte(short, '.'); i >= 0 {
		st = short[:i]
	}
	buf := "-"
	if i := strings.IndexByte(short, ';'); i >= 0 {
		buf = short[i+1:]
	}
	return field(full, "toks") + " | st=" + st + " buf=" + buf
}

// value of a program in a fresh interpreter with the fixed bindings; effects are observed
// through the trace list that (tr x) appends to.
const xprelude = `(def a 7) (def b 3) (def c 2) (def d 5) (def x 11) (def y 4) (def i 1) (def j 2) (def n 6) (def t true) (def f false)
(def v [10 20 30 40 50]) (def h (hash k:100 m:[1 2 3] g:(hash z:9)))
(def trlog [])
(defn tr [q] (set trlog (append trlog q)) q)
`

func xvalue(prog string) string {
	env := zygo.NewZlisp()
	env.StandardSetup()
	if _, err := env.EvalString(xprelude); err != nil {
		return "prelude-err"
	}
	res, err := env.EvalString(prog + "\n")
	if err != nil {
		return "err"
	}
	var b strings.Builder
	canon(res, &b)
	vals := []string{b.String()}
	for _, name := range []string{"trlog", "a", "b", "x", "i", "v", "h"} {
		r, err := env.EvalString(name + " ")
		if err != nil {
			vals = append(vals, "?")
			continue
		}
		vals = append(vals, strings.ReplaceAll(r.SexpString(nil), " ", "_"))
	}
	return strings.Join(vals, ";")
}

func decodeCodes(s string) (string, bool) {
	if s == "-" {
		return "", true
	}
	var b strings.Builder
	for _, p := range strings.Split(s, ".") {
		n, err := strconv.Atoi(p)
		if err != nil {
			return "", false
		}
		b.WriteRune(rune(n))
	}
	return b.String(), true
}

func xexec(toks []string) string {
	if len(toks) == 0 {
		return "bad-op"
	}
	switch toks[0] {
	case "ops":
		lines := zygo.VerifInfixOps(xsetup())
		sort.Strings(lines)
		return strings.Join(lines, " ")
	case "ltoks":
		if len(toks) < 2 {
			return "bad-op"
		}
		ts, _, ok := xparse(toks[2:], "")
		if !ok {
			return "bad-op"
		}
		return xlex(xrender(xpieces(ts, nil), toks[1]) + "\n")
	case "htree", "hval":
		return xhistExec(toks) // interference histories: ch_expand_hist.go
	case "tree", "val", "ltree":
		if len(toks) < 2 {
			return "bad-op"
		}
		ws := toks[2:]
		var codes string
		if toks[0] == "val" {
			k := -1
			for i, w := range ws {
				if w == "=>" {
					k = i
				}
			}
			if k < 0 || k+1 >= len(ws) {
				return "bad-op"
			}
			codes = ws[k+1]
			ws = ws[:k]
		}
		ts, _, ok := xparse(ws, "")
		if !ok {
			return "bad-op"
		}
		src := xrender(xpieces(ts, nil), toks[1])
		if toks[0] == "tree" || toks[0] == "ltree" {
			return xexpand(src)
		}
		prefix, ok := decodeCodes(codes)
		if !ok {
			return "bad-op"
		}
		v1 := xvalue("{" + src + "\n}")
		v2 := xvalue(prefix)
		if v1 == v2 {
			return "eq " + strings.ReplaceAll(v1, " ", "_")
		}
		return "ne " + strings.ReplaceAll(v1, " ", "_") + " " + strings.ReplaceAll(v2, " ", "_")
	}
	return "bad-op"
}

// ---------------------------------------------------------------- generators

// every operator of the table that takes a left operand, by role
var xbinOps = []string{"+", "-", "*", "/", "mod", "**", "and", "or", "==", "!=", "<", "<=", ">", ">=", "=", ":=", "+=", "-=", ","}
var xoperands = []string{"a", "b", "c", "d", "x", "y"}

func xopTok(op string) xtok {
	if op == "," {
		return xtok{kind: ','}
	}
	return xs(op)
}

func (g *Gen) emitTree(ts []xtok, mode int, tag string) {
	sp := spacingFor(g, xpieces(ts, nil), mode)
	g.Emit("tree %s %s", sp, xwords(ts))
	g.Count(tag)
	g.Count(fmt.Sprintf("spacing-mode-%d", mode))
}

// operandVariant: the k-th operand of a sequence in one of several shapes
func xoperand(name string, shape int) []xtok {
	switch shape {
	case 1:
		return []xtok{xs("not"), xs(name)}
	case 2:
		return []xtok{xs(name), {kind: '[', kids: []xtok{xs("i")}}}
	case 3:
		return []xtok{{kind: 'd', text: "h." + name}}
	case 4:
		return []xtok{{kind: '(', kids: []xtok{xs("f"), xs(name)}}}
	case 5:
		return []xtok{{kind: '{', kids: []xtok{xs(name), xs("-"), xn("1")}}}
	case 6:
		return []xtok{xs(name), {kind: '[', kids: []xtok{xn("1"), xs(":"), xs("j")}}}
	case 7:
		return []xtok{xn("2")}
	case 8:
		return []xtok{xs("*"), xs(name)}
	case 9:
		return []xtok{xs(name), {kind: '[', kids: []xtok{xs("i"), xs("+"), xn("1")}}, {kind: 'd', text: ".k"}}
	case 10:
		return []xtok{xn("-3")}
	}
	return []xtok{xs(name)}
}

func xseq(ops []string, shapes []int) []xtok {
	var ts []xtok
	for k := 0; k <= len(ops); k++ {
		ts = append(ts, xoperand(xoperands[k%len(xoperands)], shapes[k])...)
		if k < len(ops) {
			ts = append(ts, xopTok(ops[k]))
		}
	}
	return ts
}

func xenumOps(n int, f func(ops []string)) {
	idx := make([]int, n)
	for {
		ops := make([]string, n)
		for i, k := range idx {
			ops[i] = xbinOps[k]
		}
		f(ops)
		i := n - 1
		for i >= 0 {
			idx[i]++
			if idx[i] < len(xbinOps) {
				break
			}
			idx[i] = 0
			i--
		}
		if i < 0 {
			return
		}
	}
}

func zeros(n int) []int { return make([]int, n) }

// random well-formed expression of the documented grammar
func (g *Gen) xexpr(depth int) []xtok {
	r := g.Rng.Intn(100)
	if depth <= 0 || r < 30 {
		return g.xatom(depth)
	}
	if r < 85 {
		op := xbinOps[g.Rng.Intn(len(xbinOps)-5)] // no assignment / comma inside expressions
		l := g.xexpr(depth - 1)
		rr := g.xexpr(depth - 1)
		return append(append(l, xopTok(op)), rr...)
	}
	if r < 92 {
		return append([]xtok{xs("not")}, g.xatom(depth)...)
	}
	return g.xatom(depth)
}

func (g *Gen) xatom(depth int) []xtok {
	name := xoperands[g.Rng.Intn(len(xoperands))]
	switch r := g.Rng.Intn(100); {
	case r < 35:
		return []xtok{xs(name)}
	case r < 50:
		return []xtok{xn(strconv.Itoa(g.Rng.Intn(10)))}
	case r < 55:
		return []xtok{xn("-" + strconv.Itoa(1+g.Rng.Intn(9)))}
	case r < 63:
		return []xtok{xs("v"), {kind: '[', kids: g.xexprSmall(depth)}}
	case r < 68:
		lo, hi := g.xexprSmall(depth), g.xexprSmall(depth)
		kids := append(append(lo, xs(":")), hi...)
		switch g.Rng.Intn(4) {
		case 0:
			kids = append([]xtok{xs(":")}, hi...)
		case 1:
			kids = append(lo, xs(":"))
		case 2:
			kids = []xtok{{kind: 'l', text: "i"}, xs("j")}
		}
		return []xtok{xs("v"), {kind: '[', kids: kids}}
	case r < 74:
		return []xtok{{kind: 'd', text: []string{"h.k", "h.g.z", "h.m"}[g.Rng.Intn(3)]}}
	case r < 78:
		return []xtok{{kind: 'd', text: "h.m"}, {kind: '[', kids: []xtok{xn(strconv.Itoa(g.Rng.Intn(3)))}}}
	case r < 81:
		return []xtok{xs("h"), {kind: 'd', text: ".g"}, {kind: 'd', text: ".z"}}
	case r < 90:
		args := []xtok{xs([]string{"tr", "+", "*", "tr"}[g.Rng.Intn(4)])}
		if args[0].text == "tr" {
			args = append(args, xn(strconv.Itoa(g.Rng.Intn(20))))
		} else {
			args = append(args, xs(name), xn(strconv.Itoa(1+g.Rng.Intn(5))))
			if depth > 0 && g.Rng.Intn(3) == 0 {
				args = append(args, xtok{kind: '{', kids: g.xexpr(depth - 1)})
			}
		}
		return []xtok{{kind: '(', kids: args}}
	default:
		if depth <= 0 {
			return []xtok{xs(name)}
		}
		return []xtok{{kind: '{', kids: g.xexpr(depth - 1)}}
	}
}

func (g *Gen) xexprSmall(depth int) []xtok {
	if g.Rng.Intn(3) == 0 {
		return []xtok{xs("i"), xs([]string{"+", "-", "*"}[g.Rng.Intn(3)]), xn("1")}
	}
	return []xtok{[]xtok{xs("i"), xs("j"), xn("0"), xn("1"), xn("2")}[g.Rng.Intn(5)]}
}

func (g *Gen) xstmt(depth int) []xtok {
	switch r := g.Rng.Intn(100); {
	case r < 30:
		lhs := []xtok{xs([]string{"a", "b", "x", "i", "w", "z"}[g.Rng.Intn(6)])}
		op := []string{"=", ":=", "+=", "-=", "="}[g.Rng.Intn(5)]
		if op == "+=" || op == "-=" {
			lhs = []xtok{xs([]string{"a", "b", "x", "i"}[g.Rng.Intn(4)])}
		}
		return append(append(lhs, xs(op)), g.xexpr(depth)...)
	case r < 36:
		return []xtok{xs([]string{"a", "i", "x"}[g.Rng.Intn(3)]), xs([]string{"++", "--"}[g.Rng.Intn(2)])}
	case r < 42:
		return append(append([]xtok{xs("v"), {kind: '[', kids: []xtok{xn(strconv.Itoa(g.Rng.Intn(4)))}}}, xs("=")), g.xexpr(depth)...)
	case r < 56:
		// if cond then [else]
		ts := append([]xtok{xs("if")}, g.xexpr(1)...)
		ts = append(ts, xtok{kind: '{', kids: g.xstmt(depth - 1)})
		if g.Rng.Intn(2) == 0 {
			ts = append(ts, xs("else"))
			ts = append(ts, xtok{kind: '{', kids: g.xstmt(depth - 1)})
		}
		return ts
	case r < 68:
		// go-style for
		body := xtok{kind: '{', kids: append([]xtok{xs("x"), xs("+="), xs("k")}, []xtok{}...)}
		switch g.Rng.Intn(4) {
		case 0:
			return []xtok{xs("for"), xs("k"), xs(":="), xn("0"), {kind: ';'}, xs("k"), xs("<"), xn("3"), {kind: ';'}, xs("k"), xs("++"), body}
		case 1:
			return []xtok{xs("for"), xs("k"), xs(":="), xs("range"), xn("3"), body}
		case 2:
			return []xtok{xs("for"), xs("k"), {kind: ','}, xs("w"), xs(":="), xs("range"), xs("v"), body}
		default:
			return []xtok{{kind: 'l', text: "top"}, xs("for"), xs("k"), xs(":="), xs("range"), xs("v"), {kind: '{', kids: []xtok{xs("if"), xs("k"), xs(">"), xn("1"), {kind: '{', kids: []xtok{xs("break"), xs("top")}}, {kind: ';'}, xs("x"), xs("+="), xn("1")}}}
		}
	default:
		return g.xexpr(depth)
	}
}

func (g *Gen) xblock(depth int) []xtok {
	n := 1 + g.Rng.Intn(3)
	var ts []xtok
	for k := 0; k < n; k++ {
		if k > 0 {
			ts = append(ts, xtok{kind: ';'})
		}
		ts = append(ts, g.xstmt(depth)...)
	}
	if g.Rng.Intn(8) == 0 {
		ts = append(ts, xtok{kind: ';'})
	}
	return ts
}

// malformed / arbitrary token soup
func (g *Gen) xsoup(n int) []xtok {
	var ts []xtok
	alpha := []xtok{xs("a"), xs("b"), xn("1"), xn("-2"), xs("+"), xs("-"), xs("*"), xs("**"), xs("/"), xs("mod"), xs("and"), xs("or"), xs("not"),
		xs("=="), xs("<"), xs("="), xs(":="), xs("+="), xs("++"), xs("--"), {kind: ','}, {kind: ';'}, {kind: 'd', text: ".f"}, {kind: 'd', text: "a.b"},
		{kind: '[', kids: []xtok{xs("i")}}, {kind: '[', kids: []xtok{xs("i"), xs("j")}}, {kind: '[', kids: []xtok{xn("1"), xs(":"), xn("2"), xs(":"), xn("3")}},
		{kind: '[', kids: []xtok{{kind: 'l', text: "i"}}}, {kind: '(', kids: []xtok{xs("f"), xs("x")}}, {kind: '{', kids: []xtok{xs("a"), xs("+"), xs("b")}},
		xs("if"), xs("else"), xs("for"), xs("break"), xs("continue"), {kind: 'h'}, xs("range"), {kind: 'l', text: "top"}, {kind: 'o', text: "'c'"}, {kind: 'o', text: "5ULL"}, xs("comma"), xn("\"s\""), xn("true")}
	for k := 0; k < n; k++ {
		t := alpha[g.Rng.Intn(len(alpha))]
		if k == 0 && (t.kind == 'l' || t.kind == 'h' || (t.kind == 'n' && t.text[0] == '"')) {
			t = xs("a") // `{name:` / `{"s"` would start a hash literal, `{ {}` too odd
		}
		ts = append(ts, t)
	}
	return ts
}

func xgen(g *Gen) {
	g.Emit("ops")
	// 1. exhaustive: every sequence of 1..N binary operators over plain operands, three spacings
	maxN := 3
	if g.Thorough() {
		maxN = 4
	}
	for n := 1; n <= maxN; n++ {
		n := n
		xenumOps(n, func(ops []string) {
			ts := xseq(ops, zeros(n+1))
			g.emitTree(ts, 0, fmt.Sprintf("exhaustive-%d-ops", n))
			if n <= 3 {
				g.emitTree(ts, 1, fmt.Sprintf("exhaustive-%d-ops", n))
			}
			if n <= 2 || g.Rng.Intn(4) == 0 {
				g.emitTree(ts, 2, fmt.Sprintf("exhaustive-%d-ops", n))
			}
		})
	}
	// 2. every operator pair with every operand shape in every position (prefix not, index,
	//    dotted path, call, nested block, slice, literal, deref, index+field)
	for s0 := 0; s0 < 11; s0++ {
		for s1 := 0; s1 < 11; s1++ {
			for s2 := 0; s2 < 11; s2++ {
				if !g.Thorough() && s0 != 0 && s1 != 0 && s2 != 0 && (s0+s1+s2)%3 != 0 {
					continue
				}
				xenumOps(2, func(ops []string) {
					if !g.Thorough() && g.Rng.Intn(4) != 0 {
						return
					}
					g.emitTree(xseq(ops, []int{s0, s1, s2}), g.Rng.Intn(3), "pair-with-operand-shapes")
				})
			}
		}
	}
	// 3. longer sequences, sampled
	nLong, nRand, nSoup := 3000, 4000, 4000
	if g.Thorough() {
		nLong, nRand, nSoup = 150000, 100000, 100000
	}
	for k := 0; k < nLong; k++ {
		n := 4 + g.Rng.Intn(3)
		ops := make([]string, n)
		shapes := make([]int, n+1)
		for i := range ops {
			ops[i] = xbinOps[g.Rng.Intn(len(xbinOps))]
		}
		for i := range shapes {
			if g.Rng.Intn(3) == 0 {
				shapes[i] = g.Rng.Intn(11)
			}
		}
		g.emitTree(xseq(ops, shapes), g.Rng.Intn(3), fmt.Sprintf("sampled-%d-ops", n))
	}
	// 4. structured random blocks: statements, if/else, for, nested blocks, calls, selectors
	for k := 0; k < nRand; k++ {
		g.emitTree(g.xblock(1+g.Rng.Intn(3)), g.Rng.Intn(3), "structured-block")
	}
	// 5. arbitrary token lists (malformed input included)
	for k := 0; k < nSoup; k++ {
		g.emitTree(g.xsoup(1+g.Rng.Intn(7)), 0, "token-soup")
	}
	// 6. alternative spellings
	for _, op := range []string{"&&", "||"} {
		for _, op2 := range xbinOps {
			g.emitTree([]xtok{xs("a"), xs(op), xs("b"), xopTok(op2), xs("c")}, g.Rng.Intn(3), "alt-spelling")
			g.emitTree([]xtok{xs("a"), xopTok(op2), xs("b"), xs(op), xs("c")}, g.Rng.Intn(3), "alt-spelling")
		}
	}
	// 7. the sign look-back: `x -1` (space before, none after) — spacing written explicitly
	for _, l := range []string{"a", "a * b", "v [ i ]"} {
		_ = l
	}
	// 8. a char / uint64 literal starting a statement after a newline (fix C06-01)
	g.Emit("tree g112 s:a s:= n:1 o:'c'")
	g.Emit("tree g112 s:a s:= n:1 o:5ULL")
	g.Emit("tree g2 s:a o:'c'")
	g.Emit("tree g0012 s:x s:+ o:'c' o:'d'")
	g.Count("char-uint64-statement-start")
	// 8b. nil, written (), starting a juxtaposed statement (proposed fix C06-02)
	g.Emit("tree g1120 s:a s:= n:1 ( )")
	g.Emit("tree g10 s:a ( )")
	g.Emit("ltree g1120 s:a s:= n:1 ( )")
	g.Emit("tree g1010 s:a s:= ( ) ; s:a")
	g.Count("nil-statement-start")
	xgenSpacing(g)
	xgenHist(g)
	g.Emit("tree g10 s:a s:- n:1")
	g.Emit("tree g1110 s:a s:* s:b s:- n:2")
	g.Emit("tree g10 s:a s:- n:1.5")
	g.Count("sign-lookback-probe")
	g.Count("sign-lookback-probe")
	g.Count("sign-lookback-probe")
}

// ---------------------------------------------------------------- lex_spacing streams
//
// The Lean side decides which spacings are legal (Spec/Spacing.legal); the generator only has to
// produce many spacings, legal and illegal: every combination of empty/non-empty gaps for short
// sequences, random gap kinds for longer ones, and the adjacencies the rules W D S B exclude.

func (g *Gen) emitSpaced(kind string, ts []xtok, sp string, tag string) {
	g.Emit("%s %s %s", kind, sp, xwords(ts))
	g.Count(tag)
}

// every gap none/space: 2^(n-1) spacing strings for n pieces
func allBinarySpacings(n int, f func(sp string)) {
	gaps := n - 1
	for m := 0; m < 1<<uint(gaps); m++ {
		b := []byte{'g'}
		for k := 0; k < gaps; k++ {
			if m&(1<<uint(k)) != 0 {
				b = append(b, '1')
			} else {
				b = append(b, '0')
			}
		}
		f(string(b))
	}
}

func randomSpacing(g *Gen, n int) string {
	b := []byte{'g'}
	for k := 0; k+1 < n; k++ {
		switch r := g.Rng.Intn(20); {
		case r < 9:
			b = append(b, '0')
		case r < 15:
			b = append(b, '1')
		case r < 16:
			b = append(b, '2')
		case r < 17:
			b = append(b, '3')
		case r < 19:
			b = append(b, '4')
		default:
			b = append(b, '5')
		}
	}
	return string(b)
}

var xlexOps = []string{"+", "-", "*", "/", "**", "==", "!=", "<", "<=", ">", ">=", "=", ":=", "+=", "-=", "++", "--", "&&", "||", "!", "->", "<-", "*=", "<!", ","}

// operands for the token-level stream (floats and signed numerals included)
func xlexOperand(g *Gen) []xtok {
	switch g.Rng.Intn(14) {
	case 0:
		return []xtok{xn(strconv.Itoa(g.Rng.Intn(100)))}
	case 1:
		return []xtok{xn("-" + strconv.Itoa(1+g.Rng.Intn(99)))}
	case 2:
		return []xtok{xn([]string{"2.5", "-0.75", "1e+5", "2.5e-3", "-1e-2", "10.0e+1"}[g.Rng.Intn(6)])}
	case 3:
		return []xtok{{kind: 'd', text: []string{"h.k", "h.g.z", ".f", ".a.b"}[g.Rng.Intn(4)]}}
	case 4:
		return []xtok{xs("v"), {kind: '[', kids: []xtok{xs("i")}}}
	case 5:
		return []xtok{{kind: '(', kids: []xtok{xs("f"), xs("x"), xn("-2")}}}
	case 6:
		return []xtok{{kind: '{', kids: []xtok{xs("a"), xs("-"), xn("1")}}}
	case 7:
		return []xtok{xs([]string{"mod", "and", "or", "not", "e", "x1e", "E"}[g.Rng.Intn(7)])}
	default:
		return []xtok{xs(xoperands[g.Rng.Intn(len(xoperands))])}
	}
}

// operands for the end-to-end stream: what the Pratt model prints the way the implementation does
func xtreeOperand(g *Gen) []xtok {
	switch g.Rng.Intn(12) {
	case 0:
		return []xtok{xn(strconv.Itoa(g.Rng.Intn(100)))}
	case 1:
		return []xtok{xn("-" + strconv.Itoa(1+g.Rng.Intn(99)))}
	case 2:
		return []xtok{{kind: 'd', text: []string{"h.k", "h.g.z", ".f"}[g.Rng.Intn(3)]}}
	case 3:
		return []xtok{xs("v"), {kind: '[', kids: []xtok{xs("i"), xs("+"), xn("1")}}}
	case 4:
		return []xtok{{kind: '(', kids: []xtok{xs("f"), xs("x"), xn("-2")}}}
	case 5:
		return []xtok{{kind: '{', kids: []xtok{xs("a"), xs("-"), xn("1")}}}
	case 6:
		return []xtok{xs("not"), xs("t")}
	default:
		return []xtok{xs(xoperands[g.Rng.Intn(len(xoperands))])}
	}
}

func xgenSpacing(g *Gen) {
	// 1. every operator pair of the infix table over plain operands, every none/space combination of
	//    the four gaps: through the lexer alone and end to end
	xenumOps(2, func(ops []string) {
		ts := xseq(ops, zeros(3))
		allBinarySpacings(len(xpieces(ts, nil)), func(sp string) {
			g.emitSpaced("ltoks", ts, sp, "ltoks-pairs-all-binary-spacings")
			g.emitSpaced("ltree", ts, sp, "ltree-pairs-all-binary-spacings")
		})
	})
	// 2. every pair of operator texts of the lexer (the ones outside the infix table too) around
	//    operands of several shapes, every none/space combination; numerals after the operator
	for _, o1 := range xlexOps {
		for _, o2 := range xlexOps {
			for _, right := range []xtok{xs("b"), xn("1"), xn("-1"), xn("2.5e-3")} {
				ts := []xtok{xs("a"), xopTok(o1), right, xopTok(o2), xn("7")}
				allBinarySpacings(5, func(sp string) {
					if !g.Thorough() && g.Rng.Intn(3) != 0 {
						return
					}
					g.emitSpaced("ltoks", ts, sp, "ltoks-lexer-operators-numerals")
				})
			}
		}
	}
	// 3. adjacent operators (prefix minus, not, deref) and brackets, every combination
	for _, o1 := range xlexOps {
		for _, o2 := range []string{"-", "+", "*", "!", "/", "not"} {
			ts := []xtok{xs("a"), xopTok(o1), xs(o2), xs("b")}
			allBinarySpacings(4, func(sp string) {
				g.emitSpaced("ltoks", ts, sp, "ltoks-adjacent-operators")
				if o2 == "-" || o2 == "*" || o2 == "not" {
					g.emitSpaced("ltree", ts, sp, "ltree-adjacent-operators")
				}
			})
		}
	}
	// 4. random sequences with random gap kinds (blank, tab, newline, CR LF, double)
	nRand := 6000
	if g.Thorough() {
		nRand = 150000
	}
	for k := 0; k < nRand; k++ {
		n := 1 + g.Rng.Intn(4)
		var ts, tt []xtok
		for i := 0; i <= n; i++ {
			ts = append(ts, xlexOperand(g)...)
			tt = append(tt, xtreeOperand(g)...)
			if i < n {
				ts = append(ts, xopTok(xlexOps[g.Rng.Intn(len(xlexOps))]))
				tt = append(tt, xopTok(xbinOps[g.Rng.Intn(len(xbinOps))]))
			}
		}
		g.emitSpaced("ltoks", ts, randomSpacing(g, len(xpieces(ts, nil))), "ltoks-random")
		g.emitSpaced("ltree", tt, randomSpacing(g, len(xpieces(tt, nil))), "ltree-random")
	}
	// 5. structured blocks (statements, if/else, for, nested blocks) in random spacings: end to end
	nBlk := 1500
	if g.Thorough() {
		nBlk = 40000
	}
	for k := 0; k < nBlk; k++ {
		ts := g.xblock(1 + g.Rng.Intn(2))
		g.emitSpaced("ltree", ts, randomSpacing(g, len(xpieces(ts, nil))), "ltree-structured-random-spacing")
	}
	// 6. the adjacencies the rules exclude, written explicitly (W two words, D digraphs and comment
	//    openers, S sign after a word/closing bracket, B the sign look-back)
	for _, op := range []string{"ltoks", "ltree"} {
		g.Emit("%s g0 s:a s:b", op)
		g.Emit("%s g0 s:a n:1", op)
		g.Emit("%s g0 n:1 s:a", op)
		g.Emit("%s g000 s:a s:+ s:+ s:b", op)
		g.Emit("%s g000 s:a s:= s:= s:b", op)
		g.Emit("%s g000 s:a s:< s:- s:b", op)
		g.Emit("%s g000 s:a s:* s:* s:b", op)
		g.Emit("%s g00 s:a s:< n:-1", op)
		g.Emit("%s g00 s:a s:- n:-1", op)
		g.Emit("%s g0 s:a n:-1", op)
		g.Emit("%s g000 ( s:f ) n:-1", op)
		g.Emit("%s g0000 s:v [ s:i ] n:-1", op)
		g.Emit("%s g10 s:a s:- n:1", op)
		g.Emit("%s g20 s:a s:- n:1", op)
		g.Emit("%s g30 s:a s:- n:1", op)
		g.Emit("%s g110 s:a s:- s:- n:1", op)
		g.Emit("%s g010 s:a s:* s:- n:1", op)
		g.Emit("%s g0010 ( s:- n:1 )", op)
		g.Emit("%s g000 s:a s:/ s:/ s:b", op)
		g.Emit("%s g000 s:a s:/ s:* s:b", op)
		g.Emit("%s g000 s:a s:/ s:= s:b", op)
		g.Emit("%s g00 s:x1e s:+ n:5", op)
		g.Emit("%s g00 s:e s:- n:5", op)
		g.Count("excluded-adjacency-probes")
	}
	// LexerMinusDot (repo fix C12-05): `-.` where a signed number may start
	for _, op := range []string{"ltoks", "ltree"} {
		g.Emit("%s g00 s:a s:- d:.f", op)
		g.Emit("%s g10 s:a s:- d:.f", op)
		g.Emit("%s g0100 s:x s:= s:- d:.f d:.g", op)
		g.Emit("%s g000 ( s:- d:.f )", op)
		g.Emit("%s g0010 s:a s:* s:- d:.k", op)
	}
	g.Emit("ltoks g0 s:- n:.5")
	g.Emit("ltoks g10 s:a s:- n:.5")
	g.Emit("ltoks g00 s:a s:- n:.5")
	g.Emit("ltoks g01 s:a s:- n:.5")
	g.Emit("ltoks g0 s:- d:.")
	g.Count("minus-dot-probes")
	g.Emit("ltoks g00 n:1e s:+ n:5")
	g.Emit("ltoks g00 n:-1e s:+ n:5")
	g.Emit("ltoks g00 n:2.5e s:- n:3")
}

func init() { channels["expand"] = &Channel{Gen: xgen, Exec: xexec} }
