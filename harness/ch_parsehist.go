package main

// Ops `h` and `ei` of channel parse (C13, second clause: "what an interpreter parsed or FAILED
// to parse earlier never changes how a later text is read").
//
//   parse h H=<hist> R=<route> C=<chunks>
//       one parser. hist = `-` or `/`-separated entries  <route>:<mode>:<again>:<codes>[:<queued>]
//         route   how the text is brought to the parser (the reset routes of the public API):
//                   r  ResetAddNewInput(text)              (LoadStream, SourceStream, read, the REPL)
//                   n  Reset(); NewInput(text)             (ParseFile)
//                   s  Stop(); ResetAddNewInput(text)      (Close + reuse)
//                   t  Stop(); Reset(); NewInput(text)
//         mode    w  the end of the input is signalled (EndInput) before ParseTokens — a whole text
//                 a  it is not: a first piece whose parse is then abandoned
//         again   number of further ParseTokens calls without new input (0..2)
//         queued  optional piece handed over with NewInput afterwards and never parsed
//       then the text under test: piece 1 by route R, later pieces with NewInput, ParseTokens
//       after each, EndInput, ParseTokens. R is one of r n s t, or
//                   S  Stop(); NewInput(text)  — NO reset of the lexer: the text continues whatever
//                      the stopped parse left (no specification; compared with the model only: it
//                      shows what a stopped coroutine reads while it unwinds)
//       Answer as for `p`: `<statuses> | <expressions>`.
//   parse ei H=<hist> X=<0|1> T=<codes>
//       one INTERPRETER (NewZlisp). hist = `-` or `/`-separated  <api>:<codes>  with api
//         E EvalString   L LoadString   R the `read` builtin (ReadFunction)   P ParseFile (temp file)
//         C Clear() (codes ignored)
//       every result and error of the history is ignored. Then EvalString(T) on it and on a twin
//       that never saw the history. Answer `v=<value> twin=same` or `… twin=DIFF:<twin value>`;
//       with X=1 (the text needs evaluation: the model has no evaluator here) only the twin part.

import (
	"os"
	"strings"

	"github.com/glycerine/zygomys/v9/zygo"
)

func applyRoute(p *zygo.Parser, route byte, txt string) bool {
	switch route {
	case 'r':
		p.ResetAddNewInput(zygo.VerifStream(txt))
	case 'n':
		p.Reset()
		p.NewInput(zygo.VerifStream(txt))
	case 's':
		p.Stop()
		p.ResetAddNewInput(zygo.VerifStream(txt))
	case 't':
		p.Stop()
		p.Reset()
		p.NewInput(zygo.VerifStream(txt))
	case 'S':
		p.Stop()
		p.NewInput(zygo.VerifStream(txt))
	default:
		return false
	}
	return true
}

func execParseHist(toks []string) string {
	if len(toks) != 4 || !strings.HasPrefix(toks[1], "H=") || !strings.HasPrefix(toks[2], "R=") || !strings.HasPrefix(toks[3], "C=") || len(toks[2]) != 3 {
		return "bad-op"
	}
	p := sharedEnv().NewParser()
	defer p.Stop()
	if hs := toks[1][2:]; hs != "-" {
		for _, e := range strings.Split(hs, "/") {
			f := strings.Split(e, ":")
			if len(f) < 4 || len(f) > 5 || len(f[0]) != 1 || len(f[1]) != 1 || len(f[2]) != 1 || f[2][0] < '0' || f[2][0] > '2' || f[0] == "S" {
				return "bad-op"
			}
			txt, ok := codesToString(f[3])
			if !ok || !applyRoute(p, f[0][0], txt) {
				return "bad-op"
			}
			switch f[1] {
			case "w":
				p.VerifEndInput()
			case "a":
			default:
				return "bad-op"
			}
			for i := 0; i <= int(f[2][0]-'0'); i++ {
				p.ParseTokens()
			}
			if len(f) == 5 {
				q, ok := codesToString(f[4])
				if !ok {
					return "bad-op"
				}
				p.NewInput(zygo.VerifStream(q))
			}
		}
	}
	var status []string
	var last []zygo.Sexp
	chunks := strings.Split(toks[3][2:], "/")
	failed := false
	for i, c := range chunks {
		txt, ok := codesToString(c)
		if !ok {
			return "bad-op"
		}
		if i == 0 {
			if !applyRoute(p, toks[2][2], txt) {
				return "bad-op"
			}
		} else {
			p.NewInput(zygo.VerifStream(txt))
		}
		xs, err := p.ParseTokens()
		last = xs
		st := parseStatus(err)
		status = append(status, st)
		if st == "e" {
			failed = true
			break
		}
	}
	if !failed {
		p.VerifEndInput()
		xs, err := p.ParseTokens()
		last = xs
		status = append(status, parseStatus(err))
	}
	return strings.Join(status, "") + " | " + canonList(last)
}

func evalStringCanon(env *zygo.Zlisp, txt string) string {
	v, err := env.EvalString(txt)
	if err != nil {
		return "err"
	}
	if v == nil || v == zygo.SexpNull {
		return "nil"
	}
	return zygo.VerifCanon(v)
}

func execEvalHist(toks []string) string {
	if len(toks) != 4 || !strings.HasPrefix(toks[1], "H=") || !strings.HasPrefix(toks[2], "X=") || !strings.HasPrefix(toks[3], "T=") {
		return "bad-op"
	}
	txt, ok := codesToString(toks[3][2:])
	if !ok {
		return "bad-op"
	}
	env := zygo.NewZlisp()
	defer env.Close()
	if hs := toks[1][2:]; hs != "-" {
		for _, e := range strings.Split(hs, "/") {
			if len(e) < 3 || e[1] != ':' {
				return "bad-op"
			}
			h, ok := codesToString(e[2:])
			if !ok {
				return "bad-op"
			}
			// an earlier text that is COMPLETE may leave code loaded but not run (LoadString) or an
			// evaluation error behind; what that does to later evaluations is not C13's subject, so
			// such an entry is followed by Clear(). Texts that fail to parse are followed by nothing.
			complete := false
			if e[0] != 'C' {
				sp := sharedEnv().NewParser()
				sp.ResetAddNewInput(zygo.VerifStream(h))
				sp.VerifEndInput()
				_, perr := sp.ParseTokens()
				sp.Stop()
				complete = perr == nil
			}
			switch e[0] {
			case 'E':
				env.EvalString(h)
			case 'L':
				env.LoadString(h)
			case 'R':
				zygo.ReadFunction(env, "read", []zygo.Sexp{&zygo.SexpStr{S: h}})
			case 'P':
				f, err := os.CreateTemp("", "zyh-parsefile-*.zy")
				if err != nil {
					return "bad-op"
				}
				f.WriteString(h)
				f.Close()
				env.ParseFile(f.Name())
				os.Remove(f.Name())
			case 'C':
				env.Clear()
			default:
				return "bad-op"
			}
			if complete {
				env.Clear()
			}
		}
	}
	got := evalStringCanon(env, txt)
	twin := zygo.NewZlisp()
	defer twin.Close()
	want := evalStringCanon(twin, txt)
	t := "twin=same"
	if got != want {
		t = "twin=DIFF:" + want
	}
	if toks[2] == "X=1" {
		if got != want {
			return "got=" + got + " " + t
		}
		return t
	}
	return "v=" + got + " " + t
}
