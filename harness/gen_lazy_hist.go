package main

// Channel lazy, history family "rebinding" (C16): the callee a call site resolves to at RUN
// time differs — in laziness, arity or kind — from what the same name denoted when the caller
// was COMPILED. One long-lived interpreter, one text per step:
//
//	t1  helpers; the name `cf` gets its OLD binding (strict fn / lazy fn / variadic fn / Go
//	    builtin / non-function / nothing); the alias `al` is bound to the old function
//	t2  the callers are compiled: by global name (user), through a parameter, a `let` variable
//	    and a closure variable that all are NAMED cf (callp, calll, mkcl), through the alias
//	    (useal); optionally the global caller runs once with the old binding
//	t3  rebinding: cf is redefined with NEW formals by defn / def / set; `nf` is the new
//	    function under its own name (handed to the shadowing callers); the alias is swapped
//	t4… each caller is called in a text of its own (an error in one does not hide the others);
//	    thunks kept by the new function are forced afterwards
//
// The reference evaluator resolves the callee when the call runs; the argument kinds carry
// effects, errors and state reads, so an argument evaluated on the strength of a stale
// compile-time view shows in the trace, the value or the outcome class.

import (
	"fmt"
	"strings"
)

// what a name can denote
const (
	bStrict = iota
	bLazy
	bMixed // [p #y] / [#x q]: one lazy, one strict
	bVariadicStrict
	bVariadicLazy
	bBuiltin // the Go builtin `list`
	bNonFn
	bUnbound
	bKinds
)

var lzBindNames = []string{"strict-fn", "lazy-fn", "mixed-fn", "variadic-strict-fn", "variadic-lazy-fn", "go-builtin", "non-function", "unbound"}

type lzHist struct {
	old, new int
	nargs    int   // arguments written at every call site (1 or 2)
	newArity int   // fixed formals of the new function (differs from nargs: arity error on both sides)
	use      int   // use pattern of the new function's lazy formals
	args     []int // argument kinds
	rebind   int   // 0 defn, 1 def, 2 set
	warm     bool  // the global caller runs once before the rebinding
	flip     bool  // mixed: which position is lazy
}

func (h *lzHist) shape(kind, arity int) (lzFn, bool) {
	lz := make([]bool, arity)
	switch kind {
	case bStrict:
		return lzFn{lazy: lz}, true
	case bLazy:
		for i := range lz {
			lz[i] = true
		}
		return lzFn{lazy: lz}, true
	case bMixed:
		for i := range lz {
			lz[i] = (i%2 == 0) != h.flip
		}
		return lzFn{lazy: lz}, true
	case bVariadicStrict:
		return lzFn{lazy: make([]bool, 1), rest: 1}, true
	case bVariadicLazy:
		return lzFn{lazy: []bool{true}, rest: 1 + arity%2}, true
	}
	return lzFn{}, false
}

// fnExpr: (fn formals body…) for a binding kind
func (h *lzHist) fnExpr(kind, arity, use int, marker int64) (*nd, bool) {
	f, ok := h.shape(kind, arity)
	if !ok {
		return nil, false
	}
	sc := &lzScen{fn: f}
	for _, lz := range f.lazy {
		if lz {
			sc.uses = append(sc.uses, use)
		} else {
			sc.uses = append(sc.uses, 1)
		}
	}
	body := sc.body()
	body[0] = L(A("trace"), I(marker)) // entry marker tells old from new
	body = append(body, I(marker+1))
	return L(append([]*nd{A("fn"), f.formals(false)}, body...)...), true
}

func (h *lzHist) bindText(name string, kind, arity, use int, marker int64, how int) []*nd {
	switch kind {
	case bBuiltin:
		return []*nd{L(A([]string{"def", "def", "set"}[how]), A(name), A("list"))}
	case bNonFn:
		return []*nd{L(A([]string{"def", "def", "set"}[how]), A(name), I(5))}
	case bUnbound:
		return nil
	}
	fe, _ := h.fnExpr(kind, arity, use, marker)
	if how == 0 {
		// (defn name formals body…)
		return []*nd{L(append([]*nd{A("defn"), A(name)}, fe.kids[1:]...)...)}
	}
	return []*nd{L(A([]string{"def", "def", "set"}[how]), A(name), fe)}
}

func (h *lzHist) callArgs(base int64) []*nd {
	var k []*nd
	for i := 0; i < h.nargs; i++ {
		k = append(k, lzArg(h.args[i%len(h.args)], base+int64(i)+1))
	}
	return k
}

func (h *lzHist) texts() [][]*nd {
	var t1 []*nd
	t1 = append(t1, lzHelpers...)
	t1 = append(t1, h.bindText("cf", h.old, h.nargs, uForce1, 200, 0)...)
	if h.old != bUnbound && h.old != bNonFn {
		t1 = append(t1, L(A("def"), A("al"), A("cf")))
	} else {
		t1 = append(t1, L(A("def"), A("al"), A("sid")))
	}
	// t2: the callers, compiled while cf has its old meaning
	t2 := []*nd{
		L(A("defn"), A("user"), SQ(A("a")), call(A("cf"), h.callArgs(10))),
		L(append(append([]*nd{A("defn"), A("callp"), SQ(A("cf"), A("a"))}, lzRebind()...), call(A("cf"), h.callArgs(20)))...),
		L(A("defn"), A("calll"), SQ(A("g"), A("a")), L(A("let"), SQ(A("cf"), A("g")), call(A("cf"), h.callArgs(30)))),
		L(A("defn"), A("mkcl"), SQ(A("cf")), L(A("fn"), SQ(A("a")), call(A("cf"), h.callArgs(40)))),
		L(A("defn"), A("useal"), SQ(A("a")), call(A("al"), h.callArgs(50))),
	}
	if h.warm {
		t2 = append(t2, L(A("trace"), L(A("user"), I(3))))
	}
	// t3: rebinding
	var t3 []*nd
	t3 = append(t3, h.bindText("cf", h.new, h.newArity, h.use, 300, h.rebind)...)
	t3 = append(t3, h.bindText("nf", h.new, h.newArity, h.use, 400, 0)...)
	t3 = append(t3, L(A("set"), A("al"), A("nf")))
	out := [][]*nd{t1, t2, t3}
	for _, c := range []*nd{
		L(A("user"), I(7)),
		L(A("callp"), A("nf"), I(7)),
		L(A("calll"), A("nf"), I(7)),
		L(L(A("mkcl"), A("nf")), I(7)),
		L(A("useal"), I(7)),
	} {
		out = append(out, []*nd{L(A("trace"), c), L(A("list"), A("cnt"), A("a"), A("m"))})
	}
	if h.use == uKeep || h.use == uKeepForce {
		out = append(out, []*nd{L(A("mu")), L(A("bump")), L(A("list"), L(A("k")), L(A("k")))})
	}
	return out
}

func (h *lzHist) emit(g *Gen, stream string) {
	var texts []string
	for _, t := range h.texts() {
		texts = append(texts, renderProg(t, nil))
	}
	g.Count("stream " + stream)
	g.Count("rebinding: compiled against " + lzBindNames[h.old] + ", called as " + lzBindNames[h.new])
	g.Count("rebinding by " + []string{"defn", "def", "set"}[h.rebind])
	if h.newArity != h.nargs && h.new <= bMixed {
		g.Count("rebinding changes the arity")
	}
	if h.warm {
		g.Count("rebinding: call site already executed once before the rebinding")
	}
	g.Count("rebinding: new function's lazy formals " + lzUseNames[h.use])
	for i := 0; i < h.nargs; i++ {
		g.Count("arg " + lzArgNames[h.args[i%len(h.args)]])
	}
	g.Count(fmt.Sprintf("history length %d", len(texts)))
	g.Emit("%s", strings.Join(texts, " "))
}

// lazyHistories: the exhaustive small scope of the family (old x new x how x argument kind, one
// argument) plus random members (two arguments, arity changes, every use pattern and kind).
func lazyHistories(g *Gen) {
	idx := 0
	for old := 0; old < bKinds; old++ {
		for nw := 0; nw < bBuiltin; nw++ { // the new binding is a function of some kind
			for how := 0; how < 3; how++ {
				for _, ak := range []int{aTrace, aErrUnbound, aVarA} {
					idx++
					if !g.Thorough() && (int64(idx)+g.Seed)%2 != 0 {
						continue
					}
					h := &lzHist{old: old, new: nw, nargs: 1, newArity: 1, rebind: how, args: []int{ak},
						use: []int{uNone, uForce1, uSubstForce, uKeep}[idx%4], warm: idx%3 == 0}
					if nw == bMixed {
						h.nargs, h.newArity = 2, 2
						h.flip = idx%2 == 0
					}
					h.emit(g, "rebind-small")
				}
			}
		}
	}
	n := 150
	if g.Thorough() {
		n = 4000
	}
	r := g.Rng
	for i := 0; i < n; i++ {
		h := &lzHist{old: r.Intn(bKinds), new: r.Intn(bKinds - 2), nargs: 1 + r.Intn(2), rebind: r.Intn(3),
			use: r.Intn(uCount), warm: r.Intn(2) == 0, flip: r.Intn(2) == 0}
		h.newArity = h.nargs
		if r.Intn(6) == 0 {
			h.newArity = 3 - h.nargs
		}
		for j := 0; j < h.nargs; j++ {
			k := r.Intn(aKinds)
			if r.Intn(3) == 0 {
				k = aTrace
			}
			h.args = append(h.args, k)
		}
		h.emit(g, "rebind-rnd")
	}
}
