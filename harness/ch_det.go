package main

// Channel det (C20): evaluation is deterministic.
//
//   det <nproc> <nrun> <program bytes as dot-separated decimals>
//
// Exec spawns <nproc> fresh child processes (`zyh detchild <idle> <nrun>`, the harness
// re-executing itself). Child j first creates j%3 interpreters that run nothing, then
// evaluates the program <nrun> times, each time in a fresh interpreter. Exec itself never
// evaluates a program, so one op cannot influence another through the package-level type
// registry. Every run yields an *outcome* = printed value + captured stdout + error text +
// (line `S:`) the names first interned by this evaluation in symbol-NUMBER order, i.e. what
// `(symnum (str2sym "<name>"))` appended to the program would answer for each of them — a
// difference there is a difference a script can see (symnum, `<` on symbols, gensym names);
// addresses (0x…) are masked because pointer printing is outside the property. Answer:
//   det                                     all nproc*nrun outcomes are equal
//   nondet <where> <outcomeA> <outcomeB>    two runs differ (outcomes as dot-separated
//                                           bytes, cut to a window around the first difference)
// The interpreter is set up like `zygo -demo` (StandardSetup + demo structs), plus two
// harness-registered Go structs with methods returning struct pointers (the embedding API).
//
// Gen: corpus = <repo>/tests/*.zy minus the files that use random/time/pointer printing or
// touch the file system / processes, plus generated programs (hashes, records, togo/json/
// msgpack round trips, method calls, packages and scope dumps, symbols).

import (
	"bytes"
	"encoding/base64"
	"fmt"
	"io"
	"os"
	"os/exec"
	"path/filepath"
	"regexp"
	"sort"
	"strconv"
	"strings"
	"sync"
	"time"

	"github.com/glycerine/zygomys/v9/zygo"
)

// ---- harness-registered Go structs (embedding API: RegisterUserdef + _method)

type VInner struct {
	X int64  `json:"x" msg:"x"`
	S string `json:"s" msg:"s"`
}

type VOuter struct {
	In  *VInner `json:"in" msg:"in"`
	Tag string  `json:"tag" msg:"tag"`
}

func (o *VOuter) Self() *VOuter  { return o }
func (o *VOuter) Inner() *VInner { return o.In }
func (o *VOuter) TagLen() int64  { return int64(len(o.Tag)) }
func (i *VInner) Twice() int64   { return 2 * i.X }
func (i *VInner) Same() *VInner  { return i }

var detOnce sync.Once

func detProcessSetup() {
	detOnce.Do(func() {
		zygo.RegisterDemoStructs()
		gsr := &zygo.GoStructRegistry
		gsr.RegisterUserdef(&zygo.RegisteredType{GenDefMap: true, Factory: func(env *zygo.Zlisp, h *zygo.SexpHash) (interface{}, error) {
			return &VOuter{}, nil
		}}, true, "vouter")
		// one struct under two script names, as ImportDemoData does for nestinner/NestInner
		gsr.RegisterUserdef(&zygo.RegisteredType{GenDefMap: true, Factory: func(env *zygo.Zlisp, h *zygo.SexpHash) (interface{}, error) {
			return &VInner{}, nil
		}}, true, "vinner", "VInner")
		gsr.RegisterUserdef(&zygo.RegisteredType{GenDefMap: true, Factory: func(env *zygo.Zlisp, h *zygo.SexpHash) (interface{}, error) {
			return &zygo.NestOuter{}, nil
		}}, true, "nestouter", "NestOuter")
		gsr.RegisterUserdef(&zygo.RegisteredType{GenDefMap: true, Factory: func(env *zygo.Zlisp, h *zygo.SexpHash) (interface{}, error) {
			return &zygo.NestInner{}, nil
		}}, true, "nestinner", "NestInner")
		repo := os.Getenv("VERIF_REPO")
		if repo == "" {
			repo = "/repo"
		}
		os.Chdir(repo) // the corpus refers to tests/… relative to the repository root
	})
}

var ptrRe = regexp.MustCompile(`0x[0-9a-fA-F]{4,}`)

// a recovered Go panic puts a stack trace into the error text: goroutine ids and code
// offsets in it are addresses in all but name
var gorRe = regexp.MustCompile(`goroutine [0-9]+ |\+0x[0-9a-fA-F]+`)

func detFreshEnv() *zygo.Zlisp {
	env := zygo.NewZlisp()
	env.StandardSetup()
	// what ImportDemoData binds per interpreter; its type registrations are done once per
	// process in detProcessSetup (ImportDemoData itself registers nestouter/NestOuter in
	// the package-level registry *after* ImportBaseTypes ran, so the first interpreter of
	// a process would lack the globals that every later one has)
	env.AddFunction("nestouter", zygo.DemoNestInnerOuterFunction)
	env.AddFunction("nestinner", zygo.DemoNestInnerOuterFunction)
	return env
}

var stdoutMu sync.Mutex

// detRunOnce evaluates prog in a fresh interpreter and returns the canonical outcome.
func detRunOnce(prog string) (outcome string, class string) {
	detProcessSetup()
	stdoutMu.Lock()
	defer stdoutMu.Unlock()
	tmp, err := os.CreateTemp("", "zyh-det-*")
	if err != nil {
		return "HARNESS cannot capture stdout: " + err.Error(), "err"
	}
	defer os.Remove(tmp.Name())
	saved := os.Stdout
	os.Stdout = tmp
	val, errText, syms := "", "", ""
	done := make(chan struct{})
	go func() {
		defer close(done)
		defer func() {
			if r := recover(); r != nil {
				errText = "HOSTPANIC " + fmt.Sprint(r)
			}
		}()
		env := detFreshEnv()
		defer env.Close()
		base := zygo.VerifSymCounter(env)
		// what `symnum` would answer for every name first interned by this evaluation
		// (by the parser, in source order, or at run time by a decoder / str2sym / gensym):
		// the names in NUMBER order
		defer func() {
			var sb strings.Builder
			for _, e := range zygo.VerifSymTable(env) {
				if e.Num >= base {
					sb.WriteString(" " + e.Name)
				}
			}
			syms = sb.String()
		}()
		res, err := env.EvalString(prog + "\n")
		if err != nil {
			errText = err.Error()
			return
		}
		if res != nil {
			val = res.SexpString(nil)
		}
	}()
	select {
	case <-done:
	case <-time.After(300 * time.Second):
		os.Stdout = saved
		return "TIMEOUT", "err"
	}
	os.Stdout = saved
	tmp.Seek(0, 0)
	out, _ := io.ReadAll(io.LimitReader(tmp, 1<<20))
	tmp.Close()
	class = "val"
	if errText != "" {
		class = "err"
	}
	s := "V:" + val + "\nO:" + string(out) + "\nE:" + errText
	symTail := "\nS:" + syms
	// a recovered Go panic appends a Go stack trace to the error text (frame arguments,
	// goroutine ids, code offsets): pointer printing; the text up to the trace is compared
	if k := strings.Index(s, "\n stack trace:"); k >= 0 {
		s = s[:k] + "\n stack trace: <elided>"
	}
	s = ptrRe.ReplaceAllString(s, "0xPTR")
	return gorRe.ReplaceAllString(s, "@") + symTail, class
}

func bytesToCodes(b []byte) string {
	if len(b) == 0 {
		return "-"
	}
	var sb strings.Builder
	for i, c := range b {
		if i > 0 {
			sb.WriteByte('.')
		}
		sb.WriteString(strconv.Itoa(int(c)))
	}
	return sb.String()
}

func codesToBytes(s string) ([]byte, bool) {
	if s == "-" {
		return nil, true
	}
	parts := strings.Split(s, ".")
	b := make([]byte, 0, len(parts))
	for _, p := range parts {
		n, err := strconv.Atoi(p)
		if err != nil || n < 0 || n > 255 {
			return nil, false
		}
		b = append(b, byte(n))
	}
	return b, true
}

// window cuts both outcomes to a window around their first difference.
func diffWindow(a, b string) (string, string) {
	i := 0
	for i < len(a) && i < len(b) && a[i] == b[i] {
		i++
	}
	lo := i - 120
	if lo < 0 {
		lo = 0
	}
	cut := func(s string) string {
		hi := i + 200
		if hi > len(s) {
			hi = len(s)
		}
		if lo > len(s) {
			return ""
		}
		return s[lo:hi]
	}
	return cut(a), cut(b)
}

const detSep = "\x00<<run>>\x00"

// `zyh detchild <idle> <nrun>`: program on stdin; creates <idle> interpreters that run
// nothing, then evaluates the program <nrun> times, each in a fresh interpreter, and
// writes the outcomes separated by detSep.
func detChildMain(args []string) {
	idle, nrun := 0, 1
	if len(args) > 0 {
		idle, _ = strconv.Atoi(args[0])
	}
	if len(args) > 1 {
		nrun, _ = strconv.Atoi(args[1])
	}
	prog, _ := io.ReadAll(os.Stdin)
	detProcessSetup()
	for i := 0; i < idle; i++ { // interpreters created earlier in the process
		e := detFreshEnv()
		e.Close()
	}
	real := os.Stdout
	var sb strings.Builder
	for i := 0; i < nrun; i++ {
		out, _ := detRunOnce(string(prog))
		if i > 0 {
			sb.WriteString(detSep)
		}
		sb.WriteString(out)
	}
	real.WriteString(sb.String())
}

func init() {
	if len(os.Args) > 1 && os.Args[1] == "detchild" {
		detChildMain(os.Args[2:])
		os.Exit(0)
	}
}

// detSpawn runs the program in nproc fresh processes x nrun fresh interpreters each and
// returns outcomes[proc][run].
func detSpawn(prog string, nproc, nrun int) ([][]string, string) {
	self, err := os.Executable()
	if err != nil {
		return nil, "HARNESS no executable path"
	}
	outs := make([][]string, nproc)
	var wg sync.WaitGroup
	sem := make(chan struct{}, 4)
	for j := 0; j < nproc; j++ {
		wg.Add(1)
		go func(j int) {
			defer wg.Done()
			sem <- struct{}{}
			defer func() { <-sem }()
			// a child that dies (time-out on an overloaded machine) is retried once
			var ob bytes.Buffer
			var err error
			for attempt := 0; attempt < 2; attempt++ {
				ob.Reset()
				cmd := exec.Command(self, "detchild", strconv.Itoa(j%3), strconv.Itoa(nrun))
				cmd.Stdin = strings.NewReader(prog)
				cmd.Stdout = &ob
				cmd.Stderr = io.Discard
				tm := time.AfterFunc(900*time.Second, func() { cmd.Process.Kill() })
				err = cmd.Run()
				tm.Stop()
				if err == nil {
					break
				}
			}
			if err != nil {
				outs[j] = []string{"CHILD-FAILED " + err.Error() + " " + ob.String()}
				return
			}
			outs[j] = strings.Split(ob.String(), detSep)
		}(j)
	}
	wg.Wait()
	return outs, ""
}

func detExec(toks []string) string {
	if len(toks) != 3 {
		return "bad-op"
	}
	// `-` = default counts (the form under which known findings are keyed)
	if toks[0] == "-" {
		toks[0] = "4"
	}
	if toks[1] == "-" {
		toks[1] = "5"
	}
	nproc, e1 := strconv.Atoi(toks[0])
	nrun, e2 := strconv.Atoi(toks[1])
	pb, ok := codesToBytes(toks[2])
	if e1 != nil || e2 != nil || !ok || nproc < 1 || nrun < 1 {
		return "bad-op"
	}
	prog := string(pb)
	outs, herr := detSpawn(prog, nproc, nrun)
	if herr != "" {
		return herr
	}
	first := outs[0][0]
	if lf := os.Getenv("ZYH_DET_LOG"); lf != "" {
		if f, err := os.OpenFile(lf, os.O_APPEND|os.O_CREATE|os.O_WRONLY, 0o644); err == nil {
			cls := "val"
			if !strings.Contains(first, "\nE:\nS:") {
				cls = "err"
			}
			fmt.Fprintf(f, "%s %d\n", cls, nproc*nrun)
			f.Close()
		}
	}
	for j := range outs {
		if len(outs[j]) != nrun {
			return "nondet proc#" + strconv.Itoa(j) + "-incomplete " + bytesToCodes([]byte(first)) + " " + bytesToCodes([]byte(strings.Join(outs[j], "|")))
		}
		for i, o := range outs[j] {
			if o != first {
				a, b := diffWindow(first, o)
				return fmt.Sprintf("nondet proc#0.run#0-vs-proc#%d.run#%d %s %s", j, i, bytesToCodes([]byte(a)), bytesToCodes([]byte(b)))
			}
		}
	}
	return "det"
}

// ---- generators

var detExcludeRe = regexp.MustCompile(`random|\brand\b|\(now\)|\bnow\b|time|millis|%p|owritef|writef|system|setenv|getenv|\bgob\b|togob|sleep|\(go |chan|_closdump|\bdump\b|\bsource\b.*http|\bslurpf\b|stdin|readline`)

func detCorpus(g *Gen) []string {
	repo := os.Getenv("VERIF_REPO")
	if repo == "" {
		repo = "/repo"
	}
	files, _ := filepath.Glob(filepath.Join(repo, "tests", "*.zy"))
	sort.Strings(files)
	var progs []string
	for _, f := range files {
		b, err := os.ReadFile(f)
		if err != nil {
			continue
		}
		if detExcludeRe.Match(b) {
			g.Count("corpus file excluded (random/time/pointer/file-system/process)")
			continue
		}
		g.Count("corpus file used")
		progs = append(progs, string(b))
	}
	return progs
}

func detPick(g *Gen, xs []string) string { return xs[g.Rng.Intn(len(xs))] }

func detKeys(g *Gen, n int) []string {
	pool := []string{"a", "b", "c", "d", "e", "f", "g", "h", "k", "m", "n", "p", "q", "r", "alpha", "beta", "gamma", "zz", "Atype", "x1", "x2", "y", "z", "w"}
	g.Rng.Shuffle(len(pool), func(i, j int) { pool[i], pool[j] = pool[j], pool[i] })
	return pool[:n]
}

func detScalar(g *Gen) string {
	switch g.Rng.Intn(6) {
	case 0:
		return strconv.Itoa(g.Rng.Intn(2000) - 1000)
	case 1:
		return fmt.Sprintf("%q", detPick(g, []string{"s", "hello", "a b", "", "zKeyOrder"}))
	case 2:
		return fmt.Sprintf("%d.5", g.Rng.Intn(100))
	case 3:
		return detPick(g, []string{"true", "false"})
	case 4:
		return fmt.Sprintf("[%d %d %d]", g.Rng.Intn(9), g.Rng.Intn(9), g.Rng.Intn(9))
	}
	return "nil"
}

func detHashLit(g *Gen, depth int) string {
	n := 1 + g.Rng.Intn(9)
	var sb strings.Builder
	sb.WriteString("(hash")
	for _, k := range detKeys(g, n) {
		sb.WriteString(" " + k + ":")
		if depth > 0 && g.Rng.Intn(4) == 0 {
			sb.WriteString(detHashLit(g, depth-1))
		} else {
			sb.WriteString(detScalar(g))
		}
	}
	sb.WriteString(")")
	return sb.String()
}

// detGenerated returns (kind, program) pairs.
func detGenerated(g *Gen, n int) [][2]string {
	var out [][2]string
	add := func(kind, p string) { out = append(out, [2]string{kind, p}) }
	// fixed programs that walk the registry / intern symbols / dump scopes
	fixed := [][2]string{
		{"symnum-builtin", `(symnum (quote car))`},
		{"symnum-builtin", `(list (symnum (quote cons)) (symnum (quote hash)) (symnum (quote str)))`},
		{"symbol-order", `(< (quote car) (quote cdr))`},
		{"symbol-order", `(list (< (quote first) (quote rest)) (< (quote snoopy) (quote hornet)) (< (quote int64) (quote string)))`},
		{"symnum-fresh", `(def zzq 1) (list (symnum (quote zzq)) (symnum (quote zzr)))`},
		{"gensym", `(list (gensym) (gensym) (str (gensym)))`},
		{"method-struct-return", `(def o (vouter tag:"t" in:(vinner x:7 s:"q"))) (togo o) (_method o Self:)`},
		{"method-struct-return", `(def o (vouter tag:"t" in:(vinner x:7 s:"q"))) (togo o) (str (_method o Inner:))`},
		{"method-struct-return", `(def o (vouter tag:"tt" in:(VInner x:3))) (togo o) (def r (_method o Self:)) (printf "%v\n" (str r)) (aget r 0)`},
		{"method-struct-return", `(def i (vinner x:21 s:"w")) (togo i) (list (_method i Twice:) (_method i Same:))`},
		{"method-demo", `(def he (hellcat speed:567)) (def ho (hornet SpanCm:12)) (def snoop (snoopy friends:[he ho] cry:"yowza")) (togo snoop) (_method snoop GetCry:)`},
		{"method-demo", `(def snoop (snoopy cry:"yowza")) (togo snoop) (_method snoop EchoWeather: (weather size:12 type:"sunny" details:(raw "123")))`},
		{"togo-bad-fields", `(togo (snoopy bogusa:1 bogusb:2 bogusc:3))`},
		{"togo-bad-fields", `(togo (hornet Nickname:"n" qq:1 rr:2))`},
		{"typelist", `(str (typelist))`},
		{"struct-decl", `(struct Car [(field Wheels: int64) (field Name: string)]) (def c (Car Wheels:4 Name:"b")) (str c)`},
		{"struct-decl", `(struct Pt [(field X: int64) (field Y: int64)]) (def p (Pt X:1 Y:2)) (json p)`},
		{"package-dump", `(def pk (package "pk" { A := 1; b := 2; Cc := "s"; d := [1 2 3] })) (str pk)`},
		{"package-dump", `(def pk1 (package "pk1" { A := 1 })) (def pk2 (package "pk2" { B := pk1.A; C := 4 })) (printf "%v\n" (str pk2)) (str pk1)`},
		{"package-dump", `(def h (hash a:1)) (def pq (package "pq" { X := h; Y := h; Z := (fn [q] (+ q 1)) })) (str pq)`},
		{"fn-print", `(defn f [a b] (+ a b)) (str f)`},
		{"hash-of-builtin-keys", `(def h (hash car:1 cdr:2 cons:3)) (str h)`},
		{"sort-symbols", `(sort (fn [a b] (< a b)) (quote (zeta car alpha cdr mid)))`},
		{"defined", `(list (defined? (quote snoopy)) (defined? (quote vouter)) (defined? (quote nestinner)))`},
	}
	for _, f := range fixed {
		add(f[0], f[1])
	}
	for i := 0; i < n; i++ {
		h := detHashLit(g, 2)
		switch g.Rng.Intn(9) {
		case 0:
			add("hash-print", "(def h "+h+") (str h)")
		case 1:
			add("hash-json", "(def h "+h+") (raw2str (json h))")
		case 2:
			add("hash-json-roundtrip", "(def h "+h+") (str (unjson (json h)))")
		case 3:
			add("hash-msgpack-roundtrip", "(def h "+h+") (str (unmsgpack (msgpack h)))")
		case 4:
			add("hash-keys-range", "(def h "+h+") (range k v h (printf \"%v=%v;\" k v)) (keys h)")
		case 5:
			ks := detKeys(g, 3)
			add("hash-delete-set", "(def h "+h+") (hset h "+ks[0]+": 1) (hdel h "+ks[0]+": ) (hset h "+ks[1]+": 2) (list (len h) (str h))")
		case 6:
			add("record-json", fmt.Sprintf(`(def s (snoopy cry:%q pack:[%d %d] chld:(hellcat speed:%d) friends:[(hornet SpanCm:%d) (hellcat speed:%d)])) (def j (json s)) (printf "%%v\n" (raw2str j)) (str (unjson j))`,
				detPick(g, []string{"yo", "a b", "z"}), g.Rng.Intn(9), g.Rng.Intn(9), g.Rng.Intn(900), g.Rng.Intn(90), g.Rng.Intn(90)))
		case 7:
			add("record-togo-method", fmt.Sprintf(`(def o (vouter tag:%q in:(%s x:%d s:%q))) (togo o) (def r (_method o Self:)) (list (str r) (_method o TagLen:))`,
				detPick(g, []string{"t", "tag", ""}), detPick(g, []string{"vinner", "VInner"}), g.Rng.Intn(100), detPick(g, []string{"a", "bb"})))
		case 8:
			ks := detKeys(g, 4)
			add("package-dump", fmt.Sprintf(`(def pz (package "pz" { %s := %d; %s := %d; %s := "v"; %s := [1 2] })) (str pz)`,
				strings.ToUpper(ks[0][:1])+ks[0][1:], g.Rng.Intn(50), ks[1], g.Rng.Intn(50), ks[2], ks[3]))
		}
	}
	return out
}

// ---- programs whose data reach the interpreter through a decoder (names first seen at run time)

// detFreshNames: names that no program text mentions as a symbol, so the decoder (not the
// parser) is the first to intern them.
func detFreshNames(g *Gen, n int) []string {
	pool := []string{"zqalpha", "zqbravo", "zqcharlie", "zqdelta", "zqecho", "zqfoxtrot", "zqgolf", "zqhotel", "zqindia", "zqjuliet",
		"Zqkilo", "zqLima", "zq_mike", "zq9", "zqoscar", "zqpapa", "yankee7", "xray_1", "Wq", "vq"}
	g.Rng.Shuffle(len(pool), func(i, j int) { pool[i], pool[j] = pool[j], pool[i] })
	return pool[:n]
}

// detJSONDoc renders a JSON object with fresh member names. withOrder adds the Atype /
// zKeyOrder members that (json …) writes (the decoder then restores the key order from the
// list); without them the document looks like foreign JSON.
func detJSONDoc(g *Gen, depth int, withOrder bool) string {
	n := 2 + g.Rng.Intn(7)
	names := detFreshNames(g, n)
	var parts, quoted []string
	if withOrder {
		parts = append(parts, `"Atype":"hash"`)
	}
	for i, k := range names {
		v := strconv.Itoa(i + 1)
		switch {
		case depth > 0 && g.Rng.Intn(4) == 0:
			v = detJSONDoc(g, depth-1, g.Rng.Intn(2) == 0)
		case g.Rng.Intn(5) == 0:
			v = `"s` + strconv.Itoa(i) + `"`
		case g.Rng.Intn(6) == 0:
			v = `[1, {"` + k + `in":2, "` + k + `ib":3}]`
		}
		parts = append(parts, `"`+k+`":`+v)
		quoted = append(quoted, `"`+k+`"`)
	}
	if withOrder {
		// the key order as written by a hash whose keys were inserted in this (shuffled) order
		g.Rng.Shuffle(len(quoted), func(i, j int) { quoted[i], quoted[j] = quoted[j], quoted[i] })
		parts = append(parts, `"zKeyOrder":[`+strings.Join(quoted, ", ")+`]`)
	}
	g.Rng.Shuffle(len(parts), func(i, j int) { parts[i], parts[j] = parts[j], parts[i] })
	return "{" + strings.Join(parts, ", ") + "}"
}

// detMsgpackDoc hand-encodes a msgpack map (fixmap / map16 of fixstr → small ints) with
// fresh member names, optionally with Atype / zKeyOrder, and returns it base64-encoded.
func detMsgpackDoc(g *Gen, withOrder bool) string {
	names := detFreshNames(g, 2+g.Rng.Intn(7))
	var b []byte
	str := func(s string) {
		b = append(b, 0xa0|byte(len(s)))
		b = append(b, s...)
	}
	n := len(names)
	if withOrder {
		n += 2
	}
	if n < 16 {
		b = append(b, 0x80|byte(n))
	} else {
		b = append(b, 0xde, 0, byte(n))
	}
	if withOrder {
		str("zKeyOrder")
		b = append(b, 0x90|byte(len(names)))
		perm := g.Rng.Perm(len(names))
		for _, i := range perm {
			str(names[i])
		}
	}
	for i, k := range names {
		str(k)
		b = append(b, byte(i+1))
	}
	if withOrder {
		str("Atype")
		str("hash")
	}
	return base64.URLEncoding.EncodeToString(b)
}

func detZyString(s string) string {
	return `"` + strings.ReplaceAll(strings.ReplaceAll(s, `\`, `\\`), `"`, `\"`) + `"`
}

// detObserveDecoded: what a script can find out about a decoded hash h — the printed form,
// key iteration, and everything that exposes symbol NUMBERS of its keys.
func detObserveDecoded(g *Gen) string {
	obs := []string{
		`(map (fn [s] (symnum s)) (keys h))`,
		`(let [k (keys h)] (list (< (aget k 0) (aget k 1)) (> (aget k 0) (aget k 1)) (== (aget k 0) (aget k 1))))`,
		`(map (fn [a] (map (fn [b] (< a b)) (keys h))) (keys h))`,
		`(begin (range k v h (printf "%v=%v;" k v)) (keys h))`,
		`(list (str h) (len h) (hpair h 0))`,
		`(list (gensym) (symnum (str2sym "zqlate")))`,
		`(raw2str (json h))`,
		`(let [h2 (hash)] (range k v h (hset h2 k (symnum k))) (str h2))`,
	}
	k := 2 + g.Rng.Intn(3)
	g.Rng.Shuffle(len(obs), func(i, j int) { obs[i], obs[j] = obs[j], obs[i] })
	p := "(list " + strings.Join(obs[:k], " ") + ")"
	if g.Rng.Intn(5) == 0 {
		// an error text after the observations were printed
		p = "(println " + p + `) (hget h (str2sym "nosuchkey"))`
	}
	return p
}

// detDecodePrograms: kind, program.
func detDecodePrograms(g *Gen, n int) [][2]string {
	var out [][2]string
	// names that exist only as STRING keys / values until a codec walks the hash
	strHash := func() string {
		var sb strings.Builder
		sb.WriteString("(hash")
		for i, k := range detFreshNames(g, 2+g.Rng.Intn(6)) {
			v := strconv.Itoa(i + 1)
			if g.Rng.Intn(4) == 0 {
				v = `(hash "` + k + `in" 1 "` + k + `ib" "s")`
			}
			sb.WriteString(` "` + k + `" ` + v)
		}
		sb.WriteString(")")
		return sb.String()
	}
	for i := 0; i < n/3; i++ {
		switch g.Rng.Intn(4) {
		case 0:
			out = append(out, [2]string{"string-keys-json-roundtrip", "(def h0 " + strHash() + ") (def h (unjson (json h0))) " + detObserveDecoded(g)})
		case 1:
			out = append(out, [2]string{"string-keys-msgpack-roundtrip", "(def h0 " + strHash() + ") (def h (unmsgpack (msgpack h0))) " + detObserveDecoded(g)})
		case 2:
			out = append(out, [2]string{"string-keys-encode-only", "(def h0 " + strHash() + ") (list (raw2str (json h0)) (base64 (msgpack h0)) (str h0))"})
		case 3:
			out = append(out, [2]string{"string-keys-to-symbols", "(def h0 " + strHash() + ") (def h (hash)) (range k v h0 (hset h (str2sym k) v)) " + detObserveDecoded(g)})
		}
	}
	for i := 0; i < n; i++ {
		switch g.Rng.Intn(4) {
		case 0:
			out = append(out, [2]string{"decode-json-own", "(def h (unjson (raw " + detZyString(detJSONDoc(g, 1, true)) + "))) " + detObserveDecoded(g)})
		case 1:
			out = append(out, [2]string{"decode-json-foreign", "(def h (unjson (raw " + detZyString(detJSONDoc(g, 1, false)) + "))) " + detObserveDecoded(g)})
		case 2:
			out = append(out, [2]string{"decode-msgpack-own", `(def h (unmsgpack (unbase64 "` + detMsgpackDoc(g, true) + `"))) ` + detObserveDecoded(g)})
		case 3:
			out = append(out, [2]string{"decode-msgpack-foreign", `(def h (unmsgpack (unbase64 "` + detMsgpackDoc(g, false) + `"))) ` + detObserveDecoded(g)})
		}
	}
	return out
}

func detGen(g *Gen) {
	// runs per program = nproc fresh processes x nrun fresh interpreters in each
	nproc, nrun, ngen := 4, 5, 30 // 20 runs
	cproc, crun := 2, 4           // corpus files are long: 8 runs each in the quick tier
	if g.Thorough() {
		nproc, nrun, ngen = 25, 8, 300 // 200 runs
		cproc, crun = 10, 5
	}
	emit := func(kind, prog string, np, nr int) {
		if strings.ContainsAny(prog, "\x00") {
			return
		}
		g.Count("kind " + kind)
		g.Emit("%d %d %s", np, nr, bytesToCodes([]byte(prog)))
	}
	for _, p := range detCorpus(g) {
		emit("corpus", p, cproc, crun)
	}
	for _, kp := range detGenerated(g, ngen) {
		emit(kp[0], kp[1], nproc, nrun)
	}
	// 2..8 names that only the decoder sees: 12 runs (3 processes x 4 interpreters) leave an
	// order-dependent numbering of even two names a chance of 2^-11 to go unnoticed
	dproc, drun := 3, 4
	if g.Thorough() {
		dproc, drun = 10, 5
	}
	for _, kp := range detDecodePrograms(g, ngen) {
		emit(kp[0], kp[1], dproc, drun)
	}
	// observe first, change a setting afterwards: the second interpreter of a process must
	// start like the first did (the settings are drawn from every builtin: see ch_interf.go)
	calls := interfSettingCalls()
	for i := 0; i < ngen/3 && len(calls) > 0; i++ {
		c := calls[g.Rng.Intn(len(calls))]
		obs := interfGeneralBattery()[g.Rng.Intn(len(interfGeneralBattery()))]
		// a setting that leaks shows in the second interpreter of the first process already
		emit("observe-then-call", "(def zzobs (begin "+obs+")) "+c+" zzobs", 2, 3)
	}
}

func init() {
	channels["det"] = &Channel{Gen: detGen, Exec: detExec}
}
