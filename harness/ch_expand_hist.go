package main

// Channel expand, INTERFERENCE HISTORIES (C06): the meaning of an infix block in interpreter A must not
// depend on which other interpreters exist in the process.
//
//   expand htree <hist> <spacing> <tok>…            -> as `tree`, expanded in A after the history, followed by
//                                                      ` ## ids-ok` when every symbol of the expansion carries the
//                                                      number A itself gives to its name (symbols resolve by number),
//                                                      else ` ## ids-bad:name=<carried>/<A's own>,…`
//   expand hval  <hist> <spacing> <tok>… => <codes> -> eq <V> | ne <V> <P>: V = value, (tr …) trace and final bindings of
//                                                      {…} evaluated in A1, P = those of the prefix form <codes> (computed by
//                                                      the Lean SPEC) evaluated in A2; `only <V>` when <codes> is `-`
//                                                      (the specification is silent: if/for; V is still compared with the
//                                                      history-free run by checks/C06.py)
//
// <hist> = <akind>/<pre>/<post>. A1 (and A2, made right after it by the same constructor) are of kind <akind>;
// the interpreters of <pre> are created AND USED before A exists, those of <post> after A exists and before A expands
// or evaluates anything. Kinds / steps:
//   z  NewZlisp()                      s  NewZlispSandbox()
//   f  NewZlispWithFuncs(small table)  g  NewZlispWithFuncs(all builtins + one more that sorts first: every number shifts)
//   d  A.Duplicate()   c  A.Clone()    (post only; share A's tables)
//   u  A itself expands and evaluates an index, a slice and a selector once (post only; fills anything lazy)
// `<akind>//` is the history-free reference. Every B evaluates `{v[1] + h.k + v[0:2][0] + h .k}` once (errors ignored).

import (
	"strings"

	"github.com/glycerine/zygomys/v9/zygo"
)

func xsmallFuncs() map[string]zygo.ZlispUserFunction {
	all := zygo.AllBuiltinFunctions()
	out := map[string]zygo.ZlispUserFunction{}
	for _, k := range []string{"+", "-", "*", "array", "arrayidx", "hashidx", "hash", "aget", "hget", "slice", "infixExpand", "append", "len", "str"} {
		if f, ok := all[k]; ok {
			out[k] = f
		}
	}
	return out
}

func xshiftedFuncs() map[string]zygo.ZlispUserFunction {
	all := zygo.AllBuiltinFunctions()
	out := map[string]zygo.ZlispUserFunction{}
	for k, f := range all {
		out[k] = f
	}
	out["!!verifFirst"] = all["+"]
	return out
}

func xnewKind(k byte) *zygo.Zlisp {
	var env *zygo.Zlisp
	switch k {
	case 'z':
		env = zygo.NewZlisp()
	case 's':
		env = zygo.NewZlispSandbox()
	case 'f':
		return zygo.NewZlispWithFuncs(xsmallFuncs()) // no StandardSetup: its macros need builtins this table lacks
	case 'g':
		env = zygo.NewZlispWithFuncs(xshiftedFuncs())
	default:
		return nil
	}
	env.StandardSetup()
	return env
}

const xuseProg = "(def v [10 20 30]) (def h (hash k:1)) {v[1] + h.k + v[0:2][0] + h .k}\n"

func xuse(env *zygo.Zlisp) {
	defer func() { recover() }()
	if _, err := env.EvalString(xuseProg); err != nil {
		env.Clear()
	}
	if _, err := env.EvalString("(infixExpand {v[1]; h .k; v[0:1]})\n"); err != nil {
		env.Clear()
	}
}

type xhist struct {
	akind     byte
	pre, post string
}

func xparseHist(s string) (xhist, bool) {
	p := strings.Split(s, "/")
	if len(p) != 3 || len(p[0]) != 1 || !strings.Contains("zsg", p[0]) {
		return xhist{}, false
	}
	for _, c := range p[1] {
		if !strings.ContainsRune("zsfg", c) {
			return xhist{}, false
		}
	}
	for _, c := range p[2] {
		if !strings.ContainsRune("zsfgdcu", c) {
			return xhist{}, false
		}
	}
	return xhist{akind: p[0][0], pre: p[1], post: p[2]}, true
}

// xplay: runs the history; returns n interpreters of kind akind (created one right after the other, after
// the <pre> interpreters and before the <post> ones). Every B stays referenced until the op ends.
func xplay(h xhist, n int) ([]*zygo.Zlisp, []*zygo.Zlisp) {
	var keep []*zygo.Zlisp
	for i := 0; i < len(h.pre); i++ {
		b := xnewKind(h.pre[i])
		xuse(b)
		keep = append(keep, b)
	}
	as := make([]*zygo.Zlisp, n)
	for i := range as {
		as[i] = xnewKind(h.akind)
	}
	for i := 0; i < len(h.post); i++ {
		switch c := h.post[i]; c {
		case 'd':
			for _, a := range as {
				b := a.Duplicate()
				xuse(b)
				keep = append(keep, b)
			}
		case 'c':
			for _, a := range as {
				b := a.Clone()
				xuse(b)
				keep = append(keep, b)
			}
		case 'u':
			for _, a := range as {
				// in a scope of its own names: the bindings the values are compared on stay untouched
				if _, err := a.EvalString("(let [uv [1 2 3] uh (hash k:1)] {uv[1] + uh.k + uv[0:2][0] + uh .k})\n"); err != nil {
					a.Clear()
				}
				if _, err := a.EvalString("(infixExpand {uv[1]; uh .k; uv[0:1]})\n"); err != nil {
					a.Clear()
				}
			}
		default:
			b := xnewKind(c)
			xuse(b)
			keep = append(keep, b)
		}
	}
	return as, keep
}

func xexpandIn(env *zygo.Zlisp, src string) string {
	res, err := env.EvalString("(infixExpand {" + src + "\n})\n")
	if err != nil {
		env.Clear()
		return "err"
	}
	p, ok := res.(*zygo.SexpPair)
	if !ok {
		if res == zygo.SexpNull {
			return "-empty-"
		}
		return "other " + strings.ReplaceAll(res.SexpString(nil), " ", "_")
	}
	var parts []string
	var cur zygo.Sexp = p.Tail
	for {
		q, ok := cur.(*zygo.SexpPair)
		if !ok {
			break
		}
		var b strings.Builder
		canon(q.Head, &b)
		parts = append(parts, b.String())
		cur = q.Tail
	}
	if len(parts) == 0 {
		return "-empty-"
	}
	ids := zygo.VerifSymbolIds(env, res)
	if ids == "" {
		ids = "ids-ok"
	} else {
		ids = "ids-bad:" + ids
	}
	return strings.Join(parts, " | ") + " ## " + ids
}

func xvalueIn(env *zygo.Zlisp, prog string) string {
	if _, err := env.EvalString(xprelude); err != nil {
		env.Clear()
		return "prelude-err"
	}
	res, err := env.EvalString(prog + "\n")
	if err != nil {
		env.Clear()
		return "err"
	}
	var b strings.Builder
	canon(res, &b)
	vals := []string{b.String()}
	for _, name := range []string{"trlog", "a", "b", "x", "i", "v", "h"} {
		r, err := env.EvalString(name + " ")
		if err != nil {
			env.Clear()
			vals = append(vals, "?")
			continue
		}
		vals = append(vals, strings.ReplaceAll(r.SexpString(nil), " ", "_"))
	}
	return strings.ReplaceAll(strings.Join(vals, ";"), " ", "_")
}

func xhistExec(toks []string) string {
	if len(toks) < 3 {
		return "bad-op"
	}
	h, ok := xparseHist(toks[1])
	if !ok {
		return "bad-op"
	}
	ws := toks[3:]
	codes := ""
	if toks[0] == "hval" {
		k := -1
		for i, w := range ws {
			if w == "=>" {
				k = i
			}
		}
		if k < 0 || k+1 >= len(ws) {
			return "bad-op"
		}
		codes = ws[k+1]
		ws = ws[:k]
	}
	ts, _, ok := xparse(ws, "")
	if !ok {
		return "bad-op"
	}
	src := xrender(xpieces(ts, nil), toks[2])
	if toks[0] == "htree" {
		as, keep := xplay(h, 1)
		ans := xexpandIn(as[0], src)
		_ = keep
		return ans
	}
	if codes == "-" {
		as, keep := xplay(h, 1)
		v := xvalueIn(as[0], "{"+src+"\n}")
		_ = keep
		return "only " + v
	}
	prefix, ok := decodeCodes(codes)
	if !ok {
		return "bad-op"
	}
	as, keep := xplay(h, 2)
	v1 := xvalueIn(as[0], "{"+src+"\n}")
	v2 := xvalueIn(as[1], prefix)
	_ = keep
	if v1 == v2 {
		return "eq " + v1
	}
	return "ne " + v1 + " " + v2
}

// ---------------------------------------------------------------- generator

// every history shape: each constructor kind before and after A, for each kind of A; first entry of a kind = reference
var xhistories = []string{
	"z//", "z//z", "z//s", "z//f", "z//g", "z//d", "z//c", "z//u", "z/z/", "z/s/", "z/f/", "z/g/",
	"z//us", "z//su", "z/s/s", "z//sz", "z//zs", "z//sfgdc", "z/sfg/gfs", "z//sd", "z//ds",
	"s//", "s//z", "s//s", "s//f", "s//g", "s//d", "s//c", "s/z/", "s/g/", "s//uz", "s//zu", "s//zs", "s//sz", "s/z/z",
	"g//", "g//z", "g//s", "g/z/", "g/s/", "g//zs", "g//d",
}

// one or two bodies per operator family of the property text (assignment forms, comma, or/and, comparisons,
// + -, * / mod, **, not, indexing, slicing, field access, calls), statements in sequence, if/else, for
func xfamilyBodies() [][]xtok {
	idx := func(name string, kids ...xtok) []xtok { return []xtok{xs(name), {kind: '[', kids: kids}} }
	cat := func(parts ...[]xtok) []xtok {
		var out []xtok
		for _, p := range parts {
			out = append(out, p...)
		}
		return out
	}
	one := func(t xtok) []xtok { return []xtok{t} }
	semi := one(xtok{kind: ';'})
	return [][]xtok{
		// indexing
		idx("v", xn("1")),
		idx("v", xs("i")),
		idx("v", xs("i"), xs("+"), xn("1")),
		cat(idx("v", xn("0")), one(xs("+")), idx("v", xn("2")), one(xs("*")), one(xn("2"))),
		cat(one(xs("a")), one(xs("*")), idx("v", xs("j")), one(xs("-")), idx("v", xn("0"))),
		cat(idx("v", xn("1")), one(xs("<")), idx("v", xn("2")), one(xs("and")), one(xs("not")), idx("v", xn("0")), one(xs("==")), one(xn("0"))),
		// slicing
		idx("v", xn("1"), xs(":"), xn("3")),
		idx("v", xs(":"), xn("2")),
		idx("v", xn("2"), xs(":")),
		idx("v", xtok{kind: 'l', text: "i"}, xs("j")),
		cat(idx("v", xn("1"), xs(":"), xn("4")), []xtok{{kind: '[', kids: []xtok{xn("1")}}}),
		cat(idx("v", xs("i"), xs(":"), xs("i"), xs("+"), xn("2")), []xtok{{kind: '[', kids: []xtok{xn("0")}}}, one(xs("**")), one(xn("2"))),
		// dotted selectors and field access
		one(xtok{kind: 'd', text: "h.k"}),
		one(xtok{kind: 'd', text: "h.g.z"}),
		{xs("h"), {kind: 'd', text: ".g"}, {kind: 'd', text: ".z"}},
		{{kind: 'd', text: "h.m"}, {kind: '[', kids: []xtok{xn("1")}}},
		{xs("h"), {kind: 'd', text: ".m"}, {kind: '[', kids: []xtok{xs("i")}}, xs("+"), {kind: 'd', text: "h.k"}},
		{{kind: 'd', text: "h.m"}, {kind: '[', kids: []xtok{xn("0"), xs(":"), xn("2")}}},
		// assignment forms (also to an element and to a field)
		{xs("x"), xs("="), xs("a"), xs("+"), xs("b")},
		{xs("w"), xs(":="), xs("a"), xs("*"), xs("b"), {kind: ';'}, xs("w"), xs("+"), xn("1")},
		{xs("x"), xs("+="), xs("c")},
		{xs("x"), xs("-="), xs("c"), xs("*"), xn("2")},
		{xs("i"), xs("++")},
		{xs("i"), xs("--")},
		cat(idx("v", xn("1")), one(xs("=")), one(xs("a")), one(xs("+")), one(xn("1"))),
		cat(idx("v", xs("i")), one(xs("=")), idx("v", xn("0")), one(xs("+")), idx("v", xn("2")), semi, idx("v", xn("1"))),
		{xs("a"), xs("="), xs("b"), xs("="), xn("4")},
		{xs("x"), xs("="), {kind: 'd', text: "h.k"}, xs("+"), xs("v"), {kind: '[', kids: []xtok{xn("3")}}},
		// comma, or/and, comparisons, arithmetic levels, **, not
		{xs("a"), {kind: ','}, xs("b")},
		{xs("t"), xs("or"), xs("f"), xs("and"), xs("f")},
		{xs("t"), xs("&&"), xs("f"), xs("||"), xs("t")},
		{xs("a"), xs("<"), xs("b"), xs("or"), xs("a"), xs(">="), xs("b")},
		{xs("a"), xs("=="), xs("b"), xs("+"), xn("4")},
		{xs("a"), xs("!="), xs("b")},
		{xs("a"), xs("<="), xs("b"), xs("*"), xn("3")},
		{xs("a"), xs("+"), xs("b"), xs("*"), xs("c"), xs("-"), xs("d"), xs("/"), xn("5")},
		{xs("a"), xs("-"), xs("b"), xs("-"), xs("c")},
		{xs("x"), xs("mod"), xs("y"), xs("+"), xn("1")},
		{xs("c"), xs("**"), xn("3"), xs("**"), xn("2")},
		{xn("2"), xs("*"), xs("c"), xs("**"), xs("b")},
		{xs("not"), xs("t"), xs("or"), xs("t")},
		{xs("not"), xs("a"), xs("<"), xs("b")},
		// calls, nested blocks, effects in order
		{{kind: '(', kids: []xtok{xs("tr"), xn("1")}}, xs("+"), {kind: '(', kids: []xtok{xs("tr"), xn("2")}}, xs("*"), {kind: '(', kids: []xtok{xs("tr"), xn("3")}}},
		{{kind: '(', kids: []xtok{xs("tr"), xn("1")}}, {kind: ';'}, {kind: '(', kids: []xtok{xs("tr"), xn("2")}}, {kind: ';'}, xs("a")},
		{xs("a"), xs("*"), {kind: '{', kids: []xtok{xs("b"), xs("+"), xs("v"), {kind: '[', kids: []xtok{xn("1")}}}}},
		{{kind: '(', kids: []xtok{xs("+"), xs("a"), {kind: '{', kids: []xtok{xs("v"), {kind: '[', kids: []xtok{xn("2")}}, xs("*"), xn("2")}}}}},
		// if / else, for (the stratified specification is silent: compared with the history-free run only)
		{xs("if"), xs("a"), xs(">"), xs("b"), {kind: '{', kids: idx("v", xn("1"))}, xs("else"), {kind: '{', kids: idx("v", xn("2"))}},
		{xs("for"), xs("k"), xs(":="), xn("0"), {kind: ';'}, xs("k"), xs("<"), xn("3"), {kind: ';'}, xs("k"), xs("++"), {kind: '{', kids: []xtok{xs("x"), xs("+="), xs("v"), {kind: '[', kids: []xtok{xs("k")}}}}, {kind: ';'}, xs("x")},
		{xs("for"), xs("k"), {kind: ','}, xs("w"), xs(":="), xs("range"), xs("v"), {kind: '{', kids: []xtok{xs("x"), xs("+="), xs("w")}}, {kind: ';'}, xs("x")},
	}
}

func xgenHist(g *Gen) {
	bodies := xfamilyBodies()
	for bi, body := range bodies {
		for hi, h := range xhistories {
			// quick: every body under every history of A = z, and a rotating third of the others
			if !g.Thorough() && h[0] != 'z' && (bi+hi)%3 != 0 {
				continue
			}
			g.Emit("htree %s S %s", h, xwords(body))
			g.Count("history-" + h)
		}
	}
	// random structured blocks under random histories
	n := 300
	if g.Thorough() {
		n = 6000
	}
	for k := 0; k < n; k++ {
		h := xhistories[g.Rng.Intn(len(xhistories))]
		g.Emit("htree %s S %s", h, xwords(g.xblock(1+g.Rng.Intn(2))))
		g.Count("history-random-block")
	}
}
