package main

// Channel togo (C10): records <-> registered Go structs.
//
//	togo conv <root> W <world…> E <term…> X <expected>   -> canonical Go tree | err
//	togo echo <root> W <world…> E <term…> X -           -> canonical record tree | err
//
// <root>  registered record type name of the top record.
// <world> the Go type descriptors reachable from the root, as Go's reflect reports them NOW
//
//	(exec recomputes it and answers `bad-world` when the line's copy differs, so the Lean
//	model always runs on the descriptors of the real types):
//	  S <n> { <StructName> <regname|-> <nfields> { <GoName> <jsontag|-> <anon 0|1> <ty> } }
//	  F <m> { <IfaceName> <k> { <StructName> } }      (registered pointer types implementing it)
//	ty: i64 int i32 i16 i8 u64 u32 u16 u8 uint f64 f32 str bool time bytes eface
//	    L/<ty> P/<Struct> V/<Struct> I/<Iface> M/<ty>/<ty> X
//
// <term>  the record (prefix notation): i<dec> u<dec> f<hexbits> s<codes> y<codes> c<dec> b0 b1 n
//
//	r<codes> t<unixsec> p (a list) | A<k> term^k | H<id>:<k>:<typename> (key term)^k | R<id>
//	key: k<codes> symbol, K<codes> string, ki<dec> int.  R<id> = the SAME record object again.
//
// conv: real (togo r) through EvalString; answer = canonical dump of the resulting Go value with
// pointer-sharing classes (&n{…} first visit, &n again). Every op is executed togoRepeat times on
// freshly built records (Go map iteration order inside the walk is random); differing answers
// are reported as `nondet(a|b)`.
// echo: (_method obj Echo<T>: r) for identity methods of the harness type VNode; answer =
// canonical dump of the record that comes back.

import (
	"fmt"
	"math"
	"os"
	"reflect"
	"sort"
	"strconv"
	"strings"
	"time"

	"github.com/glycerine/zygomys/v9/zygo"
)

// ---------------------------------------------------------------- harness-registered types

type VThing interface{ Thing() int }

type VEmb struct {
	Tag string `json:"tag"`
	Lvl int64
	Dup int64 `json:"dup"` // shadowed by VNode.Dup2 (same json tag, declared later)
}

type VLeaf struct {
	I    int64   `json:"i"`
	N    int     `json:"n"`
	I32  int32   `json:"i32"`
	I8   int8    `json:"i8"`
	U    uint64  `json:"u"`
	F    float64 `json:"f"`
	S    string  `json:"s"`
	B    bool    `json:"b"`
	Name string
}

type VNode struct {
	VEmb
	Id     int64              `json:"id"`
	Leaf   *VLeaf             `json:"leaf"`
	Leaf2  *VLeaf             `json:"leaf2"`
	Val    VLeaf              `json:"val"`
	Ints   []int64            `json:"ints"`
	Strs   []string           `json:"strs"`
	Raw    []byte             `json:"raw"`
	Kids   []*VNode           `json:"kids"`
	Any    VThing             `json:"any"`
	Things []VThing           `json:"things"`
	MS     map[string]string  `json:"ms"`
	MF     map[string]float64 `json:"mf"`
	MI     map[int64]float64  `json:"mi"`
	MT     map[string]VThing  `json:"mt"`
	When   time.Time          `json:"when"`
	Ef     interface{}        `json:"e"`
	Dup2   string             `json:"dup"`
}

func (*VLeaf) Thing() int { return 1 }
func (*VNode) Thing() int { return 2 }

// identity methods: the way back (Go struct -> record)
func (n *VNode) EchoVNode(x *VNode) *VNode                             { return x }
func (n *VNode) EchoVLeaf(x *VLeaf) *VLeaf                             { return x }
func (n *VNode) EchoVEmb(x *VEmb) *VEmb                                { return x }
func (n *VNode) EchoSnoopy(x *zygo.Snoopy) *zygo.Snoopy                { return x }
func (n *VNode) EchoHornet(x *zygo.Hornet) *zygo.Hornet                { return x }
func (n *VNode) EchoHellcat(x *zygo.Hellcat) *zygo.Hellcat             { return x }
func (n *VNode) EchoWeather(x *zygo.Weather) *zygo.Weather             { return x }
func (n *VNode) EchoPlane(x *zygo.Plane) *zygo.Plane                   { return x }
func (n *VNode) EchoSetOfPlanes(x *zygo.SetOfPlanes) *zygo.SetOfPlanes { return x }
func (n *VNode) EchoEvent(x *zygo.Event) *zygo.Event                   { return x }
func (n *VNode) EchoPerson(x *zygo.Person) *zygo.Person                { return x }

type togoRoot struct {
	name string
	mk   func() interface{}
	echo string // identity method of *VNode for this type; "Touch"+echo[4:] is the mutating one
	self bool   // the type has a method Self (harness types)
	// fixedOnly: only hand-written ops use this type; grid and random streams leave it out
	// (was needed for vpe before fix C10-06; no type uses it today)
	fixedOnly bool
}

var togoRoots = []togoRoot{
	{"vleaf", func() interface{} { return &VLeaf{} }, "EchoVLeaf", true, false},
	{"vnode", func() interface{} { return &VNode{} }, "EchoVNode", true, false},
	{"vemb", func() interface{} { return &VEmb{} }, "EchoVEmb", true, false},
	{"snoopy", func() interface{} { return &zygo.Snoopy{} }, "EchoSnoopy", false, false},
	{"hornet", func() interface{} { return &zygo.Hornet{} }, "EchoHornet", false, false},
	{"hellcat", func() interface{} { return &zygo.Hellcat{} }, "EchoHellcat", false, false},
	{"weather", func() interface{} { return &zygo.Weather{} }, "EchoWeather", false, false},
	{"plane", func() interface{} { return &zygo.Plane{} }, "EchoPlane", false, false},
	{"setOfPlanes", func() interface{} { return &zygo.SetOfPlanes{} }, "EchoSetOfPlanes", false, false},
	{"eventdemo", func() interface{} { return &zygo.Event{} }, "EchoEvent", false, false},
	{"persondemo", func() interface{} { return &zygo.Person{} }, "EchoPerson", false, false},
	// deeper and wider shapes (ch_togo_types.go)
	{"vd0", func() interface{} { return &VD0{} }, "EchoVD0", true, false},
	{"vd2", func() interface{} { return &VD2{} }, "EchoVD2", true, false},
	{"vd4", func() interface{} { return &VD4{} }, "EchoVD4", true, false},
	{"vwide", func() interface{} { return &VWide{} }, "EchoVWide", true, false},
	{"vpe", func() interface{} { return &VPE{} }, "EchoVPE", false, false},
}

var togoEnv *zygo.Zlisp
var togoByName = map[string]*togoRoot{}         // registered name -> root
var togoRegOfStruct = map[reflect.Type]string{} // struct type -> registered name
var timeType = reflect.TypeOf(time.Time{})

const togoRepeat = 3

func togoSetup() {
	if togoEnv != nil {
		return
	}
	quiet(func() {
		zygo.RegisterDemoStructs()
		gsr := &zygo.GoStructRegistry
		for i := range togoRoots {
			r := &togoRoots[i]
			togoByName[r.name] = r
			togoRegOfStruct[reflect.TypeOf(r.mk()).Elem()] = r.name
			if strings.HasPrefix(r.name, "v") {
				mk := r.mk
				gsr.RegisterUserdef(&zygo.RegisteredType{GenDefMap: true, Factory: func(env *zygo.Zlisp, h *zygo.SexpHash) (interface{}, error) {
					return mk(), nil
				}}, true, r.name)
			}
		}
		togoEnv = zygo.NewZlisp()
		togoEnv.StandardSetup()
	})
}

// the walk prints diagnostics on stdout; keep them out of the answer stream
func quiet(f func()) {
	old := os.Stdout
	if dn, err := os.OpenFile(os.DevNull, os.O_WRONLY, 0); err == nil {
		os.Stdout = dn
		defer func() { os.Stdout = old; dn.Close() }()
	}
	f()
}

// ---------------------------------------------------------------- world (type descriptors)

func tyExpr(t reflect.Type) string {
	if t == timeType {
		return "time"
	}
	switch t.Kind() {
	case reflect.Int64:
		return "i64"
	case reflect.Int:
		return "int"
	case reflect.Int32:
		return "i32"
	case reflect.Int16:
		return "i16"
	case reflect.Int8:
		return "i8"
	case reflect.Uint64:
		return "u64"
	case reflect.Uint32:
		return "u32"
	case reflect.Uint16:
		return "u16"
	case reflect.Uint8:
		return "u8"
	case reflect.Uint:
		return "uint"
	case reflect.Float64:
		return "f64"
	case reflect.Float32:
		return "f32"
	case reflect.String:
		return "str"
	case reflect.Bool:
		return "bool"
	case reflect.Slice:
		if t.Elem().Kind() == reflect.Uint8 {
			return "bytes"
		}
		return "L/" + tyExpr(t.Elem())
	case reflect.Ptr:
		if t.Elem().Kind() == reflect.Struct && t.Elem() != timeType {
			return "P/" + t.Elem().String()
		}
		return "X"
	case reflect.Struct:
		return "V/" + t.String()
	case reflect.Interface:
		if t.NumMethod() == 0 {
			return "eface"
		}
		return "I/" + t.String()
	case reflect.Map:
		return "M/" + tyExpr(t.Key()) + "/" + tyExpr(t.Elem())
	}
	return "X"
}

// struct types reachable from st (fields, slices, maps, pointers, implementors of interfaces)
func worldOf(st reflect.Type) (structs []reflect.Type, ifaces []reflect.Type) {
	seenS := map[reflect.Type]bool{}
	seenI := map[reflect.Type]bool{}
	var visitT func(t reflect.Type)
	var visitS func(s reflect.Type)
	visitS = func(s reflect.Type) {
		if seenS[s] || s == timeType {
			return
		}
		seenS[s] = true
		structs = append(structs, s)
		for i := 0; i < s.NumField(); i++ {
			visitT(s.Field(i).Type)
		}
	}
	visitT = func(t reflect.Type) {
		switch t.Kind() {
		case reflect.Struct:
			visitS(t)
		case reflect.Ptr, reflect.Slice:
			visitT(t.Elem())
		case reflect.Map:
			visitT(t.Key())
			visitT(t.Elem())
		case reflect.Interface:
			if seenI[t] {
				return
			}
			seenI[t] = true
			if t.NumMethod() == 0 {
				// interface{}: every registered struct can be stored there
				for i := range togoRoots {
					visitS(reflect.TypeOf(togoRoots[i].mk()).Elem())
				}
				return
			}
			ifaces = append(ifaces, t)
			for i := range togoRoots {
				pt := reflect.TypeOf(togoRoots[i].mk())
				if pt.Implements(t) {
					visitS(pt.Elem())
				}
			}
		}
	}
	visitS(st)
	return
}

func worldTokens(st reflect.Type) []string {
	structs, ifaces := worldOf(st)
	out := []string{"S", strconv.Itoa(len(structs))}
	for _, s := range structs {
		reg := togoRegOfStruct[s]
		if reg == "" {
			reg = "-"
		}
		out = append(out, s.String(), reg, strconv.Itoa(s.NumField()))
		for i := 0; i < s.NumField(); i++ {
			f := s.Field(i)
			tag := f.Tag.Get("json")
			if tag == "" {
				tag = "-"
			}
			an := "0"
			if f.Anonymous {
				an = "1"
			}
			out = append(out, f.Name, tag, an, tyExpr(f.Type))
		}
	}
	out = append(out, "F", strconv.Itoa(len(ifaces)))
	for _, it := range ifaces {
		var impl []string
		for i := range togoRoots {
			pt := reflect.TypeOf(togoRoots[i].mk())
			if pt.Implements(it) {
				impl = append(impl, pt.Elem().String())
			}
		}
		out = append(out, it.String(), strconv.Itoa(len(impl)))
		out = append(out, impl...)
	}
	return out
}

// ---------------------------------------------------------------- canonical dumps

func togoCodes(b []byte) string {
	if len(b) == 0 {
		return "-"
	}
	var sb strings.Builder
	for i, c := range b {
		if i > 0 {
			sb.WriteByte('.')
		}
		sb.WriteString(strconv.Itoa(int(c)))
	}
	return sb.String()
}

func parseCodes(s string) ([]byte, bool) {
	if s == "-" {
		return []byte{}, true
	}
	var out []byte
	for _, p := range strings.Split(s, ".") {
		n, err := strconv.Atoi(p)
		if err != nil || n < 0 || n > 255 {
			return nil, false
		}
		out = append(out, byte(n))
	}
	return out, true
}

func canonTime(t time.Time) string {
	s := "time:" + strconv.FormatInt(t.Unix(), 10)
	if t.Nanosecond() != 0 {
		s += "." + strconv.Itoa(t.Nanosecond())
	}
	if t.Location() != time.UTC {
		s += "@" + strings.ReplaceAll(t.Location().String(), " ", "_")
	}
	return s
}

type canonSt struct {
	seen map[uintptr]int
	sb   strings.Builder
}

func canonGo(v reflect.Value) string {
	c := &canonSt{seen: map[uintptr]int{}}
	c.val(v)
	return c.sb.String()
}

func (c *canonSt) val(v reflect.Value) {
	t := v.Type()
	if t == timeType {
		c.sb.WriteString(canonTime(v.Interface().(time.Time)))
		return
	}
	switch t.Kind() {
	case reflect.Int, reflect.Int8, reflect.Int16, reflect.Int32, reflect.Int64:
		c.sb.WriteString(tyExpr(t) + ":" + strconv.FormatInt(v.Int(), 10))
	case reflect.Uint, reflect.Uint8, reflect.Uint16, reflect.Uint32, reflect.Uint64:
		c.sb.WriteString(tyExpr(t) + ":" + strconv.FormatUint(v.Uint(), 10))
	case reflect.Float64, reflect.Float32:
		c.sb.WriteString(tyExpr(t) + ":" + strconv.FormatUint(math.Float64bits(v.Float()), 16))
	case reflect.String:
		c.sb.WriteString("str:" + togoCodes([]byte(v.String())))
	case reflect.Bool:
		if v.Bool() {
			c.sb.WriteString("bool:1")
		} else {
			c.sb.WriteString("bool:0")
		}
	case reflect.Slice:
		if v.IsNil() {
			c.sb.WriteString("nil")
			return
		}
		if t.Elem().Kind() == reflect.Uint8 {
			c.sb.WriteString("bytes:" + togoCodes(v.Bytes()))
			return
		}
		c.sb.WriteString("[")
		for i := 0; i < v.Len(); i++ {
			if i > 0 {
				c.sb.WriteString(",")
			}
			c.val(v.Index(i))
		}
		c.sb.WriteString("]")
	case reflect.Ptr:
		if v.IsNil() {
			c.sb.WriteString("nil")
			return
		}
		if id, ok := c.seen[v.Pointer()]; ok {
			c.sb.WriteString("&" + strconv.Itoa(id))
			return
		}
		id := len(c.seen) + 1
		c.seen[v.Pointer()] = id
		c.sb.WriteString("&" + strconv.Itoa(id) + ":")
		c.val(v.Elem())
	case reflect.Struct:
		c.sb.WriteString(t.String() + "{")
		for i := 0; i < v.NumField(); i++ {
			if i > 0 {
				c.sb.WriteString(",")
			}
			c.sb.WriteString(t.Field(i).Name + "=")
			c.val(v.Field(i))
		}
		c.sb.WriteString("}")
	case reflect.Interface:
		if v.IsNil() {
			c.sb.WriteString("nil")
			return
		}
		c.sb.WriteString("if(")
		c.val(v.Elem())
		c.sb.WriteString(")")
	case reflect.Map:
		if v.IsNil() {
			c.sb.WriteString("nil")
			return
		}
		type kv struct {
			k string
			v reflect.Value
		}
		var kvs []kv
		for _, k := range v.MapKeys() {
			kc := &canonSt{seen: c.seen}
			kc.val(k)
			kvs = append(kvs, kv{kc.sb.String(), v.MapIndex(k)})
		}
		sort.Slice(kvs, func(i, j int) bool { return kvs[i].k < kvs[j].k })
		c.sb.WriteString("map{")
		for i, e := range kvs {
			if i > 0 {
				c.sb.WriteString(",")
			}
			c.sb.WriteString(e.k + "=")
			c.val(e.v)
		}
		c.sb.WriteString("}")
	default:
		c.sb.WriteString("?" + t.String())
	}
}

// canonical dump of a record that came back from Go
func canonSexp(s zygo.Sexp, depth int) string {
	if depth > 40 {
		return "deep"
	}
	switch x := s.(type) {
	case *zygo.SexpInt:
		return "i:" + strconv.FormatInt(x.Val, 10)
	case *zygo.SexpUint64:
		return "u:" + strconv.FormatUint(x.Val, 10)
	case *zygo.SexpFloat:
		return "f:" + strconv.FormatUint(math.Float64bits(x.Val), 16)
	case *zygo.SexpStr:
		return "s:" + togoCodes([]byte(x.S))
	case *zygo.SexpSymbol:
		return "y:" + togoCodes([]byte(x.Name()))
	case *zygo.SexpChar:
		return "c:" + strconv.Itoa(int(x.Val))
	case *zygo.SexpBool:
		if x.Val {
			return "b:1"
		}
		return "b:0"
	case *zygo.SexpRaw:
		return "raw:" + togoCodes(x.Val)
	case *zygo.SexpTime:
		return "t:" + canonTime(x.Tm)[5:]
	case *zygo.SexpPair:
		return "pair"
	case *zygo.SexpSentinel:
		if x == zygo.SexpNull {
			return "nil"
		}
		return "sentinel"
	case *zygo.SexpArray:
		parts := make([]string, len(x.Val))
		for i, e := range x.Val {
			parts[i] = canonSexp(e, depth+1)
		}
		return "[" + strings.Join(parts, ",") + "]"
	case *zygo.SexpHash:
		parts := []string{}
		for _, k := range x.KeyOrder {
			v, err := x.HashGet(togoEnv, k)
			if err != nil {
				return "badhash"
			}
			parts = append(parts, canonSexp(k, depth+1)+"="+canonSexp(v, depth+1))
		}
		return "rec:" + x.TypeName + "{" + strings.Join(parts, ",") + "}"
	}
	return "other:" + fmt.Sprintf("%T", s)
}

// ---------------------------------------------------------------- term -> Sexp

type termParser struct {
	toks []string
	pos  int
	recs map[int]*zygo.SexpHash
	err  string
}

func (p *termParser) next() string {
	if p.pos >= len(p.toks) {
		p.err = "short"
		return ""
	}
	t := p.toks[p.pos]
	p.pos++
	return t
}

func (p *termParser) bytesOf(s string) []byte {
	b, ok := parseCodes(s)
	if !ok {
		p.err = "codes"
	}
	return b
}

func (p *termParser) term() zygo.Sexp {
	t := p.next()
	if p.err != "" || t == "" {
		p.err = "short"
		return zygo.SexpNull
	}
	rest := t[1:]
	switch t[0] {
	case 'i':
		n, err := strconv.ParseInt(rest, 10, 64)
		if err != nil {
			p.err = "int"
		}
		return &zygo.SexpInt{Val: n}
	case 'u':
		n, err := strconv.ParseUint(rest, 10, 64)
		if err != nil {
			p.err = "uint"
		}
		return &zygo.SexpUint64{Val: n}
	case 'f':
		n, err := strconv.ParseUint(rest, 16, 64)
		if err != nil {
			p.err = "float"
		}
		return &zygo.SexpFloat{Val: math.Float64frombits(n)}
	case 's':
		return &zygo.SexpStr{S: string(p.bytesOf(rest))}
	case 'y':
		return togoEnv.MakeSymbol(string(p.bytesOf(rest)))
	case 'c':
		n, err := strconv.ParseInt(rest, 10, 32)
		if err != nil {
			p.err = "char"
		}
		return &zygo.SexpChar{Val: rune(n)}
	case 'b':
		return &zygo.SexpBool{Val: rest == "1"}
	case 'n':
		return zygo.SexpNull
	case 'r':
		return &zygo.SexpRaw{Val: p.bytesOf(rest)}
	case 't':
		n, err := strconv.ParseInt(rest, 10, 64)
		if err != nil {
			p.err = "time"
		}
		return &zygo.SexpTime{Tm: time.Unix(n, 0).UTC()}
	case 'p':
		return zygo.Cons(&zygo.SexpInt{Val: 1}, zygo.SexpNull)
	case 'A':
		k, err := strconv.Atoi(rest)
		if err != nil || k < 0 || k > 10000 {
			p.err = "arr"
			return zygo.SexpNull
		}
		xs := make([]zygo.Sexp, 0, k)
		for i := 0; i < k && p.err == ""; i++ {
			xs = append(xs, p.term())
		}
		return togoEnv.NewSexpArray(xs)
	case 'R':
		id, err := strconv.Atoi(rest)
		h := p.recs[id]
		if err != nil || h == nil {
			p.err = "ref"
			return zygo.SexpNull
		}
		return h
	case 'H':
		parts := strings.SplitN(rest, ":", 3)
		if len(parts) != 3 {
			p.err = "hash"
			return zygo.SexpNull
		}
		id, e1 := strconv.Atoi(parts[0])
		k, e2 := strconv.Atoi(parts[1])
		if e1 != nil || e2 != nil || k < 0 || k > 10000 {
			p.err = "hash"
			return zygo.SexpNull
		}
		h, err := zygo.MakeHash(nil, parts[2], togoEnv)
		if err != nil {
			p.err = "makehash"
			return zygo.SexpNull
		}
		for i := 0; i < k && p.err == ""; i++ {
			kt := p.next()
			if kt == "" {
				p.err = "short"
				break
			}
			var key zygo.Sexp
			switch {
			case strings.HasPrefix(kt, "ki"):
				n, err := strconv.ParseInt(kt[2:], 10, 64)
				if err != nil {
					p.err = "key"
				}
				key = &zygo.SexpInt{Val: n}
			case kt[0] == 'k':
				key = togoEnv.MakeSymbol(string(p.bytesOf(kt[1:])))
			case kt[0] == 'K':
				key = &zygo.SexpStr{S: string(p.bytesOf(kt[1:]))}
			default:
				p.err = "key"
				return zygo.SexpNull
			}
			val := p.term()
			if p.err != "" {
				break
			}
			if err := h.HashSet(key, val); err != nil {
				p.err = "hashset"
			}
		}
		// registered after its members, like a record literal whose members are evaluated first
		p.recs[id] = h
		return h
	}
	p.err = "tok"
	return zygo.SexpNull
}

// splits "…W <world> E <term> X <exp>"
func togoSplit(toks []string) (mode, root string, world, term []string, exp string, ok bool) {
	if len(toks) < 7 || toks[2] != "W" {
		return
	}
	mode, root = toks[0], toks[1]
	e := -1
	for i := 3; i < len(toks); i++ {
		if toks[i] == "E" {
			e = i
			break
		}
	}
	if e < 0 || len(toks) < e+4 || toks[len(toks)-2] != "X" {
		return
	}
	return mode, root, toks[3:e], toks[e+1 : len(toks)-2], toks[len(toks)-1], true
}

func togoExec(toks []string) string {
	togoSetup()
	mode, root, world, term, _, ok := togoSplit(toks)
	if !ok {
		return "bad-op"
	}
	r := togoByName[root]
	if r == nil {
		return "bad-op"
	}
	if strings.Join(worldTokens(reflect.TypeOf(r.mk()).Elem()), " ") != strings.Join(world, " ") {
		return "bad-world"
	}
	ans := ""
	for rep := 0; rep < togoRepeat; rep++ {
		a := togoOnce(mode, r, term)
		if rep == 0 {
			ans = a
		} else if a != ans {
			return "nondet(" + ans + "|" + a + ")"
		}
		if strings.HasPrefix(a, "bad-") {
			break
		}
	}
	return ans
}

func togoOnce(mode string, r *togoRoot, term []string) (ans string) {
	p := &termParser{toks: term, recs: map[int]*zygo.SexpHash{}}
	rec, failed := buildTerm(p)
	if failed {
		return "err" // the script cannot even build the record (MakeHash panics for its type)
	}
	if p.err != "" || p.pos != len(term) {
		return "bad-term"
	}
	defer func() {
		if x := recover(); x != nil {
			ans = "HOSTPANIC " + strings.ReplaceAll(fmt.Sprint(x), "\n", " ")
		}
	}()
	switch mode {
	case "conv":
		var err error
		quiet(func() {
			togoEnv.AddGlobal("zzr", rec)
			_, err = togoEnv.EvalString("(togo zzr) ")
			if err != nil {
				togoEnv.Clear()
			}
		})
		if err != nil {
			return "err"
		}
		h, isHash := rec.(*zygo.SexpHash)
		if !isHash || !h.ShadowSet || h.GoShadowStruct == nil {
			return "no-shadow"
		}
		if _, known := togoRegOfStruct[reflect.TypeOf(h.GoShadowStruct).Elem()]; !known {
			return "foreign-shadow"
		}
		return canonGo(reflect.ValueOf(h.GoShadowStruct))
	case "echo":
		var err error
		var res zygo.Sexp
		quiet(func() {
			obj, e := zygo.MakeHash(nil, "vnode", togoEnv)
			if e != nil {
				err = e
				return
			}
			togoEnv.AddGlobal("zzobj", obj)
			togoEnv.AddGlobal("zzr", rec)
			res, err = togoEnv.EvalString("(_method zzobj " + r.echo + ": zzr) ")
			if err != nil {
				togoEnv.Clear()
			}
		})
		if err != nil {
			return "err"
		}
		arr, isArr := res.(*zygo.SexpArray)
		if !isArr || len(arr.Val) != 1 {
			return "bad-result"
		}
		return canonSexp(arr.Val[0], 0)
	}
	return "bad-op"
}

func init() { channels["togo"] = &Channel{Gen: togoGen, Exec: togoExec} }
