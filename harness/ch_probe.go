package main

// `zyh probe [-std] <text>...` : evaluate texts one after another on one interpreter and
// print value / error and the stack depths. A developer tool, not a channel.

import (
	"fmt"
	"os"
	"strings"

	"github.com/glycerine/zygomys/v9/zygo"
)

func probeMain(args []string) {
	env := zygo.NewZlisp()
	if len(args) > 0 && args[0] == "-std" {
		env.StandardSetup()
		args = args[1:]
	}
	for _, t := range args {
		func() {
			defer func() {
				if r := recover(); r != nil {
					fmt.Printf("%q => HOSTPANIC %v\n", t, r)
				}
			}()
			v, err := env.EvalString(t)
			d, s, a, l := env.VerifDepths()
			if err != nil {
				fmt.Printf("%q => ERR %s   [data=%d scope=%d addr=%d loop=%d atend=%v]\n", t, strings.SplitN(err.Error(), "\n", 2)[0], d, s, a, l, env.VerifAtEnd())
				return
			}
			fmt.Printf("%q => %s   [data=%d scope=%d addr=%d loop=%d atend=%v]\n", t, v.SexpString(nil), d, s, a, l, env.VerifAtEnd())
		}()
	}
}

func init() {
	if len(os.Args) > 1 && os.Args[1] == "probe" {
		probeMain(os.Args[2:])
		os.Exit(0)
	}
}
